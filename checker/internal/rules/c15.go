package rules

import (
	"fmt"
	"go/constant"
	"go/token"
	"go/types"
	"strings"

	"golang.org/x/tools/go/ssa"

	"charonverif/internal/an"
	"charonverif/internal/rt"
)

func init() {
	const f = "core/scheduler/scheduler.go"
	Register(&Prop{
		ID: "C15",
		Decides: "core/scheduler: (U1) duty subscribers are invoked only from the trigger goroutine that scheduleSlot starts once per duty type of the ticked slot, " +
			"scheduleSlot is invoked once per value received from the slot ticker, and the ticker advances its slot by Next() after every emission and only otherwise re-reads the clock after the slot-start wait; " +
			"(U2) every subscriber call is preceded by the successful slot-offset wait (delaySlotOffset / waitForEarlyFetchOrTimeout), whose deadline is slot.Time + slotOffsets[type](slot duration); " +
			"(U3) every duty definition stored comes from one beacon duty: public key looked up by that duty's validator index in the active-validator list (ok checked), equal to the duty's own key, " +
			"slot not before the resolving slot, definition built from the same duty; the validator list holds only active / activating validators; " +
			"(U4) setDutyDefinition never overwrites a (duty, validator) entry and the scheduler's duty state is touched only under dutiesMutex; " +
			"(U5) each subscriber receives its own clone of the definition set; (U6) an epoch is marked resolved only after all three resolutions succeeded.",
		NotDecided: "completeness (every assigned duty is eventually triggered), wall-clock timing and the offset arithmetic itself, behaviour under concrete failure patterns, " +
			"uniqueness of core.AllDutyTypes(), correctness of the beacon node's answers.",
		Run: c15,
		Mutants: []Mutant{
			// U1
			{ID: "C15-U1-schedule-twice", File: f, Expect: "U1",
				Old: "\t\t\ts.scheduleSlot(ctx, slot)\n",
				New: "\t\t\ts.scheduleSlot(ctx, slot)\n\t\t\tgo s.scheduleSlot(ctx, slot)\n"},
			{ID: "C15-U1-ticker-no-advance", File: f, Expect: "U1",
				Old: "\t\t\tslot = slot.Next()\n",
				New: "\t\t\t_ = slot.Next()\n"},
			{ID: "C15-U1-ticker-advance-before-send", File: f, Expect: "U1",
				Old: "\t\t\tselect {\n\t\t\tcase <-ctx.Done():\n\t\t\t\treturn\n\t\t\tcase resp <- slot:\n\t\t\t}\n\n\t\t\tslot = slot.Next()\n",
				New: "\t\t\tslot = slot.Next()\n\n\t\t\tselect {\n\t\t\tcase <-ctx.Done():\n\t\t\t\treturn\n\t\t\tcase resp <- slot:\n\t\t\t}\n"},
			{ID: "C15-U1-ticker-no-wait", File: f, Expect: "U1",
				Old: "case <-clock.After(slot.Time.Sub(clock.Now())):",
				New: "case <-clock.After(0):"},
			{ID: "C15-U1-same-type-for-all", File: f, Expect: "U1",
				Old: "\t\t\tType: dutyType,\n",
				New: "\t\t\tType: min(dutyType, core.DutyAttester),\n"},
			{ID: "C15-U1-defset-of-other-duty", File: f, Expect: "U1",
				Old: "\t\tdefSet, ok := s.getDutyDefinitionSet(duty)\n\t\tif !ok {\n\t\t\tspan.End()",
				New: "\t\tdefSet, ok := s.getDutyDefinitionSet(core.NewAttesterDuty(slot.Slot))\n\t\tif !ok {\n\t\t\tspan.End()"},
			{ID: "C15-U1-subs-from-head-event", File: f, Expect: "U1",
				Old: "\t// Fetch attestation data early without triggering consensus\n",
				New: "\tfor _, sub := range s.dutySubs {\n\t\t_ = sub(ctx, duty, clonedDefSet)\n\t}\n"},
			// U2
			{ID: "C15-U2-delay-result-ignored", File: f, Expect: "U2",
				Old: "} else if !delaySlotOffset(dutyCtx, slot, duty, s.delayFunc) {\n\t\t\t\treturn // context cancelled\n\t\t\t}",
				New: "} else {\n\t\t\t\t_ = delaySlotOffset(dutyCtx, slot, duty, s.delayFunc)\n\t\t\t}"},
			{ID: "C15-U2-delay-polarity", File: f, Expect: "U2",
				Old: "} else if !delaySlotOffset(dutyCtx, slot, duty, s.delayFunc) {",
				New: "} else if delaySlotOffset(dutyCtx, slot, duty, s.delayFunc) {"},
			{ID: "C15-U2-cancel-returns-true", File: f, Expect: "U2",
				Old: "\tcase <-ctx.Done():\n\t\treturn false\n\tcase <-delayFunc(duty, deadline):",
				New: "\tcase <-ctx.Done():\n\t\treturn true\n\tcase <-delayFunc(duty, deadline):"},
			{ID: "C15-U2-deadline-before-slot", File: f, Expect: "U2",
				Old: "\tdeadline := slot.Time.Add(offset)\n",
				New: "\tdeadline := slot.Time.Add(-offset)\n"},
			{ID: "C15-U2-attester-offset-for-others", File: f, Expect: "U2",
				Old: "if duty.Type == core.DutyAttester && (featureset.Enabled(featureset.FetchAttOnBlock)",
				New: "if duty.Type != core.DutyAttester && (featureset.Enabled(featureset.FetchAttOnBlock)"},
			{ID: "C15-U2-fallback-shortened", File: f, Expect: "U2",
				Old: "case <-s.clock.After(time.Until(fallbackDeadline)):",
				New: "case <-s.clock.After(time.Until(fallbackDeadline) - offset):"},
			// U3
			{ID: "C15-U3-pro-no-slot-skip", File: f, Expect: "U3",
				Old: "\t\tif proDuty.Slot < eth2p0.Slot(slot.Slot) {\n\t\t\t// Skip duties for earlier slots in initial epoch.\n\t\t\tcontinue\n\t\t}\n",
				New: ""},
			{ID: "C15-U3-att-slot-skip-weakened", File: f, Expect: "U3",
				Old: "\t\tif attDuty.Slot < eth2p0.Slot(slot.Slot) {",
				New: "\t\tif attDuty.Slot+1 < eth2p0.Slot(slot.Slot) {"},
			{ID: "C15-U3-att-ok-ignored", File: f, Expect: "U3",
				Old: "pubkey, ok := vals.PubKeyFromIndex(attDuty.ValidatorIndex)\n\t\tif !ok {",
				New: "pubkey, ok := vals.PubKeyFromIndex(attDuty.ValidatorIndex)\n\t\tif !ok && ctx.Err() != nil {"},
			{ID: "C15-U3-att-pubkey-mismatch-logged", File: f, Expect: "U3",
				Old: "\t\t\treturn errors.New(\"invalid attester duty pubkey\")\n",
				New: "\t\t\tlog.Warn(ctx, \"invalid attester duty pubkey\", nil)\n"},
			{ID: "C15-U3-sync-pubkey-check-dropped", File: f, Expect: "U3",
				Old: "\t\tif core.PubKeyFrom48Bytes(syncCommDuty.PubKey) != pubkey {",
				New: "\t\tif core.PubKeyFrom48Bytes(syncCommDuty.PubKey) != pubkey && len(duties) == 0 {"},
			{ID: "C15-U3-pro-def-of-other-duty", File: f, Expect: "U3",
				Old: "core.NewProposerDefinition(proDuty)",
				New: "core.NewProposerDefinition(proDuties[0])"},
			{ID: "C15-U3-agg-slot-shifted", File: f, Expect: "U3",
				Old: "aggDuty := core.NewAggregatorDuty(uint64(attDuty.Slot))",
				New: "aggDuty := core.NewAggregatorDuty(uint64(attDuty.Slot) + 1)"},
			{ID: "C15-U3-sync-index-of-first", File: f, Expect: "U3",
				Old: "\t\tvIdx := syncCommDuty.ValidatorIndex\n",
				New: "\t\tvIdx := duties[0].ValidatorIndex\n"},
			{ID: "C15-U3-inactive-included", File: f, Expect: "U3",
				Old: "if !val.Status.IsActive() && val.Validator.ActivationEpoch != eth2p0.Epoch(epoch) {",
				New: "if !val.Status.IsActive() && val.Validator.ActivationEpoch > eth2p0.Epoch(epoch) {"},
			{ID: "C15-U3-active-filter-inverted", File: f, Expect: "U3",
				Old: "if !val.Status.IsActive() && val.Validator.ActivationEpoch != eth2p0.Epoch(epoch) {",
				New: "if val.Status.IsActive() && val.Validator.ActivationEpoch != eth2p0.Epoch(epoch) {"},
			// U4
			{ID: "C15-U4-overwrite", File: f, Expect: "U4",
				Old: "\tif _, ok := defSet[pubkey]; ok {\n\t\treturn false",
				New: "\tif _, ok := defSet[pubkey]; ok && set == nil {\n\t\treturn false"},
			{ID: "C15-U4-fresh-set-replaces", File: f, Expect: "U4",
				Old: "\tif !ok {\n\t\tdefSet = make(core.DutyDefinitionSet)",
				New: "\tif ok {\n\t\tdefSet = make(core.DutyDefinitionSet)"},
			{ID: "C15-U4-write-under-rlock", File: f, Expect: "U4",
				Old: "\ts.dutiesMutex.Lock()\n\tdefer s.dutiesMutex.Unlock()\n\n\tdefSet, ok := s.duties[duty]\n\tif !ok {",
				New: "\ts.dutiesMutex.RLock()\n\tdefer s.dutiesMutex.RUnlock()\n\n\tdefSet, ok := s.duties[duty]\n\tif !ok {"},
			{ID: "C15-U4-resolved-epoch-unlocked", File: f, Expect: "U4",
				Old: "func (s *Scheduler) getResolvedEpoch() uint64 {\n\ts.dutiesMutex.RLock()\n\tdefer s.dutiesMutex.RUnlock()\n",
				New: "func (s *Scheduler) getResolvedEpoch() uint64 {\n"},
			{ID: "C15-U4-write-before-test", File: f, Expect: "U4",
				Old: "\tif _, ok := defSet[pubkey]; ok {\n\t\treturn false\n\t}\n\n\tdefSet[pubkey] = set\n",
				New: "\tdefSet[pubkey] = set\n\n\tif _, ok := defSet[pubkey]; !ok {\n\t\treturn false\n\t}\n"},
			// U5
			{ID: "C15-U5-clone-once", File: f, Expect: "U5",
				Old: "\t\t\tfor _, sub := range s.dutySubs {\n\t\t\t\tclone, err := defSet.Clone() // Clone for each subscriber.\n\t\t\t\tif err != nil {\n\t\t\t\t\tlog.Error(dutyCtx, \"Failed to clone duty definition set\", err)\n\t\t\t\t\treturn\n\t\t\t\t}\n",
				New: "\t\t\tclone, err := defSet.Clone()\n\t\t\tif err != nil {\n\t\t\t\tlog.Error(dutyCtx, \"Failed to clone duty definition set\", err)\n\t\t\t\treturn\n\t\t\t}\n\n\t\t\tfor _, sub := range s.dutySubs {\n"},
			{ID: "C15-U5-pass-shared", File: f, Expect: "U5",
				Old: "\t\t\t\tclone, err := defSet.Clone() // Clone for each subscriber.\n\t\t\t\tif err != nil {\n\t\t\t\t\tlog.Error(dutyCtx, \"Failed to clone duty definition set\", err)\n\t\t\t\t\treturn\n\t\t\t\t}\n\n\t\t\t\tif err := sub(dutyCtx, duty, clone); err != nil {",
				New: "\t\t\t\t_, err := defSet.Clone() // Clone for each subscriber.\n\t\t\t\tif err != nil {\n\t\t\t\t\tlog.Error(dutyCtx, \"Failed to clone duty definition set\", err)\n\t\t\t\t\treturn\n\t\t\t\t}\n\n\t\t\t\tif err := sub(dutyCtx, duty, defSet); err != nil {"},
			{ID: "C15-U5-clone-error-ignored", File: f, Expect: "U5",
				Old: "\t\t\t\tclone, err := defSet.Clone() // Clone for each subscriber.\n\t\t\t\tif err != nil {\n\t\t\t\t\tlog.Error(dutyCtx, \"Failed to clone duty definition set\", err)\n\t\t\t\t\treturn\n\t\t\t\t}\n",
				New: "\t\t\t\tclone, err := defSet.Clone() // Clone for each subscriber.\n\t\t\t\tif err != nil {\n\t\t\t\t\tlog.Error(dutyCtx, \"Failed to clone duty definition set\", err)\n\t\t\t\t}\n"},
			// U6
			{ID: "C15-U6-resolved-before-proposer", File: f, Expect: "U6",
				Old: "\terr = s.resolveProDuties(ctx, slot, vals)\n",
				New: "\ts.setResolvedEpoch(slot.Epoch())\n\n\terr = s.resolveProDuties(ctx, slot, vals)\n"},
			{ID: "C15-U6-sync-error-logged", File: f, Expect: "U6",
				Old: "\terr = s.resolveSyncCommDuties(ctx, slot, vals)\n\tif err != nil {\n\t\treturn err\n\t}",
				New: "\terr = s.resolveSyncCommDuties(ctx, slot, vals)\n\tif err != nil {\n\t\tlog.Warn(ctx, \"Resolving sync committee duties failed\", err)\n\t}"},
			{ID: "C15-U6-reorg-marks-resolved", File: f, Expect: "U6",
				Old: "\t\t\ts.setResolvedEpoch(math.MaxInt64)\n",
				New: "\t\t\ts.setResolvedEpoch(uint64(epoch))\n"},
			{ID: "C15-U6-wrong-epoch", File: f, Expect: "U6",
				Old: "\ts.setResolvedEpoch(slot.Epoch())\n\ts.trimDuties(",
				New: "\ts.setResolvedEpoch(slot.Epoch() + 1)\n\ts.trimDuties("},
		},
	})
}

const (
	c15P     = "core/scheduler"
	c15Sched = "core/scheduler.Scheduler"
	c15Subs  = c15Sched + ".dutySubs"
)

// ---------------------------------------------------------------------------------------------
// small SSA helpers (all prefixed c15)

// c15UniqueStore returns the value of the only whole-variable store into a, or nil.
func c15UniqueStore(a *ssa.Alloc) ssa.Value {
	var v ssa.Value
	for _, ref := range *a.Referrers() {
		if st, ok := ref.(*ssa.Store); ok && st.Addr == ssa.Value(a) {
			if v != nil {
				return nil
			}
			v = st.Val
		}
	}
	return v
}

// c15Binding resolves a free variable to the value bound to it by the (unique) MakeClosure of its function.
func c15Binding(fv *ssa.FreeVar) ssa.Value {
	fn := fv.Parent()
	par := fn.Parent()
	if par == nil {
		return nil
	}
	idx := -1
	for i, x := range fn.FreeVars {
		if x == fv {
			idx = i
		}
	}
	if idx < 0 {
		return nil
	}
	var out ssa.Value
	for _, in := range an.Instrs(par, false) {
		if mc, ok := in.(*ssa.MakeClosure); ok && mc.Fn == ssa.Value(fn) && idx < len(mc.Bindings) {
			if out != nil && out != mc.Bindings[idx] {
				return nil
			}
			out = mc.Bindings[idx]
		}
	}
	return out
}

// c15Rooted: v is root, or a field path / load / single-assignment local copy / captured variable of root.
func c15Rooted(v, root ssa.Value) bool {
	for i := 0; i < 32 && v != nil; i++ {
		v = an.Unwrap(v)
		if v == root {
			return true
		}
		switch x := v.(type) {
		case *ssa.Field:
			v = x.X
		case *ssa.FieldAddr:
			v = x.X
		case *ssa.UnOp:
			if x.Op != token.MUL {
				return false
			}
			v = x.X
		case *ssa.FreeVar:
			v = c15Binding(x)
		case *ssa.Alloc:
			v = c15UniqueStore(x)
		default:
			return false
		}
	}
	return false
}

// c15Local looks through conversions and loads of single-assignment locals (`x := e; ... x`).
func c15Local(v ssa.Value) ssa.Value {
	for i := 0; i < 16; i++ {
		v = an.Unwrap(v)
		ld, ok := v.(*ssa.UnOp)
		if !ok || ld.Op != token.MUL {
			return v
		}
		a, ok := ld.X.(*ssa.Alloc)
		if !ok {
			return v
		}
		s := c15UniqueStore(a)
		if s == nil {
			return v
		}
		v = s
	}
	return v
}

// c15FieldRead decodes a read of a struct field: *(&base.f) or base.f. name is the bare field name.
func c15FieldRead(v ssa.Value) (base ssa.Value, name string, ok bool) {
	switch x := c15Local(v).(type) {
	case *ssa.UnOp:
		if x.Op == token.MUL {
			if fa, ok := x.X.(*ssa.FieldAddr); ok {
				k := an.FieldKey(fa.X.Type(), fa.Field)
				return fa.X, k[strings.LastIndex(k, ".")+1:], true
			}
		}
	case *ssa.Field:
		k := an.FieldKey(x.X.Type(), x.Field)
		return x.X, k[strings.LastIndex(k, ".")+1:], true
	}
	return nil, "", false
}

// c15FieldOf: v reads field `name` of a value rooted at root.
func c15FieldOf(v ssa.Value, name string, root ssa.Value) bool {
	b, n, ok := c15FieldRead(v)
	return ok && n == name && c15Rooted(b, root)
}

// c15FieldOfVal: v reads field `name` of exactly the value d (or an equivalent one).
func c15FieldOfVal(v ssa.Value, name string, d ssa.Value) bool {
	b, n, ok := c15FieldRead(v)
	if !ok || n != name {
		return false
	}
	b = an.Unwrap(b)
	return b == d || an.Equiv(b, d) || c15Local(b) == d
}

// c15Static returns the call if v is a call of the named static function.
func c15Static(v ssa.Value, name string) *ssa.Call {
	call, ok := c15Local(v).(*ssa.Call)
	if !ok || !an.Static(name)(&call.Call) {
		return nil
	}
	return call
}

// c15IsLoadOf: v is a load of alloc a.
func c15IsLoadOf(v ssa.Value, a *ssa.Alloc) bool {
	ld, ok := an.Unwrap(v).(*ssa.UnOp)
	return ok && ld.Op == token.MUL && ld.X == ssa.Value(a)
}

// c15SelectCase returns the block entered when select state `state` fires.
func c15SelectCase(sel *ssa.Select, state int) *ssa.BasicBlock {
	for _, ref := range *sel.Referrers() {
		ex, ok := ref.(*ssa.Extract)
		if !ok || ex.Index != 0 {
			continue
		}
		for _, cd := range an.CondsOn(sel.Parent(), ex) {
			if cd.Other == nil || cd.Op != token.EQL {
				continue
			}
			if n, ok := an.ConstInt(cd.Other); ok && n == int64(state) {
				return cd.Succ(true)
			}
		}
	}
	return nil
}

// c15RecvOf: v is the value received by a select state; returns the select and the state index.
func c15RecvOf(v ssa.Value) (*ssa.Select, int) {
	ex, ok := c15Local(v).(*ssa.Extract)
	if !ok {
		return nil, -1
	}
	sel, ok := ex.Tuple.(*ssa.Select)
	if !ok || ex.Index < 2 {
		return nil, -1
	}
	k, n := ex.Index-2, 0
	for i, st := range sel.States {
		if st.Dir == types.RecvOnly {
			if n == k {
				return sel, i
			}
			n++
		}
	}
	return nil, -1
}

type c15Edge struct {
	b *ssa.BasicBlock
	i int
}

// c15BoolSucc returns, for a branch on the boolean cd.Val (bare, negated, or compared with a boolean
// constant), the successor taken when the value equals want.
func c15BoolSucc(cd an.Cond, want bool) (*ssa.BasicBlock, bool) {
	if cd.Other == nil {
		return cd.Succ(want), true
	}
	k, ok := c15ConstBool(cd.Other)
	if !ok {
		return nil, false
	}
	switch cd.Op {
	case token.EQL:
		return cd.Succ(k == want), true
	case token.NEQ:
		return cd.Succ(k != want), true
	}
	return nil, false
}

// c15BoolEdges lists the successors taken when boolean v equals want, over all branches on v.
func c15BoolEdges(fn *ssa.Function, v ssa.Value, want bool) []*ssa.BasicBlock {
	var out []*ssa.BasicBlock
	for _, cd := range an.CondsOn(fn, v) {
		if b, ok := c15BoolSucc(cd, want); ok {
			out = append(out, b)
		}
	}
	return out
}

// c15AddPass marks as "pass" the edge taken when the boolean v equals want, for every branch on v.
func c15AddPass(pass map[c15Edge]bool, fn *ssa.Function, v ssa.Value, want bool) {
	for _, cd := range an.CondsOn(fn, v) {
		pb, ok := c15BoolSucc(cd, want)
		blk := cd.If.Block()
		if !ok || blk.Succs[0] == blk.Succs[1] {
			continue
		}
		for i, s := range blk.Succs {
			if s == pb {
				pass[c15Edge{blk, i}] = true
			}
		}
	}
}

// c15BoolGuarded: call g (boolean status at tuple index idx) dominates sink and every path from g to sink
// crosses an edge on which the status equals want.
func c15BoolGuarded(g ssa.CallInstruction, sink ssa.Instruction, idx int, want bool) (bool, string) {
	if !an.Dominates(g, sink) {
		return false, "the call does not dominate the store"
	}
	_, bv := an.StatusOf(g, idx)
	if bv == nil {
		return false, "the boolean result is discarded"
	}
	pass := map[c15Edge]bool{}
	c15AddPass(pass, g.Parent(), bv, want)
	if len(pass) == 0 {
		return false, "the boolean result is never branched on"
	}
	if c15ReachFromNoPass(g.Block(), pass, sink.Block()) {
		return false, "control reaches the sink although the boolean result did not have the required value"
	}
	return true, ""
}

// c15ReachNoPass: can control reach target from the function entry without crossing a pass edge?
func c15ReachNoPass(fn *ssa.Function, pass map[c15Edge]bool, target *ssa.BasicBlock) bool {
	return c15ReachFromNoPass(fn.Blocks[0], pass, target)
}

// c15ReachFromNoPass: can control reach target from the top of block from without crossing a pass edge?
func c15ReachFromNoPass(from *ssa.BasicBlock, pass map[c15Edge]bool, target *ssa.BasicBlock) bool {
	seen := map[*ssa.BasicBlock]bool{}
	var walk func(b *ssa.BasicBlock) bool
	walk = func(b *ssa.BasicBlock) bool {
		if seen[b] {
			return false
		}
		seen[b] = true
		if b == target {
			return true
		}
		for i, s := range b.Succs {
			if pass[c15Edge{b, i}] {
				continue
			}
			if walk(s) {
				return true
			}
		}
		return false
	}
	return walk(from)
}

// c15ElemOf is Loop.ElemOf made exact for index loops: the element must be indexed by the loop's own
// index variable (coll[0] inside the loop is not "the element being iterated").
func c15ElemOf(l *an.Loop, v ssa.Value) bool {
	if !l.ElemOf(v) {
		return false
	}
	var idx ssa.Value
	for _, in := range l.Header.Instrs {
		if iff, ok := in.(*ssa.If); ok {
			if bin, ok := iff.Cond.(*ssa.BinOp); ok && bin.Op == token.LSS {
				idx = bin.X
			}
		}
	}
	for i := 0; i < 16; i++ {
		switch x := c15Local(v).(type) {
		case *ssa.UnOp:
			v = x.X
		case *ssa.FieldAddr:
			v = x.X
		case *ssa.Field:
			v = x.X
		case *ssa.IndexAddr:
			return idx != nil && x.Index == idx
		case *ssa.Index:
			return idx != nil && x.Index == idx
		default:
			return true // map / channel range element: ElemOf is already exact
		}
	}
	return false
}

func c15SameLoop(fn *ssa.Function, a, b *ssa.BasicBlock) bool {
	la, lb := an.InnermostLoop(fn, a), an.InnermostLoop(fn, b)
	if la == nil || lb == nil {
		return la == nil && lb == nil
	}
	return la.Header == lb.Header
}

func c15ConstBool(v ssa.Value) (bool, bool) {
	k, ok := v.(*ssa.Const)
	if !ok || k.Value == nil || k.Value.Kind() != constant.Bool {
		return false, false
	}
	return constant.BoolVal(k.Value), true
}

// c15Param returns parameter i of fn or bails.
func c15Param(c *rt.Ctx, fn *ssa.Function, i int, name string) *ssa.Parameter {
	if i >= len(fn.Params) || fn.Params[i].Name() != name {
		c.Bail("%s: parameter %d is not %q", an.FuncName(fn), i, name)
	}
	return fn.Params[i]
}

// c15Trigger finds the function literal of scheduleSlot that calls the duty subscribers.
func c15Trigger(c *rt.Ctx) (sched, trig *ssa.Function) {
	sched = c.Fn(c15P + ".Scheduler.scheduleSlot")
	for _, fn := range an.Closure(sched) {
		if len(an.Calls(fn, an.FieldCall(c15Subs), false)) > 0 {
			if trig != nil && trig != fn {
				c.Bail("duty subscribers are called from more than one function inside scheduleSlot")
			}
			trig = fn
		}
	}
	if trig == nil {
		c.Bail("no call through %s inside scheduleSlot", c15Subs)
	}
	return sched, trig
}

// ---------------------------------------------------------------------------------------------

func c15(c *rt.Ctx) {
	c.Rule("U1", 15, func() { c15U1(c) })
	c.Rule("U2", 9, func() { c15U2(c) })
	c.Rule("U3", 32, func() { c15U3(c) })
	c.Rule("U4", 22, func() { c15U4(c) })
	c.Rule("U5", 1, func() { c15U5(c) })
	c.Rule("U6", 5, func() { c15U6(c) })
}

// ---------------------------------------------------------------------------------------------
// U1 who triggers, how often

func c15U1(c *rt.Ctx) {
	pkg := c.SSAPkg(c15P)
	sched, trig := c15Trigger(c)
	run := c.Fn(c15P + ".Scheduler.Run")
	subscribe := c.Fn(c15P + ".Scheduler.SubscribeDuties")
	slotP := c15Param(c, sched, 2, "slot")

	// (a) every use of the dutySubs field is the registration or the trigger goroutine
	for _, fn := range an.PkgFuncs(pkg) {
		var first ssa.Instruction
		for _, in := range an.Instrs(fn, false) {
			switch x := in.(type) {
			case *ssa.FieldAddr:
				if an.FieldKey(x.X.Type(), x.Field) == c15Subs && first == nil {
					first = in
				}
			case *ssa.Field:
				if an.FieldKey(x.X.Type(), x.Field) == c15Subs && first == nil {
					first = in
				}
			}
		}
		if first == nil {
			continue
		}
		c.Check(an.FuncName(fn)+" uses dutySubs", posOf(first), fn == trig || fn == subscribe,
			"the duty subscriber list is read outside SubscribeDuties and the trigger goroutine of scheduleSlot: duties can be triggered from a second place")
	}

	// (b) the trigger literal is started exactly once, per duty type of the ticked slot
	var starts []ssa.CallInstruction
	escapes := false
	for _, in := range an.Instrs(trig.Parent(), false) {
		mc, ok := in.(*ssa.MakeClosure)
		if !ok || mc.Fn != ssa.Value(trig) {
			continue
		}
		for _, ref := range *mc.Referrers() {
			ci, ok := ref.(ssa.CallInstruction)
			if ok && ci.Common().Value == ssa.Value(mc) {
				starts = append(starts, ci)
			} else {
				escapes = true
			}
		}
	}
	if trig.Parent() != sched || escapes || len(starts) == 0 {
		c.Unsure("scheduleSlot trigger start", trig.Pos(), "the trigger function literal is not started directly from scheduleSlot")
		return
	}
	c.Check("scheduleSlot trigger started once", starts[0].Pos(), len(starts) == 1,
		fmt.Sprintf("the trigger function literal is started from %d sites: a duty is triggered more than once", len(starts)))
	for _, st := range starts {
		args := st.Common().Args
		if len(args) != 2 {
			c.Unsure("scheduleSlot trigger arguments", st.Pos(), "unexpected trigger signature")
			continue
		}
		// duty = core.Duty{Slot: slot.Slot, Type: <element of core.AllDutyTypes()>}
		ld, ok := an.Unwrap(args[0]).(*ssa.UnOp)
		var lit *ssa.Alloc
		if ok && ld.Op == token.MUL {
			lit, _ = ld.X.(*ssa.Alloc)
		}
		if lit == nil {
			c.Unsure("scheduleSlot trigger duty", st.Pos(), "duty passed to the trigger is not a composite literal built in scheduleSlot")
			continue
		}
		fields := map[string]ssa.Value{}
		shape := true
		for _, ref := range *lit.Referrers() {
			switch r := ref.(type) {
			case *ssa.FieldAddr:
				k := an.FieldKey(r.X.Type(), r.Field)
				for _, r2 := range *r.Referrers() {
					if s, ok := r2.(*ssa.Store); ok && s.Addr == ssa.Value(r) {
						if _, dup := fields[k]; dup {
							shape = false
						}
						fields[k] = s.Val
					}
				}
			case *ssa.UnOp, *ssa.DebugRef:
			default:
				shape = false
			}
		}
		if !shape {
			c.Unsure("scheduleSlot trigger duty", st.Pos(), "duty literal is modified or escapes before the trigger starts")
			continue
		}
		l := an.InnermostLoop(sched, st.Block())
		var coll ssa.Value
		if l != nil {
			coll = l.RangeColl()
		}
		perType := l != nil && coll != nil && c15Static(coll, "core.AllDutyTypes") != nil
		c.Check("scheduleSlot trigger per duty type", st.Pos(), perType, "the trigger is not started from the loop over core.AllDutyTypes()")
		tv := fields["core.Duty.Type"]
		c.Check("scheduleSlot trigger duty type", st.Pos(), perType && tv != nil && c15ElemOf(l, tv),
			"the type of the triggered duty is not the loop's duty type: several iterations trigger the same duty")
		sv := fields["core.Duty.Slot"]
		c.Check("scheduleSlot trigger duty slot", st.Pos(), sv != nil && c15FieldOf(sv, "Slot", slotP),
			"the slot of the triggered duty is not the ticked slot")
		// definition set = getDutyDefinitionSet(same duty), present
		ex, ok := args[1].(*ssa.Extract)
		good, why := false, "definition set passed to the trigger is not the result of getDutyDefinitionSet for the same duty"
		if ok && ex.Index == 0 {
			if get, ok := ex.Tuple.(*ssa.Call); ok && an.Static(c15P+".Scheduler.getDutyDefinitionSet")(&get.Call) &&
				(get.Call.Args[1] == args[0] || an.Equiv(get.Call.Args[1], args[0])) {
				good, why = c15BoolGuarded(get, st, 1, true)
			}
		}
		c.Check("scheduleSlot trigger definition set", st.Pos(), good, why)
	}

	// (c) scheduleSlot is invoked once per value received from the slot ticker
	type ref struct {
		fn *ssa.Function
		in ssa.Instruction
	}
	var refs []ref
	for _, fn := range an.PkgFuncs(pkg) {
		for _, in := range an.Instrs(fn, false) {
			for _, op := range an.Operands(in) {
				if op == ssa.Value(sched) {
					refs = append(refs, ref{fn, in})
				}
			}
		}
	}
	if len(refs) == 0 {
		c.Bail("scheduleSlot is never called")
	}
	for i, r := range refs {
		ci, isCall := r.in.(ssa.CallInstruction)
		name := fmt.Sprintf("%s invokes scheduleSlot#%d", an.FuncName(r.fn), i+1)
		if !isCall || ci.Common().Value != ssa.Value(sched) {
			c.Unsure(name, posOf(r.in), "scheduleSlot is used as a value")
			continue
		}
		if !c.Check(name, posOf(r.in), r.fn == run && len(refs) == 1,
			"scheduleSlot must be invoked from exactly one site (Run's ticker case); a second invocation triggers the slot's duties again") {
			continue
		}
		sel, state := c15RecvOf(ci.Common().Args[2])
		fromTicker := false
		if sel != nil {
			ch := sel.States[state].Chan
			if ex, ok := ch.(*ssa.Extract); ok {
				ch = ex.Tuple
			}
			if call, ok := ch.(*ssa.Call); ok && an.Static(c15P+".newSlotTicker")(&call.Call) {
				fromTicker = true
			}
		}
		c.Check("Run scheduleSlot argument", posOf(r.in), fromTicker && c15SameLoop(run, sel.Block(), r.in.Block()),
			"the slot scheduled is not the value just received from newSlotTicker's channel (one scheduleSlot per tick)")
	}

	// (d) the ticker: wait for slot start, emit, advance
	c15Ticker(c)
}

func c15Ticker(c *rt.Ctx) {
	tick := c.Fn(c15P + ".newSlotTicker")
	type emit struct {
		sel   *ssa.Select
		state int
	}
	var emits []emit
	plain := 0
	for _, fn := range an.Closure(tick) {
		for _, in := range an.Instrs(fn, false) {
			switch x := in.(type) {
			case *ssa.Send:
				if an.TypeName(x.X.Type()) == "core.Slot" {
					plain++
				}
			case *ssa.Select:
				for i, st := range x.States {
					if st.Dir == types.SendOnly && an.TypeName(st.Send.Type()) == "core.Slot" {
						emits = append(emits, emit{x, i})
					}
				}
			}
		}
	}
	if len(emits) == 0 && plain == 0 {
		c.Bail("newSlotTicker: no emission of a core.Slot found")
	}
	if plain > 0 || len(emits) != 1 {
		if len(emits)+plain > 1 {
			c.Bad("newSlotTicker single emission", tick.Pos(), fmt.Sprintf("%d emission sites: a slot can be emitted twice per iteration", len(emits)+plain))
		} else {
			c.Unsure("newSlotTicker single emission", tick.Pos(), "emission is not a select send; shape not analysed")
		}
		return
	}
	sel, state := emits[0].sel, emits[0].state
	fn := sel.Parent()
	c.Good("newSlotTicker single emission", sel.Pos(), "")
	sent := an.Unwrap(sel.States[state].Send)
	ld, ok := sent.(*ssa.UnOp)
	var cur *ssa.Alloc
	if ok && ld.Op == token.MUL {
		cur, _ = ld.X.(*ssa.Alloc)
	}
	if cur == nil {
		c.Unsure("newSlotTicker slot variable", sel.Pos(), "emitted value is not the ticker's slot variable")
		return
	}
	S := c15SelectCase(sel, state)
	if S == nil {
		c.Unsure("newSlotTicker emission edge", sel.Pos(), "cannot find the branch taken after the send")
		return
	}
	// blocks executed only after a successful send (S may be a join when the case body is empty)
	afterSend := func(b *ssa.BasicBlock) bool { return len(S.Preds) == 1 && S.Dominates(b) }
	// the wait for the slot's start time
	var W *ssa.BasicBlock
	for _, in := range an.Instrs(fn, false) {
		ws, ok := in.(*ssa.Select)
		if !ok {
			continue
		}
		for i, st := range ws.States {
			if st.Dir != types.RecvOnly {
				continue
			}
			after, ok := st.Chan.(*ssa.Call)
			if !ok || !an.Invoke("github.com/jonboulle/clockwork.Clock.After")(&after.Call) {
				continue
			}
			sub := c15Static(after.Call.Args[0], "time.Time.Sub")
			if sub == nil {
				continue
			}
			b, n, ok := c15FieldRead(sub.Call.Args[0])
			now, isNow := an.Unwrap(sub.Call.Args[1]).(*ssa.Call)
			if ok && n == "Time" && b == ssa.Value(cur) && isNow && an.Invoke("github.com/jonboulle/clockwork.Clock.Now")(&now.Call) {
				W = c15SelectCase(ws, i)
			}
		}
	}
	c.Check("newSlotTicker emission after slot start", sel.Pos(), W != nil && W.Dominates(sel.Block()),
		"the emission is not preceded by the wait clock.After(slot.Time.Sub(clock.Now())) for the emitted slot")
	// assignments of the slot variable
	var advances []*ssa.Store
	var initCallee ssa.Value
	inLoop := func(b *ssa.BasicBlock) bool { return an.InnermostLoop(fn, b) != nil }
	var stores []*ssa.Store
	for _, ref := range *cur.Referrers() {
		switch r := ref.(type) {
		case *ssa.Store:
			if r.Addr == ssa.Value(cur) {
				stores = append(stores, r)
			} else {
				c.Unsure("newSlotTicker slot variable", posOf(r), "address of the slot variable is stored")
				return
			}
		case *ssa.UnOp, *ssa.DebugRef:
		case *ssa.FieldAddr:
			for _, r2 := range *r.Referrers() {
				if _, isLoad := r2.(*ssa.UnOp); !isLoad {
					if _, isDbg := r2.(*ssa.DebugRef); !isDbg {
						c.Bad("newSlotTicker slot assignment", posOf(r2), "a field of the ticker's slot is written directly")
						return
					}
				}
			}
		default:
			c.Unsure("newSlotTicker slot variable", posOf(ref.(ssa.Instruction)), "slot variable escapes")
			return
		}
	}
	for _, st := range stores {
		if !inLoop(st.Block()) {
			if call, ok := c15Local(st.Val).(*ssa.Call); ok {
				initCallee = call.Call.Value
			}
		}
	}
	for _, st := range stores {
		if next := c15Static(st.Val, "core.Slot.Next"); next != nil && c15IsLoadOf(next.Call.Args[0], cur) {
			advances = append(advances, st)
			c.Check("newSlotTicker advance after emission", posOf(st), afterSend(st.Block()),
				"slot = slot.Next() is executed on a path that has not just emitted the slot (a slot is emitted for a time that was not waited for)")
			continue
		}
		call, ok := c15Local(st.Val).(*ssa.Call)
		if !ok || call.Call.IsInvoke() || call.Call.StaticCallee() != nil || an.TypeName(call.Type()) != "core.Slot" {
			c.Bad("newSlotTicker slot assignment", posOf(st), "the ticker's slot is assigned from something other than slot.Next() or the clock-derived current slot")
			continue
		}
		if !inLoop(st.Block()) {
			c.Good("newSlotTicker initial slot", posOf(st), "")
			continue
		}
		ok = initCallee != nil && an.Equiv(call.Call.Value, initCallee) && W != nil && W.Dominates(st.Block()) && !afterSend(st.Block())
		c.Check("newSlotTicker resync", posOf(st), ok,
			"the slot is replaced inside the loop by something other than the clock-derived current slot read after the slot-start wait")
	}
	// every way back to the emission passes an advance
	avoid := map[*ssa.BasicBlock]bool{}
	for _, a := range advances {
		avoid[a.Block()] = true
	}
	again := an.CanReach(S, sel.Block(), avoid)
	c.Check("newSlotTicker emit→advance→emit", sel.Pos(), len(advances) > 0 && !again,
		"after emitting a slot the loop can emit again without slot = slot.Next(): the same slot is ticked twice")
}

// ---------------------------------------------------------------------------------------------
// U2 not before the slot offset

func c15U2(c *rt.Ctx) {
	sched, trig := c15Trigger(c)
	slotP := c15Param(c, sched, 2, "slot")
	dutyP := c15Param(c, trig, 0, "duty")
	delayN, waitN := c15P+".delaySlotOffset", c15P+".Scheduler.waitForEarlyFetchOrTimeout"
	guards := an.Calls(trig, an.Static(delayN, waitN), false)
	if len(guards) == 0 {
		c.Note("U2: the trigger goroutine calls neither delaySlotOffset nor waitForEarlyFetchOrTimeout")
	}
	pass := map[c15Edge]bool{}
	for _, g := range guards {
		if _, bv := an.StatusOf(g, 0); bv != nil {
			c15AddPass(pass, trig, bv, true)
		}
	}
	sinks := an.Calls(trig, an.FieldCall(c15Subs), false)
	for _, s := range sinks {
		c.Check(an.FuncName(trig)+" subscriber call after offset wait", s.Pos(), !c15ReachNoPass(trig, pass, s.Block()),
			"a path reaches the duty subscribers without the slot-offset wait having returned true (duty triggered before its offset / after cancellation)")
		c.Check(an.FuncName(trig)+" subscriber call duty", s.Pos(), c15Rooted(s.Common().Args[1], dutyP),
			"the duty handed to subscribers is not the duty the goroutine was started for")
	}
	att := constOf(c, "core", "DutyAttester")
	for _, g := range guards {
		args := g.Common().Args
		if an.Static(delayN)(g.Common()) {
			ok := c15Rooted(args[1], slotP) && c15Rooted(args[2], dutyP) && isLoadOfValueField(args[3], c15Sched+".delayFunc")
			c.Check(an.FuncName(trig)+" delaySlotOffset arguments", g.Pos(), ok,
				"delaySlotOffset is not applied to the ticked slot, the triggered duty and the scheduler's delay function")
			continue
		}
		ok := c15Rooted(args[2], slotP)
		// only for attester duties (the fallback uses the attester offset)
		only := false
		for _, b := range trig.Blocks {
			iff, isIf := b.Instrs[len(b.Instrs)-1].(*ssa.If)
			if !isIf {
				continue
			}
			bin, isBin := iff.Cond.(*ssa.BinOp)
			if !isBin || (bin.Op != token.EQL && bin.Op != token.NEQ) {
				continue
			}
			x, y := bin.X, bin.Y
			if _, isC := an.Unwrap(x).(*ssa.Const); isC {
				x, y = y, x
			}
			n, isN := an.ConstInt(y)
			if !isN || n != att || !c15FieldOf(x, "Type", dutyP) {
				continue
			}
			eq := b.Succs[0]
			if bin.Op == token.NEQ {
				eq = b.Succs[1]
			}
			if eq.Dominates(g.Block()) {
				only = true
			}
		}
		c.Check(an.FuncName(trig)+" waitForEarlyFetchOrTimeout arguments", g.Pos(), ok && only,
			"waitForEarlyFetchOrTimeout (attester offset) is not restricted to attester duties of the ticked slot")
	}
	c15Deadline(c, c.Fn(delayN), 1, 2, 3)
	c15Deadline(c, c.Fn(waitN), 2, -1, -1)
	// the offset table is only written by its initialiser
	pkg := c.SSAPkg(c15P)
	glob, _ := pkg.Members["slotOffsets"].(*ssa.Global)
	if glob == nil {
		c.Bail("global slotOffsets not found")
	}
	written := false
	var at token.Pos
	for _, fn := range an.PkgFuncs(pkg) {
		for _, in := range an.Instrs(fn, false) {
			switch x := in.(type) {
			case *ssa.Store:
				if x.Addr == ssa.Value(glob) {
					written, at = true, posOf(in)
				}
			case *ssa.MapUpdate:
				if ld, ok := an.Unwrap(x.Map).(*ssa.UnOp); ok && ld.X == ssa.Value(glob) {
					written, at = true, posOf(in)
				}
			}
		}
	}
	c.Check("slotOffsets written only by its initialiser", at, !written, "the slot offset table is modified at run time")
}

// c15Deadline checks that fn returns true only when there is no offset for the duty type or after the
// channel armed with slot.Time.Add(slotOffsets[type](slot.SlotDuration)) fired.
func c15Deadline(c *rt.Ctx, fn *ssa.Function, slotIdx, dutyIdx, delayIdx int) {
	name := an.FuncName(fn)
	slotP := c15Param(c, fn, slotIdx, "slot")
	glob, _ := c.SSAPkg(c15P).Members["slotOffsets"].(*ssa.Global)
	att := constOf(c, "core", "DutyAttester")
	// the table lookup
	var lookup *ssa.Lookup
	for _, in := range an.Instrs(fn, false) {
		lk, ok := in.(*ssa.Lookup)
		if !ok || !lk.CommaOk {
			continue
		}
		if ld, ok := an.Unwrap(lk.X).(*ssa.UnOp); !ok || ld.X != ssa.Value(glob) {
			continue
		}
		keyOK := false
		if dutyIdx >= 0 {
			keyOK = c15FieldOf(lk.Index, "Type", c15Param(c, fn, dutyIdx, "duty"))
		} else if n, ok := an.ConstInt(lk.Index); ok {
			keyOK = n == att
		}
		if keyOK {
			if lookup != nil {
				c.Bail("%s: more than one slotOffsets lookup", name)
			}
			lookup = lk
		}
	}
	if lookup == nil {
		c.Bail("%s: no lookup of slotOffsets by the duty's type", name)
	}
	var offFn, okv ssa.Value
	for _, ref := range *lookup.Referrers() {
		if ex, ok := ref.(*ssa.Extract); ok {
			if ex.Index == 0 {
				offFn = ex
			} else {
				okv = ex
			}
		}
	}
	var isOffset func(v ssa.Value, d int) bool
	isOffset = func(v ssa.Value, d int) bool {
		if d > 4 {
			return false
		}
		switch x := c15Local(v).(type) {
		case *ssa.Call:
			return offFn != nil && x.Call.Value == offFn && len(x.Call.Args) == 1 && c15FieldOf(x.Call.Args[0], "SlotDuration", slotP)
		case *ssa.BinOp:
			if x.Op == token.ADD {
				if n, ok := an.ConstInt(x.Y); ok && n >= 0 {
					return isOffset(x.X, d+1)
				}
			}
		case *ssa.Phi:
			for _, e := range x.Edges {
				if !isOffset(e, d+1) {
					return false
				}
			}
			return len(x.Edges) > 0
		}
		return false
	}
	isDeadline := func(v ssa.Value) bool {
		add := c15Static(v, "time.Time.Add")
		return add != nil && c15FieldOf(add.Call.Args[0], "Time", slotP) && isOffset(add.Call.Args[1], 0)
	}
	armed := func(ch ssa.Value) bool {
		call, ok := c15Local(ch).(*ssa.Call)
		if !ok {
			return false
		}
		if an.Invoke("github.com/jonboulle/clockwork.Clock.After")(&call.Call) {
			if until := c15Static(call.Call.Args[0], "time.Until"); until != nil {
				return isDeadline(until.Call.Args[0])
			}
			return false
		}
		if call.Call.IsInvoke() || call.Call.StaticCallee() != nil || len(call.Call.Args) != 2 {
			return false
		}
		fv := an.Unwrap(call.Call.Value)
		isDelay := isLoadOfValueField(fv, c15Sched+".delayFunc")
		if delayIdx >= 0 && fv == ssa.Value(fn.Params[delayIdx]) {
			isDelay = true
		}
		return isDelay && isDeadline(call.Call.Args[1])
	}
	var fired []*ssa.BasicBlock
	for _, in := range an.Instrs(fn, false) {
		sel, ok := in.(*ssa.Select)
		if !ok {
			continue
		}
		for i, st := range sel.States {
			if st.Dir == types.RecvOnly && armed(st.Chan) {
				if b := c15SelectCase(sel, i); b != nil {
					fired = append(fired, b)
				}
			}
		}
	}
	var noOffset *ssa.BasicBlock
	if okv != nil {
		for _, b := range c15BoolEdges(fn, okv, false) {
			noOffset = b
		}
	}
	n := 0
	for _, r := range an.Returns(fn) {
		if len(r.Results) != 1 {
			c.Bail("%s: unexpected result arity", name)
		}
		v, isConst := c15ConstBool(r.Results[0])
		if isConst && !v {
			continue
		}
		n++
		cname := fmt.Sprintf("%s return true#%d", name, n)
		if !isConst {
			c.Unsure(cname, posOf(r), "non-constant result; cannot tell when the wait reports success")
			continue
		}
		ok := noOffset != nil && noOffset.Dominates(r.Block())
		for _, b := range fired {
			if b.Dominates(r.Block()) {
				ok = true
			}
		}
		c.Check(cname, posOf(r), ok,
			"the wait reports success on a path where neither the duty type has no offset nor the timer armed with slot.Time.Add(slotOffsets[type](slot.SlotDuration)) fired")
	}
	if n == 0 {
		c.Bail("%s never returns true", name)
	}
}

// ---------------------------------------------------------------------------------------------
// U3 what is stored

var c15DefFor = map[string]string{
	"core.NewAttesterDuty":         "core.NewAttesterDefinition",
	"core.NewAggregatorDuty":       "core.NewAttesterDefinition",
	"core.NewProposerDuty":         "core.NewProposerDefinition",
	"core.NewSyncContributionDuty": "core.NewSyncCommitteeDefinition",
}

func c15U3(c *rt.Ctx) {
	setN := c15P + ".Scheduler.setDutyDefinition"
	resolvers := []string{"resolveAttDuties", "resolveProDuties", "resolveSyncCommDuties"}
	// no other function stores definitions (anchors are resolved first: a rename is UNDECIDED, not a violation)
	isResolver := map[*ssa.Function]bool{}
	for _, rn := range resolvers {
		isResolver[c.Fn(c15P+".Scheduler."+rn)] = true
	}
	for _, fn := range an.PkgFuncs(c.SSAPkg(c15P)) {
		if isResolver[fn] {
			continue
		}
		for _, call := range an.Calls(fn, an.Static(setN), false) {
			c.Bad(an.FuncName(fn)+" setDutyDefinition", call.Pos(), "duty definitions are stored outside the three resolve functions (no validator / public-key / slot checks apply)")
		}
	}
	for _, rn := range resolvers {
		fn := c.Fn(c15P + ".Scheduler." + rn)
		slotP := c15Param(c, fn, 2, "slot")
		valsP := c15Param(c, fn, 3, "vals")
		sinks := c.SomeCalls(fn, an.Static(setN), "setDutyDefinition", false)
		for _, sink := range sinks {
			args := sink.Common().Args
			if len(args) != 5 {
				c.Bail("setDutyDefinition: unexpected signature")
			}
			dutyCall, _ := c15Local(args[1]).(*ssa.Call)
			ctor := ""
			if dutyCall != nil && dutyCall.Call.StaticCallee() != nil {
				ctor = an.FuncName(dutyCall.Call.StaticCallee())
			}
			name := fmt.Sprintf("%s setDutyDefinition(%s)", rn, strings.TrimPrefix(ctor, "core."))
			wantDef, known := c15DefFor[ctor]
			if !known {
				c.Unsure(name, sink.Pos(), "duty is not built by a known core.New*Duty constructor")
				continue
			}
			// definition built from beacon duty D, an element of a loop around the sink
			def := c15Static(args[4], wantDef)
			var D ssa.Value
			var loop *an.Loop
			if def != nil {
				D = an.Unwrap(def.Call.Args[0])
				for _, l := range an.LoopsContaining(fn, sink.Block()) {
					if c15ElemOf(l, D) {
						loop = l
						break
					}
				}
			}
			if !c.Check(name+" definition", sink.Pos(), def != nil && loop != nil,
				"the definition stored is not "+wantDef+"(d) of the beacon duty d being iterated") {
				continue
			}
			// duty slot
			if ctor == "core.NewSyncContributionDuty" {
				ok, why := c15SyncSlots(fn, sink, dutyCall.Call.Args[0], slotP)
				c.Check(name+" slot range", sink.Pos(), ok, why)
			} else {
				c.Check(name+" duty slot", sink.Pos(), c15FieldOfVal(dutyCall.Call.Args[0], "Slot", D),
					"the duty is not scheduled at the slot of the beacon duty it is defined by")
				ok, why := c15SlotSkip(fn, sink, D, slotP)
				c.Check(name+" slot skip", sink.Pos(), ok, why)
			}
			// epoch bookkeeping
			ep := c15Static(args[2], "core.Slot.Epoch")
			c.Check(name+" epoch", sink.Pos(), ep != nil && c15Rooted(ep.Call.Args[0], slotP),
				"the definition is not filed under the epoch being resolved (it would not be trimmed with it)")
			// public key: looked up by D's validator index in vals, ok checked
			var idx ssa.CallInstruction
			for _, k := range an.Calls(fn, an.Static(c15P+".validators.PubKeyFromIndex"), false) {
				a := k.Common().Args
				if c15Rooted(a[0], valsP) && c15FieldOfVal(a[1], "ValidatorIndex", D) && an.Dominates(k, sink) {
					idx = k
				}
			}
			if idx == nil {
				c.Bad(name+" validator lookup", sink.Pos(), "no vals.PubKeyFromIndex(d.ValidatorIndex) for the beacon duty precedes the store: duties of validators outside the active cluster set are stored")
				continue
			}
			g, why := c15BoolGuarded(idx, sink, 1, true)
			c.Check(name+" validator lookup", sink.Pos(), g, "vals.PubKeyFromIndex(d.ValidatorIndex): "+why)
			var K ssa.Value
			for _, ref := range *idx.Value().Referrers() {
				if ex, ok := ref.(*ssa.Extract); ok && ex.Index == 0 {
					K = ex
				}
			}
			// equality of the looked-up key and the beacon duty's key
			eqOK, eqWhy := false, "no comparison of the looked-up public key with the beacon duty's own public key guards the store"
			var other ssa.Value
			for _, b := range fn.Blocks {
				iff, isIf := b.Instrs[len(b.Instrs)-1].(*ssa.If)
				if !isIf {
					continue
				}
				bin, isBin := iff.Cond.(*ssa.BinOp)
				if !isBin || (bin.Op != token.EQL && bin.Op != token.NEQ) || K == nil {
					continue
				}
				x, y := bin.X, bin.Y
				if c15Local(y) == K {
					x, y = y, x
				}
				if c15Local(x) != K {
					continue
				}
				from := c15Static(y, "core.PubKeyFrom48Bytes")
				if from == nil || !c15FieldOfVal(from.Call.Args[0], "PubKey", D) {
					continue
				}
				eq, ne := b.Succs[0], b.Succs[1]
				if bin.Op == token.NEQ {
					eq, ne = ne, eq
				}
				if !eq.Dominates(sink.Block()) {
					eqWhy = "the equal edge of the public-key comparison does not dominate the store"
					continue
				}
				if !an.EdgeCuts(ne, sink, map[*ssa.BasicBlock]bool{b: true}) {
					eqWhy = "after a public-key mismatch control still reaches the store"
					continue
				}
				eqOK, other = true, from
			}
			c.Check(name+" public key equality", sink.Pos(), eqOK, eqWhy)
			pk := c15Local(args[3])
			c.Check(name+" public key argument", sink.Pos(), K != nil && (pk == K || (other != nil && pk == other)),
				"the public key the definition is stored under is not the checked key of this beacon duty")
		}
	}
	// vals handed to the resolvers is the checked result of resolveActiveValidators
	rd := c.Fn(c15P + ".Scheduler.resolveDuties")
	rav := c.OneCall(rd, an.Static(c15P+".resolveActiveValidators"), "resolveActiveValidators", false)
	for _, rn := range resolvers {
		call := c.OneCall(rd, an.Static(c15P+".Scheduler."+rn), rn, false)
		v := call.Common().Args[3]
		ex, ok := c15Local(v).(*ssa.Extract)
		good := ok && ex.Index == 0 && ex.Tuple == rav.Value()
		if good {
			good, _ = an.Guarded(rav, call, an.DefaultGuard)
		}
		c.Check("resolveDuties→"+rn+" validators", call.Pos(), good, "the validator list is not the checked result of resolveActiveValidators")
	}
	c15ActiveFilter(c)
}

// c15SlotSkip: a comparison of d.Slot with slot.Slot whose "earlier" edge cannot reach the sink.
func c15SlotSkip(fn *ssa.Function, sink ssa.Instruction, D, slotP ssa.Value) (bool, string) {
	why := "no test `d.Slot < slot.Slot` that skips the beacon duty guards the store: duties of slots before the resolving slot are stored"
	for _, b := range fn.Blocks {
		iff, isIf := b.Instrs[len(b.Instrs)-1].(*ssa.If)
		if !isIf {
			continue
		}
		bin, isBin := iff.Cond.(*ssa.BinOp)
		if !isBin {
			continue
		}
		op := bin.Op
		x, y := bin.X, bin.Y
		if c15FieldOfVal(y, "Slot", D) {
			x, y = y, x
			switch op {
			case token.LSS:
				op = token.GTR
			case token.GTR:
				op = token.LSS
			case token.LEQ:
				op = token.GEQ
			case token.GEQ:
				op = token.LEQ
			}
		}
		if !c15FieldOfVal(x, "Slot", D) || !c15FieldOf(y, "Slot", slotP) {
			continue
		}
		var pass, fail *ssa.BasicBlock
		switch op {
		case token.LSS, token.LEQ: // d.Slot < slot.Slot → skip
			fail, pass = b.Succs[0], b.Succs[1]
		case token.GEQ, token.GTR:
			pass, fail = b.Succs[0], b.Succs[1]
		default:
			continue
		}
		if !pass.Dominates(sink.Block()) {
			why = "the not-earlier edge of the slot comparison does not dominate the store"
			continue
		}
		if !an.EdgeCuts(fail, sink, map[*ssa.BasicBlock]bool{b: true}) {
			why = "a beacon duty for an earlier slot still reaches the store"
			continue
		}
		return true, ""
	}
	return false, why
}

// c15SyncSlots: the duty slot is sl.Slot of a loop variable that starts at the resolving slot, advances by
// Next() and stays inside the resolving slot's epoch.
func c15SyncSlots(fn *ssa.Function, sink ssa.Instruction, slotArg, slotP ssa.Value) (bool, string) {
	b, n, ok := c15FieldRead(slotArg)
	sl, isAlloc := b.(*ssa.Alloc)
	if !ok || n != "Slot" || !isAlloc {
		return false, "sync contribution duty slot is not the Slot of a local slot variable"
	}
	for _, ref := range *sl.Referrers() {
		st, ok := ref.(*ssa.Store)
		if !ok {
			continue
		}
		if st.Addr != ssa.Value(sl) {
			return false, "the slot variable escapes"
		}
		if c15Rooted(st.Val, slotP) && an.TypeName(st.Val.Type()) == "core.Slot" {
			if _, _, isField := c15FieldRead(st.Val); !isField {
				continue
			}
		}
		if next := c15Static(st.Val, "core.Slot.Next"); next != nil && c15IsLoadOf(next.Call.Args[0], sl) {
			continue
		}
		return false, "the slot variable is assigned something other than the resolving slot or its own Next()"
	}
	for _, blk := range fn.Blocks {
		iff, isIf := blk.Instrs[len(blk.Instrs)-1].(*ssa.If)
		if !isIf {
			continue
		}
		bin, isBin := iff.Cond.(*ssa.BinOp)
		if !isBin || (bin.Op != token.EQL && bin.Op != token.NEQ) {
			continue
		}
		ex, ey := c15Static(bin.X, "core.Slot.Epoch"), c15Static(bin.Y, "core.Slot.Epoch")
		if ex == nil || ey == nil {
			continue
		}
		if !c15IsLoadOf(ex.Call.Args[0], sl) {
			ex, ey = ey, ex
		}
		if !c15IsLoadOf(ex.Call.Args[0], sl) || !c15Rooted(ey.Call.Args[0], slotP) {
			continue
		}
		eq := blk.Succs[0]
		if bin.Op == token.NEQ {
			eq = blk.Succs[1]
		}
		if eq.Dominates(sink.Block()) {
			return true, ""
		}
	}
	return false, "the store is not guarded by sl.Epoch() == slot.Epoch(): sync duties are set outside the resolved epoch"
}

// c15ActiveFilter: resolveActiveValidators appends a validator only on the IsActive edge or the
// activation-epoch-equals-epoch edge.
func c15ActiveFilter(c *rt.Ctx) {
	fn := c.Fn(c15P + ".resolveActiveValidators")
	epochP := c15Param(c, fn, 3, "epoch")
	pass := map[c15Edge]bool{}
	var appends []*ssa.Call
	for _, in := range an.Instrs(fn, false) {
		call, ok := in.(*ssa.Call)
		if !ok {
			continue
		}
		if b, ok := call.Call.Value.(*ssa.Builtin); ok && b.Name() == "append" && an.TypeName(call.Type()) == "[]"+c15P+".validator" {
			appends = append(appends, call)
		}
		if an.Static("github.com/attestantio/go-eth2-client/api/v1.ValidatorState.IsActive")(&call.Call) {
			if _, n, ok := c15FieldRead(call.Call.Args[0]); ok && n == "Status" {
				c15AddPass(pass, fn, call, true)
			}
		}
	}
	for _, b := range fn.Blocks {
		iff, isIf := b.Instrs[len(b.Instrs)-1].(*ssa.If)
		if !isIf {
			continue
		}
		bin, isBin := iff.Cond.(*ssa.BinOp)
		if !isBin || (bin.Op != token.EQL && bin.Op != token.NEQ) {
			continue
		}
		x, y := bin.X, bin.Y
		if an.Unwrap(x) == ssa.Value(epochP) {
			x, y = y, x
		}
		if _, n, ok := c15FieldRead(x); !ok || n != "ActivationEpoch" || an.Unwrap(y) != ssa.Value(epochP) {
			continue
		}
		if bin.Op == token.EQL {
			pass[c15Edge{b, 0}] = true
		} else {
			pass[c15Edge{b, 1}] = true
		}
	}
	if len(appends) == 0 {
		c.Bail("resolveActiveValidators: no append to the validator list")
	}
	for _, a := range appends {
		c.Check("resolveActiveValidators append active-only", a.Pos(), !c15ReachNoPass(fn, pass, a.Block()),
			"a validator is added to the active list on a path where neither Status.IsActive() held nor ActivationEpoch == epoch")
		// index and status belong to the same map entry
		elems := appendedElems(a)
		good := false
		if len(elems) == 1 {
			if ld, ok := elems[0].(*ssa.UnOp); ok {
				if lit, ok := ld.X.(*ssa.Alloc); ok {
					for _, ref := range *lit.Referrers() {
						fa, ok := ref.(*ssa.FieldAddr)
						if !ok || an.FieldKey(fa.X.Type(), fa.Field) != c15P+".validator.VIdx" {
							continue
						}
						for _, r2 := range *fa.Referrers() {
							if st, ok := r2.(*ssa.Store); ok {
								if ex, ok := st.Val.(*ssa.Extract); ok && ex.Index == 1 {
									if _, isNext := ex.Tuple.(*ssa.Next); isNext {
										good = true
									}
								}
							}
						}
					}
				}
			}
		}
		c.Check("resolveActiveValidators append index", a.Pos(), good, "the validator index recorded is not the key of the beacon node's validator map entry")
	}
}

// ---------------------------------------------------------------------------------------------
// U4 first definition wins; lock discipline

func c15U4(c *rt.Ctx) {
	fn := c.Fn(c15P + ".Scheduler.setDutyDefinition")
	dutyP := c15Param(c, fn, 1, "duty")
	pkP := c15Param(c, fn, 3, "pubkey")
	setP := c15Param(c, fn, 4, "set")
	var inner, outer []*ssa.MapUpdate
	for _, up := range mapUpdates(fn, func(ssa.Value) bool { return true }) {
		switch {
		case isFieldMap(c15Sched + ".duties")(up.Map):
			outer = append(outer, up)
		case an.TypeName(up.Map.Type()) == "core.DutyDefinitionSet":
			inner = append(inner, up)
		}
	}
	if len(inner) == 0 || len(outer) == 0 {
		c.Bail("setDutyDefinition: writes to the definition set / duties map not found")
	}
	// outer lookup s.duties[duty]
	var outerLk *ssa.Lookup
	for _, in := range an.Instrs(fn, false) {
		if lk, ok := in.(*ssa.Lookup); ok && lk.CommaOk && isFieldMap(c15Sched+".duties")(lk.X) && lk.Index == ssa.Value(dutyP) {
			outerLk = lk
		}
	}
	for _, up := range inner {
		// not-present test on the same map and key
		ok, why := false, "no `_, present := defSet[pubkey]` test guards the write"
		for _, in := range an.Instrs(fn, false) {
			lk, isLk := in.(*ssa.Lookup)
			if !isLk || !lk.CommaOk || lk.X != up.Map || lk.Index != up.Key {
				continue
			}
			for _, ref := range *lk.Referrers() {
				ex, isEx := ref.(*ssa.Extract)
				if !isEx || ex.Index != 1 {
					continue
				}
				for _, cd := range an.CondsOn(fn, ex) {
					absentB, ok1 := c15BoolSucc(cd, false)
					presentB, ok2 := c15BoolSucc(cd, true)
					if !ok1 || !ok2 {
						continue
					}
					if !absentB.Dominates(up.Block()) || !an.Dominates(lk, up) {
						why = "the not-present edge does not dominate the write"
						continue
					}
					if !an.EdgeCuts(presentB, up, nil) {
						why = "the write is reachable when a definition for (duty, validator) is already present: a later resolution overwrites the first"
						continue
					}
					ok = true
				}
			}
		}
		c.Check("setDutyDefinition first definition wins", posOf(up), ok, why)
		c.Check("setDutyDefinition key and value", posOf(up), up.Key == ssa.Value(pkP) && an.Unwrap(up.Value) == ssa.Value(setP),
			"the entry written is not (pubkey parameter → definition parameter)")
		// the map written is the stored set for this duty, or a fresh one only if none is stored
		prov, pwhy := false, "the definition set written to is not s.duties[duty] (or a fresh set when the duty has none)"
		if outerLk != nil {
			var stored, okv ssa.Value
			for _, ref := range *outerLk.Referrers() {
				if ex, isEx := ref.(*ssa.Extract); isEx {
					if ex.Index == 0 {
						stored = ex
					} else {
						okv = ex
					}
				}
			}
			var absent *ssa.BasicBlock
			if okv != nil {
				for _, b := range c15BoolEdges(fn, okv, false) {
					absent = b
				}
			}
			switch m := up.Map.(type) {
			case *ssa.Phi:
				prov = true
				for i, e := range m.Edges {
					pred := m.Block().Preds[i]
					switch {
					case e == stored:
						// the stored set flows in only when present
						if absent != nil && absent.Dominates(pred) {
							prov, pwhy = false, "the stored set is used on the not-present edge"
						}
					default:
						if _, isMake := e.(*ssa.MakeMap); !isMake || absent == nil || !absent.Dominates(pred) {
							prov, pwhy = false, "a fresh definition set replaces the stored one although the duty already has definitions (other validators' definitions are lost)"
						}
					}
				}
			default:
				prov = up.Map == stored
			}
		}
		c.Check("setDutyDefinition set provenance", posOf(up), prov, pwhy)
	}
	for _, up := range outer {
		ok := up.Key == ssa.Value(dutyP)
		for _, in := range inner {
			if up.Value != in.Map {
				ok = false
			}
		}
		c.Check("setDutyDefinition duties[duty] write-back", posOf(up), ok, "s.duties[duty] is not assigned the definition set that was just extended")
	}
	// nobody else writes definition sets or the duties map
	for _, g := range an.PkgFuncs(c.SSAPkg(c15P)) {
		if g == fn {
			continue
		}
		for _, up := range mapUpdates(g, func(ssa.Value) bool { return true }) {
			if up.Parent() != g {
				continue
			}
			if isFieldMap(c15Sched+".duties")(up.Map) || an.TypeName(up.Map.Type()) == "core.DutyDefinitionSet" {
				c.Bad(an.FuncName(g)+" writes duty definitions", posOf(up), "duty definitions are written outside setDutyDefinition (first-wins rule bypassed)")
			}
		}
	}
	lockRule(c, []string{c15P}, an.LockTable{
		c15Sched + ".duties":         "dutiesMutex", // get/setDutyDefinition, trimDuties
		c15Sched + ".dutiesByEpoch":  "dutiesMutex", // setDutyDefinition, trimDuties
		c15Sched + ".resolvedEpoch":  "dutiesMutex", // get/setResolvedEpoch, getEpochResolvedChan
		c15Sched + ".resolvingEpoch": "dutiesMutex", // set/isResolvingEpoch
		c15Sched + ".epochResolved":  "dutiesMutex", // setResolvedEpoch, getEpochResolvedChan
	})
}

// ---------------------------------------------------------------------------------------------
// U5 clone per subscriber

func c15U5(c *rt.Ctx) {
	_, trig := c15Trigger(c)
	defP := c15Param(c, trig, 1, "defSet")
	for _, s := range an.Calls(trig, an.FieldCall(c15Subs), false) {
		name := an.FuncName(trig) + " subscriber definition set"
		arg := s.Common().Args[2]
		ex, ok := c15Local(arg).(*ssa.Extract)
		var clone *ssa.Call
		if ok && ex.Index == 0 {
			clone, _ = ex.Tuple.(*ssa.Call)
		}
		if clone == nil || !an.Static("core.DutyDefinitionSet.Clone")(&clone.Call) {
			c.Bad(name, s.Pos(), "subscribers receive something other than the result of defSet.Clone()")
			continue
		}
		if an.Unwrap(clone.Call.Args[0]) != ssa.Value(defP) {
			c.Bad(name, s.Pos(), "the clone handed to subscribers is not a clone of the definition set the goroutine was started with")
			continue
		}
		l := an.InnermostLoop(trig, s.Block())
		if l == nil || !l.Body[clone.Block()] {
			c.Bad(name, s.Pos(), "one clone is shared by all subscribers (made outside the subscriber loop)")
			continue
		}
		g, why := an.Guarded(clone, s, an.DefaultGuard)
		c.Check(name, s.Pos(), g, "defSet.Clone(): "+why)
	}
}

// ---------------------------------------------------------------------------------------------
// U6 resolved only after success

func c15U6(c *rt.Ctx) {
	rd := c.Fn(c15P + ".Scheduler.resolveDuties")
	slotP := c15Param(c, rd, 2, "slot")
	setN := c15P + ".Scheduler.setResolvedEpoch"
	const sentinel = int64(^uint64(0) >> 1) // math.MaxInt64, the "nothing resolved" marker
	rav := c.OneCall(rd, an.Static(c15P+".resolveActiveValidators"), "resolveActiveValidators", false)
	var vals ssa.Value
	for _, ref := range *rav.Value().Referrers() {
		if ex, ok := ref.(*ssa.Extract); ok && ex.Index == 0 {
			vals = ex
		}
	}
	resolvers := []string{"resolveAttDuties", "resolveProDuties", "resolveSyncCommDuties"}
	n := 0
	for _, fn := range an.PkgFuncs(c.SSAPkg(c15P)) {
		for _, call := range an.Calls(fn, an.Static(setN), false) {
			arg := call.Common().Args[1]
			if fn != rd {
				k, ok := an.ConstInt(arg)
				c.Check(an.FuncName(fn)+" setResolvedEpoch", call.Pos(), ok && k == sentinel,
					"an epoch is marked resolved outside resolveDuties (only the invalidating sentinel math.MaxInt64 may be set elsewhere)")
				continue
			}
			n++
			name := fmt.Sprintf("resolveDuties setResolvedEpoch#%d", n)
			ep := c15Static(arg, "core.Slot.Epoch")
			if !c.Check(name+" epoch", call.Pos(), ep != nil && c15Rooted(ep.Call.Args[0], slotP),
				"the epoch marked resolved is not the epoch of the slot being resolved") {
				continue
			}
			if g, why := an.Guarded(rav, call, an.DefaultGuard); !g {
				c.Bad(name+" after success", call.Pos(), "resolveActiveValidators: "+why)
				continue
			}
			// empty validator list: nothing to resolve
			empty := false
			if vals != nil {
				if ln := findLen(rd, vals); ln != nil {
					for _, cd := range an.CondsOn(rd, ln) {
						if k, ok := an.ConstInt(cd.Other); cd.Other != nil && ok && k == 0 && cd.Op == token.EQL && cd.Succ(true).Dominates(call.Block()) {
							empty = true
						}
					}
				}
				if !empty {
					// findLen returns the first len(vals); look at all of them
					for _, in := range an.Instrs(rd, false) {
						lc, ok := in.(*ssa.Call)
						if !ok {
							continue
						}
						if b, ok := lc.Call.Value.(*ssa.Builtin); !ok || b.Name() != "len" || lc.Call.Args[0] != vals {
							continue
						}
						for _, cd := range an.CondsOn(rd, lc) {
							if k, ok := an.ConstInt(cd.Other); cd.Other != nil && ok && k == 0 && cd.Op == token.EQL && cd.Succ(true).Dominates(call.Block()) {
								empty = true
							}
						}
					}
				}
			}
			if empty {
				c.Good(name+" after success", call.Pos(), "no active validators: nothing to resolve")
				continue
			}
			good, why := true, ""
			for _, rn := range resolvers {
				r := c.OneCall(rd, an.Static(c15P+".Scheduler."+rn), rn, false)
				if g, w := an.Guarded(r, call, an.DefaultGuard); !g {
					good, why = false, rn+": "+w
					break
				}
			}
			c.Check(name+" after success", call.Pos(), good,
				"the epoch is marked resolved although a resolution may have failed or not run (it is never retried; duties of the epoch are lost or partial) — "+why)
		}
	}
	if n == 0 {
		c.Bail("resolveDuties never calls setResolvedEpoch")
	}
}
