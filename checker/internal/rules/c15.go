package rules

import (
	"fmt"
	"go/constant"
	"go/token"
	"go/types"
	"strings"

	"golang.org/x/tools/go/ssa"

	"charonverif/internal/an"
	"charonverif/internal/rt"
)

func init() {
	const f = "core/scheduler/scheduler.go"
	Register(&Prop{
		ID: "C15",
		Decides: "core/scheduler: (U1) duty subscribers are invoked only from the trigger goroutine that scheduleSlot starts once per duty type of the ticked slot, " +
			"scheduleSlot is invoked once per value received from the slot ticker, and the ticker advances its slot by Next() after every emission and only otherwise re-reads the clock after the slot-start wait; " +
			"(U2) every subscriber call is preceded by the successful slot-offset wait (delaySlotOffset / waitForEarlyFetchOrTimeout), whose deadline is slot.Time + slotOffsets[type](slot duration), and the registered offset functions (folded over their SSA form for a spread of slot durations) never yield less than 1/3 (attester) / 2/3 (aggregator, sync contribution) of the slot; " +
			"(U3) every duty definition stored comes from one beacon duty: public key looked up by that duty's validator index in the active-validator list (ok checked), equal to the duty's own key, " +
			"slot not before the resolving slot, definition built from the same duty; the validator list holds only active / activating validators; " +
			"(U4) setDutyDefinition never overwrites a (duty, validator) entry and the scheduler's duty state is touched only under dutiesMutex; " +
			"(U5) each subscriber receives its own clone of the definition set; (U6) an epoch is marked resolved only after all three resolutions succeeded.",
		NotDecided: "completeness (every assigned duty is eventually triggered), wall-clock timing, offset functions that are not closed integer/float arithmetic on the slot duration, behaviour under concrete failure patterns, " +
			"uniqueness of core.AllDutyTypes(), correctness of the beacon node's answers.",
		Run: c15,
		Mutants: []Mutant{
			// U1
			{ID: "C15-U1-schedule-twice", File: f, Expect: "U1",
				Old: "\t\t\ts.scheduleSlot(ctx, slot)\n",
				New: "\t\t\ts.scheduleSlot(ctx, slot)\n\t\t\tgo s.scheduleSlot(ctx, slot)\n"},
			{ID: "C15-U1-ticker-no-advance", File: f, Expect: "U1",
				Old: "\t\t\tslot = slot.Next()\n",
				New: "\t\t\t_ = slot.Next()\n"},
			{ID: "C15-U1-ticker-advance-before-send", File: f, Expect: "U1",
				Old: "\t\t\tselect {\n\t\t\tcase <-ctx.Done():\n\t\t\t\treturn\n\t\t\tcase resp <- slot:\n\t\t\t}\n\n\t\t\tslot = slot.Next()\n",
				New: "\t\t\tslot = slot.Next()\n\n\t\t\tselect {\n\t\t\tcase <-ctx.Done():\n\t\t\t\treturn\n\t\t\tcase resp <- slot:\n\t\t\t}\n"},
			{ID: "C15-U1-ticker-no-wait", File: f, Expect: "U1",
				Old: "case <-clock.After(slot.Time.Sub(clock.Now())):",
				New: "case <-clock.After(0):"},
			{ID: "C15-U1-same-type-for-all", File: f, Expect: "U1",
				Old: "\t\t\tType: dutyType,\n",
				New: "\t\t\tType: min(dutyType, core.DutyAttester),\n"},
			{ID: "C15-U1-defset-of-other-duty", File: f, Expect: "U1",
				Old: "\t\tdefSet, ok := s.getDutyDefinitionSet(duty)\n\t\tif !ok {\n\t\t\tspan.End()",
				New: "\t\tdefSet, ok := s.getDutyDefinitionSet(core.NewAttesterDuty(slot.Slot))\n\t\tif !ok {\n\t\t\tspan.End()"},
			{ID: "C15-U1-subs-from-head-event", File: f, Expect: "U1",
				Old: "\t// Fetch attestation data early without triggering consensus\n",
				New: "\tfor _, sub := range s.dutySubs {\n\t\t_ = sub(ctx, duty, clonedDefSet)\n\t}\n"},
			// U2
			{ID: "C15-U2-delay-result-ignored", File: f, Expect: "U2",
				Old: "} else if !delaySlotOffset(dutyCtx, slot, duty, s.delayFunc) {\n\t\t\t\treturn // context cancelled\n\t\t\t}",
				New: "} else {\n\t\t\t\t_ = delaySlotOffset(dutyCtx, slot, duty, s.delayFunc)\n\t\t\t}"},
			{ID: "C15-U2-delay-polarity", File: f, Expect: "U2",
				Old: "} else if !delaySlotOffset(dutyCtx, slot, duty, s.delayFunc) {",
				New: "} else if delaySlotOffset(dutyCtx, slot, duty, s.delayFunc) {"},
			{ID: "C15-U2-cancel-returns-true", File: f, Expect: "U2",
				Old: "\tcase <-ctx.Done():\n\t\treturn false\n\tcase <-delayFunc(duty, deadline):",
				New: "\tcase <-ctx.Done():\n\t\treturn true\n\tcase <-delayFunc(duty, deadline):"},
			{ID: "C15-U2-deadline-before-slot", File: f, Expect: "U2",
				Old: "\tdeadline := slot.Time.Add(offset)\n",
				New: "\tdeadline := slot.Time.Add(-offset)\n"},
			{ID: "C15-U2-attester-offset-for-others", File: f, Expect: "U2",
				Old: "if duty.Type == core.DutyAttester && (featureset.Enabled(featureset.FetchAttOnBlock)",
				New: "if duty.Type != core.DutyAttester && (featureset.Enabled(featureset.FetchAttOnBlock)"},
			{ID: "C15-U2-fallback-shortened", File: f, Expect: "U2",
				Old: "case <-s.clock.After(time.Until(fallbackDeadline)):",
				New: "case <-s.clock.After(time.Until(fallbackDeadline) - offset):"},
			// U3
			{ID: "C15-U3-pro-no-slot-skip", File: f, Expect: "U3",
				Old: "\t\tif proDuty.Slot < eth2p0.Slot(slot.Slot) {\n\t\t\t// Skip duties for earlier slots in initial epoch.\n\t\t\tcontinue\n\t\t}\n",
				New: ""},
			{ID: "C15-U3-att-slot-skip-weakened", File: f, Expect: "U3",
				Old: "\t\tif attDuty.Slot < eth2p0.Slot(slot.Slot) {",
				New: "\t\tif attDuty.Slot+1 < eth2p0.Slot(slot.Slot) {"},
			{ID: "C15-U3-att-ok-ignored", File: f, Expect: "U3",
				Old: "pubkey, ok := vals.PubKeyFromIndex(attDuty.ValidatorIndex)\n\t\tif !ok {",
				New: "pubkey, ok := vals.PubKeyFromIndex(attDuty.ValidatorIndex)\n\t\tif !ok && ctx.Err() != nil {"},
			{ID: "C15-U3-att-pubkey-mismatch-logged", File: f, Expect: "U3",
				Old: "\t\t\treturn errors.New(\"invalid attester duty pubkey\")\n",
				New: "\t\t\tlog.Warn(ctx, \"invalid attester duty pubkey\", nil)\n"},
			{ID: "C15-U3-sync-pubkey-check-dropped", File: f, Expect: "U3",
				Old: "\t\tif core.PubKeyFrom48Bytes(syncCommDuty.PubKey) != pubkey {",
				New: "\t\tif core.PubKeyFrom48Bytes(syncCommDuty.PubKey) != pubkey && len(duties) == 0 {"},
			{ID: "C15-U3-pro-def-of-other-duty", File: f, Expect: "U3",
				Old: "core.NewProposerDefinition(proDuty)",
				New: "core.NewProposerDefinition(proDuties[0])"},
			{ID: "C15-U3-agg-slot-shifted", File: f, Expect: "U3",
				Old: "aggDuty := core.NewAggregatorDuty(uint64(attDuty.Slot))",
				New: "aggDuty := core.NewAggregatorDuty(uint64(attDuty.Slot) + 1)"},
			{ID: "C15-U3-sync-index-of-first", File: f, Expect: "U3",
				Old: "\t\tvIdx := syncCommDuty.ValidatorIndex\n",
				New: "\t\tvIdx := duties[0].ValidatorIndex\n"},
			{ID: "C15-U3-inactive-included", File: f, Expect: "U3",
				Old: "if !val.Status.IsActive() && val.Validator.ActivationEpoch != eth2p0.Epoch(epoch) {",
				New: "if !val.Status.IsActive() && val.Validator.ActivationEpoch > eth2p0.Epoch(epoch) {"},
			{ID: "C15-U3-active-filter-inverted", File: f, Expect: "U3",
				Old: "if !val.Status.IsActive() && val.Validator.ActivationEpoch != eth2p0.Epoch(epoch) {",
				New: "if val.Status.IsActive() && val.Validator.ActivationEpoch != eth2p0.Epoch(epoch) {"},
			// U4
			{ID: "C15-U4-overwrite", File: f, Expect: "U4",
				Old: "\tif _, ok := defSet[pubkey]; ok {\n\t\treturn false",
				New: "\tif _, ok := defSet[pubkey]; ok && set == nil {\n\t\treturn false"},
			{ID: "C15-U4-fresh-set-replaces", File: f, Expect: "U4",
				Old: "\tif !ok {\n\t\tdefSet = make(core.DutyDefinitionSet)",
				New: "\tif ok {\n\t\tdefSet = make(core.DutyDefinitionSet)"},
			{ID: "C15-U4-write-under-rlock", File: f, Expect: "U4",
				Old: "\ts.dutiesMutex.Lock()\n\tdefer s.dutiesMutex.Unlock()\n\n\tdefSet, ok := s.duties[duty]\n\tif !ok {",
				New: "\ts.dutiesMutex.RLock()\n\tdefer s.dutiesMutex.RUnlock()\n\n\tdefSet, ok := s.duties[duty]\n\tif !ok {"},
			{ID: "C15-U4-resolved-epoch-unlocked", File: f, Expect: "U4",
				Old: "func (s *Scheduler) getResolvedEpoch() uint64 {\n\ts.dutiesMutex.RLock()\n\tdefer s.dutiesMutex.RUnlock()\n",
				New: "func (s *Scheduler) getResolvedEpoch() uint64 {\n"},
			{ID: "C15-U4-write-before-test", File: f, Expect: "U4",
				Old: "\tif _, ok := defSet[pubkey]; ok {\n\t\treturn false\n\t}\n\n\tdefSet[pubkey] = set\n",
				New: "\tdefSet[pubkey] = set\n\n\tif _, ok := defSet[pubkey]; !ok {\n\t\treturn false\n\t}\n"},
			// U5
			{ID: "C15-U5-clone-once", File: f, Expect: "U5",
				Old: "\t\t\tfor _, sub := range s.dutySubs {\n\t\t\t\tclone, err := defSet.Clone() // Clone for each subscriber.\n\t\t\t\tif err != nil {\n\t\t\t\t\tlog.Error(dutyCtx, \"Failed to clone duty definition set\", err)\n\t\t\t\t\treturn\n\t\t\t\t}\n",
				New: "\t\t\tclone, err := defSet.Clone()\n\t\t\tif err != nil {\n\t\t\t\tlog.Error(dutyCtx, \"Failed to clone duty definition set\", err)\n\t\t\t\treturn\n\t\t\t}\n\n\t\t\tfor _, sub := range s.dutySubs {\n"},
			{ID: "C15-U5-pass-shared", File: f, Expect: "U5",
				Old: "\t\t\t\tclone, err := defSet.Clone() // Clone for each subscriber.\n\t\t\t\tif err != nil {\n\t\t\t\t\tlog.Error(dutyCtx, \"Failed to clone duty definition set\", err)\n\t\t\t\t\treturn\n\t\t\t\t}\n\n\t\t\t\tif err := sub(dutyCtx, duty, clone); err != nil {",
				New: "\t\t\t\t_, err := defSet.Clone() // Clone for each subscriber.\n\t\t\t\tif err != nil {\n\t\t\t\t\tlog.Error(dutyCtx, \"Failed to clone duty definition set\", err)\n\t\t\t\t\treturn\n\t\t\t\t}\n\n\t\t\t\tif err := sub(dutyCtx, duty, defSet); err != nil {"},
			{ID: "C15-U5-clone-error-ignored", File: f, Expect: "U5",
				Old: "\t\t\t\tclone, err := defSet.Clone() // Clone for each subscriber.\n\t\t\t\tif err != nil {\n\t\t\t\t\tlog.Error(dutyCtx, \"Failed to clone duty definition set\", err)\n\t\t\t\t\treturn\n\t\t\t\t}\n",
				New: "\t\t\t\tclone, err := defSet.Clone() // Clone for each subscriber.\n\t\t\t\tif err != nil {\n\t\t\t\t\tlog.Error(dutyCtx, \"Failed to clone duty definition set\", err)\n\t\t\t\t}\n"},
			// U6
			{ID: "C15-U6-resolved-before-proposer", File: f, Expect: "U6",
				Old: "\terr = s.resolveProDuties(ctx, slot, vals)\n",
				New: "\ts.setResolvedEpoch(slot.Epoch())\n\n\terr = s.resolveProDuties(ctx, slot, vals)\n"},
			{ID: "C15-U6-sync-error-logged", File: f, Expect: "U6",
				Old: "\terr = s.resolveSyncCommDuties(ctx, slot, vals)\n\tif err != nil {\n\t\treturn err\n\t}",
				New: "\terr = s.resolveSyncCommDuties(ctx, slot, vals)\n\tif err != nil {\n\t\tlog.Warn(ctx, \"Resolving sync committee duties failed\", err)\n\t}"},
			{ID: "C15-U6-reorg-marks-resolved", File: f, Expect: "U6",
				Old: "\t\t\ts.setResolvedEpoch(math.MaxInt64)\n",
				New: "\t\t\ts.setResolvedEpoch(uint64(epoch))\n"},
			{ID: "C15-U6-wrong-epoch", File: f, Expect: "U6",
				Old: "\ts.setResolvedEpoch(slot.Epoch())\n\ts.trimDuties(",
				New: "\ts.setResolvedEpoch(slot.Epoch() + 1)\n\ts.trimDuties("},
			// added with the path-sensitive reformulation (h15): mechanisms the refactor-robust rules could have weakened
			{ID: "C15-U1-duty-slot-shifted", File: f, Expect: "U1",
				Old: "\t\t\tSlot: slot.Slot,\n",
				New: "\t\t\tSlot: slot.Slot + 1,\n"},
			{ID: "C15-U2-delay-failure-conditionally-ignored", File: f, Expect: "U2",
				Old: "} else if !delaySlotOffset(dutyCtx, slot, duty, s.delayFunc) {",
				New: "} else if !delaySlotOffset(dutyCtx, slot, duty, s.delayFunc) && len(defSet) == 0 {"},
			{ID: "C15-U2-fallback-earlier", File: f, Expect: "U2",
				Old: "\t\toffset += 300 * time.Millisecond\n",
				New: "\t\toffset -= 300 * time.Millisecond\n"},
			{ID: "C15-U3-sync-advance-before-store", File: f, Expect: "U3",
				Old: "\t\t\tduty := core.NewSyncContributionDuty(sl.Slot)\n",
				New: "\t\t\tsl = sl.Next()\n\t\t\tduty := core.NewSyncContributionDuty(sl.Slot)\n"},
			{ID: "C15-U3-active-filter-extra-escape", File: f, Expect: "U3",
				Old: "if !val.Status.IsActive() && val.Validator.ActivationEpoch != eth2p0.Epoch(epoch) {",
				New: "if !val.Status.IsActive() && val.Validator.ActivationEpoch != eth2p0.Epoch(epoch) && val.Balance > 0 {"},
			{ID: "C15-U4-presence-test-on-other-set", File: f, Expect: "U4",
				Old: "\tif _, ok := defSet[pubkey]; ok {",
				New: "\tif _, ok := s.duties[core.NewAttesterDuty(duty.Slot)][pubkey]; ok {"},
			{ID: "C15-U5-clone-of-other-set", File: f, Expect: "U5",
				Old: "clone, err := defSet.Clone() // Clone for each subscriber.",
				New: "clone, err := core.DutyDefinitionSet{}.Clone()"},
			{ID: "C15-U6-proposer-error-conditionally-ignored", File: f, Expect: "U6",
				Old: "\terr = s.resolveProDuties(ctx, slot, vals)\n\tif err != nil {",
				New: "\terr = s.resolveProDuties(ctx, slot, vals)\n\tif err != nil && len(vals) > 1 {"},
			{ID: "C15-U6-empty-check-weakened", File: f, Expect: "U6",
				Old: "\tif len(vals) == 0 {",
				New: "\tif len(vals) <= 1 {"},
			// round 3 (seeds C15-r2A, C15-r2B)
			{ID: "C15-U1-advance-from-copy-before-resync", File: f, Expect: "U1",
				Old:  "\t\t\tif clock.Now().After(slot.Next().Time) {",
				New:  "\t\t\tprev := slot\n\t\t\tif clock.Now().After(slot.Next().Time) {",
				More: [][2]string{{"\t\t\tslot = slot.Next()\n", "\t\t\tslot = prev.Next()\n"}}},
			{ID: "C15-U1-next-computed-after-wait", File: f, Expect: "U1",
				Old:  "\t\t\t// Avoid \"thundering herd\" problem by skipping slots if missed due\n",
				New:  "\t\t\tnext := slot.Next()\n\t\t\t// Avoid \"thundering herd\" problem by skipping slots if missed due\n",
				More: [][2]string{{"\t\t\tslot = slot.Next()\n", "\t\t\tslot = next\n"}}},
			{ID: "C15-U3-sync-fixed-count", File: f, Expect: "U3",
				Old: "\t\tvar (\n\t\t\tstartSlot = slot\n\t\t\tcurrEpoch = slot.Epoch()\n\t\t)\n\n\t\tfor sl := startSlot; sl.Epoch() == currEpoch; sl = sl.Next() {",
				New: "\t\tstartSlot := slot\n\n\t\tfor sl, n := startSlot, uint64(0); n < startSlot.SlotsPerEpoch; sl, n = sl.Next(), n+1 {"},
			{ID: "C15-U3-sync-bound-by-slot-number", File: f, Expect: "U3",
				Old: "\t\tvar (\n\t\t\tstartSlot = slot\n\t\t\tcurrEpoch = slot.Epoch()\n\t\t)\n\n\t\tfor sl := startSlot; sl.Epoch() == currEpoch; sl = sl.Next() {",
				New: "\t\tstartSlot := slot\n\n\t\tfor sl := startSlot; sl.Slot < startSlot.Slot+startSlot.SlotsPerEpoch; sl = sl.Next() {"},
			// round 4 (seed C15-r4A): the offset arithmetic itself
			{ID: "C15-U2-offset-truncated-to-seconds", File: "core/scheduler/offset.go", Expect: "U2|offset arithmetic",
				Old: "return (total * time.Duration(x)) / time.Duration(y)",
				New: "return (total.Truncate(time.Second) * time.Duration(x)) / time.Duration(y)"},
			{ID: "C15-U2-offset-float-seconds", File: "core/scheduler/offset.go", Expect: "U2|offset arithmetic",
				Old: "return (total * time.Duration(x)) / time.Duration(y)",
				New: "return time.Duration(int64(total.Seconds())*x/y) * time.Second"},
			{ID: "C15-U2-attester-fraction-smaller", File: "core/scheduler/offset.go", Expect: "U2|slotOffsets[DutyAttester]",
				Old: "core.DutyAttester:         fraction(1, 3),",
				New: "core.DutyAttester:         fraction(1, 4),"},
			{ID: "C15-U2-aggregator-offset-removed", File: "core/scheduler/offset.go", Expect: "U2|slotOffsets[DutyAggregator]",
				Old: "\tcore.DutyAggregator:       fraction(2, 3), // 2/3 slot duration\n",
				New: ""},
		},
	})
}

const (
	c15P     = "core/scheduler"
	c15Sched = "core/scheduler.Scheduler"
	c15Subs  = c15Sched + ".dutySubs"
)

// ---------------------------------------------------------------------------------------------
// small SSA helpers (all prefixed c15)

// c15UniqueStore returns the value of the only whole-variable store into a, or nil.
func c15UniqueStore(a *ssa.Alloc) ssa.Value {
	var v ssa.Value
	for _, ref := range *a.Referrers() {
		if st, ok := ref.(*ssa.Store); ok && st.Addr == ssa.Value(a) {
			if v != nil {
				return nil
			}
			v = st.Val
		}
	}
	return v
}

// c15Binding resolves a free variable to the value bound to it by the (unique) MakeClosure of its function.
func c15Binding(fv *ssa.FreeVar) ssa.Value {
	fn := fv.Parent()
	par := fn.Parent()
	if par == nil {
		return nil
	}
	idx := -1
	for i, x := range fn.FreeVars {
		if x == fv {
			idx = i
		}
	}
	if idx < 0 {
		return nil
	}
	var out ssa.Value
	for _, in := range an.Instrs(par, false) {
		if mc, ok := in.(*ssa.MakeClosure); ok && mc.Fn == ssa.Value(fn) && idx < len(mc.Bindings) {
			if out != nil && out != mc.Bindings[idx] {
				return nil
			}
			out = mc.Bindings[idx]
		}
	}
	return out
}

// c15Env indexes the scheduler package: who references which function. It lets the rules follow
// values and control across helper functions that have exactly one static use (a method or closure
// extracted from an anchor function and called / started only from there).
type c15Env struct {
	c     *rt.Ctx
	pkg   *ssa.Package
	funcs []*ssa.Function
	calls map[*ssa.Function][]ssa.CallInstruction // static call / go / defer sites
	leaks map[*ssa.Function]bool                  // used as a value (method value, stored, passed)

	inFieldInit  int
	opaque       int       // number of parameter-object field reads that could not be resolved (see fieldInit)
	lastStop     ssa.Value // where the last failing cellOf walk stopped
	nFieldStores map[string]int
	// ctx binds a helper with several static uses to the use under analysis (context sensitivity of
	// origin / rooted / cellOf / argOf while a rule looks into the helper on behalf of one caller)
	ctx map[*ssa.Function]ssa.CallInstruction
}

func c15NewEnv(c *rt.Ctx) *c15Env {
	e := &c15Env{c: c, pkg: c.SSAPkg(c15P), calls: map[*ssa.Function][]ssa.CallInstruction{}, leaks: map[*ssa.Function]bool{}}
	e.funcs = an.PkgFuncs(e.pkg)
	for _, fn := range e.funcs {
		for _, in := range an.Instrs(fn, false) {
			if mc, ok := in.(*ssa.MakeClosure); ok {
				lit, _ := mc.Fn.(*ssa.Function)
				if lit == nil {
					continue
				}
				if lit.Synthetic != "" {
					// bound-method wrapper / thunk: the underlying method is used as a value
					if obj, ok := lit.Object().(*types.Func); ok {
						if m := c.P.SSA.FuncValue(obj); m != nil {
							e.leaks[an.Orig(m)] = true
						}
					}
					continue
				}
				for _, ref := range *mc.Referrers() {
					if ci, ok := ref.(ssa.CallInstruction); ok && ci.Common().Value == ssa.Value(mc) {
						leaked := false
						for _, a := range ci.Common().Args {
							if a == ssa.Value(mc) {
								leaked = true
							}
						}
						if !leaked {
							e.calls[lit] = append(e.calls[lit], ci)
							continue
						}
					}
					if _, dbg := ref.(*ssa.DebugRef); dbg {
						continue
					}
					e.leaks[lit] = true
				}
				continue
			}
			for _, op := range an.Operands(in) {
				f, ok := op.(*ssa.Function)
				if !ok || f.Pkg != e.pkg {
					continue
				}
				f = an.Orig(f)
				if ci, ok := in.(ssa.CallInstruction); ok && ci.Common().Value == op && !ci.Common().IsInvoke() {
					argUse := false
					for _, a := range ci.Common().Args {
						if a == op {
							argUse = true
						}
					}
					if !argUse {
						e.calls[f] = append(e.calls[f], ci)
						continue
					}
				}
				e.leaks[f] = true
			}
		}
	}
	return e
}

// site returns the only static use of fn when fn is never used as a value and is not exported
// (an exported function can be called from other packages), else nil.
func (e *c15Env) site(fn *ssa.Function) ssa.CallInstruction {
	if fn != nil && e.ctx != nil {
		if s, ok := e.ctx[fn]; ok {
			return s
		}
	}
	if fn == nil || e.leaks[fn] || len(e.calls[fn]) != 1 {
		return nil
	}
	if fn.Parent() == nil {
		if obj := fn.Object(); obj == nil || obj.Exported() {
			return nil
		}
	}
	return e.calls[fn][0]
}

// owned returns root, its function literals and – transitively – every function of the package that
// is only ever called (or started) from a function already in the set.
func (e *c15Env) owned(root *ssa.Function) map[*ssa.Function]bool {
	set := map[*ssa.Function]bool{}
	for _, f := range an.Closure(root) {
		set[f] = true
	}
	for changed := true; changed; {
		changed = false
		for _, fn := range e.funcs {
			if set[fn] || e.leaks[fn] || len(e.calls[fn]) == 0 {
				continue
			}
			if fn.Parent() == nil {
				if obj := fn.Object(); obj == nil || obj.Exported() {
					continue
				}
			}
			all := true
			for _, s := range e.calls[fn] {
				if !set[s.Parent()] {
					all = false
				}
			}
			if all {
				for _, f := range an.Closure(fn) {
					if !set[f] {
						set[f] = true
						changed = true
					}
				}
			}
		}
	}
	return set
}

func (e *c15Env) ownedList(root *ssa.Function) []*ssa.Function {
	set := e.owned(root)
	var out []*ssa.Function
	for _, f := range e.funcs {
		if set[f] {
			out = append(out, f)
		}
	}
	return out
}

// chain returns the static uses leading from fn up to top (fn's only use, the only use of the function
// containing it, ...); nil when some link is not unique.
func (e *c15Env) chain(fn, top *ssa.Function) []ssa.CallInstruction {
	var out []ssa.CallInstruction
	for i := 0; i < 8 && fn != top; i++ {
		s := e.site(fn)
		if s == nil {
			return nil
		}
		out = append(out, s)
		fn = s.Parent()
	}
	if fn != top {
		return nil
	}
	return out
}

// argOf maps a parameter of a function with a unique static use to the argument passed there.
func (e *c15Env) argOf(p *ssa.Parameter) ssa.Value {
	fn := p.Parent()
	s := e.site(fn)
	if s == nil {
		return nil
	}
	for i, q := range fn.Params {
		if q == p && i < len(s.Common().Args) {
			return s.Common().Args[i]
		}
	}
	return nil
}

// origin looks through conversions, loads of single-assignment locals, captured variables and
// parameters of single-use helpers: the value the expression denotes, as far up as it is unambiguous.
func (e *c15Env) origin(v ssa.Value) ssa.Value {
	for i := 0; i < 48 && v != nil; i++ {
		v = an.Unwrap(v)
		switch x := v.(type) {
		case *ssa.UnOp:
			if x.Op != token.MUL {
				return v
			}
			var cell *ssa.Alloc
			switch a := x.X.(type) {
			case *ssa.Alloc:
				cell = a
			case *ssa.FreeVar:
				cell, _ = c15Binding(a).(*ssa.Alloc)
			case *ssa.FieldAddr:
				// a field of a parameter object (`args.slot`, `t.duty`): the value the field was initialised with
				if init := e.fieldInit(a.X, a.Field); init != nil {
					v = init
					continue
				}
				return v
			}
			if cell == nil {
				return v
			}
			s := c15UniqueStore(cell)
			if s == nil {
				return v
			}
			v = s
		case *ssa.Field:
			init := e.fieldInit(x.X, x.Field)
			if init == nil {
				return v
			}
			v = init
		case *ssa.Parameter:
			a := e.argOf(x)
			if a == nil {
				return v
			}
			v = a
		default:
			return v
		}
	}
	return v
}

// originShallow is origin without the resolution of parameter-object fields: it stops at the first field
// read (used when the caller wants to see which field is read).
func (e *c15Env) originShallow(v ssa.Value) ssa.Value {
	old := e.inFieldInit
	e.inFieldInit = 100
	defer func() { e.inFieldInit = old }()
	return e.origin(v)
}

// fieldInit resolves a read of field idx of the struct (or pointer to struct) base to the value the field
// was given, when base is a parameter object: a local struct variable built once (composite literal or
// field-by-field) in this function or – through value / pointer parameters of single-use helpers and
// captured variables – in a caller, whose field is assigned exactly once. nil when it is anything else.
func (e *c15Env) fieldInit(base ssa.Value, idx int) ssa.Value {
	if e.inFieldInit > 6 {
		return nil
	}
	e.inFieldInit++
	defer func() { e.inFieldInit-- }()
	e.lastStop = nil
	cell, via := e.cellVia(base)
	if cell == nil {
		if nt, ok := c15Deref(base.Type()).(*types.Named); ok && nt.Obj().Pkg() == e.pkg.Pkg && nt.Obj().Name() != "Scheduler" && e.lastStop != nil && e.opaqueObject(e.lastStop) {
			e.opaque++
		}
		return nil
	}
	if _, isStruct := cell.Type().Underlying().(*types.Pointer).Elem().Underlying().(*types.Struct); !isStruct {
		return nil
	}
	// only plain local structs: the variable itself may be copied, read field-wise and handed on (by value
	// or by pointer); when its address is kept or passed, the field must not be assigned anywhere else in
	// the package (a parameter object is filled in once)
	shared := false
	for _, ref := range *cell.Referrers() {
		switch r := ref.(type) {
		case *ssa.FieldAddr, *ssa.UnOp, *ssa.DebugRef, *ssa.MakeClosure:
		case *ssa.Store:
			if r.Addr != ssa.Value(cell) {
				if _, local := r.Addr.(*ssa.Alloc); !local {
					return nil
				}
				shared = true
			}
		case ssa.CallInstruction:
			shared = true
		case *ssa.Return:
			if via == nil {
				return nil
			}
			shared = true // the address of the object is what the constructor returns
		default:
			return nil
		}
	}
	key := an.FieldKey(base.Type(), idx)
	sts := c15StructInit(cell)[key]
	if len(sts) != 1 {
		return nil
	}
	if shared && e.fieldStores(key) != 1 {
		return nil
	}
	if via != nil {
		// the object was built by the function called at via: a field initialised with a parameter of that
		// function holds the argument of this call
		if p, ok := c15Local(sts[0].Val).(*ssa.Parameter); ok && p.Parent() == cell.Parent() {
			for i, q := range p.Parent().Params {
				if q == p && i < len(via.Call.Args) {
					return via.Call.Args[i]
				}
			}
		}
	}
	return sts[0].Val
}

// fieldStores counts the assignments of the named struct field anywhere in the package.
func (e *c15Env) fieldStores(key string) int {
	if e.nFieldStores == nil {
		e.nFieldStores = map[string]int{}
		for _, fn := range e.funcs {
			for _, in := range an.Instrs(fn, false) {
				if st, ok := in.(*ssa.Store); ok {
					if fa, ok := st.Addr.(*ssa.FieldAddr); ok {
						e.nFieldStores[an.FieldKey(fa.X.Type(), fa.Field)]++
					}
				}
			}
		}
	}
	return e.nFieldStores[key]
}

// passThrough follows result idx of a call of a single-use, single-return helper of the package to the
// value the helper returns there (`func (s *T) cloneOf(x X) (X, error) { return x.Clone() }`); ok is
// false when call is not such a call.
func (e *c15Env) passThrough(call *ssa.Call, idx int) (ssa.Value, bool) {
	h := call.Call.StaticCallee()
	if h == nil || call.Call.IsInvoke() {
		return nil, false
	}
	h = an.Orig(h)
	if h.Pkg != e.pkg || e.site(h) != ssa.CallInstruction(call) {
		return nil, false
	}
	rets := an.Returns(h)
	if len(rets) != 1 {
		return nil, false
	}
	rv := returnValues(rets[0])
	if idx >= len(rv) {
		return nil, false
	}
	return rv[idx], true
}

// resultOf decodes v as result idx of a call (a single-result call is its own result 0), looking
// through single-use single-return helpers down to the call that really produced it.
func (e *c15Env) resultOf(v ssa.Value) (*ssa.Call, int) {
	for i := 0; i < 4; i++ {
		v = e.origin(v)
		var call *ssa.Call
		idx := 0
		switch x := v.(type) {
		case *ssa.Extract:
			call, _ = x.Tuple.(*ssa.Call)
			idx = x.Index
		case *ssa.Call:
			call = x
		}
		if call == nil {
			return nil, 0
		}
		inner, ok := e.passThrough(call, idx)
		if !ok {
			return call, idx
		}
		v = inner
	}
	return nil, 0
}

// fieldKeyOf names the struct field a value is loaded from or is an element of, looking through local
// copies, captured variables and parameters of single-use helpers (`subs := s.dutySubs; ... subs[i]`).
func (e *c15Env) fieldKeyOf(v ssa.Value) string {
	for i := 0; i < 32 && v != nil; i++ {
		v = e.origin(v)
		switch x := v.(type) {
		case *ssa.UnOp:
			if x.Op != token.MUL {
				return ""
			}
			v = x.X
		case *ssa.FieldAddr:
			return an.FieldKey(x.X.Type(), x.Field)
		case *ssa.Field:
			return an.FieldKey(x.X.Type(), x.Field)
		case *ssa.IndexAddr:
			v = x.X
		case *ssa.Index:
			v = x.X
		case *ssa.Slice:
			v = x.X
		case *ssa.Extract:
			v = x.Tuple
		case *ssa.Next:
			v = x.Iter
		case *ssa.Range:
			v = x.X
		default:
			return ""
		}
	}
	return ""
}

// subCall matches the dynamic calls whose function value is an element of the duty subscriber list.
func (e *c15Env) subCall() an.Matcher {
	return func(c *ssa.CallCommon) bool {
		return !c.IsInvoke() && c.StaticCallee() == nil && e.fieldKeyOf(c.Value) == c15Subs
	}
}

// cellOf returns the variable that ultimately holds the (struct) value v: v may be the value or a
// pointer to it; copies through single-assignment locals, captured variables and parameters of
// single-use helpers are looked through.
func (e *c15Env) cellOf(v ssa.Value) *ssa.Alloc {
	cell, _ := e.cellVia(v)
	return cell
}

// returned resolves result idx of a call of a function of the package to the one value the function returns
// there. Returns that hand back a zero value together with a constant false / a freshly made error (the
// "nothing" exits of a constructor) are not candidates. nil when there is not exactly one candidate.
func (e *c15Env) returned(k *ssa.Call, idx int) ssa.Value {
	if k.Call.IsInvoke() {
		return nil
	}
	h := k.Call.StaticCallee()
	if h == nil {
		return nil
	}
	h = an.Orig(h)
	if h.Pkg != e.pkg || len(h.Blocks) == 0 || h.Signature.Results().Len() <= idx {
		return nil
	}
	var out ssa.Value
	for _, r := range an.Returns(h) {
		rv := returnValues(r)
		if idx >= len(rv) {
			return nil
		}
		if c15IsZero(rv[idx]) {
			nothing := false
			for j, o := range rv {
				if j == idx {
					continue
				}
				if kb, isConst := c15ConstBool(o); isConst && !kb {
					nothing = true
				}
				if an.TypeName(o.Type()) == "error" {
					if kc, isC := o.(*ssa.Const); !isC || !kc.IsNil() {
						nothing = true
					}
				}
			}
			if nothing {
				continue
			}
		}
		if out != nil && out != rv[idx] {
			return nil
		}
		out = rv[idx]
	}
	return out
}

// c15IsZero: v is the zero value of its type (a zero constant, or a copy of a local that is never written).
func c15IsZero(v ssa.Value) bool {
	switch x := an.Unwrap(v).(type) {
	case *ssa.Const:
		return x.Value == nil
	case *ssa.UnOp:
		if a, ok := x.X.(*ssa.Alloc); ok && x.Op == token.MUL {
			for _, ref := range *a.Referrers() {
				switch r := ref.(type) {
				case *ssa.DebugRef:
				case *ssa.UnOp:
					if r.Op != token.MUL {
						return false
					}
				default:
					return false
				}
			}
			return true
		}
	}
	return false
}

// cellVia is cellOf; via is the call of a function of the package through whose result the walk entered the
// function that owns the cell (nil when the cell was reached without crossing a result).
func (e *c15Env) cellVia(v ssa.Value) (cell *ssa.Alloc, via *ssa.Call) {
	for i := 0; i < 48 && v != nil; i++ {
		v = an.Unwrap(v)
		switch x := v.(type) {
		case *ssa.Alloc:
			s := c15UniqueStore(x)
			if s == nil || c15HasFieldWrites(x) {
				if via != nil && an.Orig(via.Call.StaticCallee()) != x.Parent() {
					via = nil
				}
				return x, via // assigned several times, built field by field, or modified after its initialisation
			}
			v = s
		case *ssa.Extract:
			k, isCall := x.Tuple.(*ssa.Call)
			if !isCall {
				e.lastStop = v
				return nil, nil
			}
			r := e.returned(k, x.Index)
			if r == nil {
				e.lastStop = v
				return nil, nil
			}
			v, via = r, k
		case *ssa.Call:
			r := e.returned(x, 0)
			if r == nil || x.Call.Signature().Results().Len() != 1 {
				e.lastStop = v
				return nil, nil
			}
			v, via = r, x
		case *ssa.FreeVar:
			v = c15Binding(x)
		case *ssa.UnOp:
			if x.Op != token.MUL {
				return nil, nil
			}
			if fa, ok := x.X.(*ssa.FieldAddr); ok {
				v = e.fieldInit(fa.X, fa.Field) // a struct kept in a field of a parameter object
			} else {
				v = x.X
			}
		case *ssa.Field:
			v = e.fieldInit(x.X, x.Field)
		case *ssa.FieldAddr:
			v = e.fieldInit(x.X, x.Field) // address of a struct kept in a field of a parameter object
		case *ssa.Parameter:
			v = e.argOf(x)
			if v == nil {
				e.lastStop = x
			}
		default:
			e.lastStop = v
			return nil, nil
		}
	}
	return nil, nil
}

// opaqueObject: the walk of cellOf ended at a value that may well be a parameter object built elsewhere (the
// result of a function of the package, a parameter of a function with several / unknown callers).
func (e *c15Env) opaqueObject(v ssa.Value) bool {
	switch x := v.(type) {
	case *ssa.Parameter:
		return true
	case *ssa.Extract:
		return e.opaqueObject(x.Tuple)
	case *ssa.Call:
		callee := x.Call.StaticCallee()
		return callee == nil || an.Orig(callee).Pkg == e.pkg
	case *ssa.Phi:
		return true
	}
	return false
}

// checkTraced is c.Check for an obligation decided by value tracing (origin / rooted / cellOf / fieldOf): when
// the trace failed and, since mark, ran into a field of a parameter object whose construction could not be
// followed (a struct of this package returned by a helper, handed on through a function with several callers),
// the value is unknown, not different: UNDECIDED.
func (e *c15Env) checkTraced(name string, pos token.Pos, ok bool, mark int, detail string) bool {
	if !ok && e.opaque > mark {
		e.c.Unsure(name, pos, "a value is read from a field of a parameter object of the package whose construction could not be followed (built in a helper / shared by several callers): "+detail)
		return false
	}
	return e.c.Check(name, pos, ok, detail)
}

func c15Deref(t types.Type) types.Type {
	if p, ok := t.Underlying().(*types.Pointer); ok {
		return p.Elem()
	}
	return t
}

func c15HasFieldWrites(a *ssa.Alloc) bool {
	for _, ref := range *a.Referrers() {
		if fa, ok := ref.(*ssa.FieldAddr); ok {
			for _, r2 := range *fa.Referrers() {
				if st, ok := r2.(*ssa.Store); ok && st.Addr == ssa.Value(fa) {
					return true
				}
			}
		}
	}
	return false
}

// c15StructInit collects the stores that give the fields of struct variable a their values: writes to
// a's own fields and – when a starts as a copy of a composite literal – the literal's field writes.
func c15StructInit(a *ssa.Alloc) map[string][]*ssa.Store {
	out := map[string][]*ssa.Store{}
	for d := 0; d < 4 && a != nil; d++ {
		for _, ref := range *a.Referrers() {
			if fa, ok := ref.(*ssa.FieldAddr); ok {
				k := an.FieldKey(fa.X.Type(), fa.Field)
				for _, r2 := range *fa.Referrers() {
					if st, ok := r2.(*ssa.Store); ok && st.Addr == ssa.Value(fa) {
						out[k] = append(out[k], st)
					}
				}
			}
		}
		var next *ssa.Alloc
		if s := c15UniqueStore(a); s != nil {
			if ld, ok := an.Unwrap(s).(*ssa.UnOp); ok && ld.Op == token.MUL {
				next, _ = ld.X.(*ssa.Alloc)
			}
		}
		a = next
	}
	return out
}

// rooted: v is root, or a field path / load / single-assignment local copy / captured variable /
// single-use-helper parameter of root.
func (e *c15Env) rooted(v, root ssa.Value) bool {
	for i := 0; i < 48 && v != nil; i++ {
		v = an.Unwrap(v)
		if v == root {
			return true
		}
		switch x := v.(type) {
		case *ssa.Field:
			if init := e.fieldInit(x.X, x.Field); init != nil {
				v = init
			} else {
				v = x.X
			}
		case *ssa.FieldAddr:
			if init := e.fieldInit(x.X, x.Field); init != nil {
				v = init
			} else {
				v = x.X
			}
		case *ssa.UnOp:
			if x.Op != token.MUL {
				return false
			}
			v = x.X
		case *ssa.FreeVar:
			v = c15Binding(x)
		case *ssa.Alloc:
			v = c15UniqueStore(x)
		case *ssa.Parameter:
			v = e.argOf(x)
		default:
			return false
		}
	}
	return false
}

// fieldOf: v reads field `name` of a value rooted at root.
func (e *c15Env) fieldOf(v ssa.Value, name string, root ssa.Value) bool {
	b, n, ok := c15FieldRead(v)
	if !ok {
		b, n, ok = c15FieldRead(e.originShallow(v))
	}
	return ok && n == name && e.rooted(b, root)
}

// fieldOfCell: v reads field `name` of the struct variable cell.
func (e *c15Env) fieldOfCell(v ssa.Value, name string, cell *ssa.Alloc) bool {
	b, n, ok := c15FieldRead(v)
	if !ok {
		b, n, ok = c15FieldRead(e.originShallow(v))
	}
	return ok && n == name && cell != nil && e.cellOf(b) == cell
}

// c15Local looks through conversions and loads of single-assignment locals (`x := e; ... x`).
func c15Local(v ssa.Value) ssa.Value {
	for i := 0; i < 16; i++ {
		v = an.Unwrap(v)
		ld, ok := v.(*ssa.UnOp)
		if !ok || ld.Op != token.MUL {
			return v
		}
		a, ok := ld.X.(*ssa.Alloc)
		if !ok {
			return v
		}
		s := c15UniqueStore(a)
		if s == nil {
			return v
		}
		v = s
	}
	return v
}

// c15FieldRead decodes a read of a struct field: *(&base.f) or base.f. name is the bare field name.
func c15FieldRead(v ssa.Value) (base ssa.Value, name string, ok bool) {
	switch x := c15Local(v).(type) {
	case *ssa.UnOp:
		if x.Op == token.MUL {
			if fa, ok := x.X.(*ssa.FieldAddr); ok {
				k := an.FieldKey(fa.X.Type(), fa.Field)
				return fa.X, k[strings.LastIndex(k, ".")+1:], true
			}
		}
	case *ssa.Field:
		k := an.FieldKey(x.X.Type(), x.Field)
		return x.X, k[strings.LastIndex(k, ".")+1:], true
	}
	return nil, "", false
}

// c15Static returns the call if v is a call of the named static function.
func c15Static(v ssa.Value, name string) *ssa.Call {
	call, ok := c15Local(v).(*ssa.Call)
	if !ok || !an.Static(name)(&call.Call) {
		return nil
	}
	return call
}

// c15IsLoadOf: v is a load of alloc a.
func c15IsLoadOf(v ssa.Value, a *ssa.Alloc) bool {
	ld, ok := an.Unwrap(v).(*ssa.UnOp)
	return ok && ld.Op == token.MUL && ld.X == ssa.Value(a)
}

// c15CalleeFn resolves the function a call runs: the static callee, or the function literal a local /
// captured function variable was (once) assigned.
func c15CalleeFn(e *c15Env, k *ssa.Call) *ssa.Function {
	if k.Call.IsInvoke() {
		return nil
	}
	if f := k.Call.StaticCallee(); f != nil {
		return an.Orig(f)
	}
	if mc, ok := e.origin(k.Call.Value).(*ssa.MakeClosure); ok {
		f, _ := mc.Fn.(*ssa.Function)
		return f
	}
	return nil
}

// c15LoadThrough returns the load of variable a that v denotes, looking through conversions and copies
// kept in single-assignment locals (`prev := slot; ... prev`); nil when v is not such a read.
func c15LoadThrough(v ssa.Value, a *ssa.Alloc) *ssa.UnOp {
	ld, ok := c15Local(v).(*ssa.UnOp)
	if !ok || ld.Op != token.MUL || ld.X != ssa.Value(a) {
		return nil
	}
	return ld
}

// c15SelectFired returns the comparisons `index == state` of a select (the facts "this case fired").
func c15SelectFired(sel *ssa.Select, state int) []ssa.Value {
	var out []ssa.Value
	for _, ref := range *sel.Referrers() {
		ex, ok := ref.(*ssa.Extract)
		if !ok || ex.Index != 0 {
			continue
		}
		for _, r2 := range *ex.Referrers() {
			bin, ok := r2.(*ssa.BinOp)
			if !ok || bin.Op != token.EQL {
				continue
			}
			other := bin.Y
			if bin.Y == ssa.Value(ex) {
				other = bin.X
			}
			if n, ok := an.ConstInt(other); ok && n == int64(state) {
				out = append(out, bin)
			}
		}
	}
	return out
}

// c15AnyTrue: one of the values is known true on the path.
func c15AnyTrue(f *an.H15Facts, vs []ssa.Value) bool {
	for _, v := range vs {
		if k, ok := f.Known(v); ok && k {
			return true
		}
	}
	return false
}

// c15RecvOf: v is the value received by a select state; returns the select and the state index.
func c15RecvOf(v ssa.Value) (*ssa.Select, int) {
	ex, ok := v.(*ssa.Extract)
	if !ok {
		return nil, -1
	}
	sel, ok := ex.Tuple.(*ssa.Select)
	if !ok || ex.Index < 2 {
		return nil, -1
	}
	k, n := ex.Index-2, 0
	for i, st := range sel.States {
		if st.Dir == types.RecvOnly {
			if n == k {
				return sel, i
			}
			n++
		}
	}
	return nil, -1
}

// c15ElemOf is Loop.ElemOf made exact for index loops: the element must be indexed by the loop's own
// index variable (coll[0] inside the loop is not "the element being iterated").
func c15ElemOf(l *an.Loop, v ssa.Value) bool {
	if !l.ElemOf(v) {
		return false
	}
	var idx ssa.Value
	for _, in := range l.Header.Instrs {
		if iff, ok := in.(*ssa.If); ok {
			if bin, ok := iff.Cond.(*ssa.BinOp); ok && bin.Op == token.LSS {
				idx = bin.X
			}
		}
	}
	for i := 0; i < 16; i++ {
		switch x := c15Local(v).(type) {
		case *ssa.UnOp:
			v = x.X
		case *ssa.FieldAddr:
			v = x.X
		case *ssa.Field:
			v = x.X
		case *ssa.IndexAddr:
			return idx != nil && x.Index == idx
		case *ssa.Index:
			return idx != nil && x.Index == idx
		default:
			return true // map / channel range element: ElemOf is already exact
		}
	}
	return false
}

func c15SameLoop(fn *ssa.Function, a, b *ssa.BasicBlock) bool {
	la, lb := an.InnermostLoop(fn, a), an.InnermostLoop(fn, b)
	if la == nil || lb == nil {
		return la == nil && lb == nil
	}
	return la.Header == lb.Header
}

func c15ConstBool(v ssa.Value) (bool, bool) {
	k, ok := v.(*ssa.Const)
	if !ok || k.Value == nil || k.Value.Kind() != constant.Bool {
		return false, false
	}
	return constant.BoolVal(k.Value), true
}

// c15ParamT returns the only parameter of fn with the given (module-relative) type, or bails.
// Parameters are identified by type, never by name.
func c15ParamT(c *rt.Ctx, fn *ssa.Function, typ string) *ssa.Parameter {
	var out *ssa.Parameter
	for _, p := range fn.Params {
		if an.TypeName(p.Type()) == typ {
			if _, ptr := p.Type().(*types.Pointer); ptr {
				continue
			}
			if out != nil {
				c.Bail("%s: more than one parameter of type %s", an.FuncName(fn), typ)
			}
			out = p
		}
	}
	if out == nil {
		c.Bail("%s: no parameter of type %s", an.FuncName(fn), typ)
	}
	return out
}

// c15ArgT returns the only argument of the call with the given type (nil if none or several).
func c15ArgT(call *ssa.CallCommon, typ string) ssa.Value {
	var out ssa.Value
	for _, a := range call.Args {
		if _, ptr := a.Type().(*types.Pointer); !ptr && an.TypeName(a.Type()) == typ {
			if out != nil {
				return nil
			}
			out = a
		}
	}
	return out
}

// c15Arrivals walks fn and reports whether every feasible arrival at target satisfies good.
// decided is false when the walk exceeded its state budget.
func c15Arrivals(fn *ssa.Function, target ssa.Instruction, track []ssa.Value, trackPhi func(*ssa.Phi) bool, good func(f *an.H15Facts) bool) (all bool, decided bool) {
	w := &an.H15Walk{Fn: fn, Track: an.H15TrackSet(track), TrackPhi: trackPhi}
	all = true
	decided = w.Arrivals(target, func(f *an.H15Facts) bool {
		if !good(f) {
			all = false
			return false
		}
		return true
	})
	return all, decided
}

// c15CheckArrivals records the obligation "every feasible arrival at target satisfies good".
func c15CheckArrivals(c *rt.Ctx, name string, fn *ssa.Function, target ssa.Instruction, track []ssa.Value, good func(f *an.H15Facts) bool, detail string) bool {
	all, decided := c15Arrivals(fn, target, track, nil, good)
	if !decided {
		c.Unsure(name, target.Pos(), "too many paths to enumerate")
		return false
	}
	return c.Check(name, target.Pos(), all, detail)
}

// c15Atom is a boolean SSA value together with the truth value that establishes the rule's condition.
type c15Atom struct {
	v      ssa.Value
	want   bool
	opaque bool // result of a package helper that could not be summarised: knowing it on a path makes the path undecided
	// a flag-valued (enum) result of a helper: dyn decides, from what the path knows about the comparisons
	// of that result with constants (track), whether every return of the helper compatible with that
	// knowledge establishes the condition
	dyn   func(f *an.H15Facts) bool
	track []ssa.Value
}

func c15AtomVals(as []c15Atom) []ssa.Value {
	out := make([]ssa.Value, 0, len(as))
	for _, a := range as {
		if a.v != nil {
			out = append(out, a.v)
		}
		out = append(out, a.track...)
	}
	return out
}

// c15Holds: one of the atoms is known, on this path, to have its establishing truth value.
func c15Holds(f *an.H15Facts, as []c15Atom) bool {
	for _, a := range as {
		if a.dyn != nil {
			if a.dyn(f) {
				return true
			}
			continue
		}
		if k, known := f.Known(a.v); known && k == a.want && !a.opaque {
			return true
		}
	}
	return false
}

// c15Opaque: the path branched on the result of a helper that could not be summarised.
func c15Opaque(f *an.H15Facts, as []c15Atom) bool {
	for _, a := range as {
		if a.dyn != nil || a.v == nil {
			continue
		}
		if _, known := f.Known(a.v); known && a.opaque {
			return true
		}
	}
	return false
}

// c15Summ is the summary of one helper call for one condition: the helper's own atoms (found with the
// helper's parameters bound to this call's arguments) and, per return, whether every arrival there has
// an atom holding.
type c15Summ struct {
	e     *c15Env
	h     *ssa.Function
	call  ssa.CallInstruction
	inner []c15Atom
	find  func(fn *ssa.Function) []c15Atom
	depth int
}

// bind runs f with the helper's parameters bound to the arguments of the summarised call.
func (s *c15Summ) bind(f func()) {
	e := s.e
	if e.ctx == nil {
		e.ctx = map[*ssa.Function]ssa.CallInstruction{}
	}
	old, had := e.ctx[s.h]
	e.ctx[s.h] = s.call
	defer func() {
		if had {
			e.ctx[s.h] = old
		} else {
			delete(e.ctx, s.h)
		}
	}()
	f()
}

// returnsHold: every return of the helper whose result idx is compatible with pred (constants are tested,
// a result forwarded from a nested helper call is followed, anything else counts as compatible)
// establishes the condition; when the result is boolean, assume additionally narrows the path to those
// on which the returned value can have that truth value.
func (s *c15Summ) returnsHold(idx int, pred func(k constant.Value) bool, assume *bool) bool {
	ok := true
	s.bind(func() {
		for _, r := range an.Returns(s.h) {
			rvs := returnValues(r)
			if idx >= len(rvs) {
				ok = false
				return
			}
			rv := rvs[idx]
			if k, isConst := an.Unwrap(rv).(*ssa.Const); isConst && k.Value != nil {
				if !pred(k.Value) {
					continue
				}
			}
			all, decided := c15Arrivals(s.h, r, c15AtomVals(s.inner), nil, func(f *an.H15Facts) bool {
				g := f
				if assume != nil {
					if g = f.Assume(rv, *assume); g == nil {
						return true
					}
				}
				return c15Holds(g, s.inner)
			})
			if all && decided {
				continue
			}
			// `return nested(...)`: the nested helper decides
			if call2, j := s.e.tailResult(rv); call2 != nil && s.depth < 2 {
				if s2 := c15Summarise(s.e, call2, s.find, s.depth+1); s2 != nil && s2.returnsHold(j, pred, assume) {
					continue
				}
			}
			ok = false
			return
		}
	})
	return ok
}

// c15ReturnCands: when v is a result of a static call of a package helper, the non-constant values the
// helper can return there (through `return nested(...)` as well), each traced to its origin with the
// helper's parameters bound to the call's arguments.
func c15ReturnCands(e *c15Env, v ssa.Value, depth int, stop func(ssa.Value) bool) (cands []ssa.Value, viaHelper bool) {
	call, j := e.tailResult(v)
	if call == nil || depth > 2 {
		return nil, false
	}
	h := an.Orig(call.Call.StaticCallee())
	if len(h.Blocks) == 0 {
		return nil, false
	}
	s := &c15Summ{e: e, h: h, call: call}
	s.bind(func() {
		for _, r := range an.Returns(h) {
			rvs := returnValues(r)
			if j >= len(rvs) {
				continue
			}
			if _, isConst := an.Unwrap(rvs[j]).(*ssa.Const); isConst {
				continue
			}
			o := e.origin(rvs[j])
			if stop != nil && stop(o) {
				cands = append(cands, o)
				continue
			}
			if more, via := c15ReturnCands(e, o, depth+1, stop); via {
				cands = append(cands, more...)
				continue
			}
			cands = append(cands, o)
		}
	})
	return cands, true
}

// tailResult decodes v as result j of a static call of a package function made in the same function.
func (e *c15Env) tailResult(v ssa.Value) (*ssa.Call, int) {
	v = c15Local(v)
	j := 0
	if ex, ok := v.(*ssa.Extract); ok {
		v, j = ex.Tuple, ex.Index
	}
	call, ok := v.(*ssa.Call)
	if !ok || call.Call.IsInvoke() || call.Call.StaticCallee() == nil || an.Orig(call.Call.StaticCallee()).Pkg != e.pkg {
		return nil, 0
	}
	return call, j
}

// c15Summarise prepares the summary of a static call of a package helper; nil when the helper has none of
// the condition's atoms (or cannot be looked into).
func c15Summarise(e *c15Env, call *ssa.Call, find func(fn *ssa.Function) []c15Atom, depth int) *c15Summ {
	if call.Call.IsInvoke() || call.Call.StaticCallee() == nil {
		return nil
	}
	h := an.Orig(call.Call.StaticCallee())
	if h.Pkg != e.pkg || len(h.Blocks) == 0 || h == call.Parent() || depth > 2 {
		return nil
	}
	s := &c15Summ{e: e, h: h, call: call, find: find, depth: depth}
	s.bind(func() { s.inner = c15Atoms(e, h, find, depth+1) })
	if len(s.inner) == 0 {
		// no atoms of its own: still of interest when it forwards the results of a nested helper that has
		// (`return validate(...)`); returnsHold then lets the nested helper decide
		forwards := false
		s.bind(func() {
			for _, r := range an.Returns(h) {
				for _, rv := range returnValues(r) {
					if call2, _ := e.tailResult(rv); call2 != nil && call2.Parent() == h && c15Summarise(e, call2, find, depth+1) != nil {
						forwards = true
					}
				}
			}
		})
		if !forwards {
			return nil
		}
	}
	return s
}

// c15Atoms returns the condition's atoms in fn (find) and adds, for each call of a helper of the package
// that contains atoms of its own, what the helper's results tell about the condition: the helper is looked
// at with its parameters bound to this call's arguments (so a helper shared by several callers is followed
// per call), and a result establishes the condition when every return that can yield it lies on paths on
// which an atom holds. Boolean results (alone or among several results) give a static atom "result is
// true / false"; flag-valued results (`verdict`, `mode`) give a dynamic atom evaluated from the
// comparisons with constants known on the path. This is how a test survives being moved into
// `func (s *T) isX(...) bool`, `func check(...) (T, bool, error)` or `func classify(...) verdict`.
func c15Atoms(e *c15Env, fn *ssa.Function, find func(fn *ssa.Function) []c15Atom, depth int) []c15Atom {
	out := find(fn)
	if depth > 2 {
		return out
	}
	for _, in := range an.Instrs(fn, false) {
		call, ok := in.(*ssa.Call)
		if !ok || call.Call.StaticCallee() == nil || call.Call.IsInvoke() {
			continue
		}
		h := an.Orig(call.Call.StaticCallee())
		if h.Pkg != e.pkg || h == fn {
			continue
		}
		res := h.Signature.Results()
		flagged := false
		for i := 0; i < res.Len(); i++ {
			if b, isB := res.At(i).Type().Underlying().(*types.Basic); isB && b.Info()&(types.IsBoolean|types.IsInteger) != 0 {
				flagged = true
			}
		}
		if !flagged {
			continue
		}
		s := c15Summarise(e, call, find, depth)
		if s == nil {
			continue
		}
		hasOpaque := false
		for _, a := range s.inner {
			if a.opaque {
				hasOpaque = true
			}
		}
		summarised := false
		for i := 0; i < res.Len(); i++ {
			b, isB := res.At(i).Type().Underlying().(*types.Basic)
			if !isB {
				continue
			}
			// the caller's view of result i
			var vi ssa.Value = call
			if res.Len() > 1 {
				vi = nil
				for _, ref := range *call.Referrers() {
					if ex, isEx := ref.(*ssa.Extract); isEx && ex.Index == i {
						vi = ex
					}
				}
			}
			if vi == nil {
				continue
			}
			switch {
			case b.Info()&types.IsBoolean != 0:
				for _, pol := range []bool{true, false} {
					pol := pol
					if s.returnsHold(i, func(k constant.Value) bool { return k.Kind() == constant.Bool && constant.BoolVal(k) == pol }, &pol) {
						out = append(out, c15Atom{v: vi, want: pol})
						summarised = true
						break
					}
				}
			case b.Info()&types.IsInteger != 0:
				// comparisons of the flag with constants in the caller
				type cmp struct {
					bin *ssa.BinOp
					k   constant.Value
				}
				var cmps []cmp
				var track []ssa.Value
				for _, in2 := range an.Instrs(fn, false) {
					bin, isBin := in2.(*ssa.BinOp)
					if !isBin || (bin.Op != token.EQL && bin.Op != token.NEQ) {
						continue
					}
					x, y := bin.X, bin.Y
					if _, isC := an.Unwrap(x).(*ssa.Const); isC {
						x, y = y, x
					}
					kc, isC := an.Unwrap(y).(*ssa.Const)
					if !isC || kc.Value == nil || c15Local(x) != vi {
						continue
					}
					cmps = append(cmps, cmp{bin, kc.Value})
					track = append(track, bin)
				}
				if len(cmps) == 0 {
					continue
				}
				cache := map[string]bool{}
				idx := i
				out = append(out, c15Atom{track: track, dyn: func(f *an.H15Facts) bool {
					key, any := "", false
					type fact struct {
						k     constant.Value
						equal bool
					}
					var facts []fact
					for _, cm := range cmps {
						kv, known := f.Known(cm.bin)
						if !known {
							key += "?"
							continue
						}
						any = true
						eq := kv == (cm.bin.Op == token.EQL)
						facts = append(facts, fact{cm.k, eq})
						if eq {
							key += "="
						} else {
							key += "!"
						}
					}
					if !any {
						return false
					}
					if r, ok := cache[key]; ok {
						return r
					}
					r := s.returnsHold(idx, func(k constant.Value) bool {
						for _, ft := range facts {
							if constant.Compare(k, token.EQL, ft.k) != ft.equal {
								return false
							}
						}
						return true
					}, nil)
					cache[key] = r
					return r
				}})
				summarised = true
			}
		}
		if !summarised && hasOpaque {
			out = append(out, c15Atom{v: call, opaque: true})
		}
	}
	return out
}

// c15CheckHolds records the obligation "on every feasible arrival at target one of the atoms holds".
func c15CheckHolds(c *rt.Ctx, name string, fn *ssa.Function, target ssa.Instruction, atoms []c15Atom, detail string) bool {
	opaque := false
	all, decided := c15Arrivals(fn, target, c15AtomVals(atoms), nil, func(f *an.H15Facts) bool {
		if c15Holds(f, atoms) {
			return true
		}
		if c15Opaque(f, atoms) {
			opaque = true
		}
		return false
	})
	if !decided {
		c.Unsure(name, target.Pos(), "too many paths to enumerate")
		return false
	}
	if !all && opaque {
		c.Unsure(name, target.Pos(), "the deciding test sits in a helper shared by several callers; it cannot be tied to this call's arguments")
		return false
	}
	return c.Check(name, target.Pos(), all, detail)
}

// c15Triggers finds the functions that call the duty subscribers, split into those reachable only
// from scheduleSlot (the trigger goroutine and its helpers) and the others.
func c15Triggers(c *rt.Ctx, e *c15Env) (sched *ssa.Function, inside, outside []*ssa.Function) {
	sched = c.Fn(c15P + ".Scheduler.scheduleSlot")
	own := e.owned(sched)
	for _, fn := range e.funcs {
		if len(an.Calls(fn, e.subCall(), false)) == 0 {
			continue
		}
		if own[fn] {
			inside = append(inside, fn)
		} else {
			outside = append(outside, fn)
		}
	}
	return sched, inside, outside
}

func c15OneTrigger(c *rt.Ctx, e *c15Env) (sched, trig *ssa.Function) {
	sched, inside, _ := c15Triggers(c, e)
	if len(inside) == 0 {
		c.Bail("no call through %s in scheduleSlot, its function literals or its single-use helpers", c15Subs)
	}
	if len(inside) > 1 {
		c.Bail("duty subscribers are called from more than one function under scheduleSlot")
	}
	return sched, inside[0]
}

// ---------------------------------------------------------------------------------------------

// Formulation (h15 hardening). Every "guard before effect" obligation of this file is decided by the
// path-sensitive fact walker an.H15Walk: "on every feasible arrival at the effect, one of the guard's
// atoms is known to hold", where an atom is a resolved SSA condition (a call result, a comma-ok flag, a
// comparison with given operand provenance, "this select case fired") and what is known on a path comes
// from the branches taken – through negations, named booleans (phis decided by the edge entered),
// `x == false` spellings, switch chains and nil/len forms. Nothing depends on block shapes, polarity,
// loop form, parameter or variable names. Values and control are followed across functions that have
// exactly one static use (extracted methods, function literals, pass-through helpers): parameters are
// substituted by the arguments of that use (c15Env.origin / rooted / cellOf), boolean helpers are
// summarised by their own atoms (c15Atoms, c15GuardFns), error-returning helpers by "nil result implies
// the inner call returned nil" (c15NilReturnImplies). Where a construct cannot be followed the
// obligation is reported UNDECIDED (c.Unsure), never as a violation.
//
// Minimum instance counts are the counts confirmed on the pinned tree, except U6 (5 on the pinned tree):
// merging the two setResolvedEpoch sites of resolveDuties into one is behaviour-preserving and leaves 3.
func c15(c *rt.Ctx) {
	c.Rule("U1", 16, func() { c15U1(c) })
	c.Rule("U2", 7, func() { c15U2(c) }) // 9 on the pinned tree; each wait function written single-exit has one `return true` site less
	c.Rule("U3", 32, func() { c15U3(c) })
	c.Rule("U4", 23, func() { c15U4(c) })
	c.Rule("U5", 1, func() { c15U5(c) })
	c.Rule("U6", 3, func() { c15U6(c) })
}

// ---------------------------------------------------------------------------------------------
// U1 who triggers, how often

// c15DutyCell resolves the duty handed to a subscriber call to the struct variable it was built in.
func c15DutyCell(e *c15Env, sink ssa.CallInstruction) *ssa.Alloc {
	a := c15ArgT(sink.Common(), "core.Duty")
	if a == nil {
		return nil
	}
	return e.cellOf(a)
}

// c15DefSetSource resolves the definition set behind a subscriber call's argument: the receiver of
// the Clone() that produced it (or the argument itself when it is not a clone), traced up to its origin.
func c15DefSetSource(e *c15Env, sink ssa.CallInstruction) ssa.Value {
	a := c15ArgT(sink.Common(), "core.DutyDefinitionSet")
	if a == nil {
		return nil
	}
	v := e.origin(a)
	if call, idx := e.resultOf(a); call != nil && idx == 0 && an.Static("core.DutyDefinitionSet.Clone")(&call.Call) {
		v = e.origin(call.Call.Args[0])
	}
	return v
}

func c15U1(c *rt.Ctx) {
	e := c15NewEnv(c)
	sched, inside, outside := c15Triggers(c, e)
	run := c.Fn(c15P + ".Scheduler.Run")
	subscribe := c.Fn(c15P + ".Scheduler.SubscribeDuties")
	slotP := c15ParamT(c, sched, "core.Slot")
	own := e.owned(sched)

	// (a) every use of the dutySubs field is the registration or the trigger goroutine
	for _, fn := range e.funcs {
		var first ssa.Instruction
		for _, in := range an.Instrs(fn, false) {
			switch x := in.(type) {
			case *ssa.FieldAddr:
				if an.FieldKey(x.X.Type(), x.Field) == c15Subs && first == nil {
					first = in
				}
			case *ssa.Field:
				if an.FieldKey(x.X.Type(), x.Field) == c15Subs && first == nil {
					first = in
				}
			}
		}
		if first == nil {
			continue
		}
		calls := false
		for _, o := range outside {
			if o == fn {
				calls = true
			}
		}
		switch {
		case fn == subscribe || own[fn]:
			c.Good(an.FuncName(fn)+" uses dutySubs", posOf(first), "")
		case calls:
			c.Bad(an.FuncName(fn)+" uses dutySubs", posOf(first),
				"duty subscribers are called outside the trigger goroutine of scheduleSlot: duties can be triggered from a second place")
		case c15OnlyMeasured(fn, c15Subs):
			c.Good(an.FuncName(fn)+" uses dutySubs", posOf(first), "only len/cap of the list is taken")
		default:
			c.Unsure(an.FuncName(fn)+" uses dutySubs", posOf(first), "the duty subscriber list is read outside SubscribeDuties and the trigger goroutine; cannot tell whether its elements are called")
		}
	}
	if len(inside) == 0 {
		c.Bail("no call through %s in scheduleSlot, its function literals or its single-use helpers", c15Subs)
	}
	if len(inside) > 1 {
		c.Unsure("scheduleSlot trigger start", inside[1].Pos(), "duty subscribers are called from more than one function under scheduleSlot")
		return
	}
	trig := inside[0]

	// (b) the trigger function is started exactly once, per duty type of the ticked slot
	if e.leaks[trig] || len(e.calls[trig]) == 0 {
		c.Unsure("scheduleSlot trigger start", trig.Pos(), "the trigger function is used as a value; cannot tell where it is started")
		return
	}
	c.Check("scheduleSlot trigger started once", e.calls[trig][0].Pos(), len(e.calls[trig]) == 1,
		fmt.Sprintf("the trigger function is started from %d sites: a duty is triggered more than once", len(e.calls[trig])))
	chain := e.chain(trig, sched)
	if len(chain) == 0 {
		if len(e.calls[trig]) == 1 {
			c.Unsure("scheduleSlot trigger start", trig.Pos(), "the trigger function is not reached from scheduleSlot through single-use helpers")
		}
		return
	}
	for _, s := range chain[:len(chain)-1] {
		// a helper between scheduleSlot and the subscriber call may only loop over the subscribers
		if l := an.InnermostLoop(s.Parent(), s.Block()); l != nil {
			coll := l.RangeColl()
			if coll == nil || !c15IsFieldColl(coll, c15Subs) {
				c.Unsure("scheduleSlot trigger start", s.Pos(), "a helper on the way to the subscribers is called from a loop; cannot tell how often a duty is triggered")
				return
			}
		}
	}
	st := chain[len(chain)-1]
	loops := an.LoopsContaining(sched, st.Block())
	var l *an.Loop
	if len(loops) > 0 {
		l = loops[0]
	}
	perType := len(loops) == 1 && l.RangeColl() != nil && c15Static(l.RangeColl(), "core.AllDutyTypes") != nil
	loopUnknown := len(loops) > 1 || (l != nil && l.RangeColl() == nil)
	if !perType && loopUnknown {
		c.Unsure("scheduleSlot trigger per duty type", st.Pos(), "the loop around the trigger start is not a recognised iteration over a collection")
	} else {
		c.Check("scheduleSlot trigger per duty type", st.Pos(), perType, "the trigger is not started from (exactly) the loop over core.AllDutyTypes()")
	}
	sinks := an.Calls(trig, e.subCall(), false)
	for _, sink := range sinks {
		// duty = core.Duty{Slot: slot.Slot, Type: <element of core.AllDutyTypes()>}, built in this iteration
		lit := c15DutyCell(e, sink)
		// the duty is built in scheduleSlot or in a single-use helper on the way from it to the trigger (the
		// body of the duty-type loop extracted into a method): litSite is the start of the next link there
		var litSite ssa.Instruction
		if lit != nil {
			for _, cs := range chain {
				if cs.Parent() == lit.Parent() {
					litSite = cs
				}
			}
		}
		if lit == nil || litSite == nil {
			c.Unsure("scheduleSlot trigger duty", sink.Pos(), "the duty handed to subscribers cannot be traced to a duty value built in scheduleSlot")
			continue
		}
		fields := map[string]ssa.Value{}
		shape := true
		for k, sts := range c15StructInit(lit) {
			if len(sts) != 1 || !an.Dominates(sts[0], litSite) {
				shape = false
				continue
			}
			fields[k] = sts[0].Val
		}
		for _, ref := range *lit.Referrers() {
			switch r := ref.(type) {
			case *ssa.FieldAddr, *ssa.UnOp, *ssa.DebugRef:
			case *ssa.Store:
				if r.Addr != ssa.Value(lit) {
					shape = false
				}
			case *ssa.MakeClosure:
				if f, _ := r.Fn.(*ssa.Function); f == nil || !own[f] {
					shape = false
				}
			default:
				shape = false
			}
		}
		if !shape || len(fields) == 0 {
			c.Unsure("scheduleSlot trigger duty", sink.Pos(), "the duty value is modified, escapes or is not initialised field by field before the trigger starts")
			continue
		}
		tv := fields["core.Duty.Type"]
		if perType || !loopUnknown {
			// a duty built in a helper is a fresh variable per call; the helper's call chain starts in the loop (st)
			inIter := lit.Parent() != sched || (l != nil && l.Body[lit.Block()])
			if tv != nil && lit.Parent() != sched {
				tv = e.origin(tv) // the helper's duty-type parameter: the argument handed in by scheduleSlot
			}
			c.Check("scheduleSlot trigger duty type", st.Pos(), perType && tv != nil && inIter && c15ElemOf(l, tv),
				"the type of the triggered duty is not the loop's duty type: several iterations trigger the same duty")
		}
		sv := fields["core.Duty.Slot"]
		c.Check("scheduleSlot trigger duty slot", st.Pos(), sv != nil && e.fieldOf(sv, "Slot", slotP),
			"the slot of the triggered duty is not the ticked slot")
		// definition set = getDutyDefinitionSet(same duty), present
		good, why := false, "the definition set handed to subscribers is not the result of getDutyDefinitionSet for the same duty"
		src := c15DefSetSource(e, sink)
		isGet := false
		if ex, ok := src.(*ssa.Extract); ok && ex.Index == 0 {
			if get, ok := ex.Tuple.(*ssa.Call); ok && an.Static(c15P+".Scheduler.getDutyDefinitionSet")(&get.Call) {
				isGet = true
			}
		}
		if _, isMake := src.(*ssa.MakeMap); !isGet && !isMake {
			// neither the stored set nor an obviously different one: e.g. the lookup was inlined
			c.Unsure("scheduleSlot trigger definition set", st.Pos(), "the definition set handed to subscribers cannot be traced to getDutyDefinitionSet")
			continue
		}
		if ex, ok := src.(*ssa.Extract); ok && ex.Index == 0 {
			if get, ok := ex.Tuple.(*ssa.Call); ok && own[get.Parent()] && an.Static(c15P+".Scheduler.getDutyDefinitionSet")(&get.Call) {
				// the lookup sits in scheduleSlot or in a single-use helper on the way to the trigger: the start
				// of the trigger in that function must be reached only with the presence flag set
				var startAt ssa.Instruction
				for _, cs := range chain {
					if cs.Parent() == get.Parent() {
						startAt = cs
					}
				}
				if startAt == nil {
					c.Unsure("scheduleSlot trigger definition set", st.Pos(), "the definition set is looked up in a function that is not on the way from scheduleSlot to the trigger")
					continue
				}
				if d := c15ArgT(&get.Call, "core.Duty"); d != nil && e.cellOf(d) == lit {
					_, okv := an.StatusOf(get, 1)
					if okv == nil {
						why = "the presence flag of getDutyDefinitionSet is discarded"
					} else {
						all, decided := c15Arrivals(get.Parent(), startAt, []ssa.Value{okv}, nil, func(f *an.H15Facts) bool {
							k, known := f.Known(okv)
							return known && k
						})
						if !decided {
							c.Unsure("scheduleSlot trigger definition set", st.Pos(), "too many paths to enumerate")
							continue
						}
						good, why = all, "the trigger is started on a path where getDutyDefinitionSet did not report a definition set for the duty"
					}
				}
			}
		}
		c.Check("scheduleSlot trigger definition set", st.Pos(), good, why)
	}

	// (c) scheduleSlot is invoked once per value received from the slot ticker
	if e.leaks[sched] {
		c.Unsure("scheduleSlot invocation", sched.Pos(), "scheduleSlot is used as a value")
	} else {
		if len(e.calls[sched]) == 0 {
			c.Bail("scheduleSlot is never called")
		}
		up := e.chain(sched, run)
		for i, s := range e.calls[sched] {
			name := fmt.Sprintf("%s invokes scheduleSlot#%d", an.FuncName(s.Parent()), i+1)
			_, plain := s.(*ssa.Call)
			if !c.Check(name, s.Pos(), len(e.calls[sched]) == 1 && plain && len(up) > 0,
				"scheduleSlot must be invoked synchronously from exactly one site (Run's ticker case, directly or through a single-use helper); a second invocation triggers the slot's duties again") {
				continue
			}
			// the slot is the value received from the ticker channel: in a select case or by a plain receive,
			// in Run or in a helper that only Run (transitively) uses
			got := e.origin(c15ArgT(s.Common(), "core.Slot"))
			var ch ssa.Value
			var at *ssa.BasicBlock
			if sel, state := c15RecvOf(got); sel != nil {
				ch, at = sel.States[state].Chan, sel.Block()
			} else {
				if ex, ok := got.(*ssa.Extract); ok && ex.Index == 0 {
					got = ex.Tuple
				}
				if rcv, ok := got.(*ssa.UnOp); ok && rcv.Op == token.ARROW {
					ch, at = rcv.X, rcv.Block()
				}
			}
			if ch == nil || (at.Parent() != run && !e.owned(run)[at.Parent()]) {
				c.Unsure("Run scheduleSlot argument", s.Pos(), "the slot scheduled cannot be traced to a channel receive in Run")
				continue
			}
			// the calls leading from the receiving function down to scheduleSlot: synchronous, not repeated
			k := -1
			for i, h := range up {
				if h.Parent() == at.Parent() {
					k = i
				}
			}
			if k < 0 {
				c.Unsure("Run scheduleSlot argument", s.Pos(), "the receive from the ticker is not on the call chain from Run to scheduleSlot")
				continue
			}
			fromTicker, sameIter, looped := false, true, false
			for i, h := range up[:k+1] {
				if _, plain := h.(*ssa.Call); !plain {
					sameIter = false
				}
				if i < k && an.InnermostLoop(h.Parent(), h.Block()) != nil {
					looped = true
				}
			}
			if call, idx := e.resultOf(ch); call != nil && idx == 0 && an.Static(c15P+".newSlotTicker")(&call.Call) {
				fromTicker = true // directly, or through a single-use helper that returns newSlotTicker's results
			}
			if looped && fromTicker && sameIter {
				c.Unsure("Run scheduleSlot argument", s.Pos(), "a helper between the ticker receive and scheduleSlot calls on from inside a loop; cannot tell how often a tick is scheduled")
				continue
			}
			sameIter = sameIter && c15SameLoop(at.Parent(), at, up[k].Block())
			c.Check("Run scheduleSlot argument", s.Pos(), fromTicker && sameIter,
				"the slot scheduled is not the value just received from newSlotTicker's channel (one scheduleSlot per tick)")
		}
	}

	// (d) the ticker: wait for slot start, emit, advance
	c15Ticker(c, e)
}

// c15OnlyMeasured: every load of the named field in fn feeds only len()/cap() (or nothing), and the field is not stored to.
func c15OnlyMeasured(fn *ssa.Function, key string) bool {
	for _, in := range an.Instrs(fn, false) {
		var loads []ssa.Value
		switch x := in.(type) {
		case *ssa.FieldAddr:
			if an.FieldKey(x.X.Type(), x.Field) != key {
				continue
			}
			for _, ref := range *x.Referrers() {
				if ld, ok := ref.(*ssa.UnOp); ok && ld.Op == token.MUL {
					loads = append(loads, ld)
				} else if _, dbg := ref.(*ssa.DebugRef); !dbg {
					return false
				}
			}
		case *ssa.Field:
			if an.FieldKey(x.X.Type(), x.Field) != key {
				continue
			}
			loads = append(loads, x)
		default:
			continue
		}
		for _, ld := range loads {
			for _, ref := range *ld.Referrers() {
				if _, dbg := ref.(*ssa.DebugRef); dbg {
					continue
				}
				call, ok := ref.(*ssa.Call)
				if !ok {
					return false
				}
				b, ok := call.Call.Value.(*ssa.Builtin)
				if !ok || (b.Name() != "len" && b.Name() != "cap") {
					return false
				}
			}
		}
	}
	return true
}

// c15IsFieldColl: coll is (a local copy of) the named struct field.
func c15IsFieldColl(coll ssa.Value, key string) bool {
	k, _, ok := an.FieldOf(c15Local(coll))
	return ok && k == key
}

func c15Ticker(c *rt.Ctx, e *c15Env) {
	tick := c.Fn(c15P + ".newSlotTicker")
	type emit struct {
		sel   *ssa.Select
		state int
	}
	var emits []emit
	plain := 0
	for _, fn := range e.ownedList(tick) {
		for _, in := range an.Instrs(fn, false) {
			switch x := in.(type) {
			case *ssa.Send:
				if an.TypeName(x.X.Type()) == "core.Slot" {
					plain++
				}
			case *ssa.Select:
				for i, st := range x.States {
					if st.Dir == types.SendOnly && an.TypeName(st.Send.Type()) == "core.Slot" {
						emits = append(emits, emit{x, i})
					}
				}
			}
		}
	}
	if len(emits) == 0 && plain == 0 {
		c.Bail("newSlotTicker: no emission of a core.Slot found")
	}
	if plain > 0 || len(emits) != 1 {
		if len(emits)+plain > 1 {
			c.Unsure("newSlotTicker single emission", tick.Pos(), fmt.Sprintf("%d emission sites; only a single select-send emission is analysed", len(emits)+plain))
		} else {
			c.Unsure("newSlotTicker single emission", tick.Pos(), "emission is not a select send; shape not analysed")
		}
		return
	}
	sel, state := emits[0].sel, emits[0].state
	c.Good("newSlotTicker single emission", sel.Pos(), "")
	// the ticker's slot variable: the variable whose value is sent – directly, or handed to a single-use
	// helper that does the send (`deliverSlot(ctx, resp, slot)`)
	cur := e.cellOf(sel.States[state].Send)
	if cur == nil {
		c.Unsure("newSlotTicker slot variable", sel.Pos(), "emitted value is not the ticker's slot variable")
		return
	}
	fn := cur.Parent()
	// emitAt: the emission as seen in the loop function (the select, or the call of the helper around it);
	// sentFacts: the values whose truth means "the slot has just been sent"
	var emitAt ssa.Instruction = sel
	sentFacts := c15SelectFired(sel, state)
	if len(sentFacts) == 0 {
		c.Unsure("newSlotTicker emission edge", sel.Pos(), "cannot find the branch taken after the send")
		return
	}
	if sel.Parent() != fn {
		chain := e.chain(sel.Parent(), fn)
		if len(chain) == 0 {
			c.Unsure("newSlotTicker emission edge", sel.Pos(), "the send sits in a helper that is not reached from the ticker loop through single uses")
			return
		}
		emitAt = chain[len(chain)-1]
		inner := sentFacts
		atoms := c15Atoms(e, fn, func(h *ssa.Function) []c15Atom {
			var out []c15Atom
			if h == sel.Parent() {
				for _, v := range inner {
					out = append(out, c15Atom{v: v, want: true})
				}
			}
			return out
		}, 0)
		sentFacts = nil
		for _, a := range atoms {
			if a.v != nil && a.want && !a.opaque && a.dyn == nil {
				if in, isIn := a.v.(ssa.Instruction); isIn && in.Parent() == fn {
					sentFacts = append(sentFacts, a.v)
				}
			}
		}
		if len(sentFacts) == 0 {
			c.Unsure("newSlotTicker emission edge", emitAt.Pos(), "the helper that sends the slot does not report (by a true result) that the slot was sent")
			return
		}
	}
	// the wait for the slot's start time (in the loop itself or in a single-use boolean helper)
	findWait := func(h *ssa.Function) []c15Atom {
		var out []c15Atom
		for _, in := range an.Instrs(h, false) {
			ws, ok := in.(*ssa.Select)
			if !ok {
				continue
			}
			for i, st := range ws.States {
				if st.Dir != types.RecvOnly {
					continue
				}
				after, ok := c15Local(st.Chan).(*ssa.Call)
				if !ok || !an.Invoke("github.com/jonboulle/clockwork.Clock.After")(&after.Call) {
					continue
				}
				sub := c15Static(after.Call.Args[0], "time.Time.Sub")
				if sub == nil {
					continue
				}
				b, n, ok := c15FieldRead(sub.Call.Args[0])
				now, isNow := c15Local(sub.Call.Args[1]).(*ssa.Call)
				if ok && n == "Time" && e.cellOf(b) == cur && isNow && an.Invoke("github.com/jonboulle/clockwork.Clock.Now")(&now.Call) {
					for _, v := range c15SelectFired(ws, i) {
						out = append(out, c15Atom{v: v, want: true})
					}
				}
			}
		}
		return out
	}
	waitAtoms := c15Atoms(e, fn, findWait, 0)
	var waitFacts []ssa.Value
	for _, a := range waitAtoms {
		if a.want {
			waitFacts = append(waitFacts, a.v)
		}
	}
	if len(waitFacts) == 0 {
		// a scheduler-package helper that is handed the slot may hide the wait: undecided, not a violation
		for _, in := range an.Instrs(fn, false) {
			call, ok := in.(*ssa.Call)
			if !ok || call.Call.StaticCallee() == nil || call.Call.StaticCallee().Pkg != e.pkg {
				continue
			}
			for _, a := range call.Call.Args {
				if an.TypeName(a.Type()) == "core.Slot" && e.cellOf(a) == cur {
					if h := an.Orig(call.Call.StaticCallee()); e.site(h) == ssa.CallInstruction(call) && len(findWait(h)) > 0 {
						c.Bad("newSlotTicker emission after slot start", call.Pos(), "the helper that waits for the slot's start time can report success without the wait having fired")
						return
					}
					c.Unsure("newSlotTicker emission after slot start", call.Pos(), "the slot is handed to a helper whose waiting behaviour could not be summarised")
					return
				}
			}
		}
		c.Bad("newSlotTicker emission after slot start", sel.Pos(), "no wait clock.After(slot.Time.Sub(clock.Now())) for the ticker's slot found")
		return
	}
	track := append(append([]ssa.Value{}, sentFacts...), waitFacts...)
	// facts of the current iteration only: the walker forgets loop-body values on the back edge, so
	// "the wait fired" at the emission means it fired in this iteration.
	waited := func(f *an.H15Facts) bool { return c15AnyTrue(f, waitFacts) }
	justSent := func(f *an.H15Facts) bool { return c15AnyTrue(f, sentFacts) }
	c15CheckArrivals(c, "newSlotTicker emission after slot start", fn, emitAt, track, waited,
		"the emission is not preceded by the wait clock.After(slot.Time.Sub(clock.Now())) for the emitted slot")
	// assignments of the slot variable
	var advances []*ssa.Store
	var initCallee ssa.Value
	inLoop := func(b *ssa.BasicBlock) bool { return an.InnermostLoop(fn, b) != nil }
	var stores []*ssa.Store
	for _, ref := range *cur.Referrers() {
		switch r := ref.(type) {
		case *ssa.Store:
			if r.Addr == ssa.Value(cur) {
				stores = append(stores, r)
			} else {
				c.Unsure("newSlotTicker slot variable", posOf(r), "address of the slot variable is stored")
				return
			}
		case *ssa.UnOp, *ssa.DebugRef:
		case *ssa.FieldAddr:
			for _, r2 := range *r.Referrers() {
				if _, isLoad := r2.(*ssa.UnOp); !isLoad {
					if _, isDbg := r2.(*ssa.DebugRef); !isDbg {
						c.Bad("newSlotTicker slot assignment", posOf(r2), "a field of the ticker's slot is written directly")
						return
					}
				}
			}
		default:
			c.Unsure("newSlotTicker slot variable", posOf(ref.(ssa.Instruction)), "slot variable escapes")
			return
		}
	}
	for _, st := range stores {
		if !inLoop(st.Block()) {
			if call, ok := c15Local(st.Val).(*ssa.Call); ok {
				initCallee = call.Call.Value
			}
		}
	}
	for _, st := range stores {
		if next := c15Static(st.Val, "core.Slot.Next"); next != nil && c15LoadThrough(next.Call.Args[0], cur) != nil {
			advances = append(advances, st)
			c15CheckArrivals(c, "newSlotTicker advance after emission", fn, st, track, justSent,
				"slot = slot.Next() is executed on a path that has not just emitted the slot (a slot is emitted for a time that was not waited for)")
			// the successor is computed from the slot that was emitted: the read of the slot variable that
			// feeds Next() must not be separated from this assignment by another assignment of the variable
			// (a resync to the clock's current slot). Otherwise the resync is undone: after a missed tick the
			// ticker falls behind again and emits the catch-up slot once per slot it had skipped.
			ld := c15LoadThrough(next.Call.Args[0], cur)
			stale := false
			for _, s2 := range stores {
				if s2 != st && c15ReachAvoiding(ld, s2, ld.Block()) && c15ReachAvoiding(s2, st, ld.Block()) {
					stale = true
				}
			}
			c.Check("newSlotTicker advance from emitted slot", posOf(st), !stale,
				"the successor slot is computed from a read of the slot variable taken before it was re-synchronised to the clock: the resync is overwritten, the ticker falls behind again and the catch-up slot is emitted (and its duties triggered) repeatedly")
			continue
		}
		// the current slot obtained through a helper / closure that also reports whether a resync is due
		// (`actual, skipped := skippedTo(slot)`): the value assigned is what the helper returns on the
		// returns compatible with what the path knows about the helper's boolean results
		if ex, isEx := c15Local(st.Val).(*ssa.Extract); isEx && inLoop(st.Block()) {
			if k, isCall := ex.Tuple.(*ssa.Call); isCall && an.TypeName(ex.Type()) == "core.Slot" {
				h := c15CalleeFn(e, k)
				if h == nil || h.Pkg != e.pkg || len(h.Blocks) == 0 {
					c.Unsure("newSlotTicker resync", posOf(st), "the slot is replaced by a result of a call that cannot be followed")
					continue
				}
				flags := map[int]ssa.Value{}
				tr := append([]ssa.Value{}, track...)
				for _, ref := range *k.Referrers() {
					if fx, ok := ref.(*ssa.Extract); ok && fx.Index != ex.Index {
						if b, isB := fx.Type().Underlying().(*types.Basic); isB && b.Kind() == types.Bool {
							flags[fx.Index] = fx
							tr = append(tr, fx)
						}
					}
				}
				isCurrent := func(cc *ssa.Call) bool {
					for _, st0 := range stores {
						c0, isCall := c15Local(st0.Val).(*ssa.Call)
						if !isCall || inLoop(st0.Block()) {
							continue
						}
						if c0.Call.StaticCallee() != nil || cc.Call.StaticCallee() != nil {
							return c0.Call.StaticCallee() == cc.Call.StaticCallee() && !cc.Call.IsInvoke() && len(cc.Call.Args) == len(c0.Call.Args)
						}
						a, b := e.origin(c0.Call.Value), e.origin(cc.Call.Value)
						return a == b || an.Equiv(a, b)
					}
					return false
				}
				order, other := true, false
				all, decided := c15Arrivals(fn, st, tr, nil, func(f *an.H15Facts) bool {
					if !waited(f) || justSent(f) {
						order = false
						return false
					}
					for _, r := range an.Returns(h) {
						rvs := returnValues(r)
						compat := true
						for j, ej := range flags {
							if kc, isC := c15ConstBool(rvs[j]); isC {
								if kk, known := f.Known(ej); known && kk != kc {
									compat = false
								}
							}
						}
						if !compat {
							continue
						}
						cc, isCall := e.origin(rvs[ex.Index]).(*ssa.Call)
						if !isCall || !isCurrent(cc) {
							other = true
							return false
						}
					}
					return true
				})
				switch {
				case !decided:
					c.Unsure("newSlotTicker resync", posOf(st), "too many paths to enumerate")
				case !all && other && order:
					c.Unsure("newSlotTicker resync", posOf(st), "the helper that yields the new slot can return something that is not recognisably the clock-derived current slot")
				default:
					c.Check("newSlotTicker resync", posOf(st), all,
						"the slot is replaced inside the loop by something other than the clock-derived current slot read after the slot-start wait")
				}
				continue
			}
		}
		call, ok := c15Local(st.Val).(*ssa.Call)
		isSlotMethod := false
		if ok && call.Call.StaticCallee() != nil {
			if sig := call.Call.StaticCallee().Signature; sig.Recv() != nil && an.TypeName(sig.Recv().Type()) == "core.Slot" {
				isSlotMethod = true // slot arithmetic (Next of something else, ...) is not "the current slot"
			}
		}
		if !ok || call.Call.IsInvoke() || isSlotMethod || an.TypeName(call.Type()) != "core.Slot" {
			c.Bad("newSlotTicker slot assignment", posOf(st), "the ticker's slot is assigned from something other than slot.Next() or the clock-derived current slot")
			continue
		}
		if !inLoop(st.Block()) {
			c.Good("newSlotTicker initial slot", posOf(st), "")
			continue
		}
		ok = initCallee != nil && an.Equiv(call.Call.Value, initCallee)
		if ok && call.Call.StaticCallee() != nil {
			// a named current-slot function: same function, same arguments as the initial call
			for _, st0 := range stores {
				if c0, isCall := c15Local(st0.Val).(*ssa.Call); isCall && !inLoop(st0.Block()) {
					ok = an.Equiv(c0, call)
				}
			}
		}
		if ok {
			all, decided := c15Arrivals(fn, st, track, nil, func(f *an.H15Facts) bool { return waited(f) && !justSent(f) })
			if !decided {
				c.Unsure("newSlotTicker resync", posOf(st), "too many paths to enumerate")
				continue
			}
			ok = all
		}
		c.Check("newSlotTicker resync", posOf(st), ok,
			"the slot is replaced inside the loop by something other than the clock-derived current slot read after the slot-start wait")
	}
	// every way back to the emission passes an advance
	avoid := map[*ssa.BasicBlock]bool{}
	for _, a := range advances {
		avoid[a.Block()] = true
	}
	again := false
	for _, s := range emitAt.Block().Succs {
		if an.CanReach(s, emitAt.Block(), avoid) {
			again = true
		}
	}
	c.Check("newSlotTicker emit→advance→emit", sel.Pos(), len(advances) > 0 && !again,
		"after emitting a slot the loop can emit again without slot = slot.Next(): the same slot is ticked twice")
}

// ---------------------------------------------------------------------------------------------
// U2 not before the slot offset

const (
	c15DelayN = c15P + ".delaySlotOffset"
	c15WaitN  = c15P + ".Scheduler.waitForEarlyFetchOrTimeout"
)

// c15GuardFns returns the functions whose true result means "the slot offset has been waited for":
// the two anchors, and every single-result boolean helper of the package that returns a non-false
// value only after (or as) the true result of such a function.
func c15GuardFns(c *rt.Ctx, e *c15Env) map[*ssa.Function]bool {
	set := map[*ssa.Function]bool{c.Fn(c15DelayN): true, c.Fn(c15WaitN): true}
	for changed := true; changed; {
		changed = false
		for _, fn := range e.funcs {
			if set[fn] || fn.Signature.Results().Len() != 1 {
				continue
			}
			if b, ok := fn.Signature.Results().At(0).Type().Underlying().(*types.Basic); !ok || b.Kind() != types.Bool {
				continue
			}
			guards := c15GuardCalls(fn, set)
			if len(guards) == 0 {
				continue
			}
			ok := true
			for _, r := range an.Returns(fn) {
				rv := returnValues(r)[0]
				if k, isConst := c15ConstBool(rv); isConst && !k {
					continue
				}
				all, decided := c15Arrivals(fn, r, guards, nil, func(f *an.H15Facts) bool {
					g := f.Assume(rv, true)
					return g == nil || c15AnyTrue(g, guards)
				})
				if !all || !decided {
					ok = false
				}
			}
			if ok {
				set[fn] = true
				changed = true
			}
		}
	}
	return set
}

// c15GuardCalls lists the (boolean) results of the calls in fn to functions of set.
func c15GuardCalls(fn *ssa.Function, set map[*ssa.Function]bool) []ssa.Value {
	var out []ssa.Value
	for _, in := range an.Instrs(fn, false) {
		if call, ok := in.(*ssa.Call); ok {
			if callee := call.Call.StaticCallee(); callee != nil && set[an.Orig(callee)] {
				out = append(out, call)
			}
		}
	}
	return out
}

func c15U2(c *rt.Ctx) {
	e := c15NewEnv(c)
	sched, trig := c15OneTrigger(c, e)
	slotP := c15ParamT(c, sched, "core.Slot")
	gset := c15GuardFns(c, e)
	sinks := an.Calls(trig, e.subCall(), false)
	var lit *ssa.Alloc
	for _, s := range sinks {
		// the wait may sit in the trigger function or in a single-use helper between it and scheduleSlot
		name := an.FuncName(trig) + " subscriber call after offset wait"
		var target ssa.Instruction = s
		fn := trig
		good, undecided := false, false
		for lvl := 0; lvl < 6 && !good; lvl++ {
			guards := c15GuardCalls(fn, gset)
			if len(guards) > 0 {
				all, decided := c15Arrivals(fn, target, guards, nil, func(f *an.H15Facts) bool { return c15AnyTrue(f, guards) })
				if !decided {
					undecided = true
				}
				good = all && decided
			}
			if fn == sched {
				break
			}
			site := e.site(fn)
			if site == nil {
				break
			}
			target, fn = site, site.Parent()
		}
		if !good && undecided {
			c.Unsure(name, s.Pos(), "too many paths to enumerate")
		} else {
			c.Check(name, s.Pos(), good,
				"a path reaches the duty subscribers without the slot-offset wait having returned true (duty triggered before its offset / after cancellation)")
		}
		mark := e.opaque
		cell := c15DutyCell(e, s)
		if lit == nil {
			lit = cell
		}
		e.checkTraced(an.FuncName(trig)+" subscriber call duty", s.Pos(), cell != nil && cell == lit && (cell.Parent() == sched || e.owned(sched)[cell.Parent()]), mark,
			"the duty handed to subscribers is not the duty the goroutine was started for")
	}
	att := constOf(c, "core", "DutyAttester")
	delayFn, waitFn := c.Fn(c15DelayN), c.Fn(c15WaitN)
	nBase := 0
	for _, fn := range e.ownedList(sched) {
		for _, in := range an.Instrs(fn, false) {
			g, ok := in.(*ssa.Call)
			if !ok || g.Call.StaticCallee() == nil {
				continue
			}
			switch an.Orig(g.Call.StaticCallee()) {
			case delayFn:
				nBase++
				mark := e.opaque
				d := c15ArgT(&g.Call, "core.Duty")
				ok := e.rooted(c15ArgT(&g.Call, "core.Slot"), slotP) && d != nil && lit != nil && e.cellOf(d) == lit &&
					isLoadOfValueField(e.origin(c15ArgT(&g.Call, c15P+".delayFunc")), c15Sched+".delayFunc")
				e.checkTraced(an.FuncName(fn)+" delaySlotOffset arguments", g.Pos(), ok, mark,
					"delaySlotOffset is not applied to the ticked slot, the triggered duty and the scheduler's delay function")
			case waitFn:
				nBase++
				mark := e.opaque
				ok := e.rooted(c15ArgT(&g.Call, "core.Slot"), slotP)
				// only for attester duties (the fallback uses the attester offset): on every path to the call
				// the comparison duty.Type == DutyAttester is known to hold
				atoms := c15Atoms(e, fn, func(h *ssa.Function) []c15Atom {
					var out []c15Atom
					for _, in2 := range an.Instrs(h, false) {
						bin, isBin := in2.(*ssa.BinOp)
						if !isBin || (bin.Op != token.EQL && bin.Op != token.NEQ) {
							continue
						}
						x, y := bin.X, bin.Y
						if _, isC := an.Unwrap(x).(*ssa.Const); isC {
							x, y = y, x
						}
						if n, isN := an.ConstInt(y); isN && n == att && lit != nil && e.fieldOfCell(x, "Type", lit) {
							out = append(out, c15Atom{v: bin, want: bin.Op == token.EQL})
						}
					}
					return out
				}, 0)
				only, decided := c15Arrivals(fn, g, c15AtomVals(atoms), nil, func(f *an.H15Facts) bool { return c15Holds(f, atoms) })
				name := an.FuncName(fn) + " waitForEarlyFetchOrTimeout arguments"
				if !decided {
					c.Unsure(name, g.Pos(), "too many paths to enumerate")
					continue
				}
				e.checkTraced(name, g.Pos(), ok && only, mark,
					"waitForEarlyFetchOrTimeout (attester offset) is not restricted to attester duties of the ticked slot")
			}
		}
	}
	if nBase == 0 {
		c.Note("U2: neither delaySlotOffset nor waitForEarlyFetchOrTimeout is called under scheduleSlot")
	}
	c15Deadline(c, e, delayFn, true)
	c15Deadline(c, e, waitFn, false)
	// the offset table is only written by its initialiser
	glob, _ := e.pkg.Members["slotOffsets"].(*ssa.Global)
	if glob == nil {
		c.Bail("global slotOffsets not found")
	}
	written := false
	var at token.Pos
	for _, fn := range e.funcs {
		for _, in := range an.Instrs(fn, false) {
			switch x := in.(type) {
			case *ssa.Store:
				if x.Addr == ssa.Value(glob) {
					written, at = true, posOf(in)
				}
			case *ssa.MapUpdate:
				if ld, ok := c15Local(x.Map).(*ssa.UnOp); ok && ld.X == ssa.Value(glob) {
					written, at = true, posOf(in)
				}
			}
		}
	}
	c.Check("slotOffsets written only by its initialiser", at, !written, "the slot offset table is modified at run time")
	c15OffsetArithmetic(c, e, glob)
}

// c15MissEdge: the control-flow edge pred -> blk is taken only when one of the lookup flags in miss is false:
// it is the false edge of a branch on such a flag, or pred lies below such a false edge.
func c15MissEdge(pred, blk *ssa.BasicBlock, miss []ssa.Value) bool {
	falseEdge := func(from, to *ssa.BasicBlock) bool {
		if len(from.Instrs) == 0 {
			return false
		}
		iff, ok := from.Instrs[len(from.Instrs)-1].(*ssa.If)
		if !ok || from.Succs[0] == from.Succs[1] {
			return false
		}
		cond, want := iff.Cond, 1 // successor taken when the flag is false
		if not, isNot := cond.(*ssa.UnOp); isNot && not.Op == token.NOT {
			cond, want = not.X, 0
		}
		for _, m := range miss {
			if cond == m && from.Succs[want] == to {
				return true
			}
		}
		return false
	}
	if falseEdge(pred, blk) {
		return true
	}
	for d := pred; d != nil; d = d.Idom() {
		if len(d.Preds) == 1 && falseEdge(d.Preds[0], d) {
			return true
		}
	}
	return false
}

// c15Deadline checks that fn returns true only when there is no offset for the duty type or after the
// channel armed with slot.Time.Add(slotOffsets[type](slot.SlotDuration)) fired. byDuty: the table is
// indexed by the type of fn's duty parameter (else by the attester constant). Pure single-use helpers
// that compute the deadline (and report whether an offset exists) are followed.
func c15Deadline(c *rt.Ctx, e *c15Env, fn *ssa.Function, byDuty bool) {
	name := an.FuncName(fn)
	slotP := c15ParamT(c, fn, "core.Slot")
	var dutyP *ssa.Parameter
	if byDuty {
		dutyP = c15ParamT(c, fn, "core.Duty")
	}
	glob, _ := e.pkg.Members["slotOffsets"].(*ssa.Global)
	att := constOf(c, "core", "DutyAttester")
	// the offset function: a lookup of slotOffsets by the duty's type (in fn or in a helper below it)
	isOffsetFn := func(v ssa.Value) bool {
		v = c15Local(v)
		if ex, ok := v.(*ssa.Extract); ok && ex.Index == 0 {
			v = ex.Tuple
		}
		lk, ok := v.(*ssa.Lookup)
		if !ok {
			return false
		}
		if ld, ok := c15Local(lk.X).(*ssa.UnOp); !ok || ld.X != ssa.Value(glob) {
			return false
		}
		if byDuty {
			return e.fieldOf(lk.Index, "Type", dutyP)
		}
		n, isN := an.ConstInt(e.origin(lk.Index))
		return isN && n == att
	}
	var isOffset func(v ssa.Value, d int) bool
	// offsetHelperOK: call runs a helper of the package that computes the offset (`slotOffset(duty.Type,
	// slot.SlotDuration)`, possibly shared by both wait functions): looked at with the arguments of this
	// call, every return of the helper yields (offset[, true]) or (_, false on a lookup miss).
	offHelper := map[*ssa.Call]int{} // 1 good, 2 bad / in progress
	offsetHelperOK := func(call *ssa.Call) bool {
		if st := offHelper[call]; st != 0 {
			return st == 1
		}
		offHelper[call] = 2
		callee := call.Call.StaticCallee()
		if callee == nil || call.Call.IsInvoke() {
			return false
		}
		h := an.Orig(callee)
		if h.Pkg != e.pkg || h == fn || len(h.Blocks) == 0 {
			return false
		}
		res := h.Signature.Results()
		if res.Len() < 1 || res.Len() > 2 || an.TypeName(res.At(0).Type()) != "time.Duration" {
			return false
		}
		if res.Len() == 2 {
			if b, isB := res.At(1).Type().Underlying().(*types.Basic); !isB || b.Kind() != types.Bool {
				return false
			}
		}
		if e.ctx == nil {
			e.ctx = map[*ssa.Function]ssa.CallInstruction{}
		}
		prev, had := e.ctx[h]
		e.ctx[h] = call
		defer func() {
			if had {
				e.ctx[h] = prev
			} else {
				delete(e.ctx, h)
			}
		}()
		var miss []ssa.Value
		for _, in := range an.Instrs(h, false) {
			if lk, ok := in.(*ssa.Lookup); ok && lk.CommaOk && isOffsetFn(lk) {
				for _, ref := range *lk.Referrers() {
					if ex, ok := ref.(*ssa.Extract); ok && ex.Index == 1 {
						miss = append(miss, ex)
					}
				}
			}
		}
		rets := an.Returns(h)
		if len(rets) == 0 {
			return false
		}
		for _, r := range rets {
			rv := returnValues(r)
			if res.Len() == 2 {
				k, isConst := c15ConstBool(rv[1])
				if !isConst {
					// `return offset, ok` of the lookup itself
					isMiss := false
					for _, m := range miss {
						if rv[1] == m {
							isMiss = true
						}
					}
					if !isMiss {
						return false
					}
					// single-exit form `if ok { offset = fn(d) }; return offset, ok`: the value merged in over an
					// edge taken only on a lookup miss is never used by the caller (the flag is false there)
					if phi, isPhi := rv[0].(*ssa.Phi); isPhi {
						for i, ed := range phi.Edges {
							if !c15MissEdge(phi.Block().Preds[i], phi.Block(), miss) && !isOffset(ed, 2) {
								return false
							}
						}
						continue
					}
					if !isOffset(rv[0], 1) {
						return false
					}
					continue
				}
				if !k {
					all, decided := c15Arrivals(h, r, miss, nil, func(f *an.H15Facts) bool {
						for _, m := range miss {
							if kk, known := f.Known(m); known && !kk {
								return true
							}
						}
						return false
					})
					if !all || !decided {
						return false
					}
					continue
				}
			}
			if !isOffset(rv[0], 1) {
				return false
			}
		}
		offHelper[call] = 1
		return true
	}
	isOffset = func(v ssa.Value, d int) bool {
		if d > 4 {
			return false
		}
		switch x := e.origin(v).(type) {
		case *ssa.Extract:
			if call, ok := x.Tuple.(*ssa.Call); ok && x.Index == 0 {
				return offsetHelperOK(call)
			}
		case *ssa.Call:
			if x.Call.StaticCallee() != nil {
				return offsetHelperOK(x)
			}
			return !x.Call.IsInvoke() && isOffsetFn(x.Call.Value) && len(x.Call.Args) == 1 && e.fieldOf(x.Call.Args[0], "SlotDuration", slotP)
		case *ssa.BinOp:
			if x.Op == token.ADD {
				if n, ok := an.ConstInt(x.Y); ok && n >= 0 {
					return isOffset(x.X, d+1)
				}
				if n, ok := an.ConstInt(x.X); ok && n >= 0 {
					return isOffset(x.Y, d+1)
				}
			}
		case *ssa.Phi:
			for _, ed := range x.Edges {
				if !isOffset(ed, d+1) {
					return false
				}
			}
			return len(x.Edges) > 0
		}
		return false
	}
	// noOffset collects the booleans whose falsity means "no offset is configured for the type"
	var noOffset []ssa.Value
	for _, in := range an.Instrs(fn, false) {
		if lk, ok := in.(*ssa.Lookup); ok && lk.CommaOk && isOffsetFn(lk) {
			for _, ref := range *lk.Referrers() {
				if ex, ok := ref.(*ssa.Extract); ok && ex.Index == 1 {
					noOffset = append(noOffset, ex)
				}
			}
		}
	}
	// helperOK: every return of the single-use helper h yields (deadline, true) or (_, false on a lookup miss)
	helperSeen := map[*ssa.Function]int{} // 1 good, 2 bad
	var isDeadline func(v ssa.Value, d int) bool
	helperOK := func(call *ssa.Call) bool {
		h := an.Orig(call.Call.StaticCallee())
		if h == nil || h.Pkg != e.pkg || e.site(h) != ssa.CallInstruction(call) {
			return false
		}
		if st := helperSeen[h]; st != 0 {
			return st == 1
		}
		helperSeen[h] = 2
		res := h.Signature.Results()
		if res.Len() < 1 || res.Len() > 2 || an.TypeName(res.At(0).Type()) != "time.Time" {
			return false
		}
		var miss []ssa.Value
		for _, in := range an.Instrs(h, false) {
			if lk, ok := in.(*ssa.Lookup); ok && lk.CommaOk && isOffsetFn(lk) {
				for _, ref := range *lk.Referrers() {
					if ex, ok := ref.(*ssa.Extract); ok && ex.Index == 1 {
						miss = append(miss, ex)
					}
				}
			}
		}
		for _, r := range an.Returns(h) {
			rv := returnValues(r)
			if res.Len() == 2 {
				k, isConst := c15ConstBool(rv[1])
				if !isConst {
					// `return deadline, ok` of the lookup itself
					isMiss := false
					for _, m := range miss {
						if rv[1] == m {
							isMiss = true
						}
					}
					if !isMiss || !isDeadline(rv[0], 1) {
						return false
					}
					continue
				}
				if !k {
					all, decided := c15Arrivals(h, r, miss, nil, func(f *an.H15Facts) bool {
						for _, m := range miss {
							if kk, known := f.Known(m); known && !kk {
								return true
							}
						}
						return false
					})
					if !all || !decided {
						return false
					}
					continue
				}
			}
			if !isDeadline(rv[0], 1) {
				return false
			}
		}
		helperSeen[h] = 1
		return true
	}
	isDeadline = func(v ssa.Value, d int) bool {
		if d > 3 {
			return false
		}
		v = e.origin(v)
		if ex, ok := v.(*ssa.Extract); ok && ex.Index == 0 {
			if call, ok := ex.Tuple.(*ssa.Call); ok && call.Call.StaticCallee() != nil {
				return helperOK(call)
			}
			return false
		}
		call, ok := v.(*ssa.Call)
		if !ok {
			return false
		}
		if an.Static("time.Time.Add")(&call.Call) {
			return e.fieldOf(call.Call.Args[0], "Time", slotP) && isOffset(call.Call.Args[1], 0)
		}
		if call.Call.StaticCallee() != nil && call.Call.Signature().Results().Len() == 1 {
			return helperOK(call)
		}
		return false
	}
	// a two-result helper's second result is a "no offset" flag as well
	for _, in := range an.Instrs(fn, false) {
		call, ok := in.(*ssa.Call)
		if !ok || call.Call.StaticCallee() == nil || call.Call.Signature().Results().Len() != 2 {
			continue
		}
		h := an.Orig(call.Call.StaticCallee())
		if h.Pkg != e.pkg {
			continue
		}
		good := false
		switch an.TypeName(call.Call.Signature().Results().At(0).Type()) {
		case "time.Time":
			good = helperOK(call)
		case "time.Duration":
			good = offsetHelperOK(call)
		}
		if good {
			for _, ref := range *call.Referrers() {
				if ex, ok := ref.(*ssa.Extract); ok && ex.Index == 1 {
					noOffset = append(noOffset, ex)
				}
			}
		}
	}
	var armed func(ch ssa.Value) bool
	armed = func(ch ssa.Value) bool {
		if p, isP := c15Local(ch).(*ssa.Parameter); isP {
			// the channel handed to a helper that waits on it: the argument of the call under analysis
			if a := e.argOf(p); a != nil {
				return armed(a)
			}
			return false
		}
		call, ok := c15Local(ch).(*ssa.Call)
		if !ok {
			return false
		}
		if inner, ok := e.passThrough(call, 0); ok && call.Call.Signature().Results().Len() == 1 {
			return armed(inner) // `timer := s.fallbackTimer(slot)` returning the armed channel
		}
		if an.Invoke("github.com/jonboulle/clockwork.Clock.After")(&call.Call) {
			if until := c15Static(call.Call.Args[0], "time.Until"); until != nil {
				return isDeadline(until.Call.Args[0], 0)
			}
			return false
		}
		if call.Call.IsInvoke() || call.Call.StaticCallee() != nil || len(call.Call.Args) != 2 {
			return false
		}
		fv := c15Local(call.Call.Value)
		isDelay := isLoadOfValueField(fv, c15Sched+".delayFunc")
		if p, isP := fv.(*ssa.Parameter); isP && p.Parent() == fn && an.TypeName(p.Type()) == c15P+".delayFunc" {
			isDelay = true
		}
		return isDelay && isDeadline(call.Call.Args[1], 0)
	}
	var fired []ssa.Value
	unknownTimer := false
	for _, in := range an.Instrs(fn, false) {
		sel, ok := in.(*ssa.Select)
		if !ok {
			continue
		}
		for i, st := range sel.States {
			if st.Dir != types.RecvOnly {
				continue
			}
			if armed(st.Chan) {
				fired = append(fired, c15SelectFired(sel, i)...)
				continue
			}
			// a channel of unknown provenance (e.g. a timer built by a helper): neither armed nor obviously wrong
			switch x := e.origin(st.Chan).(type) {
			case *ssa.Call:
				if x.Call.IsInvoke() && x.Call.Method.Name() == "Done" {
					continue // ctx.Done()
				}
				if x.Call.StaticCallee() != nil && an.Orig(x.Call.StaticCallee()).Pkg == e.pkg {
					// a helper that merely returns clock.After(...) / delayFunc(...) is a recognised timer (with
					// the wrong deadline, or armed() would have accepted it); anything else is unknown
					known := false
					if inner, ok := e.passThrough(x, 0); ok {
						if ic, ok := c15Local(inner).(*ssa.Call); ok && (an.Invoke("github.com/jonboulle/clockwork.Clock.After")(&ic.Call) || an.TypeName(ic.Call.Value.Type()) == c15P+".delayFunc") {
							known = true
						}
					}
					if !known {
						unknownTimer = true
					}
				}
			case *ssa.Parameter, *ssa.FreeVar, *ssa.Phi:
				unknownTimer = true
			}
		}
	}
	// a boolean helper that does the waiting (`awaitTimer(ctx, timer)`, possibly shared by both wait
	// functions): its true result stands for "the armed channel fired" when, looked at with the arguments
	// of this call, it returns a non-false value only after a receive from the armed channel
	for _, in := range an.Instrs(fn, false) {
		call, ok := in.(*ssa.Call)
		if !ok || call.Call.StaticCallee() == nil || call.Call.IsInvoke() {
			continue
		}
		h := an.Orig(call.Call.StaticCallee())
		if h.Pkg != e.pkg || h == fn || e.leaks[h] || h.Signature.Results().Len() != 1 || len(h.Blocks) == 0 {
			continue
		}
		if b, isB := h.Signature.Results().At(0).Type().Underlying().(*types.Basic); !isB || b.Kind() != types.Bool {
			continue
		}
		hasChan := false
		for _, a := range call.Call.Args {
			if _, isChan := a.Type().Underlying().(*types.Chan); isChan {
				hasChan = true
			}
		}
		if !hasChan {
			continue
		}
		if e.ctx == nil {
			e.ctx = map[*ssa.Function]ssa.CallInstruction{}
		}
		e.ctx[h] = call
		var hfired []ssa.Value
		for _, hin := range an.Instrs(h, false) {
			if sel, isSel := hin.(*ssa.Select); isSel {
				for i, st := range sel.States {
					if st.Dir == types.RecvOnly && armed(st.Chan) {
						hfired = append(hfired, c15SelectFired(sel, i)...)
					}
				}
			}
		}
		good := len(hfired) > 0
		for _, r := range an.Returns(h) {
			rv := returnValues(r)[0]
			if k, isConst := c15ConstBool(rv); isConst && !k {
				continue
			}
			all, decided := c15Arrivals(h, r, hfired, nil, func(f *an.H15Facts) bool {
				g := f.Assume(rv, true)
				return g == nil || c15AnyTrue(g, hfired)
			})
			if !all || !decided {
				good = false
			}
		}
		delete(e.ctx, h)
		if good {
			fired = append(fired, call)
		} else {
			unknownTimer = true
		}
	}
	track := append(append([]ssa.Value{}, fired...), noOffset...)
	n := 0
	for _, r := range an.Returns(fn) {
		rvs := returnValues(r)
		if len(rvs) != 1 {
			c.Bail("%s: unexpected result arity", name)
		}
		rv := rvs[0]
		if v, isConst := c15ConstBool(rv); isConst && !v {
			continue
		}
		n++
		cname := fmt.Sprintf("%s return true#%d", name, n)
		unknownResult := false
		all, decided := c15Arrivals(fn, r, track, nil, func(f *an.H15Facts) bool {
			if k, known := f.Known(rv); known {
				if !k {
					return true
				}
			} else if g := f.Assume(rv, true); g == nil {
				return true // the result cannot be true on this path
			} else if _, now := g.Known(rv); now {
				f = g // what is known when the (non-constant) result is true
			} else {
				unknownResult = true
			}
			for _, m := range noOffset {
				if k, known := f.Known(m); known && !k {
					return true
				}
			}
			return c15AnyTrue(f, fired)
		})
		switch {
		case !decided:
			c.Unsure(cname, posOf(r), "too many paths to enumerate")
		case !all && unknownResult:
			c.Unsure(cname, posOf(r), "non-constant result; cannot tell when the wait reports success")
		case !all && unknownTimer:
			c.Unsure(cname, posOf(r), "the wait selects on a channel whose deadline could not be traced")
		default:
			c.Check(cname, posOf(r), all,
				"the wait reports success on a path where neither the duty type has no offset nor the timer armed with slot.Time.Add(slotOffsets[type](slot.SlotDuration)) fired")
		}
	}
	if n == 0 {
		c.Bail("%s never returns true", name)
	}
}

// ---------------------------------------------------------------------------------------------
// U3 what is stored

var c15DefFor = map[string]string{
	"core.NewAttesterDuty":         "core.NewAttesterDefinition",
	"core.NewAggregatorDuty":       "core.NewAttesterDefinition",
	"core.NewProposerDuty":         "core.NewProposerDefinition",
	"core.NewSyncContributionDuty": "core.NewSyncCommitteeDefinition",
}

// c15ResolverFns discovers the resolve functions: the functions of the package that store duty
// definitions (call setDutyDefinition). They are found by what they do, not by their names; U3 then
// requires each of them to be run by resolveDuties with the checked validator list, and the four
// kinds of duty to be covered.
func c15ResolverFns(c *rt.Ctx, e *c15Env) []*ssa.Function {
	setFn := c.Fn(c15P + ".Scheduler.setDutyDefinition")
	var out []*ssa.Function
	for _, fn := range e.funcs {
		if fn.Parent() != nil {
			continue
		}
		for _, s := range e.calls[setFn] {
			if s.Parent() == fn {
				out = append(out, fn)
				break
			}
		}
	}
	if len(out) == 0 {
		c.Bail("no function calls setDutyDefinition")
	}
	return out
}

// c15RavCall returns the one call of resolveActiveValidators in resolveDuties or in a function only
// resolveDuties (transitively) uses.
func c15RavCall(c *rt.Ctx, e *c15Env, rd *ssa.Function) ssa.CallInstruction {
	var out []ssa.CallInstruction
	for _, fn := range e.ownedList(rd) {
		out = append(out, an.Calls(fn, an.Static(c15P+".resolveActiveValidators"), false)...)
	}
	if len(out) != 1 {
		c.Bail("expected exactly one call to resolveActiveValidators under %s, found %d", an.FuncName(rd), len(out))
	}
	return out[0]
}

// c15HasParamT: fn has a (non-pointer) parameter of the given type.
func c15HasParamT(fn *ssa.Function, typ string) bool {
	for _, p := range fn.Params {
		if _, ptr := p.Type().(*types.Pointer); !ptr && an.TypeName(p.Type()) == typ {
			return true
		}
	}
	return false
}

// c15ResolverEntries maps every function that stores duty definitions to its resolver entry: the topmost
// function, reached through single static uses, that still receives the validator list as a parameter
// (the store may have been moved into a per-duty helper of the resolver). Entries are returned once each,
// in package order.
func c15ResolverEntries(c *rt.Ctx, e *c15Env) (entries []*ssa.Function, stores map[*ssa.Function][]*ssa.Function) {
	stores = map[*ssa.Function][]*ssa.Function{}
	for _, sf := range c15ResolverFns(c, e) {
		top := sf
		for i := 0; i < 4; i++ {
			s := e.site(top)
			if s == nil || s.Parent().Parent() != nil || !c15HasParamT(s.Parent(), c15P+".validators") {
				break
			}
			top = s.Parent()
		}
		stores[top] = append(stores[top], sf)
	}
	for _, fn := range e.funcs {
		if len(stores[fn]) > 0 {
			entries = append(entries, fn)
		}
	}
	return entries, stores
}

// c15Level is one step of the way from an instruction up to an enclosing entry function: the function and
// the instruction in it (the sink itself, then the call of the helper containing it, ...).
type c15Level struct {
	fn *ssa.Function
	at ssa.Instruction
}

func (e *c15Env) levels(sink ssa.Instruction, top *ssa.Function) []c15Level {
	out := []c15Level{{sink.Parent(), sink}}
	fn := sink.Parent()
	for i := 0; i < 6 && fn != top; i++ {
		s := e.site(fn)
		if s == nil {
			break
		}
		out = append(out, c15Level{s.Parent(), s})
		fn = s.Parent()
	}
	return out
}

// c15CheckHoldsUp is c15CheckHolds over the levels from the sink up to the entry function: the condition is
// established when, at some level, every feasible arrival at that level's instruction has an atom holding.
// A violation needs an unguarded arrival at every level (then a path through all of them exists).
func c15CheckHoldsUp(c *rt.Ctx, e *c15Env, name string, sink ssa.Instruction, top *ssa.Function, find func(fn *ssa.Function) []c15Atom, detail string) bool {
	opaque, undecided := false, false
	mark := e.opaque
	for _, lv := range e.levels(sink, top) {
		atoms := c15Atoms(e, lv.fn, find, 0)
		if len(atoms) == 0 {
			continue
		}
		all, decided := c15Arrivals(lv.fn, lv.at, c15AtomVals(atoms), nil, func(f *an.H15Facts) bool {
			if c15Holds(f, atoms) {
				return true
			}
			if c15Opaque(f, atoms) {
				opaque = true
			}
			return false
		})
		if !decided {
			undecided = true
			continue
		}
		if all {
			return c.Check(name, sink.Pos(), true, detail)
		}
	}
	if undecided {
		c.Unsure(name, sink.Pos(), "too many paths to enumerate")
		return false
	}
	if opaque {
		c.Unsure(name, sink.Pos(), "the deciding test sits in a helper whose result could not be summarised; it cannot be tied to this call's arguments")
		return false
	}
	return e.checkTraced(name, sink.Pos(), false, mark, detail)
}

func c15ShortName(fn *ssa.Function) string {
	n := an.FuncName(fn)
	return n[strings.LastIndex(n, ".")+1:]
}

// c15ResolverCall is one call of resolveDuties that runs resolvers: a static call of one resolver, or
// a dynamic call inside a loop over a local array / slice literal of the resolvers' method values
// (then it stands for every element, in order).
type c15ResolverCall struct {
	call  ssa.CallInstruction
	names []string
	loop  *an.Loop // nil for a static call
}

func c15ResolverCalls(c *rt.Ctx, e *c15Env, rd *ssa.Function, resolvers []*ssa.Function) []c15ResolverCall {
	var out []c15ResolverCall
	for _, fn := range e.ownedList(rd) {
		skip := false
		for _, r := range resolvers {
			if fn == r || e.owned(r)[fn] {
				skip = true // the resolvers themselves (and what they own) are not "callers of resolvers"
			}
		}
		if !skip {
			out = append(out, c15ResolverCallsIn(c, fn, resolvers)...)
		}
	}
	return out
}

func c15ResolverCallsIn(c *rt.Ctx, rd *ssa.Function, resolvers []*ssa.Function) []c15ResolverCall {
	isRes := map[*ssa.Function]string{}
	for _, fn := range resolvers {
		isRes[fn] = c15ShortName(fn)
	}
	var out []c15ResolverCall
	for _, in := range an.Instrs(rd, false) {
		ci, ok := in.(ssa.CallInstruction)
		if !ok || ci.Common().IsInvoke() {
			continue
		}
		if f := ci.Common().StaticCallee(); f != nil {
			if rn, ok := isRes[an.Orig(f)]; ok {
				out = append(out, c15ResolverCall{call: ci, names: []string{rn}})
			}
			continue
		}
		// element of a local array of method values, indexed by the loop variable
		var arr, index ssa.Value
		switch x := c15Local(ci.Common().Value).(type) {
		case *ssa.Index:
			arr, index = x.X, x.Index
		case *ssa.UnOp:
			if ia, ok := x.X.(*ssa.IndexAddr); ok && x.Op == token.MUL {
				arr, index = ia.X, ia.Index
			}
		}
		if arr == nil {
			continue
		}
		var lit *ssa.Alloc
		switch a := an.Unwrap(arr).(type) {
		case *ssa.UnOp:
			lit, _ = a.X.(*ssa.Alloc)
		case *ssa.Alloc:
			lit = a
		case *ssa.Slice:
			lit, _ = a.X.(*ssa.Alloc)
		}
		if lit == nil {
			continue
		}
		at, isArr := lit.Type().Underlying().(*types.Pointer).Elem().Underlying().(*types.Array)
		if !isArr {
			continue
		}
		var names []string
		clean := true
		for _, ref := range *lit.Referrers() {
			switch r := ref.(type) {
			case *ssa.IndexAddr:
				if _, isConst := an.ConstInt(r.Index); !isConst {
					if r != nil && !(r.Index == index) {
						clean = false
					}
					continue
				}
				for _, r2 := range *r.Referrers() {
					st, ok := r2.(*ssa.Store)
					if !ok {
						continue
					}
					mc, ok := st.Val.(*ssa.MakeClosure)
					if !ok {
						clean = false
						continue
					}
					w, _ := mc.Fn.(*ssa.Function)
					var m *ssa.Function
					if w != nil {
						if obj, ok := w.Object().(*types.Func); ok {
							m = c.P.SSA.FuncValue(obj)
						}
					}
					if rn, ok := isRes[an.Orig(m)]; ok && w.Synthetic != "" {
						names = append(names, rn)
					} else {
						clean = false
					}
				}
			case *ssa.UnOp, *ssa.Slice, *ssa.DebugRef:
			default:
				clean = false
			}
		}
		l := an.InnermostLoop(rd, ci.Block())
		if !clean || len(names) == 0 || int64(len(names)) != at.Len() || l == nil {
			continue
		}
		// the loop visits every index: header `i < len` with the element indexed by the loop variable
		full := false
		for _, hin := range l.Header.Instrs {
			if iff, ok := hin.(*ssa.If); ok {
				if bin, ok := iff.Cond.(*ssa.BinOp); ok && bin.Op == token.LSS && bin.X == index {
					if n, ok := an.ConstInt(bin.Y); ok && n == at.Len() {
						full = true
					}
					if call, ok := bin.Y.(*ssa.Call); ok {
						if b, ok := call.Call.Value.(*ssa.Builtin); ok && b.Name() == "len" && an.Unwrap(call.Call.Args[0]) == an.Unwrap(arr) {
							full = true
						}
					}
				}
			}
		}
		if full {
			out = append(out, c15ResolverCall{call: ci, names: names, loop: l})
		}
	}
	return out
}

// c15Forward resolves a load of a multiply-assigned local (a named result, a reused `err`) to the value
// stored last before it on the straight-line code leading to the load.
func c15Forward(v ssa.Value) ssa.Value {
	ld, ok := an.Unwrap(v).(*ssa.UnOp)
	if !ok || ld.Op != token.MUL {
		return v
	}
	al, ok := ld.X.(*ssa.Alloc)
	if !ok {
		return v
	}
	b := ld.Block()
	idx := len(b.Instrs)
	for i, in := range b.Instrs {
		if in == ssa.Instruction(ld) {
			idx = i
		}
	}
	for hops := 0; hops < 8; hops++ {
		for i := idx - 1; i >= 0; i-- {
			if st, ok := b.Instrs[i].(*ssa.Store); ok && st.Addr == ssa.Value(al) {
				return st.Val
			}
		}
		if len(b.Preds) != 1 {
			return v
		}
		b = b.Preds[0]
		idx = len(b.Instrs)
	}
	return v
}

// c15NilAtoms lists the comparisons of ev with nil in fn; an atom holds when it says "ev == nil".
func c15NilAtoms(fn *ssa.Function, ev ssa.Value) []c15Atom {
	is := func(x ssa.Value) bool {
		return x == ev || an.Unwrap(x) == ev || c15Forward(x) == ev || c15Local(x) == ev
	}
	var out []c15Atom
	for _, in := range an.Instrs(fn, false) {
		bin, ok := in.(*ssa.BinOp)
		if !ok || (bin.Op != token.EQL && bin.Op != token.NEQ) {
			continue
		}
		if (is(bin.X) && an.IsNilConst(bin.Y)) || (is(bin.Y) && an.IsNilConst(bin.X)) {
			out = append(out, c15Atom{v: bin, want: bin.Op == token.EQL})
		}
	}
	return out
}

// c15ErrNilCmps lists the comparisons of error-typed values with nil in fn.
func c15ErrNilCmps(fn *ssa.Function) []ssa.Value {
	var out []ssa.Value
	for _, in := range an.Instrs(fn, false) {
		if bin, isBin := in.(*ssa.BinOp); isBin && (bin.Op == token.EQL || bin.Op == token.NEQ) &&
			((an.IsNilConst(bin.X) && an.IsErrorType(bin.Y.Type())) || (an.IsNilConst(bin.Y) && an.IsErrorType(bin.X.Type()))) {
			out = append(out, bin)
		}
	}
	return out
}

// c15NilOnPath: the path knows, from a comparison of a value that on this path stands for ev (an error
// variable reused along a chain is a phi resolved per path), that ev is nil.
func c15NilOnPath(f *an.H15Facts, cmps []ssa.Value, ev ssa.Value) bool {
	for _, b := range cmps {
		k, known := f.Known(b)
		if !known {
			continue
		}
		bin := b.(*ssa.BinOp)
		x := bin.X
		if an.IsNilConst(x) {
			x = bin.Y
		}
		if r := f.Resolve(x); (r == ev || an.Unwrap(r) == ev) && k == (bin.Op == token.EQL) {
			return true
		}
	}
	return false
}

// c15NilKnown: what the path knows about the value the atoms compare with nil.
func c15NilKnown(f *an.H15Facts, atoms []c15Atom) (isNil bool, known bool) {
	for _, a := range atoms {
		if k, ok := f.Known(a.v); ok {
			return k == a.want, true
		}
	}
	return false, false
}

// c15ErrNilAt: on every feasible arrival at sink, the error result of call g is known to be nil.
// For a call standing for a whole loop (c15ResolverCall.loop) the for-all-loop guard is used.
func c15ErrNilAt(fn *ssa.Function, g ssa.CallInstruction, loop *an.Loop, sink ssa.Instruction) (ok bool, decided bool, why string) {
	errs, _ := an.StatusOf(g, -1)
	if len(errs) != 1 {
		return false, true, "the error result is discarded"
	}
	ev := errs[0]
	atoms := c15NilAtoms(fn, ev)
	if len(atoms) == 0 {
		return false, true, "the error result is never compared with nil"
	}
	if loop != nil {
		for _, cd := range an.CondsOn(fn, ev) {
			if cd.Other == nil || !an.IsNilConst(cd.Other) || (cd.Op != token.EQL && cd.Op != token.NEQ) {
				continue
			}
			fail := cd.Succ(cd.Op == token.NEQ) // the edge on which err != nil
			if g, w := an.ForallGuard(loop, cd.If, fail, sink); g {
				return true, true, ""
			} else {
				why = w
			}
		}
		return false, true, why
	}
	all, dec := c15Arrivals(fn, sink, c15AtomVals(atoms), nil, func(f *an.H15Facts) bool { return c15Holds(f, atoms) })
	return all, dec, "the call's error is not known to be nil on every path"
}

// c15TopSite follows call up through single-use helpers to the call in top that (transitively) runs it.
func c15TopSite(e *c15Env, call ssa.CallInstruction, top *ssa.Function) ssa.CallInstruction {
	for i := 0; i < 4 && call != nil && call.Parent() != top; i++ {
		call = e.site(call.Parent())
	}
	if call == nil || call.Parent() != top {
		return nil
	}
	return call
}

// c15NilReturnImplies: helper h returns a nil error only when call (inside h) returned a nil error
// (for a call standing for a loop: for every element). unsure is set when a returned value cannot be classified.
func c15NilReturnImplies(h *ssa.Function, call ssa.CallInstruction, loop *an.Loop, excuse func(h *ssa.Function) ([]ssa.Value, func(f *an.H15Facts) bool)) (ok bool, unsure bool) {
	res := h.Signature.Results()
	if res.Len() == 0 || !an.IsErrorType(res.At(res.Len()-1).Type()) {
		return false, true
	}
	errIdx := res.Len() - 1
	errs, _ := an.StatusOf(call, -1)
	if len(errs) != 1 {
		return false, false
	}
	ev := errs[0]
	var track []ssa.Value
	for _, in := range an.Instrs(h, false) {
		if bin, isBin := in.(*ssa.BinOp); isBin && (bin.Op == token.EQL || bin.Op == token.NEQ) &&
			((an.IsNilConst(bin.X) && an.IsErrorType(bin.Y.Type())) || (an.IsNilConst(bin.Y) && an.IsErrorType(bin.X.Type()))) {
			track = append(track, bin)
		}
	}
	isErrPhi := func(p *ssa.Phi) bool { return an.IsErrorType(p.Type()) }
	evAtoms := c15NilAtoms(h, ev)
	var excused func(f *an.H15Facts) bool
	if excuse != nil {
		var more []ssa.Value
		more, excused = excuse(h)
		track = append(track, more...)
	}
	ok = true
	for _, r := range an.Returns(h) {
		rv := returnValues(r)[errIdx]
		loopDone := false
		if loop != nil {
			loopDone, _, _ = c15ErrNilAt(h, call, loop, r)
		}
		all, decided := c15Arrivals(h, r, track, isErrPhi, func(f *an.H15Facts) bool {
			rr := f.Resolve(rv)
			if rr == ev {
				return true // returns the call's own error
			}
			if excused != nil && excused(f) {
				return true
			}
			if loop != nil {
				if loopDone {
					return true
				}
			} else if c15Holds(f, evAtoms) {
				return true
			}
			if an.IsNilConst(rr) {
				return false // nil although the call is not known to have succeeded
			}
			if isNil, known := c15NilKnown(f, c15NilAtoms(h, rr)); known && !isNil {
				return true
			}
			switch x := rr.(type) {
			case *ssa.MakeInterface:
				return true // a freshly built error value
			case *ssa.Call:
				if callee := x.Call.StaticCallee(); callee != nil && callee.Pkg != nil &&
					(strings.HasSuffix(callee.Pkg.Pkg.Path(), "errors") || an.FuncName(callee) == "fmt.Errorf") {
					return true // an error constructor
				}
				return false // the result of some other call: it may well be nil
			case *ssa.Extract:
				if _, isCall := x.Tuple.(*ssa.Call); isCall {
					return false
				}
			}
			unsure = true
			return false
		})
		if !decided {
			unsure = true
		}
		if !all || !decided {
			ok = false
		}
	}
	return ok, unsure
}

// c15SuccessSite returns the call in top whose nil error implies that the resolver call rc returned
// nil: rc.call itself, or the call of the single-use helper (chain) around it. why explains a failure;
// unsure tells that the helper could not be summarised.
func c15SuccessSite(e *c15Env, top *ssa.Function, rc c15ResolverCall, excuse func(h *ssa.Function) ([]ssa.Value, func(f *an.H15Facts) bool)) (site ssa.CallInstruction, loop *an.Loop, unsure bool, why string) {
	call, l := rc.call, rc.loop
	for i := 0; i < 4 && call.Parent() != top; i++ {
		h := call.Parent()
		s := e.site(h)
		if s == nil {
			return nil, nil, true, "the call sits in a helper that is not single-use"
		}
		ok, uns := c15NilReturnImplies(h, call, l, excuse)
		if !ok {
			return nil, nil, uns, an.FuncName(h) + " can return nil although " + strings.Join(rc.names, "/") + " failed or did not run"
		}
		call, l = s, nil
	}
	if call.Parent() != top {
		return nil, nil, true, "helper chain too deep"
	}
	return call, l, false, ""
}

// c15LenZero interprets the fact `bin == truth` for a comparison of len(x) with a constant: does it imply len(x) == 0?
func c15LenZero(bin *ssa.BinOp, isLen func(ssa.Value) bool, truth bool) bool {
	op, k := bin.Op, int64(-1)
	if isLen(bin.X) {
		if n, ok := an.ConstInt(bin.Y); ok {
			k = n
		}
	} else if isLen(bin.Y) {
		if n, ok := an.ConstInt(bin.X); ok {
			k = n
			switch op {
			case token.LSS:
				op = token.GTR
			case token.GTR:
				op = token.LSS
			case token.LEQ:
				op = token.GEQ
			case token.GEQ:
				op = token.LEQ
			}
		}
	}
	if k < 0 {
		return false
	}
	if !truth {
		switch op {
		case token.EQL:
			op = token.NEQ
		case token.NEQ:
			op = token.EQL
		case token.LSS:
			op = token.GEQ
		case token.GEQ:
			op = token.LSS
		case token.GTR:
			op = token.LEQ
		case token.LEQ:
			op = token.GTR
		}
	}
	switch op {
	case token.EQL, token.LEQ:
		return k == 0
	case token.LSS:
		return k == 1
	}
	return false
}

func c15U3(c *rt.Ctx) {
	e := c15NewEnv(c)
	setFn := c.Fn(c15P + ".Scheduler.setDutyDefinition")
	setN := c15P + ".Scheduler.setDutyDefinition"
	// definitions are stored only by the resolve functions that resolveDuties runs (discovered by what
	// they do); a store anywhere else bypasses the validator / public-key / slot checks
	rd := c.Fn(c15P + ".Scheduler.resolveDuties")
	resolvers, storesOf := c15ResolverEntries(c, e)
	rcs := c15ResolverCalls(c, e, rd, resolvers)
	runBy := map[string]bool{}
	for _, rc := range rcs {
		for _, rn := range rc.names {
			runBy[rn] = true
		}
	}
	if e.leaks[setFn] {
		c.Unsure("setDutyDefinition callers", setFn.Pos(), "setDutyDefinition is used as a value; its callers cannot be enumerated")
	}
	for _, s := range e.calls[setFn] {
		if s.Parent().Parent() != nil {
			c.Unsure(an.FuncName(s.Parent())+" setDutyDefinition", s.Pos(), "the store sits in a function literal; the per-duty checks cannot be followed there")
		}
	}
	var checked []*ssa.Function
	for _, fn := range resolvers {
		rn := c15ShortName(fn)
		if !runBy[rn] {
			var calls []ssa.CallInstruction
			for _, sf := range storesOf[fn] {
				calls = append(calls, an.Calls(sf, an.Static(setN), false)...)
			}
			for _, call := range calls {
				if own := e.owned(rd); own[fn] {
					c.Unsure(an.FuncName(fn)+" setDutyDefinition", call.Pos(), "the store was moved into a helper below resolveDuties that is not called with the validator list directly; the per-duty checks cannot be followed there")
					continue
				}
				c.Bad(an.FuncName(fn)+" setDutyDefinition", call.Pos(), "duty definitions are stored outside the resolve functions run by resolveDuties (no validator / public-key / slot checks apply)")
			}
			continue
		}
		checked = append(checked, fn)
	}
	kinds := map[string]bool{}
	for _, entry := range checked {
		rn := c15ShortName(entry)
		slotP := c15ParamT(c, entry, "core.Slot")
		valsP := c15ParamT(c, entry, c15P+".validators")
		var sinks []ssa.CallInstruction
		for _, sf := range storesOf[entry] {
			sinks = append(sinks, c.SomeCalls(sf, an.Static(setN), "setDutyDefinition", false)...)
		}
		for _, sink := range sinks {
			// fn: the function the store sits in (the resolver itself or a per-duty helper below it); the
			// guards are looked for on the way from the store up to the resolver's entry
			fn := sink.Parent()
			levels := e.levels(sink, entry)
			cc := sink.Common()
			dutyArg, epochArg, pkArg, defArg := c15ArgT(cc, "core.Duty"), c15ArgT(cc, "uint64"), c15ArgT(cc, "core.PubKey"), c15ArgT(cc, "core.DutyDefinition")
			if dutyArg == nil || epochArg == nil || pkArg == nil || defArg == nil {
				c.Bail("setDutyDefinition: unexpected signature")
			}
			dutyCall, _ := c15Local(dutyArg).(*ssa.Call)
			ctor := ""
			if dutyCall != nil && dutyCall.Call.StaticCallee() != nil {
				ctor = an.FuncName(dutyCall.Call.StaticCallee())
			}
			name := fmt.Sprintf("%s setDutyDefinition(%s)", rn, strings.TrimPrefix(ctor, "core."))
			wantDef, known := c15DefFor[ctor]
			if !known {
				c.Unsure(name, sink.Pos(), "duty is not built by a known core.New*Duty constructor")
				continue
			}
			kinds[ctor] = true
			// definition built from beacon duty D, an element of a loop around the sink
			def := c15Static(defArg, wantDef)
			var D ssa.Value
			var loop *an.Loop
			if def != nil {
				D = e.origin(c15Local(def.Call.Args[0]))
				for _, lv := range levels {
					for _, l := range an.LoopsContaining(lv.fn, lv.at.Block()) {
						if loop == nil && c15ElemOf(l, D) {
							loop = l
						}
					}
				}
			}
			if def == nil {
				anyCtor := false
				if dc, ok := c15Local(defArg).(*ssa.Call); ok && dc.Call.StaticCallee() != nil {
					for _, w := range c15DefFor {
						if an.FuncName(dc.Call.StaticCallee()) == w {
							anyCtor = true
						}
					}
				}
				if !anyCtor {
					c.Unsure(name+" definition", sink.Pos(), "the definition stored is not built by a core.New*Definition constructor in this function")
					continue
				}
			}
			if !c.Check(name+" definition", sink.Pos(), def != nil && loop != nil,
				"the definition stored is not "+wantDef+"(d) of the beacon duty d being iterated") {
				continue
			}
			ofD := func(v ssa.Value, field string) bool {
				b, n, ok := c15FieldRead(e.origin(v))
				if !ok || n != field {
					return false
				}
				b = e.origin(b)
				return b == D || an.Equiv(b, D)
			}
			// duty slot
			if ctor == "core.NewSyncContributionDuty" {
				mark := e.opaque
				ok, unsure, why := c15SyncSlots(e, fn, sink, dutyCall.Call.Args[0], slotP, loop)
				if !ok && !unsure && e.opaque > mark {
					unsure, why = true, "a value is read from a field of a parameter object whose construction could not be followed: "+why
				}
				if unsure {
					c.Unsure(name+" slot range", sink.Pos(), why)
				} else {
					c.Check(name+" slot range", sink.Pos(), ok, why)
				}
			} else {
				c.Check(name+" duty slot", sink.Pos(), ofD(dutyCall.Call.Args[0], "Slot"),
					"the duty is not scheduled at the slot of the beacon duty it is defined by")
				// a comparison of d.Slot with slot.Slot that is known, on every path, to exclude d.Slot < slot.Slot
				findSkip := func(h *ssa.Function) []c15Atom {
					var out []c15Atom
					for _, in := range an.Instrs(h, false) {
						bin, ok := in.(*ssa.BinOp)
						if !ok {
							continue
						}
						op, x, y := bin.Op, bin.X, bin.Y
						if ofD(y, "Slot") {
							x, y = y, x
							switch op {
							case token.LSS:
								op = token.GTR
							case token.GTR:
								op = token.LSS
							case token.LEQ:
								op = token.GEQ
							case token.GEQ:
								op = token.LEQ
							}
						}
						if !ofD(x, "Slot") || !e.fieldOf(y, "Slot", slotP) {
							continue
						}
						switch op { // d.Slot op slot.Slot
						case token.LSS, token.LEQ: // false ⇒ d.Slot >= slot.Slot (resp. >)
							out = append(out, c15Atom{v: bin, want: false})
						case token.GEQ, token.GTR, token.EQL: // true ⇒ d.Slot >= slot.Slot
							out = append(out, c15Atom{v: bin, want: true})
						}
					}
					return out
				}
				c15CheckHoldsUp(c, e, name+" slot skip", sink, entry, findSkip,
					"a beacon duty for a slot before the resolving slot reaches the store (no effective `d.Slot < slot.Slot` skip)")
			}
			// epoch bookkeeping
			ep := c15Static(epochArg, "core.Slot.Epoch")
			if ep == nil {
				c.Unsure(name+" epoch", sink.Pos(), "the epoch the definition is filed under is not the result of Slot.Epoch()")
			} else {
				mark := e.opaque
				e.checkTraced(name+" epoch", sink.Pos(), e.rooted(ep.Call.Args[0], slotP), mark,
					"the definition is not filed under the epoch being resolved (it would not be trimmed with it)")
			}
			// public key: looked up by D's validator index in vals, found on every path. The lookup may sit at any
			// level between the store and the resolver's entry, or in a helper (then the helper's results are
			// summarised per return like any other guard)
			Ks := map[ssa.Value]bool{}
			found, discarded := false, false
			findLookup := func(h *ssa.Function) []c15Atom {
				var out []c15Atom
				for _, in := range an.Instrs(h, false) {
					k, isCall := in.(*ssa.Call)
					if !isCall || k.Call.Signature().Results().Len() != 2 {
						continue
					}
					var r0, r1 ssa.Value
					for _, ref := range *k.Referrers() {
						if ex, ok := ref.(*ssa.Extract); ok {
							if ex.Index == 0 {
								r0 = ex
							} else {
								r1 = ex
							}
						}
					}
					if !an.Static(c15P + ".validators.PubKeyFromIndex")(&k.Call) {
						// a single-use helper that returns exactly the lookup's two results
						if r0 == nil || r1 == nil {
							continue
						}
						p0, i0 := e.resultOf(r0)
						p1, i1 := e.resultOf(r1)
						if p0 == nil || p0 != p1 || i0 != 0 || i1 != 1 || p0 == k || !an.Static(c15P+".validators.PubKeyFromIndex")(&p0.Call) {
							continue
						}
						if a := p0.Call.Args; !e.rooted(a[0], valsP) || !ofD(a[1], "ValidatorIndex") {
							continue
						}
					} else if a := k.Call.Args; !e.rooted(a[0], valsP) || !ofD(a[1], "ValidatorIndex") {
						continue
					}
					found = true
					if r1 == nil {
						discarded = true
						continue
					}
					if r0 != nil {
						Ks[r0] = true
					}
					out = append(out, c15Atom{v: r1, want: true})
				}
				return out
			}
			for _, lv := range levels {
				c15Atoms(e, lv.fn, findLookup, 0) // first pass: is there a lookup at all, which values are the looked-up key
			}
			if !found {
				hidden := false
				for _, lv := range levels {
					for _, in := range an.Instrs(lv.fn, false) {
						k, isCall := in.(*ssa.Call)
						if !isCall || k.Call.StaticCallee() == nil || k.Call.StaticCallee().Pkg != e.pkg || an.Static(c15P+".validators.PubKeyFromIndex")(&k.Call) {
							continue
						}
						if res := k.Call.Signature().Results(); res.Len() >= 2 && an.TypeName(res.At(0).Type()) == "core.PubKey" {
							hidden = true
						}
					}
				}
				if hidden {
					c.Unsure(name+" validator lookup", sink.Pos(), "the public key comes from a helper that could not be reduced to vals.PubKeyFromIndex(d.ValidatorIndex)")
					continue
				}
				c.Bad(name+" validator lookup", sink.Pos(), "no vals.PubKeyFromIndex(d.ValidatorIndex) for the beacon duty precedes the store: duties of validators outside the active cluster set are stored")
				continue
			}
			lookupWhy := "vals.PubKeyFromIndex(d.ValidatorIndex): control reaches the store although the validator was not found"
			if discarded && len(Ks) == 0 {
				lookupWhy = "vals.PubKeyFromIndex(d.ValidatorIndex): the boolean result is discarded"
			}
			if !c15CheckHoldsUp(c, e, name+" validator lookup", sink, entry, findLookup, lookupWhy) {
				continue
			}
			isK := func(v ssa.Value) bool { return v != nil && Ks[v] }
			// equality of the looked-up key and the beacon duty's key, known on every path
			others := map[ssa.Value]bool{}
			findEq := func(h *ssa.Function) []c15Atom {
				var out []c15Atom
				for _, in := range an.Instrs(h, false) {
					bin, ok := in.(*ssa.BinOp)
					if !ok || (bin.Op != token.EQL && bin.Op != token.NEQ) {
						continue
					}
					x, y := bin.X, bin.Y
					if isK(e.origin(y)) {
						x, y = y, x
					}
					if !isK(e.origin(x)) {
						continue
					}
					from := c15Static(e.origin(y), "core.PubKeyFrom48Bytes")
					if from == nil || !ofD(from.Call.Args[0], "PubKey") {
						continue
					}
					out = append(out, c15Atom{v: bin, want: bin.Op == token.EQL})
					others[from] = true
				}
				return out
			}
			c15CheckHoldsUp(c, e, name+" public key equality", sink, entry, findEq,
				"the store is reachable without the looked-up public key having been found equal to the beacon duty's own public key")
			// the key the definition is stored under: the looked-up key (or the equal key of the beacon duty),
			// directly or as what a helper returns on its non-constant returns
			isChecked := func(v ssa.Value) bool {
				if isK(v) || others[v] {
					return true
				}
				for o := range others {
					if an.Equiv(v, o) {
						return true
					}
				}
				return false
			}
			pk := e.origin(pkArg)
			if isChecked(pk) {
				c.Good(name+" public key argument", sink.Pos(), "")
			} else if cands, viaHelper := c15ReturnCands(e, pk, 0, isChecked); viaHelper {
				allK := len(cands) > 0
				for _, cv := range cands {
					if !isChecked(cv) {
						allK = false
					}
				}
				if allK {
					c.Good(name+" public key argument", sink.Pos(), "")
				} else {
					c.Unsure(name+" public key argument", sink.Pos(), "the public key stored under comes from a helper whose returned value could not be reduced to the checked key")
				}
			} else {
				c.Bad(name+" public key argument", sink.Pos(), "the public key the definition is stored under is not the checked key of this beacon duty")
			}
		}
	}
	for ctor := range c15DefFor {
		if !kinds[ctor] {
			c.Unsure("setDutyDefinition("+strings.TrimPrefix(ctor, "core.")+")", rd.Pos(), "no store of a duty built by "+ctor+" found in the resolve functions run by resolveDuties")
		}
	}
	// vals handed to the resolvers is the checked result of resolveActiveValidators
	rav := c15RavCall(c, e, rd)
	for _, rc := range rcs {
		v := c15ArgT(rc.call.Common(), c15P+".validators")
		ex, ok := e.origin(v).(*ssa.Extract)
		good := ok && ex.Index == 0 && ex.Tuple == rav.Value()
		undecided := false
		if good {
			if top := c15TopSite(e, rc.call, rav.Parent()); top != nil {
				g, decided, _ := c15ErrNilAt(rav.Parent(), rav, nil, top)
				good, undecided = g, !decided
			} else {
				good, undecided = false, true
			}
		}
		for _, rn := range rc.names {
			if undecided {
				c.Unsure("resolveDuties→"+rn+" validators", rc.call.Pos(), "cannot follow the call up to resolveDuties, or too many paths")
				continue
			}
			c.Check("resolveDuties→"+rn+" validators", rc.call.Pos(), good, "the validator list is not the checked result of resolveActiveValidators")
		}
	}
	c15ActiveFilter(c)
}

// c15SyncSlots: the duty slot is sl.Slot of a loop variable that starts at the resolving slot, advances by
// Next() and stays inside the resolving slot's epoch.
//
// Three-valued: the recognised spelling (sl.Epoch() == slot.Epoch() known on every path to the store, read
// after the last assignment of sl) holds; a store on a path on which a recognised epoch test is not known
// to have succeeded, an advance between the test and the store, or – whatever the spelling – a slot loop
// none of whose exit conditions carries any epoch information (no Epoch()/LastInEpoch()/FirstInEpoch() of a
// slot, no division / remainder / multiplication, no helper that could hide one) is a violation: the
// number of slots stored then does not depend on where in its epoch the resolving slot lies, so for a
// resolution that is not at the epoch's first slot the definitions spill into the next epoch (or fall
// short). Everything else is undecided.
func c15SyncSlots(e *c15Env, fn *ssa.Function, sink ssa.Instruction, slotArg, slotP ssa.Value, dutyLoop *an.Loop) (ok bool, unsure bool, why string) {
	// the loops over slots: those around the store inside the loop over the beacon duties
	var slotLoops []*an.Loop
	for _, l := range an.LoopsContaining(fn, sink.Block()) {
		if dutyLoop != nil && (l.Header == dutyLoop.Header || !dutyLoop.Body[l.Header]) {
			continue
		}
		slotLoops = append(slotLoops, l)
	}
	epochInfo := false
	for _, l := range slotLoops {
		for b := range l.Body {
			if len(b.Instrs) == 0 {
				continue
			}
			iff, isIf := b.Instrs[len(b.Instrs)-1].(*ssa.If)
			if !isIf {
				continue
			}
			exits := false
			for _, s := range b.Succs {
				if !l.Body[s] {
					exits = true
				}
			}
			if exits && c15EpochInfo(e, iff.Cond) {
				epochInfo = true
			}
		}
	}
	noBound := "the loop that stores sync contribution duties has no exit condition that depends on the epoch of the slot being stored (its length does not depend on the resolving slot's position in the epoch): when duties are resolved after the epoch's first slot, definitions are stored for slots of the next epoch"
	b, n, isField := c15FieldRead(slotArg)
	sl, isAlloc := b.(*ssa.Alloc)
	if !isField || n != "Slot" || !isAlloc {
		if len(slotLoops) > 0 && !epochInfo {
			return false, false, noBound
		}
		return false, true, "sync contribution duty slot is not the Slot of a local slot variable"
	}
	var advances []*ssa.Store
	for _, ref := range *sl.Referrers() {
		st, isStore := ref.(*ssa.Store)
		if !isStore {
			continue
		}
		if st.Addr != ssa.Value(sl) {
			return false, true, "the slot variable escapes"
		}
		if e.rooted(st.Val, slotP) && an.TypeName(st.Val.Type()) == "core.Slot" {
			continue // the resolving slot itself (core.Slot has no field of its own type, so this is not a part of it)
		}
		if next := c15Static(st.Val, "core.Slot.Next"); next != nil && c15IsLoadOf(next.Call.Args[0], sl) {
			advances = append(advances, st)
			continue
		}
		return false, false, "the slot variable is assigned something other than the resolving slot or its own Next()"
	}
	var eqs []ssa.Value
	truth := map[ssa.Value]bool{}
	for _, in := range an.Instrs(fn, false) {
		bin, isBin := in.(*ssa.BinOp)
		if !isBin || (bin.Op != token.EQL && bin.Op != token.NEQ) {
			continue
		}
		ex, ey := c15Static(bin.X, "core.Slot.Epoch"), c15Static(bin.Y, "core.Slot.Epoch")
		if ex == nil || ey == nil {
			continue
		}
		if !c15IsLoadOf(ex.Call.Args[0], sl) {
			ex, ey = ey, ex
		}
		if !c15IsLoadOf(ex.Call.Args[0], sl) || !e.rooted(ey.Call.Args[0], slotP) {
			continue
		}
		// the epoch of sl must be read after its last assignment: no assignment of sl on a way from the
		// test to the store (that does not pass the test again)
		stale := false
		for _, a := range advances {
			if c15ReachAvoiding(ex, a, ex.Block()) && c15ReachAvoiding(a, sink, ex.Block()) {
				stale = true
			}
		}
		if stale {
			why = "the slot variable is advanced between the epoch test and the store"
			continue
		}
		eqs = append(eqs, bin)
		truth[bin] = bin.Op == token.EQL
	}
	if len(eqs) == 0 && why == "" {
		// no test of the recognised spelling
		if len(slotLoops) > 0 && !epochInfo {
			return false, false, noBound
		}
		return false, true, "the epoch bound of the sync contribution slots is not spelled sl.Epoch() == slot.Epoch(); it could not be followed"
	}
	if why == "" {
		why = "the store is reachable on a path on which sl.Epoch() == slot.Epoch() is not known to hold: sync duties are set outside the resolved epoch"
	}
	all, decided := c15Arrivals(fn, sink, eqs, nil, func(f *an.H15Facts) bool {
		for _, b := range eqs {
			if k, known := f.Known(b); known && k == truth[b] {
				return true
			}
		}
		return false
	})
	if !decided {
		return false, true, "too many paths to enumerate"
	}
	return all, false, why
}

// c15EpochInfo: does the value depend (through arithmetic, locals, phis, fields) on anything that tells
// where a slot lies relative to an epoch boundary – an epoch-related method of core.Slot, a division /
// remainder / multiplication (the spellings of slot/SlotsPerEpoch arithmetic), or a call that is not a
// plain accessor and could hide one?
func c15EpochInfo(e *c15Env, v ssa.Value) bool {
	seen := map[ssa.Value]bool{}
	var walk func(v ssa.Value, d int) bool
	walk = func(v ssa.Value, d int) bool {
		if v == nil || seen[v] || d > 24 {
			return false
		}
		seen[v] = true
		switch x := v.(type) {
		case *ssa.Const, *ssa.Global, *ssa.Function, *ssa.Builtin:
			return false
		case *ssa.Parameter:
			if a := e.argOf(x); a != nil {
				return walk(a, d+1)
			}
			return false
		case *ssa.FreeVar:
			return walk(c15Binding(x), d+1)
		case *ssa.Alloc:
			for _, ref := range *x.Referrers() {
				switch r := ref.(type) {
				case *ssa.Store:
					if r.Addr == ssa.Value(x) && walk(r.Val, d+1) {
						return true
					}
				case *ssa.FieldAddr:
					for _, r2 := range *r.Referrers() {
						if st, ok := r2.(*ssa.Store); ok && st.Addr == ssa.Value(r) && walk(st.Val, d+1) {
							return true
						}
					}
				}
			}
			return false
		case *ssa.BinOp:
			switch x.Op {
			case token.QUO, token.REM, token.MUL, token.SHR, token.SHL, token.AND:
				return true
			}
			return walk(x.X, d+1) || walk(x.Y, d+1)
		case *ssa.Call:
			if b, isB := x.Call.Value.(*ssa.Builtin); isB {
				_ = b
			} else if callee := x.Call.StaticCallee(); callee != nil {
				switch an.FuncName(callee) {
				case "core.Slot.Next":
				default:
					return true // Epoch(), LastInEpoch(), FirstInEpoch(), or a helper that may compute one
				}
			} else {
				return true // dynamic call: unknown
			}
			for _, a := range x.Call.Args {
				if walk(a, d+1) {
					return true
				}
			}
			return false
		}
		in, isInstr := v.(ssa.Instruction)
		if !isInstr {
			return false
		}
		for _, op := range an.Operands(in) {
			if walk(op, d+1) {
				return true
			}
		}
		return false
	}
	return walk(v, 0)
}

// c15ActiveFilter: resolveActiveValidators appends a validator only on paths on which Status.IsActive()
// held or the activation epoch equals the epoch being resolved.
func c15ActiveFilter(c *rt.Ctx) {
	e := c15NewEnv(c)
	fn := c.Fn(c15P + ".resolveActiveValidators")
	epochP := c15ParamT(c, fn, "uint64")
	var appends []*ssa.Call
	for _, in := range an.Instrs(fn, false) {
		if x, ok := in.(*ssa.Call); ok {
			if b, ok := x.Call.Value.(*ssa.Builtin); ok && b.Name() == "append" && an.TypeName(x.Type()) == "[]"+c15P+".validator" {
				appends = append(appends, x)
			}
		}
	}
	atoms := c15Atoms(e, fn, func(h *ssa.Function) []c15Atom {
		var out []c15Atom
		for _, in := range an.Instrs(h, false) {
			switch x := in.(type) {
			case *ssa.Call:
				if an.Static("github.com/attestantio/go-eth2-client/api/v1.ValidatorState.IsActive")(&x.Call) {
					if _, n, ok := c15FieldRead(e.origin(x.Call.Args[0])); ok && n == "Status" {
						out = append(out, c15Atom{v: x, want: true})
					}
				}
			case *ssa.BinOp:
				if x.Op != token.EQL && x.Op != token.NEQ {
					continue
				}
				a, b := x.X, x.Y
				if e.rooted(a, epochP) {
					a, b = b, a
				}
				if _, n, ok := c15FieldRead(e.origin(a)); !ok || n != "ActivationEpoch" || !e.rooted(b, epochP) {
					continue
				}
				out = append(out, c15Atom{v: x, want: x.Op == token.EQL})
			}
		}
		return out
	}, 0)
	if len(appends) == 0 {
		c.Bail("resolveActiveValidators: no append to the validator list")
	}
	for _, a := range appends {
		c15CheckHolds(c, "resolveActiveValidators append active-only", fn, a, atoms,
			"a validator is added to the active list on a path where neither Status.IsActive() held nor ActivationEpoch == epoch")
		// index and status belong to the same map entry: the recorded index is the key of the iteration
		// whose value was tested (range key, or the key the entry was looked up with)
		elems := appendedElems(a)
		good, unsure := false, true
		if len(elems) == 1 {
			// the element built here, or what a helper returns for it (zero values, returned together with
			// "not active", have no index assigned and are not what gets appended)
			cands := []ssa.Value{elems[0]}
			if more, via := c15ReturnCands(e, e.origin(elems[0]), 0, nil); via {
				cands = more
			}
			for _, cv := range cands {
				ld, ok := c15Local(cv).(*ssa.UnOp)
				if !ok {
					continue
				}
				if lit, ok := ld.X.(*ssa.Alloc); ok {
					for _, st := range c15StructInit(lit)[c15P+".validator.VIdx"] {
						key := e.origin(st.Val)
						if ex, ok := key.(*ssa.Extract); ok && ex.Index == 1 {
							if _, isNext := ex.Tuple.(*ssa.Next); isNext {
								good, unsure = true, false
							}
						}
						if _, isConst := key.(*ssa.Const); isConst {
							unsure = false
						}
						// entry looked up by the recorded key: val := m[key]
						for _, at := range atoms {
							call, isCall := at.v.(*ssa.Call)
							if !isCall || len(call.Call.Args) == 0 {
								continue
							}
							b, _, isField := c15FieldRead(call.Call.Args[0])
							if !isField {
								continue
							}
							if lk, ok := c15Local(b).(*ssa.Lookup); ok && c15Local(lk.Index) == key {
								good, unsure = true, false
							}
						}
					}
				}
			}
		}
		if !good && unsure {
			c.Unsure("resolveActiveValidators append index", a.Pos(), "cannot relate the recorded validator index to the map entry that was tested")
			continue
		}
		c.Check("resolveActiveValidators append index", a.Pos(), good, "the validator index recorded is not the key of the beacon node's validator map entry")
	}
}

// ---------------------------------------------------------------------------------------------
// U4 first definition wins; lock discipline

func c15U4(c *rt.Ctx) {
	e := c15NewEnv(c)
	fn := c.Fn(c15P + ".Scheduler.setDutyDefinition")
	// setDutyDefinition may be a thin wrapper (take the lock, call the worker with its own parameters):
	// the first-wins obligations are then those of the single-use worker
	for i := 0; i < 3; i++ {
		has := false
		for _, up := range mapUpdates(fn, func(ssa.Value) bool { return true }) {
			if up.Parent() == fn && an.TypeName(up.Map.Type()) == "core.DutyDefinitionSet" {
				has = true
			}
		}
		if has {
			break
		}
		var next *ssa.Function
		for _, in := range an.Instrs(fn, false) {
			call, ok := in.(*ssa.Call)
			if !ok || call.Call.StaticCallee() == nil || call.Call.IsInvoke() {
				continue
			}
			h := an.Orig(call.Call.StaticCallee())
			if h.Pkg != e.pkg || e.site(h) != ssa.CallInstruction(call) || !c15HasParamT(h, "core.Duty") || !c15HasParamT(h, "core.PubKey") || !c15HasParamT(h, "core.DutyDefinition") {
				continue
			}
			forwards := true
			for _, a := range call.Call.Args {
				if p, isP := e.originShallow(a).(*ssa.Parameter); !isP || p.Parent() != fn {
					forwards = false
				}
			}
			if forwards {
				next = h
			}
		}
		if next == nil {
			break
		}
		fn = next
	}
	dutyP := c15ParamT(c, fn, "core.Duty")
	pkP := c15ParamT(c, fn, "core.PubKey")
	setP := c15ParamT(c, fn, "core.DutyDefinition")
	isDuties := isFieldMap(c15Sched + ".duties")
	var inner, outer []*ssa.MapUpdate
	for _, up := range mapUpdates(fn, func(ssa.Value) bool { return true }) {
		if up.Parent() != fn {
			continue
		}
		switch {
		case an.TypeName(up.Map.Type()) == "core.DutyDefinitionSet":
			inner = append(inner, up)
		case isDuties(c15Local(up.Map)):
			outer = append(outer, up)
		}
	}
	if len(inner) == 0 {
		c.Bail("setDutyDefinition: write to the definition set not found")
	}
	// stored(v): v is the set currently stored for the duty, s.duties[duty]
	stored := func(v ssa.Value) bool {
		v = c15Local(v)
		if ex, ok := v.(*ssa.Extract); ok && ex.Index == 0 {
			v = ex.Tuple
		}
		lk, ok := v.(*ssa.Lookup)
		return ok && isDuties(c15Local(lk.X)) && c15Local(lk.Index) == ssa.Value(dutyP)
	}
	fresh := func(v ssa.Value) bool { _, ok := c15Local(v).(*ssa.MakeMap); return ok }
	// facts: "the duty has no stored set" and "the set has no entry for the validator"
	var absent, missing []ssa.Value
	missingOn := map[ssa.Value]ssa.Value{} // ok value -> map looked up
	for _, in := range an.Instrs(fn, false) {
		lk, ok := in.(*ssa.Lookup)
		if !ok || !lk.CommaOk {
			continue
		}
		var okv ssa.Value
		for _, ref := range *lk.Referrers() {
			if ex, isEx := ref.(*ssa.Extract); isEx && ex.Index == 1 {
				okv = ex
			}
		}
		if okv == nil {
			continue
		}
		switch {
		case isDuties(c15Local(lk.X)) && c15Local(lk.Index) == ssa.Value(dutyP):
			absent = append(absent, okv)
		case an.TypeName(lk.X.Type()) == "core.DutyDefinitionSet" && c15Local(lk.Index) == ssa.Value(pkP):
			missing = append(missing, okv)
			missingOn[okv] = lk.X
		}
	}
	// `s.duties[duty] == nil` is the other spelling of "the duty has no stored set"
	absentWhen := map[ssa.Value]bool{}
	for _, v := range absent {
		absentWhen[v] = false
	}
	for _, in := range an.Instrs(fn, false) {
		bin, ok := in.(*ssa.BinOp)
		if !ok || (bin.Op != token.EQL && bin.Op != token.NEQ) {
			continue
		}
		if (an.IsNilConst(bin.Y) && stored(bin.X)) || (an.IsNilConst(bin.X) && stored(bin.Y)) {
			absent = append(absent, bin)
			absentWhen[bin] = bin.Op == token.EQL
		}
	}
	track := append(append([]ssa.Value{}, absent...), missing...)
	isSetPhi := func(p *ssa.Phi) bool { return an.TypeName(p.Type()) == "core.DutyDefinitionSet" }
	knownFalse := func(f *an.H15Facts, vs []ssa.Value) bool {
		for _, v := range vs {
			want, special := absentWhen[v]
			if !special {
				want = false
			}
			if k, known := f.Known(v); known && k == want {
				return true
			}
		}
		return false
	}
	// a fresh set may only come into play when the duty has no stored set (else the other validators' definitions are lost)
	for _, up := range outer {
		name := "setDutyDefinition duties[duty] write-back"
		if c15Local(up.Key) != ssa.Value(dutyP) {
			c.Bad(name, posOf(up), "s.duties is written under a key other than the duty parameter")
			continue
		}
		why := ""
		all, decided := c15Arrivals(fn, up, track, isSetPhi, func(f *an.H15Facts) bool {
			v := f.Resolve(c15Local(up.Value))
			switch {
			case fresh(v):
				if !knownFalse(f, absent) {
					why = "a fresh definition set replaces the stored one although the duty already has definitions (other validators' definitions are lost)"
					return false
				}
				return true
			case stored(v):
				if knownFalse(f, absent) {
					why = "the stored set is used on the path where the duty has none"
					return false
				}
				return true
			}
			why = "s.duties[duty] is assigned something other than the duty's own definition set"
			return false
		})
		if !decided {
			c.Unsure(name, posOf(up), "too many paths to enumerate")
			continue
		}
		c.Check(name, posOf(up), all, why)
	}
	for _, up := range inner {
		// not-present test on the same set and key, known on every path to the write
		why := ""
		provWhy := ""
		prov, linked, provHelper := true, true, false
		all, decided := c15Arrivals(fn, up, track, isSetPhi, func(f *an.H15Facts) bool {
			m := f.Resolve(c15Local(up.Map))
			if !stored(m) {
				isLinked := false
				for _, o := range outer {
					if c15Local(o.Value) == c15Local(up.Map) || f.Resolve(c15Local(o.Value)) == m {
						isLinked = true
					}
				}
				if !isLinked {
					linked = false
				}
			}
			// provenance of the set written to
			switch {
			case stored(m):
				if _, isEx := m.(*ssa.Extract); isEx && knownFalse(f, absent) {
					prov, provWhy = false, "the stored set is used on the path where the duty has none"
				}
			case fresh(m):
				if !knownFalse(f, absent) {
					prov, provWhy = false, "a fresh definition set replaces the stored one although the duty already has definitions (other validators' definitions are lost)"
				}
			default:
				prov, provWhy = false, "the definition set written to is not s.duties[duty] (or a fresh set when the duty has none)"
				if call, isCall := c15Local(m).(*ssa.Call); isCall && call.Call.StaticCallee() != nil && call.Call.StaticCallee().Pkg == e.pkg {
					provHelper = true // e.g. a get-or-create helper: not followed
				}
				if ex, isEx := c15Local(m).(*ssa.Extract); isEx {
					if call, isCall := ex.Tuple.(*ssa.Call); isCall && call.Call.StaticCallee() != nil && call.Call.StaticCallee().Pkg == e.pkg {
						provHelper = true
					}
				}
			}
			for _, okv := range missing {
				k, known := f.Known(okv)
				if !known || k {
					continue
				}
				tm := f.Resolve(c15Local(missingOn[okv]))
				if tm == m || (stored(tm) && (stored(m) || fresh(m))) {
					return true
				}
			}
			why = "the write is reachable without a `_, present := defSet[pubkey]` test of the same set having found no entry: a later resolution overwrites the first"
			return false
		})
		if !decided {
			c.Unsure("setDutyDefinition first definition wins", posOf(up), "too many paths to enumerate")
			continue
		}
		if provHelper {
			c.Unsure("setDutyDefinition set provenance", posOf(up), "the definition set written to is obtained from a helper of the package that is not followed")
			continue
		}
		c.Check("setDutyDefinition first definition wins", posOf(up), all, why)
		c.Check("setDutyDefinition key and value", posOf(up), c15Local(up.Key) == ssa.Value(pkP) && c15Local(up.Value) == ssa.Value(setP),
			"the entry written is not (pubkey parameter → definition parameter)")
		c.Check("setDutyDefinition set provenance", posOf(up), prov, provWhy)
		// the extended set is (already or afterwards) the one stored under the duty: decided per path below
		c.Check("setDutyDefinition set is stored", posOf(up), linked, "the definition set that was extended is not stored under s.duties[duty]")
	}
	// nobody else writes definition sets or the duties map
	underSet := e.owned(fn)
	for _, g := range e.funcs {
		if g == fn {
			continue
		}
		for _, up := range mapUpdates(g, func(ssa.Value) bool { return true }) {
			if up.Parent() != g {
				continue
			}
			if isDuties(c15Local(up.Map)) || an.TypeName(up.Map.Type()) == "core.DutyDefinitionSet" {
				if underSet[g] {
					c.Unsure(an.FuncName(g)+" writes duty definitions", posOf(up), "part of setDutyDefinition was moved into a helper; the first-wins checks are not followed there")
					continue
				}
				c.Bad(an.FuncName(g)+" writes duty definitions", posOf(up), "duty definitions are written outside setDutyDefinition (first-wins rule bypassed)")
			}
		}
	}
	lockRule(c, []string{c15P}, an.LockTable{
		c15Sched + ".duties":         "dutiesMutex", // get/setDutyDefinition, trimDuties
		c15Sched + ".dutiesByEpoch":  "dutiesMutex", // setDutyDefinition, trimDuties
		c15Sched + ".resolvedEpoch":  "dutiesMutex", // get/setResolvedEpoch, getEpochResolvedChan
		c15Sched + ".resolvingEpoch": "dutiesMutex", // set/isResolvingEpoch
		c15Sched + ".epochResolved":  "dutiesMutex", // setResolvedEpoch, getEpochResolvedChan
	})
}

// ---------------------------------------------------------------------------------------------
// U5 clone per subscriber

func c15U5(c *rt.Ctx) {
	e := c15NewEnv(c)
	sched, trig := c15OneTrigger(c, e)
	for _, s := range an.Calls(trig, e.subCall(), false) {
		name := an.FuncName(trig) + " subscriber definition set"
		arg := c15ArgT(s.Common(), "core.DutyDefinitionSet")
		if arg == nil {
			c.Bail("subscriber call: unexpected signature")
		}
		// made: the call in the trigger function that produced the argument (defSet.Clone() itself, or a
		// single-use helper that returns exactly the two results of one defSet.Clone())
		var made *ssa.Call
		if ex, ok := c15Local(arg).(*ssa.Extract); ok && ex.Index == 0 {
			made, _ = ex.Tuple.(*ssa.Call)
		}
		clone, ci := e.resultOf(arg)
		switch c15Local(arg).(type) {
		case *ssa.Parameter, *ssa.FreeVar:
			made = nil
			if clone != nil && ci == 0 && an.Static("core.DutyDefinitionSet.Clone")(&clone.Call) {
				c.Unsure(name, s.Pos(), "the clone is made by the caller of the function that calls the subscriber; cannot tell whether it is made once per subscriber")
				continue
			}
		}
		if made == nil || clone == nil || ci != 0 || !an.Static("core.DutyDefinitionSet.Clone")(&clone.Call) {
			c.Bad(name, s.Pos(), "subscribers receive something other than the result of defSet.Clone()")
			continue
		}
		if made != clone {
			errs, _ := an.StatusOf(made, -1)
			ec, ei := (*ssa.Call)(nil), 0
			if len(errs) == 1 {
				ec, ei = e.resultOf(errs[0])
			}
			if ec != clone || ei != 1 {
				c.Unsure(name, s.Pos(), "the clone is made in a helper whose error result is not the clone's error")
				continue
			}
		}
		mark := e.opaque
		src, _ := e.origin(clone.Call.Args[0]).(*ssa.Extract)
		var get *ssa.Call
		if src != nil && src.Index == 0 {
			get, _ = src.Tuple.(*ssa.Call)
		}
		if get == nil || !e.owned(sched)[get.Parent()] || !an.Static(c15P+".Scheduler.getDutyDefinitionSet")(&get.Call) {
			e.checkTraced(name, s.Pos(), false, mark, "the clone handed to subscribers is not a clone of the definition set the goroutine was started with")
			continue
		}
		l := an.InnermostLoop(trig, s.Block())
		if l == nil || made.Parent() != trig || !l.Body[made.Block()] {
			c.Bad(name, s.Pos(), "one clone is shared by all subscribers (made outside the subscriber loop)")
			continue
		}
		g, decided, why := c15ErrNilAt(trig, made, nil, s)
		if !decided {
			c.Unsure(name, s.Pos(), "too many paths to enumerate")
			continue
		}
		c.Check(name, s.Pos(), g, "defSet.Clone(): "+why)
	}
}

// ---------------------------------------------------------------------------------------------
// U6 resolved only after success

func c15U6(c *rt.Ctx) {
	e := c15NewEnv(c)
	rd := c.Fn(c15P + ".Scheduler.resolveDuties")
	slotP := c15ParamT(c, rd, "core.Slot")
	setN := c15P + ".Scheduler.setResolvedEpoch"
	const sentinel = int64(^uint64(0) >> 1) // math.MaxInt64, the "nothing resolved" marker
	rav := c15RavCall(c, e, rd)
	var vals ssa.Value
	for _, ref := range *rav.Value().Referrers() {
		if ex, ok := ref.(*ssa.Extract); ok && ex.Index == 0 {
			vals = ex
		}
	}
	var resolverNames []string
	resolvers, _ := c15ResolverEntries(c, e)
	for _, fn := range resolvers {
		resolverNames = append(resolverNames, c15ShortName(fn))
	}
	rcs := c15ResolverCalls(c, e, rd, resolvers)
	if len(rcs) == 0 {
		c.Bail("resolveDuties runs none of the functions that store duty definitions")
	}
	// comparisons of len(vals) with a constant (in resolveDuties or a helper below it)
	isLen := func(v ssa.Value) bool {
		call, ok := c15Local(v).(*ssa.Call)
		if !ok {
			return false
		}
		b, ok := call.Call.Value.(*ssa.Builtin)
		return ok && b.Name() == "len" && len(call.Call.Args) == 1 && vals != nil && e.origin(call.Call.Args[0]) == vals
	}
	emptyIn := func(h *ssa.Function) ([]ssa.Value, func(f *an.H15Facts) bool) {
		var cmps []ssa.Value
		for _, in := range an.Instrs(h, false) {
			if bin, ok := in.(*ssa.BinOp); ok && (isLen(bin.X) || isLen(bin.Y)) {
				cmps = append(cmps, bin)
			}
		}
		return cmps, func(f *an.H15Facts) bool {
			for _, lc := range cmps {
				if k, known := f.Known(lc); known && c15LenZero(lc.(*ssa.BinOp), isLen, k) {
					return true
				}
			}
			return false
		}
	}
	lenCmps, isEmpty := emptyIn(rd)
	underRd := e.owned(rd)
	n := 0
	for _, fn := range e.funcs {
		for _, call := range an.Calls(fn, an.Static(setN), false) {
			arg := c15ArgT(call.Common(), "uint64")
			if fn != rd {
				if underRd[fn] {
					c.Unsure(an.FuncName(fn)+" setResolvedEpoch", call.Pos(), "the epoch is marked resolved in a helper of resolveDuties; the success conditions cannot be followed there")
					continue
				}
				k, ok := an.ConstInt(arg)
				c.Check(an.FuncName(fn)+" setResolvedEpoch", call.Pos(), ok && k == sentinel,
					"an epoch is marked resolved outside resolveDuties (only the invalidating sentinel math.MaxInt64 may be set elsewhere)")
				continue
			}
			n++
			name := fmt.Sprintf("resolveDuties setResolvedEpoch#%d", n)
			ep := c15Static(arg, "core.Slot.Epoch")
			if !c.Check(name+" epoch", call.Pos(), ep != nil && e.rooted(ep.Call.Args[0], slotP),
				"the epoch marked resolved is not the epoch of the slot being resolved") {
				continue
			}
			// the call in resolveDuties whose nil error implies that the validator list was obtained
			ravSite, _, ravUnsure, ravWhy := c15SuccessSite(e, rd, c15ResolverCall{call: rav, names: []string{"resolveActiveValidators"}}, nil)
			if ravSite == nil {
				if ravUnsure {
					c.Unsure(name+" after success", call.Pos(), "resolveActiveValidators: "+ravWhy)
				} else {
					c.Bad(name+" after success", call.Pos(), "resolveActiveValidators: "+ravWhy)
				}
				continue
			}
			if g, decided, why := c15ErrNilAt(rd, ravSite, nil, call); !decided {
				c.Unsure(name+" after success", call.Pos(), "too many paths to enumerate")
				continue
			} else if !g {
				c.Bad(name+" after success", call.Pos(), "resolveActiveValidators: "+why)
				continue
			}
			// on every path: the validator list is empty (nothing to resolve), or every resolver returned nil
			var track []ssa.Value
			track = append(track, lenCmps...)
			errOf := map[ssa.CallInstruction][]c15Atom{}
			evOf := map[ssa.CallInstruction]ssa.Value{}
			loopOK := map[ssa.CallInstruction]bool{}
			loopWhy, helperUnsure := "", ""
			for _, rc := range rcs {
				site, l, uns, w := c15SuccessSite(e, rd, rc, emptyIn)
				if site == nil {
					if uns {
						helperUnsure = strings.Join(rc.names, "/") + ": " + w
					} else {
						loopWhy = w
					}
					continue
				}
				if l != nil {
					g, _, w := c15ErrNilAt(rd, site, l, call)
					loopOK[rc.call] = g
					if !g {
						loopWhy = w
					}
					continue
				}
				if errs, _ := an.StatusOf(site, -1); len(errs) == 1 {
					errOf[rc.call] = c15NilAtoms(rd, errs[0])
					evOf[rc.call] = errs[0]
					track = append(track, c15AtomVals(errOf[rc.call])...)
				}
			}
			// error variables reused along a chain (`err = a(); if err == nil { err = b() }`): the comparisons
			// of an error-typed phi with nil, read on each path for the call whose result the phi then holds
			nilCmps := c15ErrNilCmps(rd)
			track = append(track, nilCmps...)
			sawEmpty, why := false, ""
			all, decided := c15Arrivals(rd, call, track, func(p *ssa.Phi) bool { return an.IsErrorType(p.Type()) }, func(f *an.H15Facts) bool {
				if isEmpty(f) {
					sawEmpty = true
					return true
				}
				done := map[string]bool{}
				for _, rc := range rcs {
					good := false
					if ev := evOf[rc.call]; ev != nil {
						good = c15Holds(f, errOf[rc.call]) || c15NilOnPath(f, nilCmps, ev)
					} else {
						good = loopOK[rc.call]
						if !good && loopWhy != "" {
							why = rc.names[0] + "…: " + loopWhy
						}
					}
					if good {
						for _, rn := range rc.names {
							done[rn] = true
						}
					}
				}
				for _, rn := range resolverNames {
					if !done[rn] {
						if why == "" {
							why = rn + " is not known to have returned nil"
						}
						return false
					}
				}
				return true
			})
			if !decided {
				c.Unsure(name+" after success", call.Pos(), "too many paths to enumerate")
				continue
			}
			if !all && helperUnsure != "" {
				c.Unsure(name+" after success", call.Pos(), helperUnsure)
				continue
			}
			detail := ""
			if all && sawEmpty {
				detail = "no active validators: nothing to resolve"
			}
			if all {
				c.Good(name+" after success", call.Pos(), detail)
			} else {
				c.Bad(name+" after success", call.Pos(),
					"the epoch is marked resolved although a resolution may have failed or not run (it is never retried; duties of the epoch are lost or partial) — "+why)
			}
		}
	}
	if n == 0 {
		c.Bail("resolveDuties never calls setResolvedEpoch")
	}
}

// c15ReachAvoiding: can control flow from just after instruction from to instruction to without
// entering block avoid (again)?
func c15ReachAvoiding(from, to ssa.Instruction, avoid *ssa.BasicBlock) bool {
	if from.Block() == to.Block() && an.Dominates(from, to) {
		return true
	}
	if to.Block() == avoid {
		return false
	}
	av := map[*ssa.BasicBlock]bool{avoid: true}
	for _, s := range from.Block().Succs {
		if s == avoid {
			continue
		}
		if s == to.Block() || an.CanReach(s, to.Block(), av) {
			return true
		}
	}
	return false
}
