package rules

import (
	"charonverif/internal/rt"
)

// Cross-cutting additions made after the independently seeded changes of §15 (DESIGN.md): rules that one
// property's file already had are linked into the other property that the same mechanism upholds, and a few
// new structural rules are added. Each Extend carries its own one-edit mutants.

func init() {
	// C03 "decision backed by commits from a quorum of DISTINCT members" rests on the same source-unique
	// counting as C02-Q1; a DECIDED justified by one member's repeated COMMIT must be rejected.
	Extend("C03", "(Q1) every quorum comparison counts a source-unique collection (shared with C02).",
		func(c *rt.Ctx) { c.Rule("Q1", 16, func() { c02Q1Rule(c) }) },
		Mutant{ID: "C03-Q1-decided-counts-duplicates", File: "core/qbft/qbft.go", Expect: "Q1",
			Old: "\tcommits := filterMsgs(msg.Justification(), MsgCommit, msg.Round(), &v, nil, nil)\n\n\treturn len(commits) >= d.Quorum()",
			New: "\tvar commits []Msg[I, V, C]\n\tfor _, j := range msg.Justification() {\n\t\tif j.Type() == MsgCommit && j.Round() == msg.Round() && j.Value() == v {\n\t\t\tcommits = append(commits, j)\n\t\t}\n\t}\n\n\treturn len(commits) >= d.Quorum()"})

	// C18-X4 = C14-M5: isolation by cloning is only as good as Clone is deep.
	Extend("C18", "(X4) every Clone/clone of a workflow type is an encode∘decode of the receiver into a fresh value with no reference copied from the receiver (shared with C14-M5).",
		func(c *rt.Ctx) { c.Rule("X4", 34, func() { c14M5(c) }) },
		Mutant{ID: "C18-X4-clone-shares-pointer", File: "core/unsigneddata.go", Expect: "X4",
			Old: "func (p VersionedProposal) Clone() (UnsignedData, error) {\n\tvar resp VersionedProposal\n\n\terr := cloneSSZMarshaler(p, &resp)\n\tif err != nil {\n\t\treturn nil, errors.Wrap(err, \"clone block\")\n\t}\n",
			New: "func (p VersionedProposal) Clone() (UnsignedData, error) {\n\tvar resp VersionedProposal\n\n\terr := cloneSSZMarshaler(p, &resp)\n\tif err != nil {\n\t\treturn nil, errors.Wrap(err, \"clone block\")\n\t}\n\n\tresp.ConsensusValue = p.ConsensusValue\n"})

	// C14 determinism: the receiver must recompute the value hash with the same deterministic function the
	// proposer commits to (raw Any bytes are not deterministic for maps).
	Extend("C14", "(M7) the consensus value hash is computed by the same deterministic hashProto on the proposing and on the receiving side.",
		c14M7,
		Mutant{ID: "C14-M7-receiver-hashes-raw-bytes", File: "core/consensus/qbft/qbft.go", Expect: "M7",
			Old: "\t\thash, err := hashProto(inner)\n\t\tif err != nil {\n\t\t\treturn nil, err\n\t\t}\n\n\t\tresp[hash] = v",
			New: "\t\thash, err := hashProto(v)\n\t\tif err != nil {\n\t\t\treturn nil, err\n\t\t}\n\n\t\t_ = inner\n\t\tresp[hash] = v"})

	// C04 liveness needs the quorum thresholds to be exact: with exactly a quorum of live members a strict
	// comparison never fires. (C02 only needs ">= at least a quorum" for safety.)
	Extend("C04", "(T7) every comparison with Quorum() is `count >= Quorum()` / `count < Quorum()` and every comparison with Faulty()+1 is `>=`, `<` or `==`; (T8) the leader rotates by exactly one member per round.",
		c04Exact,
		Mutant{ID: "C04-T7-strict-quorum", File: "core/qbft/qbft.go", Expect: "T7",
			Old: "\t\tif len(qrc) >= d.Quorum() && hasHighestPrepared {", New: "\t\tif len(qrc) > d.Quorum() && hasHighestPrepared {"},
		Mutant{ID: "C04-T7-strict-commits", File: "core/qbft/qbft.go", Expect: "T7",
			Old: "\t\tif len(commits) >= d.Quorum() {", New: "\t\tif len(commits) > d.Quorum() {"},
		Mutant{ID: "C04-T8-leader-multiplied", File: "core/consensus/qbft/qbft.go", Expect: "T8",
			Old: "\treturn (int64(duty.Slot) + int64(duty.Type) + round) % int64(nodes)", New: "\treturn (int64(duty.Slot) + int64(duty.Type)*round) % int64(nodes)"},
		Mutant{ID: "C04-T8-leader-ignores-round", File: "core/consensus/qbft/qbft.go", Expect: "T8",
			Old: "\treturn (int64(duty.Slot) + int64(duty.Type) + round) % int64(nodes)", New: "\treturn (int64(duty.Slot) + int64(duty.Type) + round/2) % int64(nodes)"})

	// the duty gater compares slots/epochs as unsigned 64-bit values; a signed conversion lets a slot >= 2^63 wrap
	// negative and pass the "not too far in the future" test.
	gm := Mutant{ID: "GATER-signed-slot", File: "core/gater.go", Expect: "GT",
		Old: "\t\tdutyEpoch := duty.Slot / slotsPerEpoch\n\n\t\treturn dutyEpoch <= currentEpoch+uint64(o.allowedFutureEpochs)",
		New: "\t\tdutyEpoch := int64(duty.Slot) / int64(slotsPerEpoch)\n\n\t\treturn dutyEpoch <= int64(currentEpoch)+int64(o.allowedFutureEpochs)"}
	Extend("C05", "(GT) the duty gater keeps the duty slot in unsigned 64-bit arithmetic and admits a duty only on `dutyEpoch <= currentEpoch + allowed`.", gaterRule, gm)
	Extend("C10", "(GT) the duty gater keeps the duty slot in unsigned 64-bit arithmetic and admits a duty only on `dutyEpoch <= currentEpoch + allowed`.", gaterRule)

	// C17: the channel a V2 reader waits on must be the one observed in the critical section of the failed lookup.
	Extend("C17", "(W5) MemDBV2.notify is read only in the critical section of the lookup that missed (or by Store under the write lock).",
		c17W5,
		Mutant{ID: "C17-W5-second-critical-section", File: "core/aggsigdb/memory_v2.go", Expect: "W5",
			Old:  "\t\t\tif !ok {\n\t\t\t\treturn nil, m.notify, errMustLoop\n\t\t\t}",
			New:  "\t\t\tif !ok {\n\t\t\t\treturn nil, nil, errMustLoop\n\t\t\t}",
			More: [][2]string{{"\t\tcase <-notify:", "\t\tcase <-func() <-chan struct{} { m.RLock(); defer m.RUnlock(); _ = notify; return m.notify }():"}}})

	// C07: the list handed to the threshold matcher is a private snapshot; the exempt cap evicts the OLDEST entry.
	Extend("C07", "(P9) store returns a fresh copy of the per-key list (never the stored slice, which eviction filters in place); (P10) the exempt cap evicts the oldest tracked entry, not the one just stored.",
		c07P9P10,
		Mutant{ID: "C07-P9-return-stored-slice", File: "core/parsigdb/memory.go", Expect: "P9",
			Old: "\treturn append([]core.ParSignedData(nil), db.entries[k]...), true, nil", New: "\treturn db.entries[k], true, nil"},
		Mutant{ID: "C07-P10-evict-newest", File: "core/parsigdb/memory.go", Expect: "P10",
			Old: "\t\tdb.evictExemptShareEntryUnsafe(ctx, stored[0], shareIdx)", New: "\t\tdb.evictExemptShareEntryUnsafe(ctx, k, shareIdx)"})
}

func init() {
	// C01 (design §5): pipeline integrity re-uses the guards of the components on the path to the beacon node.
	Link("C01", "C09", "(C09.G1/G2/G6) the aggregate handed on is the verified one, published all-or-nothing, with the verifying constructor wired.", []string{"G1", "G2", "G6"})
	Link("C01", "C07", "(C07.P3/P4/P8) aggregation is triggered only with one message-root group of exactly threshold distinct shares.", []string{"P3", "P4", "P8"},
		Mutant{ID: "C01-link-threshold-set-replaced", File: "core/parsigdb/memory.go", Expect: "C07.P3",
			Old: "\t\tpsigs, ok, err := getThresholdMatching(duty.Type, sigs, db.threshold)", New: "\t\tpsigs, ok, err := getThresholdMatching(duty.Type, sigs, db.threshold)\n\t\tpsigs = sigs"})
	Link("C01", "C06", "(C06.D2) a stored unsigned datum is never replaced by conflicting data.", []string{"D2"})
	Link("C01", "C10", "(C10.H1/H3) only verified partial signatures enter the node.", []string{"H1", "H3"})
	// one signing root per duty rests on QBFT's value lock: a ROUND-CHANGE that drops the prepared certificate lets a later
	// round decide a second value for the same duty.
	// The lock also rests on the followers enforcing it: a PRE-PREPARE is accepted only when it re-proposes the HIGHEST prepared value
	// of its ROUND-CHANGE quorum (J2); otherwise a stale prepared value can be decided next to a later one (two signing
	// roots for one duty).
	Link("C01", "C02", "(C02.Q5) every ROUND-CHANGE carries the prepared round/value/justification of the sender (value lock across rounds); (C02.Q4) a justified PRE-PREPARE / ROUND-CHANGE / DECIDED is accepted only with its complete justification (the re-proposed value is the highest prepared value of the ROUND-CHANGE quorum).", []string{"Q5", "Q4"},
		Mutant{ID: "C01-link-qrc-higher-prepared-tolerated", File: "core/qbft/qbft.go", Expect: "C02.Q4",
			Old: "\t\tif rc.PreparedRound() > pr {\n\t\t\treturn zeroVal[V](), false\n\t\t}", New: "\t\tif rc.PreparedRound() > pr {\n\t\t\tcontinue\n\t\t}"},
		Mutant{ID: "C01-link-qrc-higher-prepared-unreachable-test", File: "core/qbft/qbft.go", Expect: "C02.Q4",
			Old: "\t\tif rc.PreparedRound() > pr {\n\t\t\treturn zeroVal[V](), false\n\t\t}", New: "\t\tif rc.PreparedRound() > pr && rc.PreparedRound() < pr {\n\t\t\treturn zeroVal[V](), false\n\t\t}"})
}

func init() {
	// agreement and validity assume that every justification belongs to the same consensus instance: core/qbft never
	// looks at Msg.Instance() of a justification; the wrapper's duty-equality check (C05-A1) is what binds them.
	Link("C02", "C05", "(C05.A1) every message and every justification handed to the instance passed signature, gater, limits and duty-equality checks (a COMMIT quorum of another duty cannot be replayed).", []string{"A1"},
		Mutant{ID: "C02-link-justification-duty-type-only", File: "core/consensus/qbft/qbft.go", Expect: "C05.A1",
			Old: "\t\tif justDuty != duty {", New: "\t\tif justDuty.Type != duty.Type {"})
	Link("C03", "C05", "(C05.A1) every justification belongs to the duty of the message that carries it.", []string{"A1"})
}

func init() {
	// the scheduler resolves duties through the duties cache (eth2wrap.DutiesCache): "every assigned duty is triggered"
	// needs the cache to keep every fetched duty of a newly requested validator (a second proposal in one epoch included).
	Link("C15", "C20", "(C20.Z6) the duties cache's amend path adds exactly the fetched duties of the newly requested validators, scanning the whole batch; (C20.Z7) a failed beacon request is reported to the caller and an answer holds only duties of the requested indices.", []string{"Z6", "Z7"})
}
