package rules

import (
	"go/token"
	"go/types"
	"strings"

	"golang.org/x/tools/go/ssa"

	"charonverif/internal/an"
	"charonverif/internal/rt"
)

// Cross-cutting additions made after the independently seeded changes of §15 (DESIGN.md): rules that one
// property's file already had are linked into the other property that the same mechanism upholds, and a few
// new structural rules are added. Each Extend carries its own one-edit mutants.

func init() {
	// C03 "decision backed by commits from a quorum of DISTINCT members" rests on the same source-unique
	// counting as C02-Q1; a DECIDED justified by one member's repeated COMMIT must be rejected.
	Extend("C03", "(Q1) every quorum comparison counts a source-unique collection (shared with C02).",
		func(c *rt.Ctx) { c.Rule("Q1", 16, func() { c02Q1Rule(c) }) },
		Mutant{ID: "C03-Q1-decided-counts-duplicates", File: "core/qbft/qbft.go", Expect: "Q1",
			Old: "\tcommits := filterMsgs(msg.Justification(), MsgCommit, msg.Round(), &v, nil, nil)\n\n\treturn len(commits) >= d.Quorum()",
			New: "\tvar commits []Msg[I, V, C]\n\tfor _, j := range msg.Justification() {\n\t\tif j.Type() == MsgCommit && j.Round() == msg.Round() && j.Value() == v {\n\t\t\tcommits = append(commits, j)\n\t\t}\n\t}\n\n\treturn len(commits) >= d.Quorum()"})

	// C18-X4 = C14-M5: isolation by cloning is only as good as Clone is deep.
	Extend("C18", "(X4) every Clone/clone of a workflow type is an encode∘decode of the receiver into a fresh value with no reference copied from the receiver (shared with C14-M5).",
		func(c *rt.Ctx) { c.Rule("X4", 34, func() { c14M5(c) }) },
		Mutant{ID: "C18-X4-clone-shares-pointer", File: "core/unsigneddata.go", Expect: "X4",
			Old: "func (p VersionedProposal) Clone() (UnsignedData, error) {\n\tvar resp VersionedProposal\n\n\terr := cloneSSZMarshaler(p, &resp)\n\tif err != nil {\n\t\treturn nil, errors.Wrap(err, \"clone block\")\n\t}\n",
			New: "func (p VersionedProposal) Clone() (UnsignedData, error) {\n\tvar resp VersionedProposal\n\n\terr := cloneSSZMarshaler(p, &resp)\n\tif err != nil {\n\t\treturn nil, errors.Wrap(err, \"clone block\")\n\t}\n\n\tresp.ConsensusValue = p.ConsensusValue\n"})

	// C14 determinism: the receiver must recompute the value hash with the same deterministic function the
	// proposer commits to (raw Any bytes are not deterministic for maps).
	Extend("C14", "(M7) the consensus value hash is computed by the same deterministic hashProto on the proposing and on the receiving side.",
		c14M7,
		Mutant{ID: "C14-M7-receiver-hashes-raw-bytes", File: "core/consensus/qbft/qbft.go", Expect: "M7",
			Old: "\t\thash, err := hashProto(inner)\n\t\tif err != nil {\n\t\t\treturn nil, err\n\t\t}\n\n\t\tresp[hash] = v",
			New: "\t\thash, err := hashProto(v)\n\t\tif err != nil {\n\t\t\treturn nil, err\n\t\t}\n\n\t\t_ = inner\n\t\tresp[hash] = v"})

	// C04 liveness needs the quorum thresholds to be exact: with exactly a quorum of live members a strict
	// comparison never fires. (C02 only needs ">= at least a quorum" for safety.)
	Extend("C04", "(T7) every comparison with Quorum() is `count >= Quorum()` / `count < Quorum()` and every comparison with Faulty()+1 is `>=`, `<` or `==`; (T8) the leader rotates by exactly one member per round.",
		c04Exact,
		Mutant{ID: "C04-T7-strict-quorum", File: "core/qbft/qbft.go", Expect: "T7",
			Old: "\t\tif len(qrc) >= d.Quorum() && hasHighestPrepared {", New: "\t\tif len(qrc) > d.Quorum() && hasHighestPrepared {"},
		Mutant{ID: "C04-T7-strict-commits", File: "core/qbft/qbft.go", Expect: "T7",
			Old: "\t\tif len(commits) >= d.Quorum() {", New: "\t\tif len(commits) > d.Quorum() {"},
		Mutant{ID: "C04-T8-leader-multiplied", File: "core/consensus/qbft/qbft.go", Expect: "T8",
			Old: "\treturn (int64(duty.Slot) + int64(duty.Type) + round) % int64(nodes)", New: "\treturn (int64(duty.Slot) + int64(duty.Type)*round) % int64(nodes)"},
		Mutant{ID: "C04-T8-leader-ignores-round", File: "core/consensus/qbft/qbft.go", Expect: "T8",
			Old: "\treturn (int64(duty.Slot) + int64(duty.Type) + round) % int64(nodes)", New: "\treturn (int64(duty.Slot) + int64(duty.Type) + round/2) % int64(nodes)"})

	// the duty gater compares slots/epochs as unsigned 64-bit values; a signed conversion lets a slot >= 2^63 wrap
	// negative and pass the "not too far in the future" test.
	gm := Mutant{ID: "GATER-signed-slot", File: "core/gater.go", Expect: "GT",
		Old: "\t\tdutyEpoch := duty.Slot / slotsPerEpoch\n\n\t\treturn dutyEpoch <= currentEpoch+uint64(o.allowedFutureEpochs)",
		New: "\t\tdutyEpoch := int64(duty.Slot) / int64(slotsPerEpoch)\n\n\t\treturn dutyEpoch <= int64(currentEpoch)+int64(o.allowedFutureEpochs)"}
	Extend("C05", "(GT) the duty gater keeps the duty slot in unsigned 64-bit arithmetic and admits a duty only on `dutyEpoch <= currentEpoch + allowed`.", gaterRule, gm)
	Extend("C10", "(GT) the duty gater keeps the duty slot in unsigned 64-bit arithmetic and admits a duty only on `dutyEpoch <= currentEpoch + allowed`.", gaterRule)

	// C17: the channel a V2 reader waits on must be the one observed in the critical section of the failed lookup.
	Extend("C17", "(W5) MemDBV2.notify is read only in the critical section of the lookup that missed (or by Store under the write lock).",
		c17W5,
		Mutant{ID: "C17-W5-second-critical-section", File: "core/aggsigdb/memory_v2.go", Expect: "W5",
			Old:  "\t\t\tif !ok {\n\t\t\t\treturn nil, m.notify, errMustLoop\n\t\t\t}",
			New:  "\t\t\tif !ok {\n\t\t\t\treturn nil, nil, errMustLoop\n\t\t\t}",
			More: [][2]string{{"\t\tcase <-notify:", "\t\tcase <-func() <-chan struct{} { m.RLock(); defer m.RUnlock(); _ = notify; return m.notify }():"}}})

	// C07: the list handed to the threshold matcher is a private snapshot; the exempt cap evicts the OLDEST entry.
	Extend("C07", "(P9) store returns a fresh copy of the per-key list (never the stored slice, which eviction filters in place); (P10) the exempt cap evicts the oldest tracked entry, not the one just stored.",
		c07P9P10,
		Mutant{ID: "C07-P9-return-stored-slice", File: "core/parsigdb/memory.go", Expect: "P9",
			Old: "\treturn append([]core.ParSignedData(nil), db.entries[k]...), true, nil", New: "\treturn db.entries[k], true, nil"},
		Mutant{ID: "C07-P10-evict-newest", File: "core/parsigdb/memory.go", Expect: "P10",
			Old: "\t\tdb.evictExemptShareEntryUnsafe(ctx, stored[0], shareIdx)", New: "\t\tdb.evictExemptShareEntryUnsafe(ctx, k, shareIdx)"})
}

func c14M7(c *rt.Ctx) {
	c.Rule("M7", 2, func() {
		vbh := c.Fn("core/consensus/qbft.valuesByHash")
		hp := c.Fn("core/consensus/qbft.hashProto")
		ups := mapUpdates(vbh, func(m ssa.Value) bool { _, ok := m.(*ssa.MakeMap); return ok })
		if len(ups) == 0 {
			c.Bail("valuesByHash: no insertion into the result map")
		}
		for _, up := range ups {
			good, why := false, "the key of a received value is not the result of hashProto"
			if ex, ok := an.Unwrap(up.Key).(*ssa.Extract); ok && ex.Index == 0 {
				if hc, ok := ex.Tuple.(*ssa.Call); ok && hc.Call.StaticCallee() == hp {
					why = "hashProto is applied to the wrapper/bytes as received, not to the decoded message (UnmarshalNew of the element)"
					if ix, ok := an.Unwrap(hc.Call.Args[0]).(*ssa.Extract); ok && ix.Index == 0 {
						if uc, ok := ix.Tuple.(*ssa.Call); ok && uc.Call.StaticCallee() != nil && uc.Call.StaticCallee().Name() == "UnmarshalNew" {
							good = true
						}
					}
				}
			}
			c.Check("valuesByHash key = hashProto(decoded value)", posOf(up), good, why)
		}
		// proposer side: the hash proposed to QBFT is hashProto of the value
		found := false
		for _, fn := range an.PkgFuncs(c.SSAPkg("core/consensus/qbft")) {
			if fn.Name() != "propose" && fn.Name() != "Propose" {
				continue
			}
			for _, call := range an.Calls(fn, func(cc *ssa.CallCommon) bool { return cc.StaticCallee() == hp }, true) {
				found = true
				_, isParam := an.Resolve(call.Common().Args[0]).(*ssa.Parameter)
				c.Check(an.FuncName(fn)+" proposes hashProto(value)", call.Pos(), isParam, "the proposed hash is not hashProto of the proposed value")
			}
		}
		if !found {
			c.Unsure("propose hashProto", token.NoPos, "no hashProto call on the proposing side found")
		}
	})
}

func c04Exact(c *rt.Ctx) {
	c.Rule("T7", 13, func() {
		for _, fn := range an.PkgFuncs(c.SSAPkg("core/qbft")) {
			n := 0
			for _, in := range an.Instrs(fn, false) {
				bin, ok := in.(*ssa.BinOp)
				if !ok {
					continue
				}
				switch bin.Op {
				case token.EQL, token.NEQ, token.LSS, token.LEQ, token.GTR, token.GEQ:
				default:
					continue
				}
				kind, side := c04Threshold(bin.X), 0
				if kind == "" {
					kind, side = c04Threshold(bin.Y), 1
				}
				if kind == "" {
					continue
				}
				op := bin.Op
				if side == 0 { // threshold on the left: flip to "count OP threshold"
					switch op {
					case token.LSS:
						op = token.GTR
					case token.LEQ:
						op = token.GEQ
					case token.GTR:
						op = token.LSS
					case token.GEQ:
						op = token.LEQ
					}
				}
				n++
				good := false
				switch kind {
				case "quorum":
					good = op == token.GEQ || op == token.LSS
				case "f+1":
					good = op == token.GEQ || op == token.LSS || op == token.EQL
				case "f":
					good = op == token.GTR || op == token.LEQ // count > f  ≡  count >= f+1
				}
				c.Check(c02Strip(an.FuncName(fn))+" "+kind+" comparison #"+itoa(n), posOf(bin), good,
					"the count is compared with the "+kind+" threshold by `"+op.String()+"`: with exactly that many live members the rule never fires (or fires one short)")
			}
		}
	})
	c.Rule("T8", 1, func() {
		fn := c.Fn("core/consensus/qbft.leader")
		rets := an.Returns(fn)
		if len(rets) != 1 || len(rets[0].Results) != 1 || len(fn.Params) != 3 {
			c.Bail("leader: unexpected shape")
		}
		round, nodes := ssa.Value(fn.Params[1]), ssa.Value(fn.Params[2])
		rem, ok := an.Unwrap(rets[0].Results[0]).(*ssa.BinOp)
		good, why := false, "the leader index is not a sum taken modulo the number of nodes"
		if ok && rem.Op == token.REM && an.Unwrap(rem.Y) == nodes {
			why = "the round does not enter the leader index as a plain addend (coefficient 1): the rotation can skip members or stand still"
			// collect addends of the sum
			var addends []ssa.Value
			var walk func(v ssa.Value)
			walk = func(v ssa.Value) {
				if b, ok := v.(*ssa.BinOp); ok && b.Op == token.ADD {
					walk(b.X)
					walk(b.Y)
					return
				}
				addends = append(addends, v)
			}
			walk(rem.X)
			nRound := 0
			other := true
			for _, a := range addends {
				if an.Unwrap(a) == round {
					nRound++
				} else if usesValue(a, round, 0) {
					other = false
				}
			}
			good = nRound == 1 && other
		}
		c.Check("leader rotates by one per round", fn.Pos(), good, why)
	})
}

func usesValue(v, target ssa.Value, d int) bool {
	if d > 8 {
		return false
	}
	if an.Unwrap(v) == target {
		return true
	}
	in, ok := v.(ssa.Instruction)
	if !ok {
		return false
	}
	for _, op := range an.Operands(in) {
		if usesValue(op, target, d+1) {
			return true
		}
	}
	return false
}

// c04Threshold classifies v as d.Quorum(), d.Faulty()+1 or d.Faulty().
func c04Threshold(v ssa.Value) string {
	v = an.Unwrap(v)
	isCall := func(x ssa.Value, name string) bool {
		call, ok := an.Unwrap(x).(*ssa.Call)
		return ok && call.Call.StaticCallee() != nil && call.Call.StaticCallee().Name() == name &&
			strings.HasPrefix(c02Strip(an.FuncName(call.Call.StaticCallee())), "core/qbft.Definition.")
	}
	if isCall(v, "Quorum") {
		return "quorum"
	}
	if isCall(v, "Faulty") {
		return "f"
	}
	if b, ok := v.(*ssa.BinOp); ok && b.Op == token.ADD {
		if k, ok := an.ConstInt(b.Y); ok && k == 1 && isCall(b.X, "Faulty") {
			return "f+1"
		}
	}
	return ""
}

func gaterRule(c *rt.Ctx) {
	c.Rule("GT", 2, func() {
		mk := c.Fn("core.NewDutyGater")
		var lit *ssa.Function
		for _, f := range mk.AnonFuncs {
			if len(f.Params) == 1 && an.TypeName(f.Params[0].Type()) == "core.Duty" {
				lit = f
			}
		}
		if lit == nil {
			c.Bail("NewDutyGater: gater literal not found")
		}
		duty := ssa.Value(lit.Params[0])
		bad := ""
		var badPos token.Pos
		for _, in := range an.Instrs(lit, false) {
			cv, ok := in.(*ssa.Convert)
			if !ok {
				continue
			}
			from, ok1 := cv.X.Type().Underlying().(*types.Basic)
			to, ok2 := cv.Type().Underlying().(*types.Basic)
			if !ok1 || !ok2 || !usesSlot(cv.X, duty, 0) {
				continue
			}
			if from.Info()&types.IsUnsigned != 0 && (to.Info()&types.IsUnsigned == 0 || to.Kind() == types.Uint32 || to.Kind() == types.Uint16 || to.Kind() == types.Uint8) {
				bad, badPos = "the duty slot is converted from "+from.Name()+" to "+to.Name(), cv.Pos()
			}
		}
		pos := lit.Pos()
		if bad != "" {
			pos = badPos
		}
		c.Check("NewDutyGater slot arithmetic stays unsigned 64-bit", pos, bad == "", bad+": a slot >= 2^63 wraps and passes the future-epoch window")
		// every return that can yield true is the upper-bound comparison of a slot-derived value itself, or lies on
		// the "slot-derived value <= bound" edge of a branch on such a comparison (any spelling)
		good := true
		nTrue := 0
		for _, r := range an.Returns(lit) {
			v := an.Unwrap(returnValues(r)[0])
			if k, ok := v.(*ssa.Const); ok && k.Value != nil && k.Value.ExactString() == "false" {
				continue
			}
			nTrue++
			okRet := false
			if bin, ok := v.(*ssa.BinOp); ok && (bin.Op == token.LEQ || bin.Op == token.GEQ || bin.Op == token.LSS || bin.Op == token.GTR) {
				x, y := bin.X, bin.Y
				if bin.Op == token.GEQ || bin.Op == token.GTR {
					x, y = y, x
				}
				if usesSlot(x, duty, 0) && !usesSlot(y, duty, 0) {
					okRet = true
				}
			}
			if !okRet {
				for _, in := range an.Instrs(lit, false) {
					val, isVal := in.(ssa.Value)
					if !isVal || !usesSlot(val, duty, 0) {
						continue
					}
					for _, cd := range an.CondsOn(lit, val) {
						if cd.Other == nil || usesSlot(cd.Other, duty, 0) {
							continue
						}
						var pass *ssa.BasicBlock
						switch cd.Op {
						case token.LEQ, token.LSS:
							pass = cd.Succ(true)
						case token.GTR, token.GEQ:
							pass = cd.Succ(false)
						default:
							continue
						}
						fail := cd.If.Block().Succs[0]
						if fail == pass {
							fail = cd.If.Block().Succs[1]
						}
						if (pass == r.Block() || pass.Dominates(r.Block())) && !an.CanReach(fail, r.Block(), nil) {
							okRet = true
						}
					}
				}
			}
			if !okRet {
				good = false
			}
		}
		if nTrue == 0 {
			good = false
		}
		c.Check("NewDutyGater admits only dutyEpoch <= current + allowed", lit.Pos(), good, "the gater's verdict is not the upper-bound comparison of the duty's epoch")
	})
}

func usesSlot(v, duty ssa.Value, d int) bool {
	if d > 8 {
		return false
	}
	v = an.Resolve(v)
	switch x := v.(type) {
	case *ssa.Field:
		return an.Resolve(x.X) == duty && fieldNameOf(x.X.Type(), x.Field) == "Slot"
	case *ssa.UnOp:
		if fa, ok := x.X.(*ssa.FieldAddr); ok && x.Op == token.MUL {
			return fieldNameOf(fa.X.Type(), fa.Field) == "Slot" && rootedAt(fa.X, duty)
		}
		return usesSlot(x.X, duty, d+1)
	case *ssa.BinOp:
		return usesSlot(x.X, duty, d+1) || usesSlot(x.Y, duty, d+1)
	case *ssa.Convert:
		return usesSlot(x.X, duty, d+1)
	}
	return false
}

func c17W5(c *rt.Ctx) {
	c.Rule("W5", 1, func() {
		n := 0
		for _, fn := range an.PkgFuncs(c.SSAPkg("core/aggsigdb")) {
			for _, in := range an.Instrs(fn, false) {
				if !isLoadOfField(in, aggV2+".notify") {
					continue
				}
				// Store closes and replaces it under the write lock (W2/W4)
				if an.FuncName(fn) == aggV2+".Store" {
					continue
				}
				n++
				good := false
				for _, in2 := range an.Instrs(fn, false) {
					lk, ok := in2.(*ssa.Lookup)
					if !ok || !lk.CommaOk || !isFieldMap(aggV2+".data")(lk.X) || !an.Dominates(lk, in) {
						continue
					}
					// no explicit unlock between the lookup and the load
					u := an.PathThrough(lk, in, func(x ssa.Instruction) bool {
						call, ok := x.(*ssa.Call)
						return ok && an.Static("sync.RWMutex.RUnlock", "sync.RWMutex.Unlock")(&call.Call)
					})
					if u == nil {
						good = true
					}
				}
				c.Check(an.FuncName(fn)+" reads notify in the lookup's critical section", in.Pos(), good,
					"the notification channel is read outside the critical section of the lookup that missed: a Store in between replaces it and the reader sleeps on the new channel although its value is stored")
			}
		}
		if n == 0 {
			c.Unsure("MemDBV2.notify", token.NoPos, "no reader of the notification channel found")
		}
	})
}

func c07P9P10(c *rt.Ctx) {
	c.Rule("P9", 1, func() {
		fn := c.Fn("core/parsigdb.MemDB.store")
		n := 0
		for _, r := range an.Returns(fn) {
			if len(r.Results) != 3 {
				continue
			}
			rv := returnValues(r)
			if an.IsNilConst(rv[0]) {
				continue
			}
			if _, isLoad := rv[0].(*ssa.UnOp); isLoad && r.Block().Comment == "recover" {
				continue
			}
			n++
			good := false
			v := an.Unwrap(rv[0])
			if call, ok := v.(*ssa.Call); ok {
				if b, ok := call.Call.Value.(*ssa.Builtin); ok && b.Name() == "append" && an.IsNilConst(call.Call.Args[0]) {
					good = true
				}
				if f := call.Call.StaticCallee(); f != nil && an.FuncName(f) == "slices.Clone" {
					good = true
				}
			}
			c.Check("store returns a private snapshot", posOf(r), good,
				"store hands the stored slice itself to the threshold matcher: the exempt-cap eviction filters that slice in place under a later lock, so the matcher can see a repeated or missing share")
		}
		if n == 0 {
			c.Bail("store: no non-nil list returned")
		}
	})
	c.Rule("P10", 1, func() {
		fn := c.Fn("core/parsigdb.MemDB.trackExemptUnsafe")
		for _, call := range c.SomeCalls(fn, an.Static("core/parsigdb.MemDB.evictExemptShareEntryUnsafe"), "evictExemptShareEntryUnsafe", false) {
			good := false
			if ld, ok := an.Unwrap(call.Common().Args[2]).(*ssa.UnOp); ok && ld.Op == token.MUL {
				if ia, ok := ld.X.(*ssa.IndexAddr); ok {
					if k, ok := an.ConstInt(ia.Index); ok && k == 0 {
						// the indexed list is the tracked list (lookup of exemptEntries, possibly appended)
						x := an.Unwrap(ia.X)
						for i := 0; i < 4; i++ {
							if ap, ok := x.(*ssa.Call); ok {
								if b, ok := ap.Call.Value.(*ssa.Builtin); ok && b.Name() == "append" {
									x = an.Unwrap(ap.Call.Args[0])
									continue
								}
							}
							break
						}
						if k2, _, ok := an.FieldOf(x); ok && k2 == memdb+".exemptEntries" {
							good = true
						}
					}
				}
			}
			c.Check("trackExemptUnsafe evicts the oldest tracked entry", call.Pos(), good,
				"the entry evicted at the cap is not element 0 of the tracked list: the partial just stored is deleted again (store still reports success) and threshold is never reached for new duties")
		}
	})
}
