package rules

import (
	"go/token"
	"go/types"

	"golang.org/x/tools/go/ssa"

	"charonverif/internal/an"
	"charonverif/internal/rt"
)

// GT — the duty gater (core.NewDutyGater) keeps the duty's slot in unsigned 64-bit arithmetic and admits a duty
// only on the upper-bound comparison "slot-derived value <= bound". The rule is formulated on values, not on the
// shape of the closure: the gater function is whatever NewDutyGater returns on success (a literal, a local bound
// to a literal, a named function, a bound method); "slot-derived" is followed through locals, spill slots,
// conversions, arithmetic and in-repo helpers / closures (arguments substituted for parameters); the verdict may be
// the comparison itself, its negation, a short-circuit conjunction, a helper's result, or a constant returned on
// the admitting edge of a branch on such a comparison.

func init() {
	gm := []Mutant{
		// the comparison is computed but the verdict ignores it
		{ID: "GATER-verdict-ignores-window", File: "core/gater.go", Expect: "GT",
			Old: "\t\treturn dutyEpoch <= currentEpoch+uint64(o.allowedFutureEpochs)",
			New: "\t\t_ = dutyEpoch <= currentEpoch+uint64(o.allowedFutureEpochs)\n\n\t\treturn true"},
		// inverted window (admits only duties that are too far in the future)
		{ID: "GATER-inverted-window", File: "core/gater.go", Expect: "GT",
			Old: "\t\treturn dutyEpoch <= currentEpoch+uint64(o.allowedFutureEpochs)",
			New: "\t\treturn dutyEpoch >= currentEpoch+uint64(o.allowedFutureEpochs)"},
		// narrowing hidden in a helper closure: slot truncated to 32 bits
		{ID: "GATER-helper-truncates-slot", File: "core/gater.go", Expect: "GT",
			Old: "\t\tdutyEpoch := duty.Slot / slotsPerEpoch\n",
			New: "\t\tdutyEpoch := func(slot uint64) uint64 { return uint64(uint32(slot)) / slotsPerEpoch }(duty.Slot)\n"},
		// early admit on a branch that is not the window test
		{ID: "GATER-early-admit", File: "core/gater.go", Expect: "GT",
			Old: "\t\tdutyEpoch := duty.Slot / slotsPerEpoch\n",
			New: "\t\tdutyEpoch := duty.Slot / slotsPerEpoch\n\t\tif duty.Type == DutyExit {\n\t\t\treturn true\n\t\t}\n"},
	}
	Extend("C05", "", func(*rt.Ctx) {}, gm...)
}

func gaterRule(c *rt.Ctx) {
	c.Rule("GT", 2, func() {
		mk := c.Fn("core.NewDutyGater")
		var gaters []*ssa.Function
		unknown := false
		for _, rc := range an.SuccessCases(mk) {
			if len(rc.Vals) == 0 {
				continue
			}
			if an.IsNilConst(an.Resolve(rc.Vals[0])) {
				continue
			}
			fs := gtFuncValues(rc.Vals[0], 0)
			if len(fs) == 0 {
				unknown = true
			}
			for _, f := range fs {
				dup := false
				for _, g := range gaters {
					if g == f {
						dup = true
					}
				}
				if !dup {
					gaters = append(gaters, f)
				}
			}
		}
		if len(gaters) == 0 || unknown {
			c.Bail("NewDutyGater: cannot resolve the function value it returns")
		}
		for _, g := range gaters {
			gaterCheck(c, g)
		}
	})
}

// gtFuncValues resolves a function-typed value, also through in-repo helpers that return it.
func gtFuncValues(v ssa.Value, d int) []*ssa.Function {
	if d > 4 {
		return nil
	}
	if fs := an.FuncValues(v); len(fs) > 0 {
		return fs
	}
	r := an.Resolve(v)
	var call *ssa.Call
	idx := 0
	switch x := r.(type) {
	case *ssa.Call:
		call = x
	case *ssa.Extract:
		call, _ = x.Tuple.(*ssa.Call)
		idx = x.Index
	}
	if call == nil {
		return nil
	}
	body := an.StaticBody(&call.Call)
	if body == nil {
		return nil
	}
	var out []*ssa.Function
	for _, rc := range an.SuccessCases(body) {
		if idx >= len(rc.Vals) {
			return nil
		}
		fs := gtFuncValues(rc.Vals[idx], d+1)
		if len(fs) == 0 {
			return nil
		}
		out = append(out, fs...)
	}
	return out
}

// gtEnv says which parameters / free variables of the function under analysis carry a slot-derived value.
type gtEnv map[ssa.Value]bool

type gtWalker struct {
	dutyParams map[ssa.Value]bool
	bad        string
	badPos     token.Pos
	visited    map[*ssa.Function]bool
	stack      int
}

func gaterCheck(c *rt.Ctx, g *ssa.Function) {
	w := &gtWalker{dutyParams: map[ssa.Value]bool{}, visited: map[*ssa.Function]bool{}}
	for _, p := range g.Params {
		if an.TypeName(p.Type()) == "core.Duty" {
			w.dutyParams[p] = true
		}
	}
	if len(w.dutyParams) == 0 {
		c.Bail("gater %s has no core.Duty parameter", an.FuncName(g))
	}
	name := "NewDutyGater"
	// (1) no narrowing / signed conversion of a slot-derived value, in the gater or in any helper it feeds the slot to
	w.convs(g, gtEnv{})
	pos := g.Pos()
	if w.bad != "" {
		pos = w.badPos
	}
	c.Check(name+" slot arithmetic stays unsigned 64-bit", pos, w.bad == "", w.bad+": a slot >= 2^63 wraps and passes the future-epoch window")

	// (2) every return that can yield true is the upper-bound comparison (or lies on its admitting edge)
	good, unsure := true, ""
	why := "the gater's verdict is not the upper-bound comparison of the duty's epoch"
	nTrue := 0
	for _, rc := range an.ReturnCases(g) {
		if len(rc.Vals) != 1 {
			unsure = "gater does not return a single boolean"
			continue
		}
		v := an.Resolve(rc.Vals[0])
		if k, ok := v.(*ssa.Const); ok && k.Value != nil && k.Value.ExactString() == "false" {
			continue
		}
		if gtFalseOnEdge(v, rc.At, rc.Into) {
			continue // `ok := cond; if ok { ok = window test }; return ok`: on the skipping edge the verdict is the false cond
		}
		nTrue++
		if w.admitEdge(g, rc.At, rc.Into, gtEnv{}) {
			continue
		}
		switch w.polarity(v, gtEnv{}, 0) {
		case +1:
			continue
		case -1:
			good = false
			why = "the gater admits a duty on the wrong side of the comparison (slot-derived value above the bound)"
			continue
		}
		if k, ok := v.(*ssa.Const); ok && k.Value != nil {
			good = false
			why = "the gater returns true on a path that is not the admitting edge of the upper-bound comparison of the duty's epoch"
			continue
		}
		if bin, ok := v.(*ssa.BinOp); ok && isCompare(bin.Op) {
			good = false
			continue
		}
		unsure = "a returned verdict has a shape the rule does not follow"
	}
	if nTrue == 0 {
		good = false
		why = "the gater never admits a duty"
	}
	k := name + " admits only dutyEpoch <= current + allowed"
	switch {
	case !good:
		c.Bad(k, g.Pos(), why)
	case unsure != "":
		c.Unsure(k, g.Pos(), unsure)
	default:
		c.Good(k, g.Pos(), "every admitting return is (guarded by) slot-derived <= bound")
	}
}

// gtFalseOnEdge: the boolean v is known to be false when the edge at→into is taken, because the branch that
// ends block at tests v itself (or its negation) and the edge is the one taken when v is false. Also when at is
// confined to such an edge.
func gtFalseOnEdge(v ssa.Value, at, into *ssa.BasicBlock) bool {
	if at == nil {
		return false
	}
	falseEdge := func(b *ssa.BasicBlock) *ssa.BasicBlock {
		if len(b.Instrs) == 0 || len(b.Succs) != 2 || b.Succs[0] == b.Succs[1] {
			return nil
		}
		iff, ok := b.Instrs[len(b.Instrs)-1].(*ssa.If)
		if !ok {
			return nil
		}
		cond := an.Resolve(iff.Cond)
		if cond == v {
			return b.Succs[1]
		}
		if n, ok := cond.(*ssa.UnOp); ok && n.Op == token.NOT && an.Resolve(n.X) == v {
			return b.Succs[0]
		}
		return nil
	}
	if into != nil {
		if fe := falseEdge(at); fe != nil && fe == into {
			return true
		}
	}
	for _, b := range at.Parent().Blocks {
		if fe := falseEdge(b); fe != nil && an.EdgeConfines(b, fe, at) {
			return true
		}
	}
	return false
}

func isCompare(op token.Token) bool {
	switch op {
	case token.LSS, token.LEQ, token.GTR, token.GEQ, token.EQL, token.NEQ:
		return true
	}
	return false
}

// admitEdge: the return case (block at, or edge at→into) can only be reached through the admitting edge of a
// branch whose condition is an upper-bound comparison of a slot-derived value.
func (w *gtWalker) admitEdge(g *ssa.Function, at, into *ssa.BasicBlock, env gtEnv) bool {
	for _, b := range g.Blocks {
		if len(b.Instrs) == 0 {
			continue
		}
		iff, ok := b.Instrs[len(b.Instrs)-1].(*ssa.If)
		if !ok {
			continue
		}
		pol := w.polarity(iff.Cond, env, 0)
		if pol == 0 {
			continue
		}
		pass := b.Succs[0]
		if pol < 0 {
			pass = b.Succs[1]
		}
		if an.EdgeConfines(b, pass, at) {
			return true
		}
		if into != nil && b == at && pass == into && b.Succs[0] != b.Succs[1] {
			return true
		}
	}
	return false
}

// polarity classifies a boolean value: +1 if it is true exactly when "slot-derived <= / < bound" holds, -1 if it is
// true exactly when the slot-derived value is above the bound, 0 otherwise.
func (w *gtWalker) polarity(v ssa.Value, env gtEnv, d int) int {
	if d > 8 {
		return 0
	}
	v = an.Resolve(v)
	switch x := v.(type) {
	case *ssa.UnOp:
		if x.Op == token.NOT {
			return -w.polarity(x.X, env, d+1)
		}
	case *ssa.BinOp:
		var lo, hi ssa.Value
		switch x.Op {
		case token.LEQ, token.LSS:
			lo, hi = x.X, x.Y
		case token.GEQ, token.GTR:
			lo, hi = x.Y, x.X
		default:
			return 0
		}
		ls, hs := w.usesSlot(lo, env, 0), w.usesSlot(hi, env, 0)
		switch {
		case ls && !hs:
			return +1
		case hs && !ls:
			return -1
		}
	case *ssa.Call:
		body := an.StaticBody(&x.Call)
		if body == nil || w.stack > 4 {
			return 0
		}
		env2 := w.bind(x, body, env)
		w.stack++
		defer func() { w.stack-- }()
		pol, first := 0, true
		for _, rc := range an.ReturnCases(body) {
			if len(rc.Vals) != 1 {
				return 0
			}
			rv := an.Resolve(rc.Vals[0])
			p := w.polarity(rv, env2, d+1)
			if p == 0 {
				if k, ok := rv.(*ssa.Const); ok && k.Value != nil {
					isTrue := k.Value.ExactString() == "true"
					switch {
					case w.admitEdge(body, rc.At, rc.Into, env2):
						p = +1
					case w.rejectEdge(body, rc.At, rc.Into, env2):
						p = -1
					}
					if !isTrue {
						p = -p
					}
				}
			}
			if p == 0 || (!first && p != pol) {
				return 0
			}
			pol, first = p, false
		}
		return pol
	}
	return 0
}

// rejectEdge is admitEdge for the other successor.
func (w *gtWalker) rejectEdge(g *ssa.Function, at, into *ssa.BasicBlock, env gtEnv) bool {
	for _, b := range g.Blocks {
		if len(b.Instrs) == 0 {
			continue
		}
		iff, ok := b.Instrs[len(b.Instrs)-1].(*ssa.If)
		if !ok {
			continue
		}
		pol := w.polarity(iff.Cond, env, 0)
		if pol == 0 {
			continue
		}
		rej := b.Succs[1]
		if pol < 0 {
			rej = b.Succs[0]
		}
		if an.EdgeConfines(b, rej, at) {
			return true
		}
		if into != nil && b == at && rej == into && b.Succs[0] != b.Succs[1] {
			return true
		}
	}
	return false
}

// bind maps the parameters (and captured variables) of a directly called in-repo function to "slot-derived or not".
func (w *gtWalker) bind(call ssa.CallInstruction, body *ssa.Function, env gtEnv) gtEnv {
	env2 := gtEnv{}
	for k, v := range env {
		if _, ok := k.(*ssa.FreeVar); ok {
			env2[k] = v
		}
	}
	args := call.Common().Args
	for i, p := range body.Params {
		if i < len(args) && w.usesSlot(args[i], env, 0) {
			env2[p] = true
		}
	}
	return env2
}

// usesSlot: v is computed from the Slot field of a core.Duty parameter of the gater.
func (w *gtWalker) usesSlot(v ssa.Value, env gtEnv, d int) bool {
	if d > 12 {
		return false
	}
	if env[v] {
		return true
	}
	v = an.Resolve(v)
	if env[v] {
		return true
	}
	switch x := v.(type) {
	case *ssa.Field:
		if fieldNameOf(x.X.Type(), x.Field) == "Slot" && an.TypeName(x.X.Type()) == "core.Duty" {
			return true
		}
		return false
	case *ssa.UnOp:
		if fa, ok := x.X.(*ssa.FieldAddr); ok && x.Op == token.MUL {
			return fieldNameOf(fa.X.Type(), fa.Field) == "Slot" && an.TypeName(fa.X.Type()) == "core.Duty"
		}
		if al, ok := x.X.(*ssa.Alloc); ok && x.Op == token.MUL {
			for _, st := range an.StoresTo(al) {
				if w.usesSlot(st.Val, env, d+1) {
					return true
				}
			}
			return false
		}
		if fv, ok := x.X.(*ssa.FreeVar); ok && x.Op == token.MUL {
			return w.usesSlot(fv, env, d+1)
		}
		return w.usesSlot(x.X, env, d+1)
	case *ssa.FreeVar:
		b := an.ClosureBinding(x)
		if al, ok := b.(*ssa.Alloc); ok {
			for _, st := range an.StoresTo(al) {
				if w.usesSlot(st.Val, env, d+1) {
					return true
				}
			}
			return false
		}
		if b != nil {
			return w.usesSlot(b, env, d+1)
		}
	case *ssa.BinOp:
		return w.usesSlot(x.X, env, d+1) || w.usesSlot(x.Y, env, d+1)
	case *ssa.Convert:
		return w.usesSlot(x.X, env, d+1)
	case *ssa.Phi:
		if d > 6 {
			return false
		}
		for _, e := range x.Edges {
			if e != ssa.Value(x) && w.usesSlot(e, env, d+3) {
				return true
			}
		}
	case *ssa.Extract:
		return w.usesSlot(x.Tuple, env, d+1)
	case *ssa.Call:
		// any call fed a slot-derived argument yields a slot-derived result (helpers such as epochOf(slot, perEpoch))
		for _, a := range x.Call.Args {
			if w.usesSlot(a, env, d+1) {
				return true
			}
		}
	}
	return false
}

// convs records a narrowing / signed conversion of a slot-derived value in fn or in the helpers it passes one to.
func (w *gtWalker) convs(fn *ssa.Function, env gtEnv) {
	if w.visited[fn] && len(env) == 0 {
		return
	}
	w.visited[fn] = true
	if w.stack > 5 {
		return
	}
	for _, in := range an.Instrs(fn, false) {
		switch x := in.(type) {
		case *ssa.Convert:
			from, ok1 := x.X.Type().Underlying().(*types.Basic)
			to, ok2 := x.Type().Underlying().(*types.Basic)
			if !ok1 || !ok2 || !w.usesSlot(x.X, env, 0) {
				continue
			}
			if from.Info()&types.IsUnsigned != 0 && (to.Info()&types.IsUnsigned == 0 || to.Kind() == types.Uint32 || to.Kind() == types.Uint16 || to.Kind() == types.Uint8) {
				if w.bad == "" {
					w.bad, w.badPos = "the duty slot is converted from "+from.Name()+" to "+to.Name(), x.Pos()
					if !w.badPos.IsValid() {
						w.badPos = fn.Pos()
					}
				}
			}
		case ssa.CallInstruction:
			body := an.StaticBody(x.Common())
			if body == nil {
				continue
			}
			env2 := w.bind(x, body, env)
			tainted := false
			for k := range env2 {
				if _, ok := k.(*ssa.Parameter); ok {
					tainted = true
				}
			}
			if !tainted {
				continue
			}
			w.stack++
			w.convs(body, env2)
			w.stack--
		}
	}
}
