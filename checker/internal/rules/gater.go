package rules

import (
	"go/token"
	"go/types"

	"golang.org/x/tools/go/ssa"

	"charonverif/internal/an"
	"charonverif/internal/rt"
)

func gaterRule(c *rt.Ctx) {
	c.Rule("GT", 2, func() {
		mk := c.Fn("core.NewDutyGater")
		var lit *ssa.Function
		for _, f := range mk.AnonFuncs {
			if len(f.Params) == 1 && an.TypeName(f.Params[0].Type()) == "core.Duty" {
				lit = f
			}
		}
		if lit == nil {
			c.Bail("NewDutyGater: gater literal not found")
		}
		duty := ssa.Value(lit.Params[0])
		bad := ""
		var badPos token.Pos
		for _, in := range an.Instrs(lit, false) {
			cv, ok := in.(*ssa.Convert)
			if !ok {
				continue
			}
			from, ok1 := cv.X.Type().Underlying().(*types.Basic)
			to, ok2 := cv.Type().Underlying().(*types.Basic)
			if !ok1 || !ok2 || !usesSlot(cv.X, duty, 0) {
				continue
			}
			if from.Info()&types.IsUnsigned != 0 && (to.Info()&types.IsUnsigned == 0 || to.Kind() == types.Uint32 || to.Kind() == types.Uint16 || to.Kind() == types.Uint8) {
				bad, badPos = "the duty slot is converted from "+from.Name()+" to "+to.Name(), cv.Pos()
			}
		}
		pos := lit.Pos()
		if bad != "" {
			pos = badPos
		}
		c.Check("NewDutyGater slot arithmetic stays unsigned 64-bit", pos, bad == "", bad+": a slot >= 2^63 wraps and passes the future-epoch window")
		// every return that can yield true is the upper-bound comparison of a slot-derived value itself, or lies on
		// the "slot-derived value <= bound" edge of a branch on such a comparison (any spelling)
		good := true
		nTrue := 0
		for _, r := range an.Returns(lit) {
			v := an.Unwrap(returnValues(r)[0])
			if k, ok := v.(*ssa.Const); ok && k.Value != nil && k.Value.ExactString() == "false" {
				continue
			}
			nTrue++
			okRet := false
			if bin, ok := v.(*ssa.BinOp); ok && (bin.Op == token.LEQ || bin.Op == token.GEQ || bin.Op == token.LSS || bin.Op == token.GTR) {
				x, y := bin.X, bin.Y
				if bin.Op == token.GEQ || bin.Op == token.GTR {
					x, y = y, x
				}
				if usesSlot(x, duty, 0) && !usesSlot(y, duty, 0) {
					okRet = true
				}
			}
			if !okRet {
				for _, in := range an.Instrs(lit, false) {
					val, isVal := in.(ssa.Value)
					if !isVal || !usesSlot(val, duty, 0) {
						continue
					}
					for _, cd := range an.CondsOn(lit, val) {
						if cd.Other == nil || usesSlot(cd.Other, duty, 0) {
							continue
						}
						var pass *ssa.BasicBlock
						switch cd.Op {
						case token.LEQ, token.LSS:
							pass = cd.Succ(true)
						case token.GTR, token.GEQ:
							pass = cd.Succ(false)
						default:
							continue
						}
						fail := cd.If.Block().Succs[0]
						if fail == pass {
							fail = cd.If.Block().Succs[1]
						}
						if (pass == r.Block() || pass.Dominates(r.Block())) && !an.CanReach(fail, r.Block(), nil) {
							okRet = true
						}
					}
				}
			}
			if !okRet {
				good = false
			}
		}
		if nTrue == 0 {
			good = false
		}
		c.Check("NewDutyGater admits only dutyEpoch <= current + allowed", lit.Pos(), good, "the gater's verdict is not the upper-bound comparison of the duty's epoch")
	})
}

func usesSlot(v, duty ssa.Value, d int) bool {
	if d > 8 {
		return false
	}
	v = an.Resolve(v)
	switch x := v.(type) {
	case *ssa.Field:
		return an.Resolve(x.X) == duty && fieldNameOf(x.X.Type(), x.Field) == "Slot"
	case *ssa.UnOp:
		if fa, ok := x.X.(*ssa.FieldAddr); ok && x.Op == token.MUL {
			return fieldNameOf(fa.X.Type(), fa.Field) == "Slot" && rootedAt(fa.X, duty)
		}
		return usesSlot(x.X, duty, d+1)
	case *ssa.BinOp:
		return usesSlot(x.X, duty, d+1) || usesSlot(x.Y, duty, d+1)
	case *ssa.Convert:
		return usesSlot(x.X, duty, d+1)
	}
	return false
}
