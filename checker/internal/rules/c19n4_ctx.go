package rules

import (
	"go/token"
	"go/types"
	"sort"
	"strings"

	"golang.org/x/tools/go/ssa"

	"charonverif/internal/an"
	"charonverif/internal/load"
	"charonverif/internal/rt"
)

// ---------------------------------------------------------------------------------------------
// Y7: context lineage. "Cancelling the caller's context returns promptly" (and "does not wait for hung nodes"
// once the caller gave up) holds only because every per-node request runs on a context derived from the
// caller's: provide's join loop observes the caller's context only when a result arrives, and results of hung
// nodes arrive only because their requests are cancelled through the context chain
//   multi method ctx -> provide/submit ctx -> forkjoin.New rootCtx -> worker context -> work function ctx -> node call.
// Necessary condition decided here: at every link of that chain (sinks below) no value the context argument
// may hold is a detached context (context.Background(), context.TODO(), context.WithoutCancel(..), or a
// context derived from one of those).
//
// Sinks (package app/eth2wrap): calls of a beacon node method on provideArgs.client; dynamic calls of a work
// function (context, provideArgs); static calls of provide, submit, forkjoin.New*, and of every in-package
// function from which such a sink is reachable (so helpers are followed through their call sites).
// Sinks (package app/forkjoin): calls of a value of type forkjoin.Work; static calls of in-package functions
// from which such a call is reachable.
//
// The value walk is field-sensitive (struct fields used as parameter objects: every store into the field in the
// package), follows captured variables, phis, parameters of directly invoked literals, results of in-module
// functions (their return values, parameters bound to the arguments) and context.With{Cancel,Timeout,
// Deadline,Value}. A context returned by a function outside the module is taken to derive from its context
// arguments (the convention of every such API but context.WithoutCancel, which is matched by name).
// VIOLATION only on a detached origin; an origin that cannot be followed => UNDECIDED.

func c19n4IsCtx(t types.Type) bool {
	return t != nil && types.TypeString(t, nil) == "context.Context"
}

// c19n4Funcs lists the source functions of pkg: an.PkgFuncs plus the (generic) methods of its named types,
// which method sets do not enumerate, and all their literals.
func c19n4Funcs(pkg *ssa.Package) []*ssa.Function {
	seen := map[*ssa.Function]bool{}
	var out []*ssa.Function
	add := func(f *ssa.Function) {
		if f == nil || len(f.Blocks) == 0 || f.Synthetic != "" {
			return
		}
		for _, g := range an.Closure(f) {
			if !seen[g] {
				seen[g] = true
				out = append(out, g)
			}
		}
	}
	for _, f := range an.PkgFuncs(pkg) {
		add(f)
	}
	sc := pkg.Pkg.Scope()
	for _, n := range sc.Names() {
		tn, ok := sc.Lookup(n).(*types.TypeName)
		if !ok {
			continue
		}
		nt, ok := tn.Type().(*types.Named)
		if !ok {
			continue
		}
		for i := 0; i < nt.NumMethods(); i++ {
			add(pkg.Prog.FuncValue(nt.Method(i)))
		}
	}
	sort.SliceStable(out, func(i, j int) bool { return out[i].Pos() < out[j].Pos() })
	return out
}

func c19n4Top(f *ssa.Function) *ssa.Function {
	for f != nil && f.Parent() != nil {
		f = f.Parent()
	}
	return f
}

type c19n4Lin struct {
	funcs   map[*ssa.Package][]*ssa.Function
	fstores map[string][]ssa.Value
	fdone   map[*ssa.Package]bool
	frames  int
}

// c19n4Bound is an argument bound to a parameter of a followed callee, with the frame (bindings, visited set)
// of the call site it comes from.
type c19n4Bound struct {
	val  ssa.Value
	bind map[*ssa.Parameter]c19n4Bound
	seen map[ssa.Value]bool
}

type c19n4Res struct {
	detached []string
	unknown  []string
	roots    int
	rootVals []ssa.Value
}

// c19n4Derives decides whether the context value v derives from the context `root` (a parameter): rt.OK when
// every origin of v is root (isRoot) possibly behind context.With* / context-passing helpers, rt.Violation when
// an origin is a detached context, rt.Undecided otherwise.
func c19n4Derives(v ssa.Value, isRoot func(ssa.Value) bool) (string, string) {
	l := &c19n4Lin{}
	res := &c19n4Res{}
	l.trace(v, map[*ssa.Parameter]c19n4Bound{}, 0, map[ssa.Value]bool{}, res)
	switch {
	case len(res.detached) > 0:
		return rt.Violation, "the context can be " + strings.Join(c19n4Uniq(res.detached), " / ") + ": detached from the caller's context, so cancelling the caller's context (or its deadline) does not end the node requests"
	case len(res.unknown) > 0:
		return rt.Undecided, "the origin of the context is not followed: " + strings.Join(c19n4Uniq(res.unknown), "; ")
	case res.roots == 0:
		return rt.Undecided, "the context is not followed to a context parameter"
	}
	for _, r := range res.rootVals {
		if !isRoot(r) {
			return rt.Undecided, "the context derives from a context parameter that is not followed to the caller's context"
		}
	}
	return rt.OK, ""
}

func (l *c19n4Lin) pkgFuncs(p *ssa.Package) []*ssa.Function {
	if l.funcs == nil {
		l.funcs = map[*ssa.Package][]*ssa.Function{}
	}
	if fs, ok := l.funcs[p]; ok {
		return fs
	}
	fs := c19n4Funcs(p)
	l.funcs[p] = fs
	return fs
}

// fieldVals: every value stored into struct field key by a function of pkg.
func (l *c19n4Lin) fieldVals(pkg *ssa.Package, key string) []ssa.Value {
	if l.fstores == nil {
		l.fstores, l.fdone = map[string][]ssa.Value{}, map[*ssa.Package]bool{}
	}
	if pkg != nil && !l.fdone[pkg] {
		l.fdone[pkg] = true
		for _, f := range l.pkgFuncs(pkg) {
			for _, b := range f.Blocks {
				for _, in := range b.Instrs {
					if st, ok := in.(*ssa.Store); ok {
						if fa, ok := st.Addr.(*ssa.FieldAddr); ok {
							k := an.FieldKey(fa.X.Type(), fa.Field)
							l.fstores[k] = append(l.fstores[k], st.Val)
						}
					}
				}
			}
		}
	}
	return l.fstores[key]
}

// origins is c19Origins made field-sensitive: a load of a struct field (a parameter object shared by methods /
// helpers) stands for every value stored into that field by a function of the package.
func (l *c19n4Lin) origins(v ssa.Value) []ssa.Value {
	var out []ssa.Value
	seen := map[ssa.Value]bool{}
	var walk func(v ssa.Value, d int)
	walk = func(v ssa.Value, d int) {
		for _, o := range c19Origins(v) {
			if seen[o] {
				continue
			}
			seen[o] = true
			if key, _, ok := c19FieldRead(o); ok && d < 6 {
				var pkg *ssa.Package
				if in, isIn := o.(ssa.Instruction); isIn && in.Parent() != nil {
					if t := c19n4Top(an.Orig(in.Parent())); t != nil {
						pkg = t.Pkg
					}
				}
				if vals := l.fieldVals(pkg, key); len(vals) > 0 {
					for _, x := range vals {
						walk(x, d+1)
					}
					continue
				}
			}
			out = append(out, o)
		}
	}
	walk(v, 0)
	return out
}

func (l *c19n4Lin) hasOrigin(v, target ssa.Value) bool {
	for _, o := range l.origins(v) {
		if o == target {
			return true
		}
	}
	return false
}

// chain lists fn and the functions of its package reachable from it through static calls (literals included),
// generic instances replaced by their origins.
func c19n4Chain(fn *ssa.Function, depth int) []*ssa.Function {
	fn = an.Orig(fn)
	out := []*ssa.Function{fn}
	seen := map[*ssa.Function]bool{fn: true}
	frontier := []*ssa.Function{fn}
	for d := 0; d < depth && len(frontier) > 0; d++ {
		var next []*ssa.Function
		for _, f := range frontier {
			for _, in := range an.Instrs(f, true) {
				ci, ok := in.(ssa.CallInstruction)
				if !ok || ci.Common().IsInvoke() {
					continue
				}
				g := an.Orig(ci.Common().StaticCallee())
				if g == nil || seen[g] || len(g.Blocks) == 0 || g.Pkg == nil || g.Pkg != fn.Pkg || g.Parent() != nil {
					continue
				}
				seen[g] = true
				out = append(out, g)
				next = append(next, g)
			}
		}
		frontier = next
	}
	return out
}

// directCalls lists the argument lists with which literal fn is invoked directly (call, go, defer) inside the
// function that declares it (or a sibling literal).
func c19n4DirectCalls(fn *ssa.Function) [][]ssa.Value {
	var out [][]ssa.Value
	top := c19n4Top(fn)
	if top == nil || top == fn {
		return nil
	}
	for _, in := range an.Instrs(top, true) {
		ci, ok := in.(ssa.CallInstruction)
		if !ok || ci.Common().IsInvoke() {
			continue
		}
		for _, o := range c19Origins(ci.Common().Value) {
			var g *ssa.Function
			switch x := o.(type) {
			case *ssa.MakeClosure:
				g, _ = x.Fn.(*ssa.Function)
			case *ssa.Function:
				g = x
			}
			if g == fn && len(ci.Common().Args) == len(fn.Params) {
				out = append(out, ci.Common().Args)
			}
		}
	}
	return out
}

func (l *c19n4Lin) trace(v ssa.Value, bind map[*ssa.Parameter]c19n4Bound, d int, seen map[ssa.Value]bool, res *c19n4Res) {
	v = an.Unwrap(v)
	if v == nil {
		res.unknown = append(res.unknown, "no value")
		return
	}
	if seen[v] {
		return
	}
	seen[v] = true
	if d > 40 {
		res.unknown = append(res.unknown, "value chain too long")
		return
	}
	each := func(vs []ssa.Value) {
		for _, x := range vs {
			l.trace(x, bind, d+1, seen, res)
		}
	}
	fnPkg := func(x ssa.Value) *ssa.Package {
		if in, ok := x.(ssa.Instruction); ok && in.Parent() != nil {
			if t := c19n4Top(an.Orig(in.Parent())); t != nil {
				return t.Pkg
			}
		}
		return nil
	}
	field := func(key string, at ssa.Value) {
		vals := l.fieldVals(fnPkg(at), key)
		if len(vals) == 0 {
			res.unknown = append(res.unknown, "field "+key+" is never assigned in its package")
			return
		}
		each(vals)
	}
	switch x := v.(type) {
	case *ssa.Parameter:
		if b, ok := bind[x]; ok {
			// the argument belongs to the caller's frame
			l.trace(b.val, b.bind, d+1, b.seen, res)
			return
		}
		if fn := x.Parent(); fn != nil && fn.Parent() != nil {
			idx := -1
			for i, p := range fn.Params {
				if p == x {
					idx = i
				}
			}
			for _, args := range c19n4DirectCalls(fn) {
				if idx >= 0 && idx < len(args) {
					l.trace(args[idx], bind, d+1, seen, res)
				}
			}
		}
		res.roots++
		res.rootVals = append(res.rootVals, x)
	case *ssa.FreeVar:
		b := c19Binding(x)
		if b == nil {
			res.unknown = append(res.unknown, "captured variable "+x.Name()+" is not resolved")
			return
		}
		l.trace(b, bind, d+1, seen, res)
	case *ssa.Phi:
		each(x.Edges)
	case *ssa.UnOp:
		if x.Op != token.MUL {
			res.unknown = append(res.unknown, "operator "+x.Op.String())
			return
		}
		switch cell := c19Cell(x.X).(type) {
		case *ssa.Alloc:
			st := c19n4StoresAt(cell, x)
			if len(st) == 0 {
				res.unknown = append(res.unknown, "variable "+cell.Comment+" is never assigned")
				return
			}
			each(st)
		case *ssa.FieldAddr:
			field(an.FieldKey(cell.X.Type(), cell.Field), x)
		case *ssa.Global:
			res.unknown = append(res.unknown, "package variable "+cell.Name())
		default:
			res.unknown = append(res.unknown, "load through "+strings.TrimPrefix(strings.TrimPrefix(c19n4Kind(cell), "*ssa."), "ssa."))
		}
	case *ssa.Field:
		field(an.FieldKey(x.X.Type(), x.Field), x)
	case *ssa.TypeAssert:
		l.trace(x.X, bind, d+1, seen, res)
	case *ssa.Extract:
		if call, ok := x.Tuple.(*ssa.Call); ok {
			l.callResult(call, x.Index, bind, d, seen, res)
			return
		}
		res.unknown = append(res.unknown, "component of a non-call tuple")
	case *ssa.Call:
		l.callResult(x, 0, bind, d, seen, res)
	case *ssa.Const:
		res.unknown = append(res.unknown, "constant (nil) context")
	default:
		res.unknown = append(res.unknown, "value of kind "+strings.TrimPrefix(c19n4Kind(v), "*ssa."))
	}
}

// c19n4StoresAt lists the values the variable cell may hold at load ld: the stores of closures capturing it, and
// the stores of the declaring function that can flow to the load (a re-assignment after the load is not an
// origin of the loaded value) -- every store when the load is in another function.
func c19n4StoresAt(cell *ssa.Alloc, ld *ssa.UnOp) []ssa.Value {
	var out []ssa.Value
	if cell.Referrers() == nil {
		return nil
	}
	for _, ref := range *cell.Referrers() {
		switch x := ref.(type) {
		case *ssa.Store:
			if x.Addr != ssa.Value(cell) {
				continue
			}
			if x.Parent() == ld.Parent() && !an.InstrReaches(x, ld) {
				continue
			}
			out = append(out, x.Val)
		case *ssa.MakeClosure:
			cl, ok := x.Fn.(*ssa.Function)
			if !ok {
				continue
			}
			for i, b := range x.Bindings {
				if b == ssa.Value(cell) && i < len(cl.FreeVars) {
					out = append(out, c19StoresTo(cl.FreeVars[i], 1)...)
				}
			}
		}
	}
	return out
}

func c19n4Kind(v any) string {
	switch v.(type) {
	case *ssa.Alloc:
		return "Alloc"
	case *ssa.IndexAddr:
		return "IndexAddr"
	case *ssa.Lookup:
		return "Lookup"
	case *ssa.MakeClosure:
		return "MakeClosure"
	case *ssa.Function:
		return "Function"
	case *ssa.Global:
		return "Global"
	case *ssa.Index:
		return "Index"
	case *ssa.Slice:
		return "Slice"
	case *ssa.BinOp:
		return "BinOp"
	case *ssa.Select:
		return "Select"
	case *ssa.Next:
		return "Next"
	case *ssa.MakeInterface:
		return "MakeInterface"
	}
	return "other"
}

var c19n4Derive = map[string]bool{
	"context.WithCancel": true, "context.WithCancelCause": true, "context.WithDeadline": true, "context.WithDeadlineCause": true,
	"context.WithTimeout": true, "context.WithTimeoutCause": true, "context.WithValue": true,
}

var c19n4Detach = map[string]bool{"context.Background": true, "context.TODO": true, "context.WithoutCancel": true}

func (l *c19n4Lin) callResult(call *ssa.Call, idx int, bind map[*ssa.Parameter]c19n4Bound, d int, seen map[ssa.Value]bool, res *c19n4Res) {
	cc := call.Common()
	ctxArgs := func() []ssa.Value {
		var out []ssa.Value
		for _, a := range cc.Args {
			if c19n4IsCtx(a.Type()) {
				out = append(out, a)
			}
		}
		return out
	}
	convention := func(what string) {
		as := ctxArgs()
		if len(as) == 0 {
			res.unknown = append(res.unknown, "context returned by "+what+", which takes no context")
			return
		}
		for _, a := range as {
			l.trace(a, bind, d+1, seen, res)
		}
	}
	if cc.IsInvoke() {
		convention("interface method " + cc.Method.Name())
		return
	}
	var callee *ssa.Function
	if f := cc.StaticCallee(); f != nil {
		callee = f
	} else {
		os := c19Origins(cc.Value)
		if len(os) == 1 {
			switch x := os[0].(type) {
			case *ssa.MakeClosure:
				callee, _ = x.Fn.(*ssa.Function)
			case *ssa.Function:
				callee = x
			}
		}
	}
	if callee == nil {
		convention("a function value")
		return
	}
	name := an.FuncName(callee)
	switch {
	case c19n4Detach[name]:
		res.detached = append(res.detached, name+"()")
		return
	case c19n4Derive[name]:
		if len(cc.Args) > 0 {
			l.trace(cc.Args[0], bind, d+1, seen, res)
		}
		return
	}
	body := an.Orig(callee)
	top := c19n4Top(body)
	inModule := top != nil && top.Pkg != nil && strings.HasPrefix(top.Pkg.Pkg.Path(), load.Mod)
	if body == nil || len(body.Blocks) == 0 || !inModule || d > 30 || len(body.Params) != len(cc.Args) {
		convention(name)
		return
	}
	// a fresh frame per call site: the callee's values are visited once per binding of its parameters
	nb := map[*ssa.Parameter]c19n4Bound{}
	for i, p := range body.Params {
		nb[p] = c19n4Bound{cc.Args[i], bind, seen}
	}
	l.frames++
	if l.frames > 2000 {
		res.unknown = append(res.unknown, "too many calls to follow")
		return
	}
	rets := c19Returns(body)
	if len(rets) == 0 {
		res.unknown = append(res.unknown, name+" never returns")
		return
	}
	for _, r := range rets {
		vals := c19RetVals(r)
		if idx >= len(vals) {
			res.unknown = append(res.unknown, "result of "+name+" is not followed")
			continue
		}
		l.trace(vals[idx], nb, d+2, map[ssa.Value]bool{}, res)
	}
}

type c19n4Sink struct {
	call ssa.CallInstruction
	ctx  ssa.Value
	what string
}

func c19n4CtxArg(cc *ssa.CallCommon) ssa.Value {
	for _, a := range cc.Args {
		if c19n4IsCtx(a.Type()) {
			return a
		}
	}
	return nil
}

// c19n4Sinks finds the sinks of one package. prim classifies the primary sinks (the calls that hand a context
// towards a node request); static calls of in-package functions from which a primary sink is reachable are
// added.
func (l *c19n4Lin) sinks(pkg *ssa.Package, prim func(ci ssa.CallInstruction) string) []c19n4Sink {
	funcs := l.pkgFuncs(pkg)
	reach := map[*ssa.Function]bool{} // top-level functions from which a primary sink is reachable
	var out []c19n4Sink
	isPrim := map[ssa.CallInstruction]bool{}
	for _, f := range funcs {
		for _, b := range f.Blocks {
			for _, in := range b.Instrs {
				ci, ok := in.(ssa.CallInstruction)
				if !ok {
					continue
				}
				if what := prim(ci); what != "" {
					isPrim[ci] = true
					reach[c19n4Top(f)] = true
					if a := c19n4CtxArg(ci.Common()); a != nil {
						out = append(out, c19n4Sink{ci, a, what})
					}
				}
			}
		}
	}
	inPkgCallee := func(ci ssa.CallInstruction) *ssa.Function {
		if ci.Common().IsInvoke() {
			return nil
		}
		g := an.Orig(ci.Common().StaticCallee())
		if g == nil {
			return nil
		}
		t := c19n4Top(g)
		if t == nil || t.Pkg != pkg {
			return nil
		}
		return t
	}
	for changed := true; changed; {
		changed = false
		for _, f := range funcs {
			tf := c19n4Top(f)
			if reach[tf] {
				continue
			}
			for _, b := range f.Blocks {
				for _, in := range b.Instrs {
					if ci, ok := in.(ssa.CallInstruction); ok {
						if g := inPkgCallee(ci); g != nil && reach[g] {
							reach[tf], changed = true, true
						}
					}
				}
			}
		}
	}
	for _, f := range funcs {
		for _, b := range f.Blocks {
			for _, in := range b.Instrs {
				ci, ok := in.(ssa.CallInstruction)
				if !ok || isPrim[ci] {
					continue
				}
				if g := inPkgCallee(ci); g != nil && reach[g] {
					if a := c19n4CtxArg(ci.Common()); a != nil {
						out = append(out, c19n4Sink{ci, a, "call of " + an.FuncName(g)})
					}
				}
			}
		}
	}
	return out
}

func c19Y7(c *rt.Ctx) {
	l := &c19n4Lin{}
	wrap, fj := c.SSAPkg(c19Pkg), c.SSAPkg(c19FJ)

	hasArgs := func(cc *ssa.CallCommon) bool {
		for _, a := range cc.Args {
			if an.TypeName(a.Type()) == c19Pkg+".provideArgs" {
				return true
			}
		}
		return false
	}
	wrapPrim := func(ci ssa.CallInstruction) string {
		cc := ci.Common()
		if cc.IsInvoke() {
			if an.TypeName(cc.Value.Type()) != c19Client {
				return ""
			}
			if k, _, ok := c19FieldRead(cc.Value); ok && k == c19ArgCl {
				return "node call args.client." + cc.Method.Name()
			}
			for _, o := range c19Origins(cc.Value) {
				if k, _, ok := c19FieldRead(o); ok && k == c19ArgCl {
					return "node call args.client." + cc.Method.Name()
				}
			}
			return ""
		}
		if f := an.Orig(cc.StaticCallee()); f != nil {
			n := an.FuncName(f)
			switch {
			case n == c19Provide, n == c19Submit:
				return "call of " + n
			case f.Pkg != nil && f.Pkg == fj && f.Parent() == nil && len(f.Params) > 0 && c19n4IsCtx(f.Params[0].Type()) && strings.HasPrefix(n, c19FJ+".New"):
				return "call of " + n
			}
			return ""
		}
		if _, isB := cc.Value.(*ssa.Builtin); !isB && hasArgs(cc) {
			return "call of a work function (context, provideArgs)"
		}
		return ""
	}
	fjPrim := func(ci ssa.CallInstruction) string {
		cc := ci.Common()
		if cc.IsInvoke() || cc.StaticCallee() != nil {
			return ""
		}
		if strings.HasPrefix(an.TypeName(cc.Value.Type()), c19FJ+".Work[") || strings.HasPrefix(an.TypeName(an.Unwrap(cc.Value).Type()), c19FJ+".Work[") {
			return "call of the forkjoin work function"
		}
		return ""
	}
	report := func(sk []c19n4Sink, minPrim int, pkgName string) {
		if len(sk) < minPrim {
			c.Bail("only %d context hand-over sites found in %s (expected at least %d)", len(sk), pkgName, minPrim)
		}
		for _, s := range sk {
			res := &c19n4Res{}
			l.frames = 0
			l.trace(s.ctx, map[*ssa.Parameter]c19n4Bound{}, 0, map[ssa.Value]bool{}, res)
			name := "context of " + s.what + " derives from the caller's"
			if fn := s.call.Parent(); fn != nil {
				name = an.FuncName(c19n4Top(an.Orig(fn))) + ": " + name
			}
			switch {
			case len(res.detached) > 0:
				c.Bad(name, s.call.Pos(), "the context handed to the "+s.what+" can be "+strings.Join(c19n4Uniq(res.detached), " / ")+
					": the node requests are detached from the caller's context, so cancelling it (or its deadline) no longer ends requests to hung nodes and the call does not return promptly")
			case len(res.unknown) > 0:
				c.Unsure(name, s.call.Pos(), "the origin of the context is not followed: "+strings.Join(c19n4Uniq(res.unknown), "; "))
			case res.roots == 0:
				c.Unsure(name, s.call.Pos(), "the context is not followed to a context parameter")
			default:
				c.Good(name, s.call.Pos(), "")
			}
		}
	}
	report(l.sinks(wrap, wrapPrim), 40, c19Pkg)
	report(l.sinks(fj, fjPrim), 1, c19FJ)
}

func c19n4Uniq(in []string) []string {
	seen := map[string]bool{}
	var out []string
	for _, s := range in {
		if !seen[s] {
			seen[s] = true
			out = append(out, s)
		}
	}
	sort.Strings(out)
	return out
}
