package rules

import (
	"fmt"
	"go/constant"
	"go/token"
	"go/types"
	"os"
	"sort"
	"strings"
	"time"

	"golang.org/x/tools/go/ssa"

	"charonverif/internal/an"
	"charonverif/internal/rt"
)

func init() {
	Register(&Prop{
		ID: "C10",
		Decides: "(H1) on every path to an insertion into a core.ParSignedDataSet in core/validatorapi (helpers and closures followed through the static call chain) a Component.verifyPartialSig on the same key and the same (or identically constructed) value has succeeded, and every set handed to c.subs is made inside the component for this request; " +
			"(H2) verifyPartialSig returns nil only through core.VerifyEth2SignedData against getVerifyShareFunc(pubkey) or under insecureTest, insecureTest is set only by NewComponentInsecure which has no non-test caller, the inner selection-proof verifications are skipped only under insecureTest; " +
			"(H3) on every path of parsigex.ParSigEx.handle to the subscriber fan-out the duty was accepted by gaterFunc and verifyFunc succeeded on every element of the decoded set that the subscribers receive; " +
			"(H4) NewEth2Verifier rejects unknown pubkey / share index and verifies against pubSharesByKey[pubkey][data.ShareIdx]; " +
			"(H5) SubmitProposal/SubmitBlindedProposal admit a block only after propDataMatchesDuty succeeded against the agreed proposal, which returns nil only on paths on which the hash tree roots of the same-fork payloads of both sides were found equal, for every proposal version; " +
			"(H6) production wiring: the parsigex verifier, the duty gater and the validator API share table all come from the lock's 1-indexed public shares. " +
			"All of H1..H6 are decided by path-sensitive fact propagation over SSA (c10sym.go), not by block shapes.",
		NotDecided: "what 'verifies' means cryptographically (BLS, domains, signing roots: C08/C09), and that the beacon-node answers used for key lookup are right.",
		Run:        c10,
		Mutants:    c10Mutants,
	})
}

const (
	c10Vapi     = "core/validatorapi"
	c10Comp     = "core/validatorapi.Component"
	c10VerifyPS = "core/validatorapi.Component.verifyPartialSig"
	c10VerifyE2 = "core.VerifyEth2SignedData"
	c10SetType  = "core.ParSignedDataSet"
	c10PSDType  = "core.ParSignedData"
	c10PubKeyT  = "core.PubKey"
	c10PSX      = "core/parsigex.ParSigEx"
	c10VapiFile = "core/validatorapi/validatorapi.go"
	c10PSXFile  = "core/parsigex/parsigex.go"
)

// c10Inner: partial-signature constructors whose payload carries an inner selection proof, and the
// verifier that must have accepted that proof (unless insecureTest) before the value is stored.
var c10Inner = map[string]string{
	"core.NewPartialVersionedSignedAggregateAndProof": "eth2util/signing.VerifyAggregateAndProofSelection",
	"core.NewPartialSignedSyncContributionAndProof":   c10VerifyE2,
}

func c10(c *rt.Ctx) {
	timed := func(id string, min int, body func()) {
		start := time.Now()
		c.Rule(id, min, body)
		c10Debug("rule %s took %v", id, time.Since(start))
	}
	timed("H1", 20, func() { c10H1(c) })
	timed("H2", 9, func() { c10H2(c) })
	timed("H3", 3, func() { c10H3(c) })
	timed("H4", 5, func() { c10H4(c) })
	timed("H5", 20, func() { c10H5(c) })
	timed("H6", 5, func() { c10H6(c) })
}

// ---------------------------------------------------------------------------------------------
// generic helpers (all prefixed c10)

func c10IsSet(t types.Type) bool { return an.TypeName(t) == c10SetType }

// c10Field bails unless struct type pkg.typ has a field named name; returns its FieldKey.
func c10Field(c *rt.Ctx, pkgRel, typ, name string) string {
	obj := c.Pkg(pkgRel).Types.Scope().Lookup(typ)
	if obj == nil {
		c.Bail("type %s.%s not found", pkgRel, typ)
	}
	st, ok := obj.Type().Underlying().(*types.Struct)
	if !ok {
		c.Bail("%s.%s is not a struct", pkgRel, typ)
	}
	for i := 0; i < st.NumFields(); i++ {
		if st.Field(i).Name() == name {
			return an.FieldKey(obj.Type(), i)
		}
	}
	c.Bail("field %s.%s.%s not found", pkgRel, typ, name)
	return ""
}

// c10ArgOfType returns the unique call argument whose type has the given short name.
func c10ArgOfType(call ssa.CallInstruction, short string) ssa.Value {
	var out ssa.Value
	for _, a := range call.Common().Args {
		if an.TypeName(a.Type()) == short {
			if _, isPtr := a.Type().(*types.Pointer); isPtr {
				continue
			}
			if out != nil {
				return nil
			}
			out = a
		}
	}
	return out
}

// c10ParamOfType returns the unique parameter of fn with the given short type name.
func c10ParamOfType(fn *ssa.Function, short string) *ssa.Parameter {
	var out *ssa.Parameter
	for _, p := range fn.Params {
		if an.TypeName(p.Type()) == short {
			if _, isPtr := p.Type().(*types.Pointer); isPtr {
				continue
			}
			if out != nil {
				return nil
			}
			out = p
		}
	}
	return out
}

// c10Immutable: the local is written exactly once as a whole and never through a field/element
// address, and its address does not escape into a call. Closures may capture it as long as they
// only read it.
func c10Immutable(a *ssa.Alloc) bool {
	n, ok := c10CellWrites(a)
	return ok && n == 1
}

// c10CellWrites counts the whole-value stores into the local; ok is false if it is written through a
// field/element address or its address escapes (other than into closures that only read it).
func c10CellWrites(a *ssa.Alloc) (stores int, ok bool) {
	var use func(v ssa.Value, root bool, d int) bool
	use = func(v ssa.Value, root bool, d int) bool {
		refs := v.Referrers()
		if refs == nil || d > 6 {
			return false
		}
		for _, ref := range *refs {
			switch x := ref.(type) {
			case *ssa.Store:
				if x.Addr != v {
					return false // the address itself is stored somewhere
				}
				if !root {
					return false
				}
				stores++
			case *ssa.UnOp:
				if x.Op != token.MUL {
					return false
				}
			case *ssa.FieldAddr:
				if !use(x, false, d+1) {
					return false
				}
			case *ssa.IndexAddr:
				if !use(x, false, d+1) {
					return false
				}
			case *ssa.Slice, *ssa.DebugRef:
				// a slice of an array local only reads here (passed to pure converters)
			case *ssa.MakeClosure:
				fn, isFn := x.Fn.(*ssa.Function)
				if !isFn {
					return false
				}
				for i, b := range x.Bindings {
					if b != v {
						continue
					}
					if i >= len(fn.FreeVars) || !use(fn.FreeVars[i], root, d+1) {
						return false
					}
				}
			default:
				return false
			}
		}
		return true
	}
	ok = use(a, true, 0)
	return stores, ok
}

// c10NonNil: v cannot be nil where it is returned: built by errors.New/Wrap, or returned on the
// `v != nil` edge of a branch.
func c10NonNilAt(v ssa.Value, at ssa.Instruction) bool {
	if call, ok := v.(*ssa.Call); ok {
		if an.Static("app/errors.New", "app/errors.Wrap")(&call.Call) {
			return true
		}
	}
	if k, ok := v.(*ssa.Const); ok && k.Value == nil {
		return false
	}
	for _, cd := range an.CondsOn(at.Parent(), v) {
		if cd.Other == nil || !an.IsNilConst(cd.Other) {
			continue
		}
		var nn *ssa.BasicBlock
		switch cd.Op {
		case token.NEQ:
			nn = cd.Succ(true)
		case token.EQL:
			nn = cd.Succ(false)
		default:
			continue
		}
		if nn.Dominates(at.Block()) && len(nn.Preds) == 1 {
			return true
		}
	}
	return false
}

func c10IsNilConst(v ssa.Value) bool {
	k, ok := v.(*ssa.Const)
	return ok && k.Value == nil
}

// ---------------------------------------------------------------------------------------------
// sites: instructions seen from an entry point through static in-package calls

// c10At is an instruction together with the static call chain (innermost call first) through which
// its function was entered from the entry point under analysis.
type c10At struct {
	in ssa.Instruction
	ch c10Chain
}

// level k of a site: 0 is the function of the instruction itself, k>0 the k-th caller. Returns the
// function, the instruction that stands for the site there, and the chain above it.
func (a c10At) level(k int) (*ssa.Function, ssa.Instruction, c10Chain) {
	if k == 0 {
		return a.in.Parent(), a.in, a.ch
	}
	return a.ch[k-1].Parent(), a.ch[k-1], a.ch[k:]
}

// async: the site is reached through a go or defer statement (its order relative to the guards of
// the callers is not the program order).
func (a c10At) async() bool {
	for _, call := range a.ch {
		switch call.(type) {
		case *ssa.Go, *ssa.Defer:
			return true
		}
	}
	return false
}

// c10Down lists the instructions satisfying match in entry and in every in-package function reachable
// from it through static calls (helpers, directly called closures).
func c10Down(entry *ssa.Function, match func(ssa.Instruction) bool) []c10At {
	return c10DownCh(entry, func(in ssa.Instruction, _ c10Chain) bool { return match(in) })
}

// c10DownCh is c10Down with a matcher that also sees the call chain of the instruction.
func c10DownCh(entry *ssa.Function, match func(ssa.Instruction, c10Chain) bool) []c10At {
	var out []c10At
	onStack := map[*ssa.Function]bool{entry: true}
	var walk func(fn *ssa.Function, ch c10Chain)
	walk = func(fn *ssa.Function, ch c10Chain) {
		for _, in := range an.Instrs(fn, false) {
			if match(in, ch) {
				out = append(out, c10At{in, ch})
			}
			call, ok := in.(ssa.CallInstruction)
			if !ok {
				continue
			}
			f := c10Callee(call)
			if f == nil || !c10SamePkg(f, entry) || onStack[f] || len(ch) >= 4 {
				continue
			}
			onStack[f] = true
			walk(f, ch.push(call))
			delete(onStack, f)
		}
	}
	walk(entry, nil)
	return out
}

// c10Entries lists the functions of pkg that can be entered from outside the static in-package call
// graph: exported functions and methods, functions without a static in-package caller (handlers
// registered as method values, interface implementations) and functions used as values.
func c10Entries(pkg *ssa.Package) []*ssa.Function {
	fns := an.PkgFuncs(pkg)
	called, escapes := map[*ssa.Function]bool{}, map[*ssa.Function]bool{}
	for _, g := range fns {
		for _, in := range an.Instrs(g, false) {
			if mc, ok := in.(*ssa.MakeClosure); ok {
				f, _ := mc.Fn.(*ssa.Function)
				for _, ref := range *mc.Referrers() {
					switch r := ref.(type) {
					case *ssa.DebugRef:
					case ssa.CallInstruction:
						if r.Common().Value != ssa.Value(mc) {
							escapes[an.Orig(f)] = true
						}
					default:
						escapes[an.Orig(f)] = true
					}
				}
				continue
			}
			var calleeV ssa.Value
			if call, ok := in.(ssa.CallInstruction); ok {
				if f := c10Callee(call); f != nil {
					called[f] = true
				}
				calleeV = call.Common().Value
			}
			for _, op := range an.Operands(in) {
				if f, ok := op.(*ssa.Function); ok && op != calleeV {
					escapes[an.Orig(f)] = true
				}
			}
		}
	}
	var out []*ssa.Function
	for _, f := range fns {
		exported := f.Parent() == nil && f.Object() != nil && f.Object().Exported()
		if exported || !called[f] || escapes[f] {
			out = append(out, f)
		}
	}
	return out
}

// c10Slim makes the walker record only the facts about its tracked calls (and the insecureTest flag):
// used as a second attempt when a function has too many distinct paths.
func c10Slim(w *c10W) bool {
	if w.keep != nil || w.tracked == nil {
		return false
	}
	tracked := w.tracked
	w.keep = func(t *c10T) bool {
		return t.op == "forall" || t.op == "forall?" || c10Mentions(t, func(u *c10T) bool { return tracked(u) || u.is("fld", "insecureTest") })
	}
	w.overflow, w.states, w.seen = false, 0, nil
	return true
}

// c10SuccessStates returns the path states of the returns of w.fn whose status (last result: error
// nil / bool true) may be success, with that success assumed.
func c10SuccessStates(w *c10W) (states []*c10State, rets []*ssa.Return) {
	w.visit = func(in ssa.Instruction, st *c10State) bool {
		r, ok := in.(*ssa.Return)
		if !ok {
			return false
		}
		rv := returnValues(r)
		if len(rv) == 0 {
			return true
		}
		status := rv[len(rv)-1]
		isErr := an.IsErrorType(status.Type())
		a := w.cx(st).eval(status)
		if isErr && a == c10NonNil || !isErr && a == c10False {
			return true
		}
		st = st.clone()
		if isErr {
			w.cx(st).setNil(status, true)
		} else if b, ok := status.Type().Underlying().(*types.Basic); ok && b.Kind() == types.Bool {
			w.cx(st).assume(status, true)
		}
		states = append(states, st)
		rets = append(rets, r)
		return true
	}
	w.run(c10NewState())
	if w.overflow && c10Slim(w) {
		return c10SuccessStates(w)
	}
	return
}

// c10StatesAtSite returns the path states in which the site executes, seen from the entry point of its
// call chain: the outermost function is explored from its entry to the call that leads towards the
// site, the callee is explored from its entry with the facts known at that call, and so on down to the
// instruction itself. The states therefore carry the facts established on every level of the chain
// (a guard in the caller, in the helper, or split between them). mk creates the walker of one level.
func c10StatesAtSite(mk func(fn *ssa.Function, ch c10Chain) *c10W, site c10At) (states []*c10State, w *c10W, overflow bool) {
	cur := []*c10State{c10NewState()}
	for k := len(site.ch); k >= 0; k-- {
		fn, sink, ch := site.level(k)
		w = mk(fn, ch)
		for attempt := 0; attempt < 2; attempt++ {
			var next []*c10State
			seen := map[string]bool{}
			w.visit = func(in ssa.Instruction, st *c10State) bool {
				if in == sink {
					fp := st.fingerprint()
					if !seen[fp] {
						seen[fp] = true
						next = append(next, st.clone())
					}
				}
				return false
			}
			for _, st := range cur {
				w.run(st.clone())
			}
			if w.overflow && c10Slim(w) {
				continue
			}
			cur = next
			break
		}
		if w.overflow {
			return nil, w, true
		}
		if len(cur) == 0 {
			return nil, w, false
		}
	}
	return cur, w, false
}

// c10SuccessFacts lists the facts of st that say a call named name succeeded (error nil / result true).
func c10SuccessFacts(st *c10State, name string) []*c10T {
	var keys []string
	for k := range st.facts {
		keys = append(keys, k)
	}
	sort.Strings(keys)
	var out []*c10T
	for _, k := range keys {
		f := st.facts[k]
		if f.a != c10Nil && f.a != c10True {
			continue
		}
		t := f.t
		if t.is("ext") && len(t.args) == 1 {
			t = t.args[0]
		}
		if (t.op == "call" || t.op == "dyn" || t.op == "invoke") && c10CallName(t) == name {
			out = append(out, t)
		}
	}
	return out
}

// c10AnyFacts lists the call terms named name about which st knows anything (success or failure).
func c10AnyFacts(st *c10State, name string) (out []c10Fact) {
	for _, f := range st.facts {
		t := f.t
		if t.is("ext") && len(t.args) == 1 {
			t = t.args[0]
		}
		if (t.op == "call" || t.op == "dyn" || t.op == "invoke") && c10CallName(t) == name {
			out = append(out, c10Fact{t, f.a})
		}
	}
	return
}

// c10ParamIdx returns the index of the unique parameter of the signature with the given short type
// name, counting the receiver of a method as index 0 (the layout of static call arguments).
func c10ParamIdx(sig *types.Signature, short string, static bool) int {
	off := 0
	if static && sig.Recv() != nil {
		off = 1
	}
	idx := -1
	for i := 0; i < sig.Params().Len(); i++ {
		t := sig.Params().At(i).Type()
		if _, isPtr := t.(*types.Pointer); isPtr {
			continue
		}
		if an.TypeName(t) == short {
			if idx >= 0 {
				return -1
			}
			idx = i + off
		}
	}
	return idx
}

// c10InsecureBase: the analysis of the verification paths assumes insecureTest is false.
func c10InsecureBase(t *c10T) c10Abs {
	if t.is("fld", "insecureTest") {
		return c10False
	}
	return c10U
}

func c10Named(names ...string) func(*c10T) bool {
	return func(t *c10T) bool {
		if t.op != "call" && t.op != "dyn" && t.op != "invoke" {
			return false
		}
		n := c10CallName(t)
		for _, w := range names {
			if n == w {
				return true
			}
		}
		return false
	}
}

func c10Debug(format string, a ...any) {
	if os.Getenv("C10DEBUG") != "" {
		fmt.Fprintf(os.Stderr, "C10DEBUG "+format+"\n", a...)
	}
}

func c10DebugState(st *c10State) {
	if os.Getenv("C10DEBUG") == "" {
		return
	}
	var keys []string
	for k, f := range st.facts {
		keys = append(keys, "    "+k+" = "+f.a.String())
	}
	sort.Strings(keys)
	fmt.Fprintf(os.Stderr, "  taint=%v\n%s\n", st.taint, strings.Join(keys, "\n"))
}

// verdict of one obligation
type c10Verdict struct {
	ok, unsure bool
	why        string
	pos        token.Pos
}

func (v c10Verdict) report(c *rt.Ctx, construct string, pos token.Pos) {
	switch {
	case v.ok:
		c.Good(construct, pos, "")
	case v.unsure:
		c.Unsure(construct, pos, v.why)
	default:
		c.Bad(construct, pos, v.why)
	}
}

// ---------------------------------------------------------------------------------------------
// H1

// c10Origin decides where a ParSignedDataSet comes from: a set handed to the subscribers (or
// inserted into) must have been made inside the component, so that every entry went through one of the
// checked insertions. Sets may travel through helper parameters, helper results and local maps of sets.
type c10Origin struct {
	subsKey string
	seen    map[string]bool
}

func (o *c10Origin) mark(v ssa.Value, ch c10Chain, kind string) bool {
	k := fmt.Sprintf("%s%p%s", kind, v, ch.id())
	if o.seen[k] {
		return true
	}
	o.seen[k] = true
	return false
}

func (o *c10Origin) isSubs(cc *ssa.CallCommon) bool {
	if cc.StaticCallee() != nil || cc.IsInvoke() {
		return false
	}
	k, _, ok := an.FieldOf(cc.Value)
	return ok && k == o.subsKey
}

// stores lists the values stored into a local variable.
func c10Stores(a *ssa.Alloc) []ssa.Value {
	var out []ssa.Value
	for _, ref := range *a.Referrers() {
		if st, ok := ref.(*ssa.Store); ok && st.Addr == ssa.Value(a) {
			out = append(out, st.Val)
		}
	}
	return out
}

func (o *c10Origin) viaParam(p *ssa.Parameter, ch c10Chain, next func(ssa.Value, c10Chain) (bool, bool, string)) (bool, bool, string) {
	fn := p.Parent()
	if len(ch) > 0 && c10Callee(ch[0]) == an.Orig(fn) {
		for i, q := range fn.Params {
			if q == p && i < len(ch[0].Common().Args) {
				return next(ch[0].Common().Args[i], ch[1:])
			}
		}
	}
	if fn.Parent() == nil && fn.Object() != nil && fn.Object().Exported() {
		return false, false, "set is a parameter of an exported function"
	}
	return false, true, "set is a parameter of " + an.FuncName(fn) + ", which is entered from outside the static call graph"
}

func (o *c10Origin) viaResults(call *ssa.Call, idx int, ch c10Chain, next func(ssa.Value, c10Chain) (bool, bool, string)) (bool, bool, string) {
	if g := call.Call.StaticCallee(); g != nil && an.FuncName(g) == "maps.Clone" && len(call.Call.Args) == 1 {
		return next(call.Call.Args[0], ch) // a copy has the entries of the original
	}
	f := c10Callee(call)
	if f == nil || !c10SamePkg(f, call.Parent()) || len(ch) >= 4 || ch.has(f) {
		return false, true, "set is produced by " + an.CalleeName(&call.Call)
	}
	n := 0
	for _, r := range an.Returns(f) {
		rv := returnValues(r)
		if idx >= len(rv) {
			continue
		}
		if k, isC := rv[idx].(*ssa.Const); isC && k.Value == nil {
			continue // nil set of an error return
		}
		n++
		if ok, u, why := next(rv[idx], ch.push(call)); !ok {
			return false, u, why
		}
	}
	if n == 0 {
		return false, true, "set is produced by " + an.CalleeName(&call.Call) + " which never returns one"
	}
	return true, false, ""
}

// set: v is a ParSignedDataSet made inside the component.
func (o *c10Origin) set(v ssa.Value, ch c10Chain) (ok bool, unsure bool, why string) {
	v = an.Unwrap(v)
	if o.mark(v, ch, "s") {
		return true, false, ""
	}
	switch x := v.(type) {
	case *ssa.MakeMap:
		if !c10IsSet(x.Type()) {
			return false, false, "set is made with another type"
		}
		return o.escapes(x, x.Referrers(), ch)
	case *ssa.Phi:
		for _, e := range x.Edges {
			if ok, u, why := o.set(e, ch); !ok {
				return false, u, why
			}
		}
		return true, false, ""
	case *ssa.Lookup:
		return o.mapOfSets(x.X, ch)
	case *ssa.Extract:
		switch t := x.Tuple.(type) {
		case *ssa.Lookup:
			if x.Index == 0 {
				return o.mapOfSets(t.X, ch)
			}
		case *ssa.Next:
			if rg, isR := t.Iter.(*ssa.Range); isR && x.Index == 2 {
				return o.mapOfSets(rg.X, ch)
			}
		case *ssa.Call:
			return o.viaResults(t, x.Index, ch, o.set)
		}
	case *ssa.Call:
		return o.viaResults(x, 0, ch, o.set)
	case *ssa.Parameter:
		return o.viaParam(x, ch, o.set)
	case *ssa.UnOp:
		if x.Op == token.MUL {
			if al, isAl := x.X.(*ssa.Alloc); isAl {
				vals := c10Stores(al)
				for _, s := range vals {
					if k, isC := s.(*ssa.Const); isC && k.Value == nil {
						continue
					}
					if ok, u, why := o.set(s, ch); !ok {
						return false, u, why
					}
				}
				if len(vals) > 0 {
					return true, false, ""
				}
			}
		}
	case *ssa.Const:
		if x.Value == nil {
			return true, false, "" // the nil set has no entries
		}
	}
	if handled, ok, u, why := o.requestField(v, false); handled {
		return ok, u, why
	}
	if _, _, fromField := an.FieldOf(v); fromField {
		return false, false, "set is read from component state, not built for this request"
	}
	return false, true, fmt.Sprintf("origin of the set is not followed (%T)", v)
}

// escapes checks the uses of a set (a made map, or a helper parameter holding one): reading,
// inserting (every insertion is checked on its own), handing to the subscribers, passing on to
// in-package helpers that do the same.
func (o *c10Origin) escapes(self ssa.Value, refs *[]ssa.Instruction, ch c10Chain) (bool, bool, string) {
	if refs == nil {
		return true, false, ""
	}
	for _, ref := range *refs {
		switch r := ref.(type) {
		case *ssa.MapUpdate:
			if r.Value == self && r.Map != self {
				if ok, u, why := o.mapOfSets(r.Map, ch); !ok {
					return false, u, why
				}
			}
		case *ssa.Lookup, *ssa.Range, *ssa.Phi, *ssa.DebugRef, *ssa.Return, *ssa.MakeInterface, *ssa.ChangeType:
		case *ssa.Store:
			if r.Val == self {
				if _, isAl := r.Addr.(*ssa.Alloc); !isAl && !o.storedInRequestField(r) {
					return false, true, "set is stored outside the function"
				}
			}
		case ssa.CallInstruction:
			cc := r.Common()
			if b, isB := cc.Value.(*ssa.Builtin); isB && (b.Name() == "len" || b.Name() == "delete") {
				continue
			}
			if o.isSubs(cc) {
				continue
			}
			if ok, u, why := o.passed(r, self, ch, false); !ok {
				return false, u, why
			}
		default:
			return false, true, fmt.Sprintf("set escapes through %T", ref)
		}
	}
	return true, false, ""
}

// c10ReadOnlyCallee: library functions that only read the maps they are given.
func c10ReadOnlyCallee(cc *ssa.CallCommon) bool {
	f := cc.StaticCallee()
	if f == nil {
		return false
	}
	switch n := an.FuncName(f); {
	case n == "maps.Keys", n == "maps.Values", n == "maps.All", n == "maps.Clone", n == "maps.Equal", n == "maps.EqualFunc":
		return true
	case strings.HasPrefix(n, "fmt."), strings.HasPrefix(n, "app/z."), strings.HasPrefix(n, "app/log."):
		return true
	}
	return false
}

// passed: self is an argument of a call to an in-package helper whose parameter is used harmlessly.
func (o *c10Origin) passed(call ssa.CallInstruction, self ssa.Value, ch c10Chain, isMapOfSets bool) (bool, bool, string) {
	if c10ReadOnlyCallee(call.Common()) {
		return true, false, ""
	}
	f := c10Callee(call)
	if f == nil || !c10SamePkg(f, call.Parent()) || len(ch) >= 4 {
		return false, true, "set is handed to " + an.CalleeName(call.Common()) + " which might add entries"
	}
	for i, a := range call.Common().Args {
		if a != self || i >= len(f.Params) {
			continue
		}
		p := f.Params[i]
		if o.mark(p, ch.push(call), "p") {
			continue
		}
		var ok, u bool
		var why string
		if isMapOfSets {
			ok, u, why = o.mapUses(p, p.Referrers(), ch.push(call))
		} else {
			ok, u, why = o.escapes(p, p.Referrers(), ch.push(call))
		}
		if !ok {
			return false, u, why
		}
	}
	return true, false, ""
}

// mapOfSets: m is a local map whose values are sets made inside the component.
func (o *c10Origin) mapOfSets(m ssa.Value, ch c10Chain) (bool, bool, string) {
	m = an.Unwrap(m)
	if o.mark(m, ch, "m") {
		return true, false, ""
	}
	switch x := m.(type) {
	case *ssa.MakeMap:
		mt, ok := x.Type().Underlying().(*types.Map)
		if !ok || !c10IsSet(mt.Elem()) {
			return false, false, "set is taken from a map with another element type"
		}
		return o.mapUses(x, x.Referrers(), ch)
	case *ssa.Parameter:
		return o.viaParam(x, ch, o.mapOfSets)
	case *ssa.Phi:
		for _, e := range x.Edges {
			if ok, u, why := o.mapOfSets(e, ch); !ok {
				return false, u, why
			}
		}
		return true, false, ""
	case *ssa.Call:
		return o.viaResults(x, 0, ch, o.mapOfSets)
	case *ssa.Extract:
		if call, ok := x.Tuple.(*ssa.Call); ok {
			return o.viaResults(call, x.Index, ch, o.mapOfSets)
		}
	case *ssa.UnOp:
		if al, isAl := x.X.(*ssa.Alloc); isAl && x.Op == token.MUL {
			vals := c10Stores(al)
			for _, s := range vals {
				if ok, u, why := o.mapOfSets(s, ch); !ok {
					return false, u, why
				}
			}
			if len(vals) > 0 {
				return true, false, ""
			}
		}
	}
	if handled, ok, u, why := o.requestField(m, true); handled {
		return ok, u, why
	}
	if _, _, fromField := an.FieldOf(m); fromField {
		return false, false, "set is taken from a map held in component state, not built for this request"
	}
	return false, true, fmt.Sprintf("origin of the map of sets is not followed (%T)", m)
}

func (o *c10Origin) mapUses(self ssa.Value, refs *[]ssa.Instruction, ch c10Chain) (bool, bool, string) {
	if refs == nil {
		return true, false, ""
	}
	for _, ref := range *refs {
		switch r := ref.(type) {
		case *ssa.MapUpdate:
			if r.Map != self {
				return false, true, "map of sets is stored elsewhere"
			}
			if ok, u, why := o.set(r.Value, ch); !ok {
				return false, u, why
			}
		case *ssa.Lookup, *ssa.Range, *ssa.DebugRef, *ssa.Phi, *ssa.Return:
		case *ssa.Store:
			if r.Val == self {
				if _, isAl := r.Addr.(*ssa.Alloc); !isAl && !o.storedInRequestField(r) {
					return false, true, "map of sets is stored outside the function"
				}
			}
		case ssa.CallInstruction:
			if b, isB := r.Common().Value.(*ssa.Builtin); isB && (b.Name() == "len" || b.Name() == "delete") {
				continue
			}
			if ok, u, why := o.passed(r, self, ch, true); !ok {
				if u {
					why = strings.Replace(why, "set is handed", "map of sets is handed", 1)
				}
				return false, u, why
			}
		default:
			return false, true, fmt.Sprintf("map of sets escapes through %T", ref)
		}
	}
	return true, false, ""
}

func c10IsSetUpdate(in ssa.Instruction) bool {
	mu, ok := in.(*ssa.MapUpdate)
	return ok && c10IsSet(mu.Map.Type())
}

// c10Vapi bundles the resolved anchors of the validator API rules.
type c10VapiCtx struct {
	c         *rt.Ctx
	pkg       *ssa.Package
	subsKey   string
	verify    *ssa.Function
	pkIdx     int // argument positions of verifyPartialSig (static call layout)
	valIdx    int
	sums      *c10Sums
	entries   []*ssa.Function
	inserts   map[*ssa.Function][]c10At
	subsCalls map[*ssa.Function][]c10At
}

func c10NewVapi(c *rt.Ctx) *c10VapiCtx {
	v := &c10VapiCtx{c: c, pkg: c.SSAPkg(c10Vapi), sums: c10NewSums()}
	v.subsKey = c10Field(c, c10Vapi, "Component", "subs")
	v.verify = c.Fn(c10VerifyPS)
	v.pkIdx = c10ParamIdx(v.verify.Signature, c10PubKeyT, true)
	v.valIdx = c10ParamIdx(v.verify.Signature, c10PSDType, true)
	if v.pkIdx < 0 || v.valIdx < 0 {
		c.Bail("verifyPartialSig: unexpected signature")
	}
	v.entries = c10Entries(v.pkg)
	v.inserts = map[*ssa.Function][]c10At{}
	v.subsCalls = map[*ssa.Function][]c10At{}
	isSubs := func(in ssa.Instruction) bool {
		call, ok := in.(ssa.CallInstruction)
		return ok && an.FieldCall(v.subsKey)(call.Common())
	}
	for _, e := range v.entries {
		if s := c10Down(e, c10IsSetUpdate); len(s) > 0 {
			v.inserts[e] = s
		}
		if s := c10Down(e, isSubs); len(s) > 0 {
			v.subsCalls[e] = s
		}
	}
	return v
}

// guardedInsert decides one insertion site: on every path to it a verifyPartialSig call on the key
// and the value being stored has succeeded. The decision is made at the innermost level of the call
// chain at which a verification is in reach; extracted helpers are followed in both directions.
func (v *c10VapiCtx) guardedInsert(site c10At) c10Verdict {
	mu := site.in.(*ssa.MapUpdate)
	if site.async() {
		return c10Verdict{unsure: true, why: "insertion runs in a go/defer statement: its order relative to the verification is not decided"}
	}
	isVerify := func(in ssa.Instruction) bool {
		call, ok := in.(ssa.CallInstruction)
		return ok && !call.Common().IsInvoke() && call.Common().StaticCallee() != nil && an.FuncName(call.Common().StaticCallee()) == c10VerifyPS
	}
	top, _, _ := site.level(len(site.ch))
	if len(c10Down(top, isVerify)) == 0 {
		return c10Verdict{why: "no call to verifyPartialSig on the way to this insertion"}
	}
	states, w, overflow := c10StatesAtSite(func(fn *ssa.Function, ch c10Chain) *c10W {
		return &c10W{fn: fn, ch: ch, base: c10InsecureBase, tracked: c10Named(c10VerifyPS), sums: v.sums, forall: map[string]bool{c10VerifyPS: true}}
	}, site)
	if overflow {
		return c10Verdict{unsure: true, why: "too many paths on the way to this insertion"}
	}
	if len(states) == 0 {
		return c10Verdict{unsure: true, why: "the insertion is not reachable from " + an.FuncName(top)}
	}
	sink := site.in
	res := c10Verdict{ok: true}
	for _, st := range states {
		cx := c10Cx{w: w, ch: site.ch, st: st}
		keyT, valT := cx.term(mu.Key), c10Unclone(cx.term(mu.Value))
		good, unsure, why := v.verifiedIn(st, keyT, valT)
		if good {
			continue
		}
		c10Debug("H1 %s: key=%s val=%s trail=%v", an.FuncName(top), keyT, valT, st.trail)
		c10DebugState(st)
		if len(c10AnyFacts(st, c10VerifyPS)) == 0 && len(site.ch) == 0 && v.verifiedBeforeHandOver(w, st, mu, keyT, valT) {
			continue
		}
		for _, f := range st.facts {
			if (f.t.op == "forall" || f.t.op == "forall?") && f.t.name == c10VerifyPS {
				why, unsure = "the values are verified in a loop of their own before this insertion: the correspondence of the elements is not followed", true
			}
		}
		if unsure && !st.taint {
			res = c10Verdict{unsure: true, why: why, pos: posOf(sink)}
			continue
		}
		for _, f := range c10AnyFacts(st, c10VerifyPS) {
			if f.a == c10NonNil && len(f.t.args) > v.valIdx && f.t.args[v.valIdx].s == valT.s {
				why = "verifyPartialSig: the failing status does not stop the insertion"
			}
		}
		if st.taint {
			res = c10Verdict{unsure: true, why: "verifyPartialSig: its status is tested in a way that is not understood", pos: posOf(sink)}
			continue
		}
		return c10Verdict{why: why, pos: posOf(sink)}
	}
	return res
}

// verifiedIn: the state knows of a successful verifyPartialSig on this key and value.
func (v *c10VapiCtx) verifiedIn(st *c10State, keyT, valT *c10T) (good, unsure bool, why string) {
	why = "a path reaches the insertion without a successful verifyPartialSig"
	for _, g := range c10SuccessFacts(st, c10VerifyPS) {
		if len(g.args) <= v.pkIdx || len(g.args) <= v.valIdx {
			continue
		}
		switch got := c10Unclone(g.args[v.valIdx]); {
		case g.args[v.pkIdx].s != keyT.s:
			why = "the public key that was verified is not the key the value is stored under"
			unsure = c10DiffUnsure(keyT, g.args[v.pkIdx], c10Vapi+".")
		case got.s != valT.s:
			why = "the value stored is neither the verified value nor an identical construction of it"
			unsure = c10DiffUnsure(valT, got, c10Vapi+".")
		default:
			return true, false, ""
		}
	}
	return false, unsure, why
}

// verifiedBeforeHandOver: the value is put into a local set before it is verified (e.g. a set literal
// built first); that is harmless as long as on every path from the insertion the set leaves the function
// (subscriber call, any other call, return, store) only after the verification of this key and value has
// succeeded.
func (v *c10VapiCtx) verifiedBeforeHandOver(w *c10W, st *c10State, mu *ssa.MapUpdate, keyT, valT *c10T) bool {
	mm, ok := an.Resolve(mu.Map).(*ssa.MakeMap)
	if !ok || mm.Parent() != mu.Parent() {
		return false
	}
	setT := c10Cx{w: w, ch: w.ch, st: st}.term(mm).s
	fw := &c10W{fn: w.fn, ch: w.ch, base: w.base, tracked: w.tracked, sums: w.sums}
	okAll, escapes := true, 0
	fw.visit = func(in ssa.Instruction, s2 *c10State) bool {
		if !okAll {
			return true
		}
		uses := false
		for _, op := range an.Operands(in) {
			if fw.cx(s2).term(op).s == setT {
				uses = true
			}
		}
		if !uses {
			return false
		}
		switch x := in.(type) {
		case *ssa.MapUpdate:
			if x.Map == mu.Map || fw.cx(s2).term(x.Map).s == setT {
				return false // further insertions are decided on their own
			}
		case *ssa.Lookup, *ssa.Range, *ssa.DebugRef, *ssa.Phi:
			return false
		case ssa.CallInstruction:
			if b, isB := x.Common().Value.(*ssa.Builtin); isB && b.Name() == "len" {
				return false
			}
		}
		escapes++
		if good, _, _ := v.verifiedIn(s2, keyT, valT); !good {
			okAll = false
		}
		return false
	}
	fw.runFrom(mu, st.clone())
	return okAll && !fw.overflow && escapes > 0
}

func c10H1(c *rt.Ctx) {
	v := c10NewVapi(c)
	for _, e := range v.entries {
		name := an.FuncName(e)
		// an unexported function that is only reachable as a value (or not at all) has callers the
		// static call graph does not show: a failure there is undecided, not a violation
		exported := e.Parent() == nil && e.Object() != nil && e.Object().Exported()
		for _, site := range v.inserts[e] {
			res := v.guardedInsert(site)
			if res.ok {
				o := &c10Origin{subsKey: v.subsKey, seen: map[string]bool{}}
				if ok, unsure, why := o.set(site.in.(*ssa.MapUpdate).Map, site.ch); !ok {
					res = c10Verdict{unsure: unsure, why: why}
				}
			}
			if !res.ok && !exported {
				res.unsure = true
				res.why += " (" + name + " is entered from outside the static call graph)"
			}
			res.report(c, name+" ParSignedDataSet[pk]=verified", posOf(site.in))
		}
		for _, site := range v.subsCalls[e] {
			call := site.in.(ssa.CallInstruction)
			set := c10ArgOfType(call, c10SetType)
			if set == nil {
				c.Bail("call through subs without a ParSignedDataSet argument in %s", an.FuncName(call.Parent()))
			}
			o := &c10Origin{subsKey: v.subsKey, seen: map[string]bool{}}
			ok, unsure, why := o.set(set, site.ch)
			c10Verdict{ok: ok, unsure: unsure, why: "set handed to the subscribers: " + why}.report(c, name+" subs(set)", call.Pos())
		}
	}
}

// ---------------------------------------------------------------------------------------------
// H2

func c10H2(c *rt.Ctx) {
	fn := c.Fn(c10VerifyPS)
	insecKey := c10Field(c, c10Vapi, "Component", "insecureTest")
	gvsKey := c10Field(c, c10Vapi, "Component", "getVerifyShareFunc")
	pkP, dataP := c10ParamOfType(fn, c10PubKeyT), c10ParamOfType(fn, c10PSDType)
	if pkP == nil || dataP == nil {
		c.Bail("verifyPartialSig: unexpected signature")
	}
	sums := c10NewSums()
	isVerif := func(in ssa.Instruction) bool {
		call, ok := in.(ssa.CallInstruction)
		return ok && an.Static(c10VerifyE2)(call.Common())
	}
	verifs := c10Down(fn, isVerif)
	if len(verifs) == 0 {
		c.Bail("no call to %s in %s", c10VerifyE2, an.FuncName(fn))
	}
	top := &c10W{fn: fn, sums: sums}
	pkT, dataT := top.cx(c10NewState()).term(pkP), top.cx(c10NewState()).term(dataP)
	wantData := c10mk("tassert", "core.Eth2SignedData", c10mk("fld", "SignedData", dataT))
	// (a) operands of the verification
	for _, site := range verifs {
		args := site.in.(ssa.CallInstruction).Common().Args
		if len(args) != 4 {
			c.Bail("VerifyEth2SignedData: unexpected arity")
		}
		states, w, _ := c10StatesAtSite(func(f *ssa.Function, ch c10Chain) *c10W {
			return &c10W{fn: f, ch: ch, base: c10InsecureBase, tracked: c10Named("field:" + gvsKey), sums: sums}
		}, site)
		share, data := c10Verdict{ok: true}, true
		if len(states) == 0 {
			share = c10Verdict{unsure: true, why: "the verification is not reachable"}
		}
		for _, st := range states {
			cx := c10Cx{w: w, ch: site.ch, st: st}
			t3 := cx.term(args[3])
			switch {
			case !(t3.is("ext", "0") && t3.args[0].op == "dyn" && c10CallName(t3.args[0]) == "field:"+gvsKey):
				share = c10Verdict{why: "public share is not the result of getVerifyShareFunc(pubkey)"}
			case len(t3.args[0].args) != 1 || !c10RootedAt(t3.args[0].args[0], pkT):
				share = c10Verdict{why: "getVerifyShareFunc is not asked for the pubkey parameter"}
			case cx.lookupFact(c10mk("ext", "1", t3.args[0])) != c10Nil:
				share = c10Verdict{why: "getVerifyShareFunc: a failing lookup does not stop the verification", unsure: st.taint}
			}
			if cx.term(args[2]).s != wantData.s {
				data = false
			}
		}
		share.report(c, "verifyPartialSig pubshare=getVerifyShareFunc(pubkey)", site.in.Pos())
		c.Check("verifyPartialSig data=parSig.SignedData", site.in.Pos(), data, "the object verified is not the SignedData of the parSig parameter")
	}
	// (b) nil is returned only through the verification or under insecureTest
	{
		w := &c10W{fn: fn, tracked: c10Named(c10VerifyE2), sums: sums}
		states, rets := c10SuccessStates(w)
		if w.overflow {
			c.Bail("too many paths in verifyPartialSig")
		}
		type agg struct {
			via, ins, bad, unsure bool
		}
		byRet := map[*ssa.Return]*agg{}
		var order []*ssa.Return
		for i, st := range states {
			a := byRet[rets[i]]
			if a == nil {
				a = &agg{}
				byRet[rets[i]] = a
				order = append(order, rets[i])
			}
			switch {
			case len(c10SuccessFacts(st, c10VerifyE2)) > 0:
				a.via = true
			case c10FieldFact(st, "insecureTest") == c10True:
				a.ins = true
			case st.taint:
				a.unsure = true
			default:
				a.bad = true
				c10Debug("H2 bad return state trail=%v", st.trail)
				c10DebugState(st)
			}
		}
		for _, r := range order {
			a := byRet[r]
			switch {
			case a.bad:
				c.Bad("verifyPartialSig return without verification", posOf(r), "verifyPartialSig can return a nil error without VerifyEth2SignedData having succeeded and without insecureTest")
			case a.unsure:
				c.Unsure("verifyPartialSig return without verification", posOf(r), "the status of VerifyEth2SignedData is tested in a way that is not understood")
			default:
				if a.via {
					c.Good("verifyPartialSig return via VerifyEth2SignedData", posOf(r), "")
				}
				if a.ins {
					c.Good("verifyPartialSig return without verification", posOf(r), "only under insecureTest")
				}
			}
		}
	}
	// (c) insecureTest is set only in NewComponentInsecure
	ctor := c.Fn(c10Vapi + ".NewComponentInsecure")
	stores := 0
	for _, f := range an.PkgFuncs(c.SSAPkg(c10Vapi)) {
		for _, in := range an.Instrs(f, false) {
			st, ok := in.(*ssa.Store)
			if !ok {
				continue
			}
			fa, ok := st.Addr.(*ssa.FieldAddr)
			if !ok || an.FieldKey(fa.X.Type(), fa.Field) != insecKey {
				continue
			}
			if k, ok := st.Val.(*ssa.Const); ok && k.Value != nil && !constant.BoolVal(k.Value) {
				continue // explicit false
			}
			stores++
			c.Check(an.FuncName(f)+" sets insecureTest", posOf(st), an.Orig(f) == ctor, "insecureTest is enabled outside NewComponentInsecure")
		}
	}
	if stores == 0 {
		c.Note("H2: insecureTest is never set")
	}
	// (d) NewComponentInsecure is test-only: *testing.T parameter and no reference from non-test code
	hasT := false
	for _, p := range ctor.Params {
		if an.TypeName(p.Type()) == "testing.T" {
			hasT = true
		}
	}
	c.Check("NewComponentInsecure takes *testing.T", ctor.Pos(), hasT, "test-only constructor lost its *testing.T marker parameter")
	var rels []string
	for path := range c.P.SSAPkgs {
		rels = append(rels, path)
	}
	sort.Strings(rels)
	refs := 0
	for _, path := range rels {
		for _, f := range an.PkgFuncs(c.P.SSAPkgs[path]) {
			for _, in := range an.Instrs(f, false) {
				for _, op := range an.Operands(in) {
					if g, ok := op.(*ssa.Function); ok && an.Orig(g) == ctor {
						refs++
						c.Bad("NewComponentInsecure referenced from "+an.FuncName(f), posOf(in), "the verification-free validator API constructor is used by non-test code")
					}
				}
			}
		}
	}
	if refs == 0 {
		c.Good("NewComponentInsecure has no non-test caller", ctor.Pos(), fmt.Sprintf("%d packages scanned", len(rels)))
	}
	// (e) inner selection proofs
	v := c10NewVapi(c)
	for _, e := range v.entries {
		for _, site := range v.inserts[e] {
			if res, applies := v.innerProof(site); applies {
				res.report(c, an.FuncName(e)+" inner selection proof verified", posOf(site.in))
			}
		}
	}
}

// c10FieldFact: what the path knows about (any read of) the named field.
func c10FieldFact(st *c10State, field string) c10Abs {
	res := c10U
	for _, f := range st.facts {
		if f.t.is("fld", field) {
			if res != c10U && res != f.a {
				return c10U
			}
			res = f.a
		}
	}
	return res
}

// innerProof: the value inserted is built by a constructor whose payload carries an inner selection
// proof; unless insecureTest, the matching verifier has accepted the proof of that very payload under
// the full public key of the validator the value is stored for.
func (v *c10VapiCtx) innerProof(site c10At) (c10Verdict, bool) {
	mu := site.in.(*ssa.MapUpdate)
	probe := &c10W{fn: site.in.Parent(), ch: site.ch, sums: v.sums}
	valT := c10Cx{w: probe, ch: site.ch, st: c10NewState()}.term(mu.Value)
	ctorOf := func(t *c10T) (*c10T, string) {
		if t.is("ext", "0") {
			t = t.args[0]
		}
		if t.op != "call" {
			return nil, ""
		}
		want, ok := c10Inner[c10CallName(t)]
		if !ok {
			return nil, ""
		}
		return t, want
	}
	if ct, _ := ctorOf(valT); ct == nil {
		return c10Verdict{}, false
	}
	if site.async() {
		return c10Verdict{unsure: true, why: "insertion runs in a go/defer statement"}, true
	}
	_, want := ctorOf(valT)
	top, _, _ := site.level(len(site.ch))
	isWant := func(in ssa.Instruction) bool {
		call, ok := in.(ssa.CallInstruction)
		return ok && an.Static(want)(call.Common())
	}
	if len(c10Down(top, isWant)) == 0 {
		return c10Verdict{why: "no call to " + want + " on the way to this insertion"}, true
	}
	states, w, overflow := c10StatesAtSite(func(fn *ssa.Function, ch c10Chain) *c10W {
		return &c10W{fn: fn, ch: ch, base: c10InsecureBase, tracked: c10Named(want), sums: v.sums}
	}, site)
	if overflow {
		return c10Verdict{unsure: true, why: "too many paths on the way to this insertion"}, true
	}
	if len(states) == 0 {
		return c10Verdict{unsure: true, why: "the insertion is not reachable from " + an.FuncName(top)}, true
	}
	res := c10Verdict{ok: true}
	for _, st := range states {
		cx := c10Cx{w: w, ch: site.ch, st: st}
		ct, _ := ctorOf(cx.term(mu.Value))
		keyT := cx.term(mu.Key)
		if ct == nil || len(ct.args) == 0 {
			res = c10Verdict{unsure: true, why: "constructor of the stored value not resolved on every path"}
			continue
		}
		payload := ct.args[0]
		good, unsure := false, false
		why := "a path that is not conditional on insecureTest reaches the insertion without the inner selection proof having been verified"
		for _, g := range c10SuccessFacts(st, want) {
			okData, okKey := false, false
			for _, a := range g.args {
				if a.s == payload.s {
					okData = true
				}
				if a.op == "call" && strings.HasPrefix(c10CallName(a), "core.New") && len(a.args) == 1 && c10RootedAt(a.args[0], payload) {
					okData = true
				}
				expect := c10mk("ext", "0", c10mk("call", "core.PubKeyFromBytes", c10mk("slice", "", a)))
				if expect.s == keyT.s {
					okKey = true
				}
			}
			switch {
			case !okData:
				why = "inner proof is verified on another object than the one stored"
			case !okKey:
				why = "inner proof is verified under another validator's public key than the one the value is stored for"
				unsure = c10LeafUnsure(keyT, c10Vapi+".")
			default:
				good = true
			}
		}
		if good {
			continue
		}
		if st.taint || unsure {
			res = c10Verdict{unsure: true, why: why}
			continue
		}
		return c10Verdict{why: why}, true
	}
	return res, true
}

// ---------------------------------------------------------------------------------------------
// H3

func c10H3(c *rt.Ctx) {
	fn := c.Fn("core/parsigex.ParSigEx.handle")
	subsKey := c10Field(c, "core/parsigex", "ParSigEx", "subs")
	gaterKey := c10Field(c, "core/parsigex", "ParSigEx", "gaterFunc")
	verifyKey := c10Field(c, "core/parsigex", "ParSigEx", "verifyFunc")
	// argument layout of verifyFunc, from the type of the field
	var vsig *types.Signature
	if obj := c.Pkg("core/parsigex").Types.Scope().Lookup("ParSigEx"); obj != nil {
		if st, ok := obj.Type().Underlying().(*types.Struct); ok {
			for i := 0; i < st.NumFields(); i++ {
				if st.Field(i).Name() == "verifyFunc" {
					vsig, _ = st.Field(i).Type().Underlying().(*types.Signature)
				}
			}
		}
	}
	if vsig == nil {
		c.Bail("ParSigEx.verifyFunc is not a function field")
	}
	pkIdx, dataIdx, dutyIdx := c10ParamIdx(vsig, c10PubKeyT, false), c10ParamIdx(vsig, c10PSDType, false), c10ParamIdx(vsig, "core.Duty", false)
	if pkIdx < 0 || dataIdx < 0 || dutyIdx < 0 {
		c.Bail("ParSigEx.verifyFunc: unexpected signature")
	}
	isSubs := func(in ssa.Instruction) bool {
		call, ok := in.(ssa.CallInstruction)
		return ok && an.FieldCall(subsKey)(call.Common())
	}
	isSubsCh := func(in ssa.Instruction, ch c10Chain) bool { return isSubs(in) || c10FieldCallAt(subsKey, in, ch) }
	sinks := c10DownCh(fn, isSubsCh)
	if len(sinks) == 0 {
		c.Bail("no call through ParSigEx.subs in (or below) handle")
	}
	// every other entry point of the package that reaches the subscribers is held to the same standard
	for _, e := range c10Entries(c.SSAPkg("core/parsigex")) {
		if e != fn {
			sinks = append(sinks, c10DownCh(e, isSubsCh)...)
		}
	}
	sums := c10NewSums()
	for _, site := range sinks {
		call := site.in.(ssa.CallInstruction)
		set := c10ArgOfType(call, c10SetType)
		duty := c10ArgOfType(call, "core.Duty")
		if set == nil || duty == nil {
			c.Bail("subscriber call with unexpected arguments")
		}
		top, _, _ := site.level(len(site.ch))
		label := "handle"
		if top != fn {
			label = an.FuncName(top)
		}
		gate, forall, decoded := c10Verdict{ok: true}, c10Verdict{ok: true}, c10Verdict{ok: true}
		if site.async() {
			u := c10Verdict{unsure: true, why: "subscriber fan-out runs in a go/defer statement: its order relative to the checks is not decided"}
			gate, forall, decoded = u, u, u
		} else {
			states, w, overflow := c10StatesAtSite(func(fn *ssa.Function, ch c10Chain) *c10W {
				return &c10W{fn: fn, ch: ch, tracked: c10Named("field:"+gaterKey, "field:"+verifyKey, "core.ParSignedDataSetFromProto"),
					forall: map[string]bool{"field:" + verifyKey: true}, sums: sums}
			}, site)
			if overflow {
				c.Bail("too many paths in %s", an.FuncName(top))
			}
			if len(states) == 0 {
				c.Bail("subscriber fan-out of %s is not reachable", an.FuncName(top))
			}
			const pfx = "core/parsigex."
			fail := func(cur *c10Verdict, st *c10State, why string, unsure bool) {
				if !cur.ok && !cur.unsure {
					return
				}
				*cur = c10Verdict{why: why, unsure: st.taint || unsure}
			}
			for _, st := range states {
				cx := c10Cx{w: w, ch: site.ch, st: st}
				setT, dutyT := cx.term(set), cx.term(duty)
				c10Debug("H3 state at sink: set=%s duty=%s", setT, dutyT)
				c10DebugState(st)
				// gater
				okGate, why, unsure := false, "a path reaches the subscriber fan-out without gaterFunc having accepted the duty", false
				for _, g := range c10SuccessFacts(st, "field:"+gaterKey) {
					if len(g.args) == 1 && g.args[0].s == dutyT.s {
						okGate = true
					} else {
						why = "the duty that is gated is not the duty handed to the subscribers"
						unsure = len(g.args) == 1 && c10DiffUnsure(dutyT, g.args[0], pfx)
					}
				}
				if !okGate {
					fail(&gate, st, why, unsure)
				}
				// every element verified
				okAll, why, unsure := false, "a path reaches the subscriber fan-out without verifyFunc having accepted every element of the set (verification skipped, its error not stopping the hand-over, or the loop left early)", false
				var fkeys []string
				for k := range st.facts {
					fkeys = append(fkeys, k)
				}
				sort.Strings(fkeys)
				for _, k := range fkeys {
					f := st.facts[k]
					t := f.t
					if t.is("forall?", "field:"+verifyKey) {
						why, unsure = "verifyFunc is called in a loop whose collection or element is not recognised", true
						continue
					}
					if !t.is("forall", "field:"+verifyKey) || f.a != c10True || len(t.args) != vsig.Params().Len()+1 {
						continue
					}
					switch {
					case t.args[0].s != setT.s:
						// a loop over something derived from the set (e.g. a sorted key list) is not followed
						why = "the loop that verifies does not range over the set handed to the subscribers"
						unsure = unsure || strings.Contains(t.s, setT.s) || c10DiffUnsure(t.args[0], setT, pfx)
					case !t.args[1+pkIdx].is("elem", "$k") || !t.args[1+dataIdx].is("elem", "$v"):
						why = "verifyFunc is not applied to the key and value of the element of this iteration"
						unsure = unsure || c10LeafUnsure(t.args[1+pkIdx], pfx) || c10LeafUnsure(t.args[1+dataIdx], pfx)
					case t.args[1+dutyIdx].s != dutyT.s:
						why = "verifyFunc is given another duty than the subscribers"
						unsure = unsure || c10DiffUnsure(t.args[1+dutyIdx], dutyT, pfx)
					default:
						okAll = true
					}
				}
				if !okAll {
					fail(&forall, st, why, unsure)
				}
				// provenance
				okDec := false
				if setT.is("ext", "0") && setT.args[0].op == "call" && c10CallName(setT.args[0]) == "core.ParSignedDataSetFromProto" {
					okDec = cx.lookupFact(c10mk("ext", "1", setT.args[0])) == c10Nil
				}
				if !okDec {
					fail(&decoded, st, "the set handed to subscribers is not the checked result of ParSignedDataSetFromProto", c10LeafUnsure(setT, pfx))
				}
			}
		}
		gate.report(c, label+" gaterFunc(duty) before subs", call.Pos())
		forall.report(c, label+" verifyFunc on every element before subs", call.Pos())
		decoded.report(c, label+" set decoded from the request", call.Pos())
	}
}

// ---------------------------------------------------------------------------------------------
// H4

func c10H4(c *rt.Ctx) {
	outer := c.Fn("core/parsigex.NewEth2Verifier")
	var cl *ssa.Function
	for _, r := range an.Returns(outer) {
		if len(r.Results) > 0 {
			if m, ok := c10ResolveClosure(r.Results[0]); ok {
				if cl != nil && cl != m.Fn.(*ssa.Function) {
					c.Bail("NewEth2Verifier returns more than one function literal")
				}
				cl = m.Fn.(*ssa.Function)
			}
		}
	}
	if cl == nil {
		c.Bail("NewEth2Verifier does not return a function literal")
	}
	var tableP *ssa.Parameter
	for _, p := range outer.Params {
		if an.IsMapType(p.Type()) {
			if tableP != nil {
				c.Bail("NewEth2Verifier: more than one map parameter")
			}
			tableP = p
		}
	}
	pkP, dataP := c10ParamOfType(cl, c10PubKeyT), c10ParamOfType(cl, c10PSDType)
	if tableP == nil || pkP == nil || dataP == nil {
		c.Bail("NewEth2Verifier: unexpected signature")
	}
	sums := c10NewSums()
	isVerif := func(in ssa.Instruction) bool {
		call, ok := in.(ssa.CallInstruction)
		return ok && an.Static(c10VerifyE2)(call.Common())
	}
	verifs := c10Down(cl, isVerif)
	if len(verifs) == 0 {
		c.Bail("no call to %s in the verifier returned by NewEth2Verifier", c10VerifyE2)
	}
	probe := (&c10W{fn: cl, sums: sums}).cx(c10NewState())
	tableT := (&c10W{fn: outer, sums: sums}).cx(c10NewState()).term(tableP)
	pkT, dataT := probe.term(pkP), probe.term(dataP)
	wantData := c10mk("tassert", "core.Eth2SignedData", c10mk("fld", "SignedData", dataT))
	wantIdx := c10mk("fld", "ShareIdx", dataT)
	for _, site := range verifs {
		args := site.in.(ssa.CallInstruction).Common().Args
		if len(args) != 4 {
			c.Bail("VerifyEth2SignedData: unexpected arity")
		}
		states, w, overflow := c10StatesAtSite(func(f *ssa.Function, ch c10Chain) *c10W {
			return &c10W{fn: f, ch: ch, sums: sums}
		}, site)
		if overflow || len(states) == 0 {
			c.Bail("verification in the NewEth2Verifier literal: paths not enumerable")
		}
		share, pkOK, idxOK, data := c10Verdict{ok: true}, true, true, true
		unfollowed := false
		for _, st := range states {
			cx := c10Cx{w: w, ch: site.ch, st: st}
			t3 := cx.term(args[3])
			var inner, outerLk *c10T
			if t3.op == "lookup" && len(t3.args) == 2 {
				inner = t3
				if t3.args[0].op == "lookup" && len(t3.args[0].args) == 2 {
					outerLk = t3.args[0]
				}
			}
			switch {
			case (inner == nil || outerLk == nil) && (c10LeafUnsure(t3, "core/parsigex.") || t3.op == "phi"):
				// the share is produced by a helper with several outcomes (or a variable) the engine does not
				// look through: neither its provenance nor the rejection of unknown keys can be read off
				share = c10Verdict{unsure: true, why: "public share is produced in a way that is not followed (" + t3.op + ")"}
				unfollowed = true
			case inner == nil || outerLk == nil:
				share = c10Verdict{why: "public share is not pubSharesByKey[pubkey][data.ShareIdx]"}
			case outerLk.args[0].s != tableT.s:
				c10Debug("H4 table: got %s want %s", outerLk.args[0], tableT)
				share = c10Verdict{why: "shares are not looked up in the pubSharesByKey table given to NewEth2Verifier", unsure: c10DiffUnsure(outerLk.args[0], tableT, "core/parsigex.")}
			case outerLk.args[1].s != pkT.s:
				share = c10Verdict{why: "shares are not looked up under the pubkey the signature is claimed for"}
			case inner.args[1].s != wantIdx.s:
				share = c10Verdict{why: "public share is not selected by the ShareIdx claimed in the partial signature"}
			}
			innerOK, outerOK := false, false
			if inner != nil {
				innerOK = cx.lookupFact(c10mk("lookupok", inner.name, inner.args...)) == c10True
			}
			if outerLk != nil {
				outerOK = cx.lookupFact(c10mk("lookupok", outerLk.name, outerLk.args...)) == c10True
				// table[pubkey][idx] in one expression: an unknown pubkey yields a nil map, whose lookup
				// reports !ok, so the share-index check covers it.
				if !outerOK && innerOK && !c10LookupHasOk(args[3], 1) {
					outerOK = true
				}
			}
			pkOK = pkOK && outerOK
			idxOK = idxOK && innerOK
			if cx.term(args[2]).s != wantData.s {
				data = false
			}
		}
		share.report(c, "NewEth2Verifier pubshare=pubSharesByKey[pubkey][data.ShareIdx]", site.in.Pos())
		c10Verdict{ok: pkOK, unsure: unfollowed, why: "a missing pubkey entry does not stop the verification (zero share would be used)"}.report(c, "NewEth2Verifier unknown pubkey rejected", site.in.Pos())
		c10Verdict{ok: idxOK, unsure: unfollowed, why: "a missing share index does not stop the verification (zero share would be used)"}.report(c, "NewEth2Verifier unknown share index rejected", site.in.Pos())
		c.Check("NewEth2Verifier data=data.SignedData", site.in.Pos(), data, "the object verified is not the SignedData of the received partial signature")
	}
	w := &c10W{fn: cl, tracked: c10Named(c10VerifyE2), sums: sums}
	states, rets := c10SuccessStates(w)
	if w.overflow {
		c.Bail("too many paths in the NewEth2Verifier literal")
	}
	bad := map[*ssa.Return]c10Verdict{}
	var order []*ssa.Return
	for i, st := range states {
		if _, seen := bad[rets[i]]; !seen {
			order = append(order, rets[i])
			bad[rets[i]] = c10Verdict{ok: true}
		}
		if len(c10SuccessFacts(st, c10VerifyE2)) == 0 {
			if cur := bad[rets[i]]; cur.ok || cur.unsure {
				bad[rets[i]] = c10Verdict{unsure: st.taint, why: "the verifier can return nil without VerifyEth2SignedData having succeeded"}
			}
		}
	}
	for _, r := range order {
		bad[r].report(c, "NewEth2Verifier nil only via VerifyEth2SignedData", posOf(r))
	}
}

// c10ResolveClosure: v is a function literal or method value, possibly held in a single-assignment local.
func c10ResolveClosure(v ssa.Value) (*ssa.MakeClosure, bool) {
	for i := 0; i < 4; i++ {
		v = an.Resolve(v)
		switch x := v.(type) {
		case *ssa.MakeClosure:
			return x, true
		case *ssa.UnOp:
			al, ok := x.X.(*ssa.Alloc)
			if !ok || x.Op != token.MUL {
				return nil, false
			}
			s := c10WholeStore(al)
			if s == nil {
				return nil, false
			}
			v = s
		default:
			return nil, false
		}
	}
	return nil, false
}

// c10LookupHasOk: the depth-th map lookup under value v (0 = the lookup producing v) is a comma-ok lookup.
func c10LookupHasOk(v ssa.Value, depth int) bool {
	for i := 0; i < 8; i++ {
		v = an.Resolve(v)
		var lk *ssa.Lookup
		switch x := v.(type) {
		case *ssa.Extract:
			lk, _ = x.Tuple.(*ssa.Lookup)
		case *ssa.Lookup:
			lk = x
		}
		if lk == nil {
			return true
		}
		if depth == 0 {
			return lk.CommaOk
		}
		depth--
		v = lk.X
	}
	return true
}

func c10StoresTo(a *ssa.Alloc) int {
	n := 0
	for _, ref := range *a.Referrers() {
		if st, ok := ref.(*ssa.Store); ok && st.Addr == ssa.Value(a) {
			n++
		}
	}
	return n
}

// ---------------------------------------------------------------------------------------------
// H5

// c10HashPair: a roots-equal fact eq(ext0(HashTreeRoot(a)), ext0(HashTreeRoot(b))) known true.
type c10HashPair struct {
	a, b         *c10T // receivers
	callA, callB *c10T // the invoke terms
}

func c10HashPairs(st *c10State) []c10HashPair {
	var keys []string
	for k := range st.facts {
		keys = append(keys, k)
	}
	sort.Strings(keys)
	var out []c10HashPair
	for _, k := range keys {
		f := st.facts[k]
		if f.a != c10True || !f.t.is("eq") || len(f.t.args) != 2 {
			continue
		}
		root := func(t *c10T) (*c10T, *c10T) {
			if t.is("ext", "0") && t.args[0].op == "invoke" && c10CallName(t.args[0]) == "HashTreeRoot" && len(t.args[0].args) == 1 {
				return t.args[0].args[0], t.args[0]
			}
			return nil, nil
		}
		ra, ca := root(f.t.args[0])
		rb, cb := root(f.t.args[1])
		if ra != nil && rb != nil {
			out = append(out, c10HashPair{ra, rb, ca, cb})
		}
	}
	return out
}

func (p c10HashPair) errorsChecked(st *c10State) bool {
	for _, call := range []*c10T{p.callA, p.callB} {
		if f, ok := st.facts[c10mk("ext", "1", call).s]; !ok || f.a != c10Nil {
			return false
		}
	}
	return true
}

func c10H5(c *rt.Ctx) {
	match := c.Fn(c10Vapi + ".propDataMatchesDuty")
	subsKey := c10Field(c, c10Vapi, "Component", "subs")
	awaitKey := c10Field(c, c10Vapi, "Component", "awaitProposalFunc")
	matchName := c10Vapi + ".propDataMatchesDuty"
	sums := c10NewSums()
	isSubs := func(in ssa.Instruction) bool {
		call, ok := in.(ssa.CallInstruction)
		return ok && an.FieldCall(subsKey)(call.Common())
	}
	isMatch := func(in ssa.Instruction) bool {
		call, ok := in.(ssa.CallInstruction)
		return ok && an.Orig(call.Common().StaticCallee()) == match
	}
	var optsParam, propParam *ssa.Parameter
	optsIdx, propIdx := -1, -1
	for _, p := range match.Params {
		switch n := an.TypeName(p.Type()); {
		case strings.HasSuffix(n, ".SubmitProposalOpts"):
			optsParam = p
			optsIdx = c10IndexOfParam(match, p)
		case strings.HasSuffix(n, ".VersionedProposal"):
			propParam = p
			propIdx = c10IndexOfParam(match, p)
		}
	}
	if optsParam == nil || propParam == nil {
		c.Bail("propDataMatchesDuty: unexpected signature")
	}
	// (a) the two block submission handlers
	for _, hn := range []string{"SubmitProposal", "SubmitBlindedProposal"} {
		fn := c.Fn(c10Comp + "." + hn)
		sinks := c10Down(fn, isSubs)
		if len(sinks) == 0 {
			c.Bail("no call through subs in (or below) %s", hn)
		}
		var optsP *ssa.Parameter
		for _, p := range fn.Params {
			if strings.HasSuffix(an.TypeName(p.Type()), "ProposalOpts") {
				optsP = p
			}
		}
		if optsP == nil {
			c.Bail("%s: submission parameter not found", hn)
		}
		guards := map[string]c10At{} // call term name -> site
		for _, g := range c10Down(fn, isMatch) {
			w := &c10W{fn: g.in.Parent(), ch: g.ch, sums: sums}
			t := c10Cx{w: w, ch: g.ch, st: c10NewState()}.term(g.in.(ssa.Value))
			guards[t.name] = g
		}
		optsT := (&c10W{fn: fn, sums: sums}).cx(c10NewState()).term(optsP)
		for _, site := range sinks {
			res := c10Verdict{ok: true}
			if site.async() {
				res = c10Verdict{unsure: true, why: "subscriber fan-out runs in a go/defer statement"}
			} else {
				states, w, overflow := c10StatesAtSite(func(f *ssa.Function, ch c10Chain) *c10W {
					return &c10W{fn: f, ch: ch, tracked: c10Named(matchName, "field:"+awaitKey), sums: sums}
				}, site)
				if overflow || len(states) == 0 {
					c.Bail("%s: paths to the subscriber fan-out not enumerable", hn)
				}
				for _, st := range states {
					cx := c10Cx{w: w, ch: site.ch, st: st}
					good, why, unfollowed := false, "a path reaches the subscriber fan-out without propDataMatchesDuty having succeeded", false
					for _, g := range c10SuccessFacts(st, matchName) {
						if len(g.args) != len(match.Params) {
							c.Bail("propDataMatchesDuty: unexpected arity")
						}
						agreed := g.args[propIdx]
						if !(agreed.is("ext", "0") && agreed.args[0].op == "dyn" && c10CallName(agreed.args[0]) == "field:"+awaitKey &&
							cx.lookupFact(c10mk("ext", "1", agreed.args[0])) == c10Nil) {
							why = "the submission is not compared with the checked result of awaitProposalFunc"
							continue
						}
						gs, ok := guards[g.name]
						if !ok {
							why = "propDataMatchesDuty call not resolved"
							continue
						}
						gw := &c10W{fn: gs.in.Parent(), ch: gs.ch, sums: sums}
						gcx := c10Cx{w: gw, ch: gs.ch, st: c10NewState()}
						garg := gs.in.(ssa.CallInstruction).Common().Args[optsIdx]
						if ok, w2 := c10FromOpts(gcx, garg, optsT, 0); !ok {
							why = w2
							if gt := gcx.term(garg); c10LeafUnsure(gt, c10Vapi+".") || gt.op == "dyn" || gt.op == "phi" {
								unfollowed = true
							}
							continue
						}
						good = true
					}
					if !good {
						for _, f := range c10AnyFacts(st, matchName) {
							if f.a == c10NonNil {
								why = "propDataMatchesDuty: a mismatch does not stop the hand-over to the subscribers"
							}
						}
						if st.taint {
							if res.ok {
								res = c10Verdict{unsure: true, why: "propDataMatchesDuty: its status is tested in a way that is not understood"}
							}
							continue
						}
						if unfollowed {
							if res.ok {
								res = c10Verdict{unsure: true, why: why + " (it is produced by a function value that is not followed)"}
							}
							continue
						}
						res = c10Verdict{why: why}
						break
					}
				}
			}
			res.report(c, hn+" propDataMatchesDuty before subs", site.in.Pos())
		}
		// what is stored is built from the same submission
		for _, site := range c10Down(fn, c10IsSetUpdate) {
			mu := site.in.(*ssa.MapUpdate)
			res := c10Verdict{ok: true}
			states, w, overflow := c10StatesAtSite(func(f *ssa.Function, ch c10Chain) *c10W {
				return &c10W{fn: f, ch: ch, sums: sums}
			}, site)
			if overflow || len(states) == 0 || site.async() {
				res = c10Verdict{unsure: true, why: "paths to the insertion not enumerable"}
			}
			for _, st := range states {
				t := c10Cx{w: w, ch: site.ch, st: st}.term(mu.Value)
				if t.is("ext", "0") {
					t = t.args[0]
				}
				if t.op == "call" && len(t.args) > 0 && c10RootedAt(t.args[0], optsT) {
					continue
				}
				// a value whose construction is not followed (variable written in a way the engine does not
				// model, result of a function value) is undecided; a different construction is a violation
				unsure := c10LeafUnsure(t, c10Vapi+".") || t.op == "phi" || t.op == "dyn" || t.op == "param"
				if res.ok || res.unsure && !unsure {
					res = c10Verdict{unsure: unsure, why: "the partial signature stored is not built from the opts that were compared with the agreed proposal"}
				}
			}
			res.report(c, hn+" stored value built from the compared submission", posOf(mu))
		}
	}
	// (b) propDataMatchesDuty returns nil only after the hash tree roots of the agreed proposal's payload and of the
	// submitted payload of the same fork were found equal
	w := &c10W{fn: match, sums: sums}
	states, rets := c10SuccessStates(w)
	if w.overflow {
		c.Bail("too many paths in propDataMatchesDuty")
	}
	if len(states) == 0 {
		c.Bail("propDataMatchesDuty never returns nil")
	}
	probe := w.cx(c10NewState())
	optsT, propT := probe.term(optsParam), probe.term(propParam)
	consts := c10VersionConsts(c.SSAPkg(c10Vapi))
	// the comparison is dispatched through function values (a table of per-version selectors, a list of
	// checks run in a loop): which code runs for which version is not followed, so the absence of a
	// comparison on a path is not evidence; what is positively compared wrongly still is
	dispatch := c10Down(match, c10IsFuncValueCall)
	absent := func(construct string, pos token.Pos, why string) {
		if len(dispatch) > 0 {
			c.Unsure(construct, pos, why+" (propDataMatchesDuty dispatches through function values in "+an.FuncName(dispatch[0].in.Parent())+": not followed)")
			return
		}
		c.Bad(construct, pos, why)
	}
	side := func(t *c10T) (string, []string) {
		root, fields := c10Path(t)
		switch root.s {
		case propT.s:
			return "prop", fields
		case optsT.s:
			return "opts", fields
		}
		return "", nil
	}
	type payload struct {
		good   bool
		unsure bool
		why    string
		pos    token.Pos
		order  int
	}
	payloads := map[string]*payload{}
	versions := map[string]bool{}
	header := map[string]bool{"Blinded": true, "Version": true}
	rootsOK, rootsWhy := true, ""
	var rootsPos token.Pos
	for i, st := range states {
		r := rets[i]
		// header equalities known on this path
		for f := range header {
			found := false
			for _, fact := range st.facts {
				if fact.a != c10True || !fact.t.is("eq") || len(fact.t.args) != 2 {
					continue
				}
				sa, fa := side(fact.t.args[0])
				sb, fb := side(fact.t.args[1])
				if sa == "" || sb == "" || sa == sb || len(fa) == 0 || len(fb) == 0 || fa[len(fa)-1] != f || fb[len(fb)-1] != f {
					continue
				}
				found = true
			}
			if !found {
				header[f] = false
			}
		}
		// version and blinded flag of this path
		ver, blinded := "", c10U
		for _, fact := range st.facts {
			t := fact.t
			if t.is("eq") && fact.a == c10True && len(t.args) == 2 {
				for j := 0; j < 2; j++ {
					if name, ok := consts[t.args[j].s]; ok {
						if s, f := side(t.args[1-j]); s != "" && len(f) > 0 && f[len(f)-1] == "Version" {
							ver = name
						}
					}
				}
			}
			if s, f := side(t); s != "" && len(f) > 0 && f[len(f)-1] == "Blinded" && (fact.a == c10True || fact.a == c10False) {
				if blinded != c10U && blinded != fact.a {
					blinded = c10U
					continue
				}
				blinded = fact.a
			}
		}
		// only comparisons between payloads of the two arguments count; comparisons of values whose
		// provenance is not followed make the path undecided instead of a violation
		var pairs []c10HashPair
		unfollowed := false
		for _, p := range c10HashPairs(st) {
			sa, _ := side(p.a)
			sb, _ := side(p.b)
			switch {
			case sa != "" && sb != "":
				pairs = append(pairs, p)
			case c10LeafUnsure(p.a, c10Vapi+".") || c10LeafUnsure(p.b, c10Vapi+".") || p.a.op == "phi" || p.b.op == "phi":
				unfollowed = true
			}
		}
		if len(pairs) == 0 {
			if unfollowed {
				c.Unsure("propDataMatchesDuty return without hash comparison", posOf(r), "hash tree roots are compared, but of values whose origin is not followed (version "+ver+")")
				continue
			}
			if len(dispatch) == 0 {
				rootsOK, rootsWhy, rootsPos = false, "nil is returned without the hash tree roots having been found equal", posOf(r)
			}
			absent("propDataMatchesDuty return without hash comparison", posOf(r), "propDataMatchesDuty can return nil without comparing hash tree roots (version "+ver+")")
			continue
		}
		for _, p := range pairs {
			sa, fa := side(p.a)
			sb, fb := side(p.b)
			if sa == "opts" {
				sa, fa, sb, fb = sb, fb, sa, fa
			}
			label := strings.Join(fa, ".")
			if label == "" {
				label = "?"
			}
			pl := payloads[label]
			if pl == nil {
				pl = &payload{good: true, pos: posOf(r), order: len(payloads)}
				payloads[label] = pl
			}
			fail := func(why string) {
				if pl.good {
					pl.good, pl.why = false, why
				}
			}
			switch {
			case !p.errorsChecked(st):
				rootsOK, rootsWhy, rootsPos = false, "HashTreeRoot error ignored", posOf(r)
				fail("HashTreeRoot error ignored")
			case sa != "prop" || sb != "opts":
				fail("comparison does not take one side from the agreed proposal and the other from the submission")
			case c10ForkOf(fa) == "" || c10ForkOf(fa) != c10ForkOf(fb):
				fail(fmt.Sprintf("payloads of different forks are compared (%s vs %s)", strings.Join(fa, "."), strings.Join(fb, ".")))
			case ver == "":
				if pl.good && !pl.unsure {
					pl.unsure, pl.why = true, fmt.Sprintf("payload %s is compared on a path on which the version of the proposal is not known (dispatch not followed)", c10ForkOf(fa))
				}
			case !strings.EqualFold(strings.TrimPrefix(ver, "DataVersion"), strings.TrimSuffix(c10ForkOf(fa), "Blinded")):
				fail(fmt.Sprintf("payload %s is compared in the case of version %q", c10ForkOf(fa), ver))
			default:
				isBl := strings.HasSuffix(c10ForkOf(fa), "Blinded")
				if isBl && blinded != c10True || !isBl && blinded == c10True {
					fail(fmt.Sprintf("payload %s is compared on the wrong side of the prop.Blinded test", c10ForkOf(fa)))
				} else {
					versions[ver] = true
				}
			}
		}
	}
	var labels []string
	for l := range payloads {
		labels = append(labels, l)
	}
	sort.Slice(labels, func(i, j int) bool { return payloads[labels[i]].order < payloads[labels[j]].order })
	for _, l := range labels {
		pl := payloads[l]
		c10Verdict{ok: pl.good && !pl.unsure, unsure: pl.good && pl.unsure, why: pl.why}.report(c, "propDataMatchesDuty "+l+" compared", pl.pos)
	}
	// the comparison helper(s): nil only for equal roots
	helpers := c10RootCompareHelpers(match)
	if len(helpers) == 0 {
		c.Check("checkHashes nil only for equal roots", func() token.Pos {
			if rootsPos.IsValid() {
				return rootsPos
			}
			return match.Pos()
		}(), rootsOK, rootsWhy)
	}
	for _, h := range helpers {
		hw := &c10W{fn: h, sums: sums}
		hst, hrets := c10SuccessStates(hw)
		// a helper answering (equal bool, err error): success means "true, nil"
		if res := h.Signature.Results(); res.Len() == 2 {
			if b, ok := res.At(0).Type().Underlying().(*types.Basic); ok && b.Kind() == types.Bool {
				var st2 []*c10State
				var rets2 []*ssa.Return
				for i, st := range hst {
					rv := returnValues(hrets[i])
					if hw.cx(st).eval(rv[0]) == c10False {
						continue
					}
					hw.cx(st).assume(rv[0], true)
					st2, rets2 = append(st2, st), append(rets2, hrets[i])
				}
				hst, hrets = st2, rets2
			}
		}
		good, why := len(hst) > 0 && !hw.overflow, "comparison helper never returns nil"
		pos := h.Pos()
		for i, st := range hst {
			okPath := false
			for _, p := range c10HashPairs(st) {
				if p.a.op == "param" && p.b.op == "param" && p.a.s != p.b.s {
					if p.errorsChecked(st) {
						okPath = true
					} else {
						why = "HashTreeRoot error ignored"
					}
				} else {
					why = "the comparison is not between the roots of both arguments"
				}
			}
			if !okPath {
				if good {
					pos = posOf(hrets[i])
					if why == "comparison helper never returns nil" {
						why = "nil is reachable when the roots differ (or without comparing them)"
					}
				}
				good = false
			}
		}
		c.Check("checkHashes nil only for equal roots", pos, good, why)
	}
	// (c) version coverage: same constants as VersionedSignedProposal.MessageRoot
	var got []string
	for v := range versions {
		got = append(got, v)
	}
	sort.Strings(got)
	ref := c.Fn("core.VersionedSignedProposal.MessageRoot")
	want := c10SwitchConsts(ref, func(v ssa.Value) bool {
		k, _, ok := an.FieldOf(v)
		return ok && strings.HasSuffix(k, "VersionedSignedProposal.Version")
	})
	if len(want) == 0 {
		c.Bail("no version switch found in core.VersionedSignedProposal.MessageRoot")
	}
	if fmt.Sprint(got) == fmt.Sprint(want) {
		c.Good("propDataMatchesDuty version switch covers all proposal versions", match.Pos(), "")
	} else {
		absent("propDataMatchesDuty version switch covers all proposal versions", match.Pos(),
			fmt.Sprintf("versions handled %v, versions of core.VersionedSignedProposal.MessageRoot %v", got, want))
	}
	for _, f := range []string{"Blinded", "Version"} {
		if header[f] {
			c.Good("propDataMatchesDuty "+f+" equal", match.Pos(), "")
		} else {
			absent("propDataMatchesDuty "+f+" equal", match.Pos(), "submission and agreed proposal are not required to have the same "+f)
		}
	}
}

// c10IsFuncValueCall: a call of a function value whose target is neither statically known nor a function
// literal held in a single-assignment local, and that is not a call through a struct field (the wired
// dependencies of a component are called that way and are named by their field).
func c10IsFuncValueCall(in ssa.Instruction) bool {
	call, ok := in.(ssa.CallInstruction)
	if !ok || call.Common().IsInvoke() || call.Common().StaticCallee() != nil {
		return false
	}
	if _, isB := call.Common().Value.(*ssa.Builtin); isB {
		return false
	}
	if c10ClosureVar(call.Common().Value) != nil {
		return false
	}
	return !strings.HasPrefix(an.CalleeName(call.Common()), "field:")
}

func c10IndexOfParam(fn *ssa.Function, p *ssa.Parameter) int {
	for i, q := range fn.Params {
		if q == p {
			return i
		}
	}
	return -1
}

// c10RootCompareHelpers lists the functions below fn (closures, in-package helpers) that take two
// hashable values and invoke HashTreeRoot on their parameters.
func c10RootCompareHelpers(fn *ssa.Function) []*ssa.Function {
	seen := map[*ssa.Function]bool{}
	var out []*ssa.Function
	isHTR := func(in ssa.Instruction) bool {
		call, ok := in.(*ssa.Call)
		if !ok || !call.Call.IsInvoke() || call.Call.Method.Name() != "HashTreeRoot" {
			return false
		}
		_, isParam := an.Unwrap(call.Call.Value).(*ssa.Parameter)
		return isParam
	}
	for _, s := range c10Down(fn, isHTR) {
		h := s.in.Parent()
		if h == fn || seen[h] {
			continue
		}
		seen[h] = true
		out = append(out, h)
	}
	return out
}

// c10VersionConsts maps the term of every DataVersion constant used in the package to its declared name.
func c10VersionConsts(pkg *ssa.Package) map[string]string {
	out := map[string]string{}
	probe := (&c10W{}).cx(c10NewState())
	for _, f := range an.PkgFuncs(pkg) {
		for _, in := range an.Instrs(f, false) {
			bin, ok := in.(*ssa.BinOp)
			if !ok {
				continue
			}
			for _, op := range []ssa.Value{bin.X, bin.Y} {
				if k, ok := op.(*ssa.Const); ok && k.Value != nil && strings.HasSuffix(an.TypeName(k.Type()), "DataVersion") {
					out[probe.term(k).s] = c10ConstName(k)
				}
			}
		}
	}
	return out
}

// c10FromOpts: v is the handler's opts parameter (or a field path of it), or a literal whose every member
// is a constant, a nested literal of the same kind, or read from the opts parameter; helpers building
// the literal are followed.
func c10FromOpts(cx c10Cx, v ssa.Value, opts *c10T, d int) (bool, string) {
	if d > 6 {
		return false, "the object compared with the agreed proposal is nested too deeply"
	}
	v = an.Resolve(v)
	if t := cx.term(v); c10RootedAt(t, opts) {
		return true, ""
	}
	switch x := v.(type) {
	case *ssa.Call:
		if r, rcx, ok := cx.inline(x, 0); ok {
			return c10FromOpts(rcx, r, opts, d+1)
		}
	case *ssa.Parameter:
		fn := x.Parent()
		if len(cx.ch) > 0 && c10Callee(cx.ch[0]) == an.Orig(fn) {
			if i := c10IndexOfParam(fn, x); i >= 0 && i < len(cx.ch[0].Common().Args) {
				up := cx
				up.ch = cx.ch[1:]
				return c10FromOpts(up, cx.ch[0].Common().Args[i], opts, d+1)
			}
		}
	case *ssa.Phi:
		for _, e := range x.Edges {
			if ok, w := c10FromOpts(cx, e, opts, d+1); !ok {
				return false, w
			}
		}
		return true, ""
	}
	al, ok := v.(*ssa.Alloc)
	if !ok {
		return false, "the object compared with the agreed proposal is not the submission"
	}
	n := 0
	for _, ref := range *al.Referrers() {
		switch r := ref.(type) {
		case *ssa.Store:
			if r.Addr == ssa.Value(al) {
				if k, isC := r.Val.(*ssa.Const); isC {
					_ = k
					continue
				}
				n++
				if ok, w := c10FromOpts(cx, r.Val, opts, d+1); !ok {
					return false, w
				}
			}
		case *ssa.FieldAddr:
			for _, r2 := range *r.Referrers() {
				st, ok := r2.(*ssa.Store)
				if !ok || st.Addr != ssa.Value(r) {
					continue
				}
				n++
				val := an.Resolve(st.Val)
				if _, isC := val.(*ssa.Const); isC {
					continue
				}
				if c10RootedAt(cx.term(val), opts) {
					continue
				}
				if ok, w := c10FromOpts(cx, val, opts, d+1); ok {
					continue
				} else if _, isAl := val.(*ssa.Alloc); isAl {
					return false, w
				}
				return false, "the object compared with the agreed proposal has a member that does not come from the submission"
			}
		}
	}
	if n == 0 {
		return false, "the object compared with the agreed proposal is empty"
	}
	return true, ""
}

// c10ForkOf picks the fork payload member of a field path: prop.Deneb.Block -> "Deneb",
// opts.Proposal.DenebBlinded.Message -> "DenebBlinded".
func c10ForkOf(path []string) string {
	for _, p := range path {
		switch p {
		case "Proposal", "Message", "Block", "SignedBlock":
			continue
		}
		return p
	}
	return ""
}

// c10ConstName renders an enum constant by its declared name (via String-less lookup in its package).
func c10ConstName(k *ssa.Const) string {
	nt, ok := k.Type().(*types.Named)
	if !ok || nt.Obj().Pkg() == nil {
		return k.Value.String()
	}
	sc := nt.Obj().Pkg().Scope()
	for _, n := range sc.Names() {
		if cn, ok := sc.Lookup(n).(*types.Const); ok && types.Identical(cn.Type(), nt) && constant.Compare(cn.Val(), token.EQL, k.Value) {
			return n
		}
	}
	return k.Value.String()
}

// c10SwitchConsts lists (sorted, by name) the constants some value satisfying isTag is compared equal to.
func c10SwitchConsts(fn *ssa.Function, isTag func(ssa.Value) bool) []string {
	set := map[string]bool{}
	for _, in := range an.Instrs(fn, false) {
		bin, ok := in.(*ssa.BinOp)
		if !ok || bin.Op != token.EQL {
			continue
		}
		k, ok := bin.Y.(*ssa.Const)
		if !ok || k.Value == nil || !isTag(bin.X) {
			continue
		}
		set[c10ConstName(k)] = true
	}
	var out []string
	for n := range set {
		out = append(out, n)
	}
	sort.Strings(out)
	return out
}

// ---------------------------------------------------------------------------------------------
// H6

func c10H6(c *rt.Ctx) {
	fn := c.Fn("app.wireCoreWorkflow")
	sums := c10NewSums()
	const appPfx = "app."
	static := func(name string) func(ssa.Instruction) bool {
		return func(in ssa.Instruction) bool {
			call, ok := in.(ssa.CallInstruction)
			return ok && an.Static(name)(call.Common())
		}
	}
	one := func(name string) c10At {
		sites := c10Down(fn, static(name))
		if len(sites) != 1 {
			c.Bail("expected exactly one call to %s in (or below) %s, found %d", name, an.FuncName(fn), len(sites))
		}
		return sites[0]
	}
	// parsigex wiring
	psx := one("core/parsigex.NewParSigEx")
	ctor := c.Fn("core/parsigex.NewParSigEx")
	var verIdx, gateIdx = -1, -1
	for i, p := range ctor.Params {
		if an.TypeName(p.Type()) == "core.DutyGaterFunc" {
			gateIdx = i
			continue
		}
		if sig, ok := p.Type().(*types.Signature); ok && sig.Results().Len() == 1 && an.IsErrorType(sig.Results().At(0).Type()) &&
			c10ParamIdx(sig, c10PSDType, false) >= 0 && c10ParamIdx(sig, c10PubKeyT, false) >= 0 {
			if verIdx >= 0 {
				c.Bail("NewParSigEx: more than one verification function parameter")
			}
			verIdx = i
		}
	}
	if verIdx < 0 || gateIdx < 0 {
		c.Bail("NewParSigEx: verifyFunc/gaterFunc parameters not found")
	}
	psxArgs := psx.in.(ssa.CallInstruction).Common().Args
	tracked := c10Named("core/parsigex.NewEth2Verifier", "core.NewDutyGater")
	states, w, overflow := c10StatesAtSite(func(f *ssa.Function, ch c10Chain) *c10W {
		return &c10W{fn: f, ch: ch, tracked: tracked, sums: sums, keep: func(t *c10T) bool { return c10Mentions(t, tracked) }}
	}, psx)
	if overflow || len(states) == 0 {
		c.Bail("wireCoreWorkflow: paths to parsigex.NewParSigEx not enumerable")
	}
	fromCall := func(v ssa.Value, callee string, bad string) (c10Verdict, *c10T) {
		res := c10Verdict{ok: true}
		var callT *c10T
		for _, st := range states {
			cx := c10Cx{w: w, ch: psx.ch, st: st}
			t := cx.term(v)
			switch {
			case !(t.is("ext", "0") && t.args[0].op == "call" && c10CallName(t.args[0]) == callee):
				res = c10Verdict{why: bad, unsure: c10LeafUnsure(t, appPfx)}
			case cx.lookupFact(c10mk("ext", "1", t.args[0])) != c10Nil:
				res = c10Verdict{why: bad + " (its error does not stop the wiring)", unsure: st.taint}
			default:
				if callT != nil && callT.s != t.args[0].s {
					res = c10Verdict{why: bad + " (differs between paths)", unsure: true}
				}
				callT = t.args[0]
			}
		}
		return res, callT
	}
	ver, verT := fromCall(psxArgs[verIdx], "core/parsigex.NewEth2Verifier", "production ParSigEx is not given the checked result of parsigex.NewEth2Verifier")
	ver.report(c, "wireCoreWorkflow parsigex verifier = NewEth2Verifier", psx.in.Pos())
	gate, _ := fromCall(psxArgs[gateIdx], "core.NewDutyGater", "production ParSigEx is not given the checked result of core.NewDutyGater")
	gate.report(c, "wireCoreWorkflow parsigex gater = NewDutyGater", psx.in.Pos())
	// validator API wiring
	vapi := one(c10Vapi + ".NewComponent")
	var tbl ssa.Value
	for _, a := range vapi.in.(ssa.CallInstruction).Common().Args {
		if an.IsMapType(a.Type()) {
			if tbl != nil {
				c.Bail("validatorapi.NewComponent: more than one map argument")
			}
			tbl = a
		}
	}
	if tbl == nil {
		c.Bail("validatorapi.NewComponent: no share table argument")
	}
	vw := &c10W{fn: vapi.in.Parent(), ch: vapi.ch, sums: sums}
	vcx := c10Cx{w: vw, ch: vapi.ch, st: c10NewState()}
	tblT := vcx.term(tbl)
	same := ver.ok && verT != nil && len(verT.args) == 2 && verT.args[1].s == tblT.s
	c10Verdict{ok: same, unsure: !ver.ok || c10LeafUnsure(tblT, appPfx), why: "validatorapi.NewComponent and parsigex.NewEth2Verifier are given different share tables"}.
		report(c, "wireCoreWorkflow same share table for vapi and parsigex", vapi.in.Pos())
	// table[corePubkey(val.PubKey)][i+1] = pubkey(val.PubShares[i])
	mm, mcx := c10MadeMap(vcx, tbl)
	if mm == nil {
		c.Bail("share table given to validatorapi.NewComponent is not a map made by wireCoreWorkflow or a helper it calls")
	}
	ups := c10UpdatesOf(mcx, mm)
	if len(ups) == 0 {
		c.Bail("share table is never filled")
	}
	for _, up := range ups {
		c10ShareTableEntry(mcx, up, appPfx).report(c, "wireCoreWorkflow share table entry = lock public shares, 1-indexed", posOf(up))
	}
	// NewComponent: getVerifyShareFunc(pubkey) = allPubSharesByKey[pubkey][shareIdx]
	nc := c.Fn(c10Vapi + ".NewComponent")
	c10VerifyShareTable(c, nc, sums).report(c, "NewComponent getVerifyShareFunc = allPubSharesByKey[pubkey][shareIdx]", nc.Pos())
}

// c10MadeMap follows v to the make(map) it denotes: through single-assignment locals, captured
// variables, parameters of the call chain and the result of an in-package helper.
func c10MadeMap(cx c10Cx, v ssa.Value) (*ssa.MakeMap, c10Cx) {
	for i := 0; i < 12; i++ {
		v = c10Strip(v)
		switch x := v.(type) {
		case *ssa.MakeMap:
			return x, cx
		case *ssa.UnOp:
			if x.Op != token.MUL {
				return nil, cx
			}
			switch p := c10Strip(x.X).(type) {
			case *ssa.Alloc:
				if s := c10WholeStore(p); s != nil {
					v = s
					continue
				}
			case *ssa.FreeVar:
				if b, bcx, ok := cx.binding(p); ok {
					if al, isAl := b.(*ssa.Alloc); isAl {
						if s := c10WholeStore(al); s != nil {
							v, cx = s, bcx
							continue
						}
					}
				}
			}
			return nil, cx
		case *ssa.Call:
			if r, rcx, ok := cx.inline(x, 0); ok {
				v, cx = r, rcx
				continue
			}
			return nil, cx
		case *ssa.Extract:
			if call, ok := x.Tuple.(*ssa.Call); ok {
				if r, rcx, ok := cx.inline(call, x.Index); ok {
					v, cx = r, rcx
					continue
				}
			}
			return nil, cx
		case *ssa.Parameter:
			fn := x.Parent()
			if len(cx.ch) > 0 && c10Callee(cx.ch[0]) == an.Orig(fn) {
				found := false
				for i, p := range fn.Params {
					if p == x && i < len(cx.ch[0].Common().Args) {
						v = cx.ch[0].Common().Args[i]
						cx.ch = cx.ch[1:]
						found = true
					}
				}
				if found {
					continue
				}
			}
			return nil, cx
		default:
			return nil, cx
		}
	}
	return nil, cx
}

// c10UpdatesOf lists the insertions into the made map in its own function (directly or through the
// local variable that holds it).
func c10UpdatesOf(cx c10Cx, mm *ssa.MakeMap) []*ssa.MapUpdate {
	want := cx.term(mm).s
	var out []*ssa.MapUpdate
	for _, in := range an.Instrs(mm.Parent(), false) {
		if up, ok := in.(*ssa.MapUpdate); ok && cx.term(up.Map).s == want {
			out = append(out, up)
		}
	}
	return out
}

func c10ShareTableEntry(cx c10Cx, up *ssa.MapUpdate, pfx string) c10Verdict {
	// key: core.PubKeyFromBytes(val.PubKey)
	keyT := cx.term(up.Key)
	var val *c10T
	if keyT.is("ext", "0") && keyT.args[0].is("call", "core.PubKeyFromBytes") && len(keyT.args[0].args) == 1 {
		if a := keyT.args[0].args[0]; a.is("fld", "PubKey") {
			val = a.args[0]
		}
	}
	if val == nil {
		return c10Verdict{why: "table key is not core.PubKeyFromBytes(val.PubKey) of a lock validator", unsure: c10LeafUnsure(keyT, pfx)}
	}
	inner, icx := c10MadeMap(cx, up.Value)
	if inner == nil {
		return c10Verdict{why: "per-validator share map is not built here", unsure: c10LeafUnsure(cx.term(up.Value), pfx)}
	}
	ups := c10UpdatesOf(icx, inner)
	if len(ups) == 0 {
		return c10Verdict{why: "per-validator share map is never filled"}
	}
	for _, iu := range ups {
		// value: tblsconv.PubkeyFromBytes(val.PubShares[i])
		vT := icx.term(iu.Value)
		var idx *c10T
		unsure := c10LeafUnsure(vT, pfx)
		if vT.is("ext", "0") && vT.args[0].op == "call" && c10CallName(vT.args[0]) == "tbls/tblsconv.PubkeyFromBytes" && len(vT.args[0].args) == 1 {
			a := vT.args[0].args[0]
			unsure = c10LeafUnsure(a, pfx)
			if a.is("idx") && len(a.args) == 2 && a.args[0].is("fld", "PubShares") {
				if a.args[0].args[0].s == val.s {
					idx = a.args[1]
				} else {
					unsure = c10DiffUnsure(a.args[0].args[0], val, pfx)
				}
			}
		}
		if idx == nil {
			return c10Verdict{why: "share value is not tblsconv.PubkeyFromBytes(val.PubShares[i]) of the same validator", unsure: unsure}
		}
		kT := icx.term(iu.Key)
		one := c10mk("const", "1/int")
		a, b := one, idx
		if b.s < a.s {
			a, b = b, a
		}
		if kT.s != c10mk("binop", "+", a, b).s {
			return c10Verdict{why: "share index key is not i+1 for the position i of the share in the lock", unsure: c10LeafUnsure(kT, pfx)}
		}
	}
	return c10Verdict{ok: true}
}

func c10VerifyShareTable(c *rt.Ctx, nc *ssa.Function, sums *c10Sums) c10Verdict {
	const pfx = c10Vapi + "."
	gvsKey := c10Field(c, c10Vapi, "Component", "getVerifyShareFunc")
	var tableP, idxP *ssa.Parameter
	for _, p := range nc.Params {
		if mt, ok := p.Type().Underlying().(*types.Map); ok && an.TypeName(mt.Key()) == c10PubKeyT {
			tableP = p
		}
		if b, ok := p.Type().(*types.Basic); ok && b.Kind() == types.Int {
			if idxP != nil {
				c.Bail("NewComponent: more than one int parameter")
			}
			idxP = p
		}
	}
	if tableP == nil || idxP == nil {
		c.Bail("NewComponent: table / shareIdx parameters not found")
	}
	// the closure stored in getVerifyShareFunc
	var cl *ssa.Function
	for _, in := range an.Instrs(nc, false) {
		st, ok := in.(*ssa.Store)
		if !ok {
			continue
		}
		fa, ok := st.Addr.(*ssa.FieldAddr)
		if !ok || an.FieldKey(fa.X.Type(), fa.Field) != gvsKey {
			continue
		}
		m, ok := an.Resolve(st.Val).(*ssa.MakeClosure)
		if !ok {
			return c10Verdict{why: "getVerifyShareFunc is not a function literal of NewComponent", unsure: true}
		}
		cl = m.Fn.(*ssa.Function)
	}
	if cl == nil {
		return c10Verdict{why: "NewComponent does not set getVerifyShareFunc"}
	}
	// a method value of a helper object (x.verifyShare): the method is analysed as entered through its bound
	// wrapper, so that its receiver denotes the object captured in NewComponent
	var ch c10Chain
	if strings.HasPrefix(cl.Synthetic, "bound method wrapper") {
		var inner ssa.CallInstruction
		for _, in := range an.Instrs(cl, false) {
			if call, ok := in.(ssa.CallInstruction); ok {
				if inner != nil {
					return c10Verdict{why: "getVerifyShareFunc is a method value whose wrapper is not understood", unsure: true}
				}
				inner = call
			}
		}
		if inner == nil || c10Callee(inner) == nil {
			return c10Verdict{why: "getVerifyShareFunc is a method value whose method is not resolved", unsure: true}
		}
		cl, ch = c10Callee(inner), c10Chain{inner}
	}
	pkP := c10ParamOfType(cl, c10PubKeyT)
	if pkP == nil {
		c.Bail("getVerifyShareFunc: unexpected signature")
	}
	// closure: every (value, nil) return is a checked comma-ok lookup of the captured map under the parameter
	w := &c10W{fn: cl, ch: ch, sums: sums, objects: true}
	states, rets := c10SuccessStates(w)
	if w.overflow || len(states) == 0 {
		return c10Verdict{why: "getVerifyShareFunc has no successful return", unsure: w.overflow}
	}
	pkT := w.cx(c10NewState()).term(pkP)
	var local *c10T
	for i, st := range states {
		cx := w.cx(st)
		rv := returnValues(rets[i])
		t := cx.term(rv[0])
		switch {
		case !t.is("lookup") || len(t.args) != 2:
			return c10Verdict{why: "getVerifyShareFunc returns a share that is not looked up", unsure: c10LeafUnsure(t, pfx)}
		case t.args[1].s != pkT.s:
			return c10Verdict{why: "getVerifyShareFunc does not look the share up under the requested pubkey"}
		case cx.lookupFact(c10mk("lookupok", t.name, t.args...)) != c10True:
			return c10Verdict{why: "getVerifyShareFunc returns the zero share with a nil error for an unknown pubkey"}
		case local != nil && local.s != t.args[0].s:
			return c10Verdict{why: "getVerifyShareFunc reads more than one table", unsure: true}
		}
		local = t.args[0]
	}
	c10Debug("H6 verify-share table term %s", local)
	if !local.is("makemap") {
		// the map is not followed to a make(map) of NewComponent (or of a constructor it calls): no positive
		// evidence of a wrong table, only of a shape that is not understood — unless it is the raw table itself
		return c10Verdict{why: "table captured by getVerifyShareFunc is not built in NewComponent (or is reassigned)",
			unsure: !c10RootedAt(local, (&c10W{fn: nc, sums: sums}).cx(c10NewState()).term(tableP))}
	}
	// the captured map is filled as m[corePubkey] = allPubSharesByKey[corePubkey][shareIdx], in NewComponent or in
	// an in-package helper / method it calls (parameters resolve through the call chain)
	top := &c10W{fn: nc, sums: sums, objects: true}
	tcx := top.cx(c10NewState())
	tableT, idxT := tcx.term(tableP), tcx.term(idxP)
	n := 0
	for _, site := range c10Down(nc, func(in ssa.Instruction) bool { _, ok := in.(*ssa.MapUpdate); return ok }) {
		up := site.in.(*ssa.MapUpdate)
		ncx := c10Cx{w: top, ch: site.ch, st: c10NewState()}
		if ncx.term(up.Map).s != local.s {
			continue
		}
		n++
		keyT, valT := ncx.term(up.Key), ncx.term(up.Value)
		var next *c10T
		if keyT.is("ext", "1") && keyT.args[0].op == "next" && len(keyT.args[0].args) == 1 && keyT.args[0].args[0].op == "range" &&
			keyT.args[0].args[0].args[0].s == tableT.s {
			next = keyT.args[0]
		}
		if next == nil {
			return c10Verdict{why: "verify-share table key is not the validator key of an iteration over allPubSharesByKey", unsure: c10LeafUnsure(keyT, pfx)}
		}
		if !valT.is("lookup") || len(valT.args) != 2 {
			return c10Verdict{why: "verify-share table value is not shares[shareIdx]", unsure: c10LeafUnsure(valT, pfx)}
		}
		shares := valT.args[0]
		fromIter := shares.is("ext", "2") && shares.args[0].s == next.s
		fromTable := shares.is("lookup") && len(shares.args) == 2 && shares.args[0].s == tableT.s && shares.args[1].s == keyT.s
		if !fromIter && !fromTable {
			return c10Verdict{why: "verify-share table value is not taken from the shares of the same validator", unsure: c10LeafUnsure(shares, pfx)}
		}
		if !c10RootedAt(valT.args[1], idxT) {
			return c10Verdict{why: "verify-share table value is not the share of this node's shareIdx"}
		}
	}
	if n == 0 {
		return c10Verdict{why: "verify-share table is never filled"}
	}
	return c10Verdict{ok: true}
}

// ---------------------------------------------------------------------------------------------
// Seeded one-edit variants for C10 (DESIGN §4.4 / Appendix C).
var c10Mutants = []Mutant{
	// ---- H1
	{ID: "C10-H1-syncmsg-no-verify", File: c10VapiFile, Expect: "H1|SubmitSyncCommitteeMessages",
		Old: "\t\terr = c.verifyPartialSig(ctx, parSigData, pk)\n\t\tif err != nil {\n\t\t\treturn err\n\t\t}\n\n\t\tlog.Debug(ctx, \"Sync committee message received",
		New: "\t\t_ = parSigData\n\n\t\tlog.Debug(ctx, \"Sync committee message received"},
	{ID: "C10-H1-syncmsg-other-value", File: c10VapiFile, Expect: "H1|SubmitSyncCommitteeMessages",
		Old: "psigsBySlot[slot][pk] = core.NewPartialSignedSyncMessage(msg, c.shareIdx)",
		New: "psigsBySlot[slot][pk] = core.NewPartialSignedSyncMessage(messages[0], c.shareIdx)"},
	{ID: "C10-H1-syncmsg-other-shareidx", File: c10VapiFile, Expect: "H1|SubmitSyncCommitteeMessages",
		Old: "psigsBySlot[slot][pk] = core.NewPartialSignedSyncMessage(msg, c.shareIdx)",
		New: "psigsBySlot[slot][pk] = core.NewPartialSignedSyncMessage(msg, c.shareIdx+1)"},
	{ID: "C10-H1-att-other-key", File: c10VapiFile, Expect: "H1|SubmitAttestations",
		Old: "\t\tset[pubkey] = parSigData",
		New: "\t\tset[core.PubKey(fmt.Sprint(valIdx))] = parSigData"},
	{ID: "C10-H1-exit-error-logged", File: c10VapiFile, Expect: "H1|SubmitVoluntaryExit",
		Old: "\terr = c.verifyPartialSig(ctx, parSigData, pubkey)\n\tif err != nil {\n\t\treturn err\n\t}\n\n\tlog.Info(ctx, \"Voluntary exit submitted",
		New: "\terr = c.verifyPartialSig(ctx, parSigData, pubkey)\n\tif err != nil {\n\t\tlog.Warn(ctx, \"invalid partial signature\", err)\n\t}\n\n\tlog.Info(ctx, \"Voluntary exit submitted"},
	{ID: "C10-H1-aggatt-check-weakened", File: c10VapiFile, Expect: "H1|SubmitAggregateAttestations",
		Old: "\t\terr = c.verifyPartialSig(ctx, parSigData, pk)\n\t\tif err != nil {\n\t\t\treturn err\n\t\t}\n\n\t\t_, ok = psigsBySlot[slot]\n\t\tif !ok {\n\t\t\tpsigsBySlot[slot] = make(core.ParSignedDataSet)\n\t\t}\n\n\t\tpsigsBySlot[slot][pk] = parSigData",
		New: "\t\terr = c.verifyPartialSig(ctx, parSigData, pk)\n\t\tif err != nil && len(psigsBySlot) == 0 {\n\t\t\treturn err\n\t\t}\n\n\t\t_, ok = psigsBySlot[slot]\n\t\tif !ok {\n\t\t\tpsigsBySlot[slot] = make(core.ParSignedDataSet)\n\t\t}\n\n\t\tpsigsBySlot[slot][pk] = parSigData"},
	{ID: "C10-H1-randao-verify-other", File: c10VapiFile, Expect: "H1|Proposal",
		Old: "\terr = c.verifyPartialSig(ctx, parSig, pubkey)\n\tif err != nil {\n\t\treturn nil, err\n\t}\n\n\tfor _, sub := range c.subs {",
		New: "\terr = c.verifyPartialSig(ctx, core.NewPartialSignedRandao(sigEpoch.Epoch, sigEpoch.Signature, c.shareIdx+1), pubkey)\n\tif err != nil {\n\t\treturn nil, err\n\t}\n\n\tfor _, sub := range c.subs {"},
	{ID: "C10-H1-selection-verify-after-continue", File: c10VapiFile, Expect: "H1|SyncCommitteeSelections",
		Old: "\t\t// Verify selection proof.\n\t\terr = c.verifyPartialSig(ctx, parSigData, pubkey)\n\t\tif err != nil {\n\t\t\treturn nil, err\n\t\t}\n",
		New: "\t\t// Verify selection proof.\n\t\tif i == 0 {\n\t\t\terr = c.verifyPartialSig(ctx, parSigData, pubkey)\n\t\t\tif err != nil {\n\t\t\t\treturn nil, err\n\t\t\t}\n\t\t}\n"},
	// ---- H2
	{ID: "C10-H2-nil-on-unknown-share", File: c10VapiFile, Expect: "H2|verifyPartialSig",
		Old: "\tpubshare, err := c.getVerifyShareFunc(pubkey)\n\tif err != nil {\n\t\treturn err\n\t}",
		New: "\tpubshare, err := c.getVerifyShareFunc(pubkey)\n\tif err != nil {\n\t\treturn nil\n\t}"},
	{ID: "C10-H2-share-error-logged", File: c10VapiFile, Expect: "H2|verifyPartialSig",
		Old: "\tpubshare, err := c.getVerifyShareFunc(pubkey)\n\tif err != nil {\n\t\treturn err\n\t}",
		New: "\tpubshare, err := c.getVerifyShareFunc(pubkey)\n\tif err != nil {\n\t\tlog.Warn(ctx, \"unknown share\", err)\n\t}"},
	{ID: "C10-H2-insecure-weakened", File: c10VapiFile, Expect: "H2|verifyPartialSig",
		Old: "\tif c.insecureTest {\n\t\treturn nil\n\t}",
		New: "\tif c.insecureTest || c.shareIdx == 0 {\n\t\treturn nil\n\t}"},
	{ID: "C10-H2-zero-share", File: c10VapiFile, Expect: "H2|verifyPartialSig",
		Old: "return core.VerifyEth2SignedData(ctx, c.eth2Cl, eth2Signed, pubshare)",
		New: "return core.VerifyEth2SignedData(ctx, c.eth2Cl, eth2Signed, func() tbls.PublicKey { _ = pubshare; return tbls.PublicKey{} }())"},
	{ID: "C10-H2-insecure-in-production-ctor", File: c10VapiFile, Expect: "H2|sets insecureTest",
		Old: "\t\tswallowRegFilter:   log.Filter(),\n\t}, nil",
		New: "\t\tswallowRegFilter:   log.Filter(),\n\t\tinsecureTest:       shareIdx == 0,\n\t}, nil"},
	{ID: "C10-H2-insecure-ctor-in-app", File: "app/app.go", Expect: "H2|NewComponentInsecure referenced",
		Old: "validatorapi.NewComponent(eth2Cl, allPubSharesByKey, nodeIdx.ShareIdx, builderRegSvc.FeeRecipient, conf.BuilderAPI, lock.TargetGasLimit)",
		New: "validatorapi.NewComponentInsecure(nil, eth2Cl, nodeIdx.ShareIdx)"},
	{ID: "C10-H2-aggproof-skip-weakened", File: c10VapiFile, Expect: "H2|SubmitAggregateAttestations",
		Old: "\t\tif !c.insecureTest {\n\t\t\terr = signing.VerifyAggregateAndProofSelection(",
		New: "\t\tif !c.insecureTest && c.builderEnabled {\n\t\t\terr = signing.VerifyAggregateAndProofSelection("},
	{ID: "C10-H2-contribproof-error-logged", File: c10VapiFile, Expect: "H2|SubmitSyncCommitteeContributions",
		Old: "\t\t\terr = core.VerifyEth2SignedData(ctx, c.eth2Cl, msg, tbls.PublicKey(eth2Pubkey))\n\t\t\tif err != nil {\n\t\t\t\treturn err\n\t\t\t}",
		New: "\t\t\terr = core.VerifyEth2SignedData(ctx, c.eth2Cl, msg, tbls.PublicKey(eth2Pubkey))\n\t\t\tif err != nil {\n\t\t\t\tlog.Warn(ctx, \"bad selection proof\", err)\n\t\t\t}"},
	{ID: "C10-H2-contribproof-other-object", File: c10VapiFile, Expect: "H2|SubmitSyncCommitteeContributions",
		Old: "msg := core.NewSyncContributionAndProof(contrib.Message)",
		New: "msg := core.NewSyncContributionAndProof(contributionAndProofs[0].Message)"},
	// ---- H3
	{ID: "C10-H3-break-after-first", File: c10PSXFile, Expect: "H3|verifyFunc",
		Old: "\t\t\treturn nil, false, errors.Wrap(err, \"invalid partial signature\")\n\t\t}\n",
		New: "\t\t\treturn nil, false, errors.Wrap(err, \"invalid partial signature\")\n\t\t}\n\n\t\tbreak\n"},
	{ID: "C10-H3-verify-error-logged", File: c10PSXFile, Expect: "H3|verifyFunc",
		Old: "\t\t\treturn nil, false, errors.Wrap(err, \"invalid partial signature\")",
		New: "\t\t\tlog.Warn(ctx, \"invalid partial signature\", err)"},
	{ID: "C10-H3-verify-skips-exits", File: c10PSXFile, Expect: "H3|verifyFunc",
		Old: "\tfor pubkey, data := range set {\n",
		New: "\tfor pubkey, data := range set {\n\t\tif duty.Type == core.DutyExit {\n\t\t\tcontinue\n\t\t}\n"},
	{ID: "C10-H3-no-gater", File: c10PSXFile, Expect: "H3|gaterFunc",
		Old: "\tif !m.gaterFunc(duty) {\n\t\treturn nil, false, errors.New(\"invalid duty\")\n\t}\n",
		New: ""},
	{ID: "C10-H3-gater-weakened", File: c10PSXFile, Expect: "H3|gaterFunc",
		Old: "\tif !m.gaterFunc(duty) {",
		New: "\tif !m.gaterFunc(duty) && duty.Slot == 0 {"},
	{ID: "C10-H3-gater-other-duty", File: c10PSXFile, Expect: "H3|gaterFunc",
		Old: "\tif !m.gaterFunc(duty) {",
		New: "\tif !m.gaterFunc(core.Duty{Type: duty.Type}) {"},
	// ---- H4
	{ID: "C10-H4-fixed-share", File: c10PSXFile, Expect: "H4|pubshare=",
		Old: "pubshare, ok := pubshares[data.ShareIdx]",
		New: "pubshare, ok := pubshares[1]"},
	{ID: "C10-H4-unknown-shareidx-accepted", File: c10PSXFile, Expect: "H4|unknown share index",
		Old: "\t\tpubshare, ok := pubshares[data.ShareIdx]\n\t\tif !ok {\n\t\t\treturn errors.New(\"invalid shareIdx\")\n\t\t}",
		New: "\t\tpubshare, ok := pubshares[data.ShareIdx]\n\t\tif !ok {\n\t\t\tlog.Debug(ctx, \"invalid shareIdx\")\n\t\t}"},
	{ID: "C10-H4-unknown-pubkey-accepted", File: c10PSXFile, Expect: "H4|unknown pubkey",
		Old: "\t\tif !ok {\n\t\t\treturn errors.New(\"unknown pubkey, not part of cluster lock\")\n\t\t}",
		New: "\t\tif !ok && len(pubSharesByKey) == 0 {\n\t\t\treturn errors.New(\"unknown pubkey, not part of cluster lock\")\n\t\t}"},
	{ID: "C10-H4-verify-error-logged", File: c10PSXFile, Expect: "H4|nil only via",
		Old: "\t\t\treturn errors.Wrap(err, \"invalid signature\", z.Str(\"duty\", duty.String()))",
		New: "\t\t\tlog.Warn(ctx, \"invalid signature\", err, z.Str(\"duty\", duty.String()))"},
	// ---- H5
	{ID: "C10-H5-blinded-mismatch-logged", File: c10VapiFile, Expect: "H5|SubmitBlindedProposal",
		Old: "\t}, prop); err != nil {\n\t\treturn errors.Wrap(err, \"consensus proposal and VC-submitted one do not match\")",
		New: "\t}, prop); err != nil {\n\t\tlog.Warn(ctx, \"consensus proposal and VC-submitted one do not match\", err)"},
	{ID: "C10-H5-proposal-check-weakened", File: c10VapiFile, Expect: "H5|SubmitProposal",
		Old: "\tif err := propDataMatchesDuty(opts, prop); err != nil {",
		New: "\tif err := propDataMatchesDuty(opts, prop); err != nil && c.builderEnabled {"},
	{ID: "C10-H5-proposal-self-compare", File: c10VapiFile, Expect: "H5|SubmitProposal",
		Old: "\tif err := propDataMatchesDuty(opts, prop); err != nil {",
		New: "\tif err := propDataMatchesDuty(&eth2api.SubmitProposalOpts{Proposal: &eth2api.VersionedSignedProposal{Version: prop.Version, Blinded: prop.Blinded}}, prop); err != nil {"},
	{ID: "C10-H5-roots-weakened", File: c10VapiFile, Expect: "H5|checkHashes",
		Old: "\t\tif ddb != vc {",
		New: "\t\tif ddb != vc && d2 == nil {"},
	{ID: "C10-H5-altair-unchecked", File: c10VapiFile, Expect: "H5|propDataMatchesDuty",
		Old: "\t\treturn checkHashes(prop.Altair, opts.Proposal.Altair.Message)",
		New: "\t\treturn nil"},
	{ID: "C10-H5-capella-self-compare", File: c10VapiFile, Expect: "H5|propDataMatchesDuty",
		Old: "\t\treturn checkHashes(prop.Capella, opts.Proposal.Capella.Message)",
		New: "\t\treturn checkHashes(prop.Capella, prop.Capella)"},
	{ID: "C10-H5-fulu-case-dropped", File: c10VapiFile, Expect: "H5|version switch",
		Old: "\tcase eth2spec.DataVersionFulu:\n\t\tif prop.Blinded {\n\t\t\treturn checkHashes(prop.FuluBlinded, opts.Proposal.FuluBlinded.Message)\n\t\t}\n\n\t\treturn checkHashes(prop.Fulu.Block, opts.Proposal.Fulu.SignedBlock.Message)\n",
		New: ""},
	{ID: "C10-H5-version-check-weakened", File: c10VapiFile, Expect: "H5|Version equal",
		Old: "\tif opts.Proposal.Version != prop.Version {",
		New: "\tif opts.Proposal.Version != prop.Version && prop.Blinded {"},
	// ---- H6
	{ID: "C10-H6-zero-indexed-shares", File: "app/app.go", Expect: "H6|share table entry",
		Old: "\t\t\tallPubShares[i+1] = pubshare",
		New: "\t\t\tallPubShares[i] = pubshare"},
	{ID: "C10-H6-noop-verifier", File: "app/app.go", Expect: "H6|parsigex verifier",
		Old: "\t\tverifyFunc, err := parsigex.NewEth2Verifier(eth2Cl, allPubSharesByKey)\n\t\tif err != nil {\n\t\t\treturn err\n\t\t}\n",
		New: "\t\tverifyFunc, err := parsigex.NewEth2Verifier(eth2Cl, allPubSharesByKey)\n\t\tif err != nil {\n\t\t\treturn err\n\t\t}\n\n\t\tverifyFunc = func(context.Context, peer.ID, core.Duty, core.PubKey, core.ParSignedData) error { return nil }\n"},
	{ID: "C10-H6-open-gater", File: "app/app.go", Expect: "H6|parsigex gater",
		Old: "peerIDs, verifyFunc, gaterFunc)",
		New: "peerIDs, verifyFunc, func(core.Duty) bool { return true })"},
	{ID: "C10-H6-next-nodes-share", File: c10VapiFile, Expect: "H6|getVerifyShareFunc",
		Old: "\t\tpubshare := shares[shareIdx]",
		New: "\t\tpubshare := shares[shareIdx+1]"},
	// ---- added with the path-sensitive reformulation (mechanisms it could have weakened)
	// the status of the verification is overwritten before it is tested (value tracking, not variable names)
	{ID: "C10-H1-aggatt-status-overwritten", File: c10VapiFile, Expect: "H1|SubmitAggregateAttestations",
		Old: "\t\t// Verify outer partial signature.\n\t\terr = c.verifyPartialSig(ctx, parSigData, pk)\n\t\tif err != nil {\n\t\t\treturn err\n\t\t}",
		New: "\t\t// Verify outer partial signature.\n\t\terr = c.verifyPartialSig(ctx, parSigData, pk)\n\t\t_, err = agg.Slot()\n\t\tif err != nil {\n\t\t\treturn err\n\t\t}"},
	// another condition than the verification status decides the early return
	{ID: "C10-H1-att-wrong-status-tested", File: c10VapiFile, Expect: "H1|SubmitAttestations",
		Old: "\t\terr = c.verifyPartialSig(ctx, parSigData, pubkey)\n\t\tif err != nil {\n\t\t\treturn err\n\t\t}\n\n\t\t// Encode partial signed data and add to a set",
		New: "\t\terr = c.verifyPartialSig(ctx, parSigData, pubkey)\n\t\tif ctx.Err() != nil {\n\t\t\treturn err\n\t\t}\n\n\t\t// Encode partial signed data and add to a set"},
	// polarity of the check inverted: the insertion happens exactly when the verification failed
	{ID: "C10-H1-selection-polarity-inverted", File: c10VapiFile, Expect: "H1|BeaconCommitteeSelections",
		Old: "\t\t// Verify slot signature.\n\t\terr = c.verifyPartialSig(ctx, parSigData, pubkey)\n\t\tif err != nil {\n\t\t\treturn nil, err\n\t\t}",
		New: "\t\t// Verify slot signature.\n\t\terr = c.verifyPartialSig(ctx, parSigData, pubkey)\n\t\tif err == nil {\n\t\t\treturn nil, err\n\t\t}"},
	// only the first element of the request is verified; the values of later iterations ride on a stale success
	{ID: "C10-H1-contrib-verify-first-only", File: c10VapiFile, Expect: "H1|SubmitSyncCommitteeContributions",
		Old: "\t\terr = c.verifyPartialSig(ctx, parSigData, pk)\n\t\tif err != nil {\n\t\t\treturn err\n\t\t}\n\n\t\tkey := slotSubcomm{Slot: slot, SubcommIdx: subcommIdx}",
		New: "\t\tif len(psigsBySlotSubcomm) == 0 {\n\t\t\terr = c.verifyPartialSig(ctx, parSigData, pk)\n\t\t\tif err != nil {\n\t\t\t\treturn err\n\t\t\t}\n\t\t}\n\n\t\tkey := slotSubcomm{Slot: slot, SubcommIdx: subcommIdx}"},
	{ID: "C10-H2-share-of-other-key", File: c10VapiFile, Expect: "H2|verifyPartialSig",
		Old: "\tpubshare, err := c.getVerifyShareFunc(pubkey)\n\tif err != nil {\n\t\treturn err\n\t}",
		New: "\tpubshare, err := c.getVerifyShareFunc(core.PubKey(c.eth2Cl.Address()))\n\tif err != nil {\n\t\treturn err\n\t}"},
	{ID: "C10-H2-aggproof-other-validator-key", File: c10VapiFile, Expect: "H2|SubmitAggregateAttestations",
		Old: "\t\t\terr = signing.VerifyAggregateAndProofSelection(ctx, c.eth2Cl, tbls.PublicKey(eth2Pubkey), agg)",
		New: "\t\t\terr = signing.VerifyAggregateAndProofSelection(ctx, c.eth2Cl, tbls.PublicKey(vals[0]), agg)"},
	{ID: "C10-H3-gater-inverted", File: c10PSXFile, Expect: "H3|gaterFunc",
		Old: "\tif !m.gaterFunc(duty) {",
		New: "\tif m.gaterFunc(duty) {"},
	// the set that was verified is dropped; the subscribers receive a second, unverified decoding of the request
	{ID: "C10-H3-subs-get-redecoded-set", File: c10PSXFile, Expect: "H3|verifyFunc",
		Old: "\t\terr := sub(ctx, duty, set)",
		New: "\t\tother, err := core.ParSignedDataSetFromProto(duty.Type, pb.GetDataSet())\n\t\tif err != nil {\n\t\t\tcontinue\n\t\t}\n\n\t\terr = sub(ctx, duty, other)"},
	{ID: "C10-H3-verify-other-duty", File: c10PSXFile, Expect: "H3|verifyFunc",
		Old: "\t\tif err = m.verifyFunc(ctx, sender, duty, pubkey, data); err != nil {",
		New: "\t\tif err = m.verifyFunc(ctx, sender, core.Duty{Slot: duty.Slot, Type: core.DutyAttester}, pubkey, data); err != nil {"},
	{ID: "C10-H4-signeddata-assert-unchecked-nil-return", File: c10PSXFile, Expect: "H4|nil only via",
		Old: "\t\tif !ok {\n\t\t\treturn errors.New(\"invalid eth2 signed data\")\n\t\t}",
		New: "\t\tif !ok {\n\t\t\treturn nil\n\t\t}"},
	{ID: "C10-H5-blinded-check-dropped", File: c10VapiFile, Expect: "H5|Blinded equal",
		Old: "\tif opts.Proposal.Blinded != prop.Blinded {",
		New: "\tif opts.Proposal.Blinded != prop.Blinded && prop.Version == eth2spec.DataVersionPhase0 {"},
	{ID: "C10-H5-deneb-compares-electra-payload", File: c10VapiFile, Expect: "H5|propDataMatchesDuty",
		Old: "\t\treturn checkHashes(prop.Deneb.Block, opts.Proposal.Deneb.SignedBlock.Message)",
		New: "\t\treturn checkHashes(prop.Deneb.Block, opts.Proposal.Electra.SignedBlock.Message)"},
	{ID: "C10-H5-roots-error-ignored", File: c10VapiFile, Expect: "H5|checkHashes",
		Old: "\t\tvc, err := d2.HashTreeRoot()\n\t\tif err != nil {\n\t\t\treturn errors.Wrap(err, \"hash tree root dutydb\")\n\t\t}",
		New: "\t\tvc, _ := d2.HashTreeRoot()"},
	{ID: "C10-H5-blinded-await-error-ignored", File: c10VapiFile, Expect: "H5|SubmitBlindedProposal",
		Old: "\tctx = log.WithCtx(ctx, z.Any(\"duty\", duty))\n\n\tpubkey, err := c.getProposerPubkey(ctx, duty)\n\tif err != nil {\n\t\treturn err\n\t}\n\n\tprop, err := c.awaitProposalFunc(ctx, uint64(slot))\n\tif err != nil {\n\t\treturn errors.Wrap(err, \"could not fetch block definition from dutydb\")\n\t}",
		New: "\tctx = log.WithCtx(ctx, z.Any(\"duty\", duty))\n\n\tpubkey, err := c.getProposerPubkey(ctx, duty)\n\tif err != nil {\n\t\treturn err\n\t}\n\n\tprop, err := c.awaitProposalFunc(ctx, uint64(slot))\n\tif err != nil {\n\t\tprop = new(eth2api.VersionedProposal)\n\t}"},
	{ID: "C10-H6-fresh-table-for-vapi", File: "app/app.go", Expect: "H6|same share table",
		Old: "validatorapi.NewComponent(eth2Cl, allPubSharesByKey, nodeIdx.ShareIdx,",
		New: "validatorapi.NewComponent(eth2Cl, map[core.PubKey]map[int]tbls.PublicKey{}, nodeIdx.ShareIdx,"},
	{ID: "C10-H6-shares-of-first-validator", File: "app/app.go", Expect: "H6|share table entry",
		Old: "\t\tfor i, b := range val.PubShares {",
		New: "\t\tfor i, b := range lock.Validators[0].PubShares {"},
}

func init() {
	// C01 re-uses H1/H3 (crosslinks.go): keep positive examples on that side too.
	Extend("C01", "", func(*rt.Ctx) {},
		Mutant{ID: "C01-link-exit-stored-unverified", File: c10VapiFile, Expect: "C10.H1|SubmitVoluntaryExit",
			Old: "\t// Verify voluntary exit signature\n\terr = c.verifyPartialSig(ctx, parSigData, pubkey)\n\tif err != nil {\n\t\treturn err\n\t}",
			New: "\t// Verify voluntary exit signature\n\tif !c.builderEnabled {\n\t\terr = c.verifyPartialSig(ctx, parSigData, pubkey)\n\t\tif err != nil {\n\t\t\treturn err\n\t\t}\n\t}"},
		Mutant{ID: "C01-link-randao-verified-under-other-key", File: c10VapiFile, Expect: "C10.H1|Proposal",
			Old: "\terr = c.verifyPartialSig(ctx, parSig, pubkey)\n\tif err != nil {\n\t\treturn nil, err\n\t}\n\n\tfor _, sub := range c.subs {",
			New: "\terr = c.verifyPartialSig(ctx, parSig, pubkey)\n\tif err != nil {\n\t\treturn nil, err\n\t}\n\n\tpubkey = core.PubKey(opts.Graffiti[:])\n\n\tfor _, sub := range c.subs {"},
		Mutant{ID: "C01-link-parsigex-verify-every-other", File: c10PSXFile, Expect: "C10.H3|verifyFunc",
			Old: "\tfor pubkey, data := range set {\n",
			New: "\tfor pubkey, data := range set {\n\t\tif len(pubkey)%2 == 1 {\n\t\t\tcontinue\n\t\t}\n"},
		Mutant{ID: "C01-link-parsigex-gater-result-dropped", File: c10PSXFile, Expect: "C10.H3|gaterFunc",
			Old: "\tif !m.gaterFunc(duty) {\n\t\treturn nil, false, errors.New(\"invalid duty\")\n\t}\n",
			New: "\tif !m.gaterFunc(duty) {\n\t\tlog.Debug(ctx, \"invalid duty\")\n\t}\n"})
}
