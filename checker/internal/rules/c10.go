package rules

import (
	"fmt"
	"go/constant"
	"go/token"
	"go/types"
	"sort"
	"strings"

	"golang.org/x/tools/go/ssa"

	"charonverif/internal/an"
	"charonverif/internal/rt"
)

func init() {
	Register(&Prop{
		ID: "C10",
		Decides: "(H1) every insertion into a core.ParSignedDataSet in core/validatorapi is dominated by a checked Component.verifyPartialSig on the same key and the same (or identically constructed) value, and every set handed to c.subs is built in the calling function; " +
			"(H2) verifyPartialSig returns nil only through core.VerifyEth2SignedData against getVerifyShareFunc(pubkey) or under insecureTest, insecureTest is set only by NewComponentInsecure which has no non-test caller, the inner selection-proof verifications are skipped only under insecureTest; " +
			"(H3) parsigex.ParSigEx.handle gates the duty and verifies every element of the received set before the subscriber fan-out, which receives the verified set; " +
			"(H4) NewEth2Verifier rejects unknown pubkey / share index and verifies against pubSharesByKey[pubkey][data.ShareIdx]; " +
			"(H5) SubmitProposal/SubmitBlindedProposal admit a block only after propDataMatchesDuty succeeded against the agreed proposal, which returns nil only for equal hash tree roots and covers every proposal version; " +
			"(H6) production wiring: the parsigex verifier, the duty gater and the validator API share table all come from the lock's 1-indexed public shares.",
		NotDecided: "what 'verifies' means cryptographically (BLS, domains, signing roots: C08/C09), and that the beacon-node answers used for key lookup are right.",
		Run:        c10,
		Mutants:    c10Mutants,
	})
}

const (
	c10Vapi     = "core/validatorapi"
	c10Comp     = "core/validatorapi.Component"
	c10VerifyPS = "core/validatorapi.Component.verifyPartialSig"
	c10VerifyE2 = "core.VerifyEth2SignedData"
	c10SetType  = "core.ParSignedDataSet"
	c10PSDType  = "core.ParSignedData"
	c10PubKeyT  = "core.PubKey"
	c10PSX      = "core/parsigex.ParSigEx"
	c10VapiFile = "core/validatorapi/validatorapi.go"
	c10PSXFile  = "core/parsigex/parsigex.go"
)

// c10Inner: partial-signature constructors whose payload carries an inner selection proof, and the
// verifier that must have accepted that proof (unless insecureTest) before the value is stored.
var c10Inner = map[string]string{
	"core.NewPartialVersionedSignedAggregateAndProof": "eth2util/signing.VerifyAggregateAndProofSelection",
	"core.NewPartialSignedSyncContributionAndProof":   c10VerifyE2,
}

func c10(c *rt.Ctx) {
	c.Rule("H1", 20, func() { c10H1(c) })
	c.Rule("H2", 9, func() { c10H2(c) })
	c.Rule("H3", 3, func() { c10H3(c) })
	c.Rule("H4", 5, func() { c10H4(c) })
	c.Rule("H5", 20, func() { c10H5(c) })
	c.Rule("H6", 5, func() { c10H6(c) })
}

// ---------------------------------------------------------------------------------------------
// generic helpers (all prefixed c10)

func c10IsSet(t types.Type) bool { return an.TypeName(t) == c10SetType }

// c10Field bails unless struct type pkg.typ has a field named name; returns its FieldKey.
func c10Field(c *rt.Ctx, pkgRel, typ, name string) string {
	obj := c.Pkg(pkgRel).Types.Scope().Lookup(typ)
	if obj == nil {
		c.Bail("type %s.%s not found", pkgRel, typ)
	}
	st, ok := obj.Type().Underlying().(*types.Struct)
	if !ok {
		c.Bail("%s.%s is not a struct", pkgRel, typ)
	}
	for i := 0; i < st.NumFields(); i++ {
		if st.Field(i).Name() == name {
			return an.FieldKey(obj.Type(), i)
		}
	}
	c.Bail("field %s.%s.%s not found", pkgRel, typ, name)
	return ""
}

// c10ArgOfType returns the unique call argument whose type has the given short name.
func c10ArgOfType(call ssa.CallInstruction, short string) ssa.Value {
	var out ssa.Value
	for _, a := range call.Common().Args {
		if an.TypeName(a.Type()) == short {
			if _, isPtr := a.Type().(*types.Pointer); isPtr {
				continue
			}
			if out != nil {
				return nil
			}
			out = a
		}
	}
	return out
}

// c10ParamOfType returns the unique parameter of fn with the given short type name.
func c10ParamOfType(fn *ssa.Function, short string) *ssa.Parameter {
	var out *ssa.Parameter
	for _, p := range fn.Params {
		if an.TypeName(p.Type()) == short {
			if _, isPtr := p.Type().(*types.Pointer); isPtr {
				continue
			}
			if out != nil {
				return nil
			}
			out = p
		}
	}
	return out
}

// c10Immutable: the local is written exactly once as a whole and never through a field/element
// address, and its address does not escape into a call.
func c10Immutable(a *ssa.Alloc) bool {
	stores := 0
	var ok func(v ssa.Value, root bool) bool
	ok = func(v ssa.Value, root bool) bool {
		refs := v.Referrers()
		if refs == nil {
			return false
		}
		for _, ref := range *refs {
			switch x := ref.(type) {
			case *ssa.Store:
				if x.Addr != v {
					return false // the address itself is stored somewhere
				}
				if !root {
					return false
				}
				stores++
			case *ssa.UnOp:
				if x.Op != token.MUL {
					return false
				}
			case *ssa.FieldAddr:
				if !ok(x, false) {
					return false
				}
			case *ssa.IndexAddr:
				if !ok(x, false) {
					return false
				}
			case *ssa.Slice, *ssa.DebugRef:
				// a slice of an array local only reads here (passed to pure converters)
			default:
				return false
			}
		}
		return true
	}
	return ok(a, true) && stores == 1
}

// c10Same: a and b denote the same value: the identical SSA value, or an.Equiv values whose
// differing parts are loads of immutable locals and calls of pure core.New* constructors.
func c10Same(a, b ssa.Value) bool {
	if an.Unwrap(a) == an.Unwrap(b) {
		return true
	}
	if !an.Equiv(a, b) {
		return false
	}
	good := true
	seen := map[ssa.Value]bool{}
	var walk func(v ssa.Value, d int)
	walk = func(v ssa.Value, d int) {
		v = an.Unwrap(v)
		if seen[v] || d > 8 {
			return
		}
		seen[v] = true
		switch x := v.(type) {
		case *ssa.Alloc:
			if !c10Immutable(x) {
				good = false
			}
		case *ssa.UnOp:
			walk(x.X, d+1)
		case *ssa.FieldAddr:
			walk(x.X, d+1)
		case *ssa.Field:
			walk(x.X, d+1)
		case *ssa.Extract:
			walk(x.Tuple, d+1)
		case *ssa.Call:
			f := x.Call.StaticCallee()
			if f == nil || !strings.HasPrefix(an.FuncName(f), "core.New") && an.FuncName(f) != "core.DutyFromProto" {
				good = false
				return
			}
			for _, arg := range x.Call.Args {
				walk(arg, d+1)
			}
		}
	}
	walk(a, 0)
	walk(b, 0)
	return good
}

// c10Ctor returns the static constructor call that produced v (looking through tuple extraction).
func c10Ctor(v ssa.Value) *ssa.Call {
	v = an.Unwrap(v)
	if ex, ok := v.(*ssa.Extract); ok {
		v = ex.Tuple
	}
	call, ok := v.(*ssa.Call)
	if !ok || call.Call.StaticCallee() == nil {
		return nil
	}
	return call
}

// c10Reach: can control reach block `to` from the top of `from` without entering blocks in avoid
// and without following pruned edges.
func c10Reach(from, to *ssa.BasicBlock, avoid map[*ssa.BasicBlock]bool, prune func(b *ssa.BasicBlock, succ int) bool) bool {
	seen := map[*ssa.BasicBlock]bool{}
	var walk func(b *ssa.BasicBlock) bool
	walk = func(b *ssa.BasicBlock) bool {
		if seen[b] || avoid[b] {
			return false
		}
		seen[b] = true
		if b == to {
			return true
		}
		for i, s := range b.Succs {
			if prune != nil && prune(b, i) {
				continue
			}
			if walk(s) {
				return true
			}
		}
		return false
	}
	return walk(from)
}

// c10InsecurePrune prunes the edges taken when a load of Component.insecureTest is true.
func c10InsecurePrune(fn *ssa.Function, key string) (func(b *ssa.BasicBlock, succ int) bool, int) {
	type edge struct {
		b *ssa.BasicBlock
		i int
	}
	edges := map[edge]bool{}
	for _, in := range an.Instrs(fn, false) {
		if !isLoadOfField(in, key) {
			continue
		}
		v := in.(ssa.Value)
		for _, cd := range an.CondsOn(fn, v) {
			if cd.Other != nil {
				continue
			}
			t := cd.Succ(true)
			for i, s := range cd.If.Block().Succs {
				if s == t {
					edges[edge{cd.If.Block(), i}] = true
				}
			}
		}
	}
	return func(b *ssa.BasicBlock, i int) bool { return edges[edge{b, i}] }, len(edges)
}

// c10ErrChecked: every error status of g is branched on after g with the failing edge unable to
// reach sink without re-executing g.
func c10ErrChecked(g ssa.CallInstruction, sink ssa.Instruction) (bool, string) {
	errs, _ := an.StatusOf(g, -1)
	if len(errs) == 0 {
		return false, "error result of the check is discarded"
	}
	avoid := map[*ssa.BasicBlock]bool{g.Block(): true}
	for _, e := range errs {
		found := false
		for _, cd := range an.CondsOn(g.Parent(), e) {
			if cd.Other == nil || !an.IsNilConst(cd.Other) || !an.Dominates(g, cd.If) {
				continue
			}
			var fail *ssa.BasicBlock
			switch cd.Op {
			case token.NEQ:
				fail = cd.Succ(true)
			case token.EQL:
				fail = cd.Succ(false)
			default:
				continue
			}
			if fail == sink.Block() || c10Reach(fail, sink.Block(), avoid, nil) {
				continue
			}
			found = true
		}
		if !found {
			return false, "no branch on the check's error cuts the failing edge off from the sink"
		}
	}
	return true, ""
}

// c10GuardedUnless: every path from the function entry to sink passes the checked call g, except
// paths that take an insecureTest==true edge.
func c10GuardedUnless(g ssa.CallInstruction, sink ssa.Instruction, prune func(b *ssa.BasicBlock, succ int) bool) (bool, string) {
	if ok, why := c10ErrChecked(g, sink); !ok {
		return false, why
	}
	fn := g.Parent()
	if g.Block() == sink.Block() {
		if an.Dominates(g, sink) {
			return true, ""
		}
		return false, "check comes after the sink"
	}
	if c10Reach(fn.Blocks[0], sink.Block(), map[*ssa.BasicBlock]bool{g.Block(): true}, prune) {
		return false, "a path that is not conditional on insecureTest reaches the sink without the check"
	}
	return true, ""
}

type c10Ret struct {
	v  ssa.Value
	at ssa.Instruction // the return, or the last instruction of the phi predecessor
}

// c10ErrReturns lists the values returned in the (last) error result of fn, phi edges expanded.
func c10ErrReturns(c *rt.Ctx, fn *ssa.Function) []c10Ret {
	if fn.Recover != nil {
		c.Bail("%s has deferred calls: results are spilled, return analysis not applicable", an.FuncName(fn))
	}
	var out []c10Ret
	for _, r := range an.Returns(fn) {
		if len(r.Results) == 0 || !an.IsErrorType(r.Results[len(r.Results)-1].Type()) {
			c.Bail("%s does not return an error as last result", an.FuncName(fn))
		}
		v := r.Results[len(r.Results)-1]
		if phi, ok := v.(*ssa.Phi); ok && phi.Block() == r.Block() {
			for i, e := range phi.Edges {
				p := phi.Block().Preds[i]
				out = append(out, c10Ret{e, p.Instrs[len(p.Instrs)-1]})
			}
			continue
		}
		out = append(out, c10Ret{v, r})
	}
	return out
}

// c10NonNil: v cannot be nil where it is returned: built by errors.New/Wrap, or returned on the
// `v != nil` edge of a branch.
func c10NonNil(v ssa.Value, at ssa.Instruction) bool {
	if call, ok := v.(*ssa.Call); ok {
		if an.Static("app/errors.New", "app/errors.Wrap")(&call.Call) {
			return true
		}
	}
	if k, ok := v.(*ssa.Const); ok && k.Value == nil {
		return false
	}
	for _, cd := range an.CondsOn(at.Parent(), v) {
		if cd.Other == nil || !an.IsNilConst(cd.Other) {
			continue
		}
		var nn *ssa.BasicBlock
		switch cd.Op {
		case token.NEQ:
			nn = cd.Succ(true)
		case token.EQL:
			nn = cd.Succ(false)
		default:
			continue
		}
		if nn.Dominates(at.Block()) && len(nn.Preds) == 1 {
			return true
		}
	}
	return false
}

func c10IsNilConst(v ssa.Value) bool {
	k, ok := v.(*ssa.Const)
	return ok && k.Value == nil
}

// c10CommaOkChecked: the ok of a `v, ok := m[k]` / type assertion tuple is branched on and its false
// edge cannot reach sink.
func c10CommaOkChecked(tuple ssa.Value, sink ssa.Instruction) bool {
	refs := tuple.Referrers()
	if refs == nil {
		return false
	}
	for _, ref := range *refs {
		ex, ok := ref.(*ssa.Extract)
		if !ok || ex.Index != 1 {
			continue
		}
		for _, cd := range an.CondsOn(sink.Parent(), ex) {
			if cd.Other != nil {
				continue
			}
			if cd.If.Block().Dominates(sink.Block()) && an.EdgeCuts(cd.Succ(false), sink, nil) && cd.Succ(false) != sink.Block() {
				return true
			}
		}
	}
	return false
}

// c10SubsCalls returns the calls through the named subs field in fn.
func c10SubsCalls(fn *ssa.Function, key string) []ssa.CallInstruction {
	return an.Calls(fn, an.FieldCall(key), false)
}

// ---------------------------------------------------------------------------------------------
// H1

// c10LocalSet: v is a ParSignedDataSet made in this function (directly, or taken out of a local
// map of sets whose every member was made in this function). The second result is true when the
// origin is a call (a helper may build the set: not decidable here, reported as undecided).
func c10LocalSet(v ssa.Value, seen map[ssa.Value]bool) (ok bool, unsure bool, why string) {
	v = an.Unwrap(v)
	if seen[v] {
		return true, false, ""
	}
	seen[v] = true
	switch x := v.(type) {
	case *ssa.MakeMap:
		if !c10IsSet(x.Type()) {
			return false, false, "set is made with another type"
		}
		for _, ref := range *x.Referrers() {
			switch r := ref.(type) {
			case *ssa.MapUpdate, *ssa.Lookup, *ssa.Range, *ssa.Phi, *ssa.DebugRef:
			case ssa.CallInstruction:
				cc := r.Common()
				if b, isB := cc.Value.(*ssa.Builtin); isB && b.Name() == "len" {
					continue
				}
				if cc.StaticCallee() == nil && !cc.IsInvoke() {
					if k, _, isF := an.FieldOf(cc.Value); isF && k == c10Comp+".subs" {
						continue
					}
				}
				if c10ReadOnlyArg(cc, x) {
					continue
				}
				return false, true, "set is handed to " + an.CalleeName(cc) + " which might add entries"
			default:
				return false, true, fmt.Sprintf("set escapes through %T", ref)
			}
		}
		return true, false, ""
	case *ssa.Phi:
		for _, e := range x.Edges {
			if ok, u, why := c10LocalSet(e, seen); !ok {
				return false, u, why
			}
		}
		return true, false, ""
	case *ssa.Lookup:
		return c10LocalSetMap(x.X, seen)
	case *ssa.Extract:
		switch t := x.Tuple.(type) {
		case *ssa.Lookup:
			if x.Index == 0 {
				return c10LocalSetMap(t.X, seen)
			}
		case *ssa.Next:
			if rg, isR := t.Iter.(*ssa.Range); isR && x.Index == 2 {
				return c10LocalSetMap(rg.X, seen)
			}
		case *ssa.Call:
			return false, true, "set is produced by " + an.CalleeName(&t.Call)
		}
	case *ssa.Call:
		return false, true, "set is produced by " + an.CalleeName(&x.Call)
	case *ssa.Parameter:
		// a fan-out helper: every in-package static call site must pass a set built by the caller
		fn := x.Parent()
		idx := -1
		for i, p := range fn.Params {
			if p == x {
				idx = i
			}
		}
		if fn.Pkg == nil || idx < 0 || fn.Parent() != nil || (fn.Object() != nil && fn.Object().Exported()) {
			return false, false, "set is a parameter of an exported function or literal"
		}
		n := 0
		for _, g := range an.PkgFuncs(fn.Pkg) {
			for _, in := range an.Instrs(g, false) {
				for _, op := range an.Operands(in) {
					if op != ssa.Value(fn) {
						continue
					}
					ci, isCall := in.(ssa.CallInstruction)
					if !isCall || ci.Common().StaticCallee() != fn || idx >= len(ci.Common().Args) {
						return false, true, "function receiving the set is used as a value"
					}
					n++
					if ok, u, why := c10LocalSet(ci.Common().Args[idx], seen); !ok {
						return false, u, why
					}
				}
			}
		}
		if n == 0 {
			return false, true, "function receiving the set has no caller in the package"
		}
		return true, false, ""
	}
	return false, false, "set is not built in this function"
}

// c10ReadOnlyArg: set is passed to an in-package static callee whose parameter is only read
// (looked up, ranged, measured, forwarded to the subscribers).
func c10ReadOnlyArg(cc *ssa.CallCommon, set ssa.Value) bool {
	f := cc.StaticCallee()
	if f == nil || f.Blocks == nil || f.Pkg == nil || an.Short(f.Pkg.Pkg.Path()) != c10Vapi {
		return false
	}
	for i, a := range cc.Args {
		if a != set {
			continue
		}
		if i >= len(f.Params) {
			return false
		}
		for _, ref := range *f.Params[i].Referrers() {
			switch r := ref.(type) {
			case *ssa.Lookup, *ssa.Range, *ssa.DebugRef:
			case ssa.CallInstruction:
				rc := r.Common()
				if b, isB := rc.Value.(*ssa.Builtin); isB && b.Name() == "len" {
					continue
				}
				if rc.StaticCallee() == nil && !rc.IsInvoke() {
					if k, _, isF := an.FieldOf(rc.Value); isF && k == c10Comp+".subs" {
						continue
					}
				}
				return false
			default:
				return false
			}
		}
	}
	return true
}

func c10LocalSetMap(m ssa.Value, seen map[ssa.Value]bool) (bool, bool, string) {
	mm, ok := m.(*ssa.MakeMap)
	if !ok {
		if _, isCall := an.Unwrap(m).(*ssa.Call); isCall {
			return false, true, "set is taken from a map produced by a callee"
		}
		return false, false, "set is taken from a map that is not made in this function"
	}
	mt, ok := mm.Type().Underlying().(*types.Map)
	if !ok || !c10IsSet(mt.Elem()) {
		return false, false, "set is taken from a map with another element type"
	}
	for _, ref := range *mm.Referrers() {
		switch r := ref.(type) {
		case *ssa.MapUpdate:
			if r.Map != ssa.Value(mm) {
				return false, true, "map of sets is stored elsewhere"
			}
			if ok, u, why := c10LocalSet(r.Value, seen); !ok {
				return false, u, why
			}
		case *ssa.Lookup, *ssa.Range, *ssa.DebugRef:
		case ssa.CallInstruction:
			if b, isB := r.Common().Value.(*ssa.Builtin); isB && (b.Name() == "len") {
				continue
			}
			return false, true, "map of sets is handed to " + an.CalleeName(r.Common())
		default:
			return false, true, fmt.Sprintf("map of sets escapes through %T", ref)
		}
	}
	return true, false, ""
}

// c10SetUpdates returns the MapUpdates into a ParSignedDataSet in fn (not nested literals).
func c10SetUpdates(fn *ssa.Function) []*ssa.MapUpdate {
	var out []*ssa.MapUpdate
	for _, in := range an.Instrs(fn, false) {
		if mu, ok := in.(*ssa.MapUpdate); ok && c10IsSet(mu.Map.Type()) {
			out = append(out, mu)
		}
	}
	return out
}

func c10H1(c *rt.Ctx) {
	c.Fn(c10VerifyPS) // anchor
	subsKey := c10Field(c, c10Vapi, "Component", "subs")
	for _, fn := range an.PkgFuncs(c.SSAPkg(c10Vapi)) {
		name := an.FuncName(fn)
		guards := an.Calls(fn, an.Static(c10VerifyPS), false)
		for _, mu := range c10SetUpdates(fn) {
			good, why := false, "no call to verifyPartialSig in this function"
			for _, g := range guards {
				pk, val := c10ArgOfType(g, c10PubKeyT), c10ArgOfType(g, c10PSDType)
				if pk == nil || val == nil {
					c.Bail("verifyPartialSig call with unexpected arguments in %s", name)
				}
				if !c10Same(pk, mu.Key) {
					why = "the public key that was verified is not the key the value is stored under"
					continue
				}
				if !c10Same(val, mu.Value) {
					why = "the value stored is neither the verified value nor an identical construction of it"
					continue
				}
				if ok, w := an.Guarded(g, mu, an.DefaultGuard); !ok {
					why = "verifyPartialSig: " + w
					continue
				}
				good = true
				break
			}
			if good {
				if ok, unsure, w := c10LocalSet(mu.Map, map[ssa.Value]bool{}); !ok {
					if unsure {
						c.Unsure(name+" ParSignedDataSet[pk]=verified", posOf(mu), w)
						continue
					}
					good, why = false, w
				}
			}
			c.Check(name+" ParSignedDataSet[pk]=verified", posOf(mu), good, why)
		}
		for _, call := range c10SubsCalls(fn, subsKey) {
			set := c10ArgOfType(call, c10SetType)
			if set == nil {
				c.Bail("call through subs without a ParSignedDataSet argument in %s", name)
			}
			ok, unsure, why := c10LocalSet(set, map[ssa.Value]bool{})
			if !ok && unsure {
				c.Unsure(name+" subs(set)", call.Pos(), "set handed to the subscribers: "+why)
				continue
			}
			c.Check(name+" subs(set)", call.Pos(), ok, "set handed to the subscribers: "+why)
		}
	}
}

// ---------------------------------------------------------------------------------------------
// H2

func c10H2(c *rt.Ctx) {
	fn := c.Fn(c10VerifyPS)
	insecKey := c10Field(c, c10Vapi, "Component", "insecureTest")
	gvsKey := c10Field(c, c10Vapi, "Component", "getVerifyShareFunc")
	pkP, dataP := c10ParamOfType(fn, c10PubKeyT), c10ParamOfType(fn, c10PSDType)
	if pkP == nil || dataP == nil {
		c.Bail("verifyPartialSig: unexpected signature")
	}
	verifs := c.SomeCalls(fn, an.Static(c10VerifyE2), c10VerifyE2, false)
	// (a) operands of the verification
	for _, v := range verifs {
		args := v.Common().Args
		if len(args) != 4 {
			c.Bail("VerifyEth2SignedData: unexpected arity")
		}
		good, why := false, "public share is not the result of getVerifyShareFunc(pubkey)"
		if ex, ok := an.Unwrap(args[3]).(*ssa.Extract); ok && ex.Index == 0 {
			if src, ok := ex.Tuple.(*ssa.Call); ok && an.FieldCall(gvsKey)(&src.Call) {
				switch {
				case len(src.Call.Args) != 1 || !rootedAt(src.Call.Args[0], pkP):
					why = "getVerifyShareFunc is not asked for the pubkey parameter"
				default:
					if g, w := an.Guarded(src, v, an.DefaultGuard); g {
						good = true
					} else {
						why = "getVerifyShareFunc: " + w
					}
				}
			}
		}
		c.Check("verifyPartialSig pubshare=getVerifyShareFunc(pubkey)", v.Pos(), good, why)
		data := false
		if ex, ok := an.Unwrap(args[2]).(*ssa.Extract); ok && ex.Index == 0 {
			if ta, ok := ex.Tuple.(*ssa.TypeAssert); ok {
				if k, base, ok := an.FieldOf(ta.X); ok && k == c10PSDType+".SignedData" && rootedAt(base, dataP) {
					data = true
				}
			}
		}
		c.Check("verifyPartialSig data=parSig.SignedData", v.Pos(), data, "the object verified is not the SignedData of the parSig parameter")
	}
	// (b) nil is returned only through the verification or under insecureTest
	prune, nIns := c10InsecurePrune(fn, insecKey)
	for _, r := range c10ErrReturns(c, fn) {
		if c10NonNil(r.v, r.at) {
			continue
		}
		via := false
		for _, v := range verifs {
			if an.Unwrap(r.v) == v.Value() {
				via = true
			} else if g, _ := an.Guarded(v, r.at, an.DefaultGuard); g {
				via = true
			}
		}
		if via {
			c.Good("verifyPartialSig return via VerifyEth2SignedData", posOf(r.at), "")
			continue
		}
		// only reachable through an insecureTest edge?
		ins := nIns > 0 && !c10Reach(fn.Blocks[0], r.at.Block(), nil, prune)
		c.Check("verifyPartialSig return without verification", posOf(r.at), ins && c10IsNilConst(r.v),
			"verifyPartialSig can return a nil error without VerifyEth2SignedData having succeeded and without insecureTest")
	}
	// (c) insecureTest is set only in NewComponentInsecure
	ctor := c.Fn(c10Vapi + ".NewComponentInsecure")
	stores := 0
	for _, f := range an.PkgFuncs(c.SSAPkg(c10Vapi)) {
		for _, in := range an.Instrs(f, false) {
			st, ok := in.(*ssa.Store)
			if !ok {
				continue
			}
			fa, ok := st.Addr.(*ssa.FieldAddr)
			if !ok || an.FieldKey(fa.X.Type(), fa.Field) != insecKey {
				continue
			}
			if k, ok := st.Val.(*ssa.Const); ok && k.Value != nil && !constant.BoolVal(k.Value) {
				continue // explicit false
			}
			stores++
			c.Check(an.FuncName(f)+" sets insecureTest", posOf(st), an.Orig(f) == ctor, "insecureTest is enabled outside NewComponentInsecure")
		}
	}
	if stores == 0 {
		c.Note("H2: insecureTest is never set")
	}
	// (d) NewComponentInsecure is test-only: *testing.T parameter and no reference from non-test code
	hasT := false
	for _, p := range ctor.Params {
		if an.TypeName(p.Type()) == "testing.T" {
			hasT = true
		}
	}
	c.Check("NewComponentInsecure takes *testing.T", ctor.Pos(), hasT, "test-only constructor lost its *testing.T marker parameter")
	var rels []string
	for path := range c.P.SSAPkgs {
		rels = append(rels, path)
	}
	sort.Strings(rels)
	refs := 0
	for _, path := range rels {
		for _, f := range an.PkgFuncs(c.P.SSAPkgs[path]) {
			for _, in := range an.Instrs(f, false) {
				for _, op := range an.Operands(in) {
					if g, ok := op.(*ssa.Function); ok && an.Orig(g) == ctor {
						refs++
						c.Bad("NewComponentInsecure referenced from "+an.FuncName(f), posOf(in), "the verification-free validator API constructor is used by non-test code")
					}
				}
			}
		}
	}
	if refs == 0 {
		c.Good("NewComponentInsecure has no non-test caller", ctor.Pos(), fmt.Sprintf("%d packages scanned", len(rels)))
	}
	// (e) inner selection proofs
	for _, f := range an.PkgFuncs(c.SSAPkg(c10Vapi)) {
		for _, mu := range c10SetUpdates(f) {
			ct := c10Ctor(mu.Value)
			if ct == nil {
				continue
			}
			want, ok := c10Inner[an.FuncName(ct.Call.StaticCallee())]
			if !ok {
				continue
			}
			pr, _ := c10InsecurePrune(f, insecKey)
			good, why := false, "no call to "+want+" in this function"
			for _, g := range an.Calls(f, an.Static(want), false) {
				if ok, w := c10InnerBinding(g, ct, mu); !ok {
					why = w
					continue
				}
				if ok, w := c10GuardedUnless(g, mu, pr); !ok {
					why = w
					continue
				}
				good = true
			}
			c.Check(an.FuncName(f)+" inner selection proof verified", posOf(mu), good, why)
		}
	}
}

// c10InnerBinding: the inner verification g checks the payload of the very object given to the
// partial-signature constructor ct, under the full public key of the validator the value is stored for.
func c10InnerBinding(g ssa.CallInstruction, ct *ssa.Call, mu *ssa.MapUpdate) (bool, string) {
	if len(ct.Call.Args) == 0 {
		return false, "constructor without payload"
	}
	elem := ct.Call.Args[0]
	// payload
	okData := false
	for _, a := range g.Common().Args {
		a = an.Unwrap(a)
		if a == an.Unwrap(elem) {
			okData = true
		}
		if call, ok := a.(*ssa.Call); ok && call.Call.StaticCallee() != nil && strings.HasPrefix(an.FuncName(call.Call.StaticCallee()), "core.New") &&
			len(call.Call.Args) == 1 && rootedAt(call.Call.Args[0], an.Unwrap(elem)) {
			okData = true
		}
	}
	if !okData {
		return false, "inner proof is verified on another object than the one stored"
	}
	// key: tbls.PublicKey(X) where the map key is core.PubKeyFromBytes(X[:])
	var pkAlloc ssa.Value
	for _, a := range g.Common().Args {
		if an.TypeName(a.Type()) != "tbls.PublicKey" {
			continue
		}
		if ld, ok := an.Unwrap(a).(*ssa.UnOp); ok && ld.Op == token.MUL {
			pkAlloc = ld.X
		}
	}
	if pkAlloc == nil {
		return false, "inner proof is not verified under a locally resolved validator public key"
	}
	key := an.Unwrap(mu.Key)
	if ex, ok := key.(*ssa.Extract); ok && ex.Index == 0 {
		if call, ok := ex.Tuple.(*ssa.Call); ok && an.Static("core.PubKeyFromBytes")(&call.Call) && len(call.Call.Args) == 1 {
			if sl, ok := call.Call.Args[0].(*ssa.Slice); ok && sl.X == pkAlloc {
				return true, ""
			}
		}
	}
	return false, "inner proof is verified under another validator's public key than the one the value is stored for"
}

// ---------------------------------------------------------------------------------------------
// H3

func c10H3(c *rt.Ctx) {
	fn := c.Fn("core/parsigex.ParSigEx.handle")
	subsKey := c10Field(c, "core/parsigex", "ParSigEx", "subs")
	gaterKey := c10Field(c, "core/parsigex", "ParSigEx", "gaterFunc")
	verifyKey := c10Field(c, "core/parsigex", "ParSigEx", "verifyFunc")
	sinks := c10SubsCalls(fn, subsKey)
	if len(sinks) == 0 {
		c.Bail("no call through ParSigEx.subs in handle")
	}
	for _, sink := range sinks {
		set := c10ArgOfType(sink, c10SetType)
		duty := c10ArgOfType(sink, "core.Duty")
		if set == nil || duty == nil {
			c.Bail("subscriber call with unexpected arguments")
		}
		// gater
		good, why := false, "no call through gaterFunc precedes the subscriber fan-out"
		for _, g := range an.Calls(fn, an.FieldCall(gaterKey), false) {
			if len(g.Common().Args) != 1 || !c10Same(g.Common().Args[0], duty) {
				why = "the duty that is gated is not the duty handed to the subscribers"
				continue
			}
			if ok, w := an.Guarded(g, sink, an.GuardOpt{BoolIdx: 0, BoolWant: true, NoErr: true}); !ok {
				why = "gaterFunc: " + w
				continue
			}
			good = true
		}
		c.Check("handle gaterFunc(duty) before subs", sink.Pos(), good, why)
		// verify every element
		good, why = false, "no call through verifyFunc precedes the subscriber fan-out"
		for _, g := range an.Calls(fn, an.FieldCall(verifyKey), false) {
			ok, w := c10ForallVerified(fn, g, sink, set, duty)
			if ok {
				good = true
			} else {
				why = w
			}
		}
		c.Check("handle verifyFunc on every element before subs", sink.Pos(), good, why)
		// provenance of the set: decoded from the request
		from := false
		if ex, ok := an.Unwrap(set).(*ssa.Extract); ok && ex.Index == 0 {
			if call, ok := ex.Tuple.(*ssa.Call); ok && an.Static("core.ParSignedDataSetFromProto")(&call.Call) {
				if g, _ := an.Guarded(call, sink, an.DefaultGuard); g {
					from = true
				}
			}
		}
		c.Check("handle set decoded from the request", sink.Pos(), from, "the set handed to subscribers is not the checked result of ParSignedDataSetFromProto")
	}
}

func c10ForallVerified(fn *ssa.Function, g, sink ssa.CallInstruction, set, duty ssa.Value) (bool, string) {
	l := an.InnermostLoop(fn, g.Block())
	if l == nil {
		return false, "verifyFunc is not called in a loop over the received set (only some elements are verified)"
	}
	coll := l.RangeColl()
	if coll == nil || an.Unwrap(coll) != an.Unwrap(set) {
		return false, "the loop that verifies does not range over the set handed to the subscribers"
	}
	pk, data, d := c10ArgOfType(g, c10PubKeyT), c10ArgOfType(g, c10PSDType), c10ArgOfType(g, "core.Duty")
	if pk == nil || data == nil || d == nil {
		return false, "verifyFunc call with unexpected arguments"
	}
	isElem := func(v ssa.Value, idx int) bool {
		ex, ok := an.Unwrap(v).(*ssa.Extract)
		return ok && ex.Index == idx && l.ElemOf(ex)
	}
	if !isElem(pk, 1) || !isElem(data, 2) {
		return false, "verifyFunc is not applied to the key and value of the element of this iteration"
	}
	if !c10Same(d, duty) {
		return false, "verifyFunc is given another duty than the subscribers"
	}
	errs, _ := an.StatusOf(g, -1)
	if len(errs) != 1 {
		return false, "error result of verifyFunc is discarded"
	}
	why := "error result of verifyFunc is never branched on"
	for _, cd := range an.CondsOn(fn, errs[0]) {
		if cd.Other == nil || !an.IsNilConst(cd.Other) || !an.Dominates(g, cd.If) {
			continue
		}
		var fail *ssa.BasicBlock
		switch cd.Op {
		case token.NEQ:
			fail = cd.Succ(true)
		case token.EQL:
			fail = cd.Succ(false)
		default:
			continue
		}
		ok, w := an.ForallGuard(l, cd.If, fail, sink)
		if ok {
			return true, ""
		}
		why = w
	}
	return false, why
}

// ---------------------------------------------------------------------------------------------
// H4

func c10H4(c *rt.Ctx) {
	outer := c.Fn("core/parsigex.NewEth2Verifier")
	var cl *ssa.Function
	var mc *ssa.MakeClosure
	for _, r := range an.Returns(outer) {
		if len(r.Results) > 0 {
			if m, ok := r.Results[0].(*ssa.MakeClosure); ok {
				mc = m
				cl = m.Fn.(*ssa.Function)
			}
		}
	}
	if cl == nil {
		c.Bail("NewEth2Verifier does not return a function literal")
	}
	var tableP *ssa.Parameter
	for _, p := range outer.Params {
		if an.IsMapType(p.Type()) {
			if tableP != nil {
				c.Bail("NewEth2Verifier: more than one map parameter")
			}
			tableP = p
		}
	}
	pkP, dataP := c10ParamOfType(cl, c10PubKeyT), c10ParamOfType(cl, c10PSDType)
	if tableP == nil || pkP == nil || dataP == nil {
		c.Bail("NewEth2Verifier: unexpected signature")
	}
	isTable := func(v ssa.Value) bool {
		ld, ok := an.Unwrap(v).(*ssa.UnOp)
		if !ok || ld.Op != token.MUL {
			return false
		}
		fv, ok := ld.X.(*ssa.FreeVar)
		if !ok {
			return false
		}
		for i, f := range cl.FreeVars {
			if f == fv && i < len(mc.Bindings) {
				al, ok := mc.Bindings[i].(*ssa.Alloc)
				return ok && rootedAt(al, tableP) && c10StoresTo(al) == 1
			}
		}
		return false
	}
	verifs := c.SomeCalls(cl, an.Static(c10VerifyE2), c10VerifyE2, false)
	for _, v := range verifs {
		args := v.Common().Args
		if len(args) != 4 {
			c.Bail("VerifyEth2SignedData: unexpected arity")
		}
		// pubshare = table[pubkey][data.ShareIdx], both lookups comma-ok and checked
		shareOK, why := false, "public share is not pubSharesByKey[pubkey][data.ShareIdx]"
		var inner, outerLk *ssa.Lookup
		if ex, ok := an.Unwrap(args[3]).(*ssa.Extract); ok && ex.Index == 0 {
			inner, _ = ex.Tuple.(*ssa.Lookup)
		}
		if inner != nil && inner.CommaOk {
			switch x := an.Unwrap(inner.X).(type) {
			case *ssa.Extract:
				if lk, ok := x.Tuple.(*ssa.Lookup); ok && x.Index == 0 && lk.CommaOk {
					outerLk = lk
				}
			case *ssa.Lookup:
				// table[pubkey][idx] in one expression: an unknown pubkey yields a nil map, whose
				// lookup reports !ok, so the share-index check covers it.
				if !x.CommaOk {
					outerLk = x
				}
			}
		}
		if inner != nil && outerLk != nil {
			k, base, isF := an.FieldOf(inner.Index)
			switch {
			case !isTable(outerLk.X):
				why = "shares are not looked up in the pubSharesByKey table given to NewEth2Verifier"
			case an.Unwrap(outerLk.Index) != ssa.Value(pkP):
				why = "shares are not looked up under the pubkey the signature is claimed for"
			case !isF || k != c10PSDType+".ShareIdx" || !rootedAt(base, dataP):
				why = "public share is not selected by the ShareIdx claimed in the partial signature"
			default:
				shareOK = true
			}
		}
		c.Check("NewEth2Verifier pubshare=pubSharesByKey[pubkey][data.ShareIdx]", v.Pos(), shareOK, why)
		c.Check("NewEth2Verifier unknown pubkey rejected", v.Pos(),
			outerLk != nil && (outerLk.CommaOk && c10CommaOkChecked(outerLk, v) || !outerLk.CommaOk && c10CommaOkChecked(inner, v)),
			"a missing pubkey entry does not stop the verification (zero share would be used)")
		c.Check("NewEth2Verifier unknown share index rejected", v.Pos(), inner != nil && c10CommaOkChecked(inner, v),
			"a missing share index does not stop the verification (zero share would be used)")
		data := false
		if ex, ok := an.Unwrap(args[2]).(*ssa.Extract); ok && ex.Index == 0 {
			if ta, ok := ex.Tuple.(*ssa.TypeAssert); ok {
				if k, base, ok := an.FieldOf(ta.X); ok && k == c10PSDType+".SignedData" && rootedAt(base, dataP) {
					data = true
				}
			}
		}
		c.Check("NewEth2Verifier data=data.SignedData", v.Pos(), data, "the object verified is not the SignedData of the received partial signature")
	}
	for _, r := range c10ErrReturns(c, cl) {
		if c10NonNil(r.v, r.at) {
			continue
		}
		via := false
		for _, v := range verifs {
			if an.Unwrap(r.v) == v.Value() {
				via = true
			} else if g, _ := an.Guarded(v, r.at, an.DefaultGuard); g {
				via = true
			}
		}
		c.Check("NewEth2Verifier nil only via VerifyEth2SignedData", posOf(r.at), via, "the verifier can return nil without VerifyEth2SignedData having succeeded")
	}
}

func c10StoresTo(a *ssa.Alloc) int {
	n := 0
	for _, ref := range *a.Referrers() {
		if st, ok := ref.(*ssa.Store); ok && st.Addr == ssa.Value(a) {
			n++
		}
	}
	return n
}

// ---------------------------------------------------------------------------------------------
// H5

func c10H5(c *rt.Ctx) {
	match := c.Fn(c10Vapi + ".propDataMatchesDuty")
	subsKey := c10Field(c, c10Vapi, "Component", "subs")
	awaitKey := c10Field(c, c10Vapi, "Component", "awaitProposalFunc")
	// (a) the two block submission handlers
	for _, hn := range []string{"SubmitProposal", "SubmitBlindedProposal"} {
		fn := c.Fn(c10Comp + "." + hn)
		sinks := c10SubsCalls(fn, subsKey)
		if len(sinks) == 0 {
			c.Bail("no call through subs in %s", hn)
		}
		optsP := fn.Params[len(fn.Params)-1]
		for _, sink := range sinks {
			good, why := false, "no call to propDataMatchesDuty precedes the subscriber fan-out"
			for _, g := range an.Calls(fn, an.Static(c10Vapi+".propDataMatchesDuty"), false) {
				args := g.Common().Args
				if len(args) != 2 {
					c.Bail("propDataMatchesDuty: unexpected arity")
				}
				if ok, w := an.Guarded(g, sink, an.DefaultGuard); !ok {
					why = "propDataMatchesDuty: " + w
					continue
				}
				// agreed proposal: checked result of awaitProposalFunc
				agreed := false
				if ex, ok := an.Unwrap(args[1]).(*ssa.Extract); ok && ex.Index == 0 {
					if call, ok := ex.Tuple.(*ssa.Call); ok && an.FieldCall(awaitKey)(&call.Call) {
						if gg, _ := an.Guarded(call, g, an.DefaultGuard); gg {
							agreed = true
						}
					}
				}
				if !agreed {
					why = "the submission is not compared with the checked result of awaitProposalFunc"
					continue
				}
				if ok, w := c10FromOpts(args[0], optsP); !ok {
					why = w
					continue
				}
				good = true
			}
			c.Check(hn+" propDataMatchesDuty before subs", sink.Pos(), good, why)
		}
		// what is stored is built from the same submission
		for _, mu := range c10SetUpdates(fn) {
			ct := c10Ctor(mu.Value)
			ok := ct != nil && len(ct.Call.Args) > 0 && rootedAt(ct.Call.Args[0], optsP)
			c.Check(hn+" stored value built from the compared submission", posOf(mu), ok, "the partial signature stored is not built from the opts that were compared with the agreed proposal")
		}
	}
	// (b) propDataMatchesDuty returns nil only through checkHashes
	if len(match.Params) != 2 {
		c.Bail("propDataMatchesDuty: unexpected signature")
	}
	optsP, propP := match.Params[0], match.Params[1]
	var check *ssa.Function
	n := 0
	for _, r := range c10ErrReturns(c, match) {
		if c10NonNil(r.v, r.at) {
			continue
		}
		n++
		call, ok := an.Unwrap(r.v).(*ssa.Call)
		var callee *ssa.Function
		if ok {
			callee = call.Call.StaticCallee()
			if mc, isMC := call.Call.Value.(*ssa.MakeClosure); isMC {
				callee, _ = mc.Fn.(*ssa.Function)
			}
		}
		if callee == nil || callee.Parent() != match || len(call.Call.Args) != 2 {
			c.Bad("propDataMatchesDuty return without hash comparison", posOf(r.at), "propDataMatchesDuty can return nil without comparing hash tree roots")
			continue
		}
		if check != nil && check != callee {
			c.Bail("propDataMatchesDuty uses more than one comparison closure")
		}
		check = callee
		k1, b1, ok1 := c10FieldPath(call.Call.Args[0], propP)
		k2, b2, ok2 := c10FieldPath(call.Call.Args[1], optsP)
		good := ok1 && ok2 && b1 && b2
		why := "comparison does not take one side from the agreed proposal and the other from the submission"
		if good {
			// same fork payload on both sides: prop.<V>[Blinded] vs opts.Proposal.<V>[Blinded]
			if c10ForkOf(k1) == "" || c10ForkOf(k1) != c10ForkOf(k2) {
				good, why = false, fmt.Sprintf("payloads of different forks are compared (%s vs %s)", strings.Join(k1, "."), strings.Join(k2, "."))
			}
		}
		// the fork compared is the fork of the case it is in
		if good {
			ver := c10CaseConst(match, r.at.Block(), propP)
			if ver == "" || !strings.EqualFold(strings.TrimPrefix(ver, "DataVersion"), strings.TrimSuffix(c10ForkOf(k1), "Blinded")) {
				good, why = false, fmt.Sprintf("payload %s is compared in the case of version %q", c10ForkOf(k1), ver)
			}
		}
		// blinded payloads are compared exactly when the agreed proposal is blinded
		if good {
			edge := c10BlindedEdge(match, r.at.Block(), propP)
			isBl := strings.HasSuffix(c10ForkOf(k1), "Blinded")
			if isBl && edge != 1 || !isBl && edge == 1 {
				good, why = false, fmt.Sprintf("payload %s is compared on the wrong side of the prop.Blinded test", c10ForkOf(k1))
			}
		}
		c.Check("propDataMatchesDuty "+strings.Join(k1, ".")+" compared", posOf(r.at), good, why)
	}
	if check == nil {
		c.Bail("propDataMatchesDuty: comparison closure not found")
	}
	// checkHashes: nil only on the equal edge of the two roots
	d1, d2 := check.Params[0], check.Params[1]
	for _, r := range c10ErrReturns(c, check) {
		if c10NonNil(r.v, r.at) {
			continue
		}
		good, why := false, "nil is returned without the hash tree roots having been compared"
		for _, b := range check.Blocks {
			iff, ok := b.Instrs[len(b.Instrs)-1].(*ssa.If)
			if !ok {
				continue
			}
			bin, ok := iff.Cond.(*ssa.BinOp)
			if !ok || (bin.Op != token.NEQ && bin.Op != token.EQL) {
				continue
			}
			rx, ex := c10RootOf(bin.X)
			ry, ey := c10RootOf(bin.Y)
			if rx == nil || ry == nil {
				continue
			}
			if !(rx == ssa.Value(d1) && ry == ssa.Value(d2) || rx == ssa.Value(d2) && ry == ssa.Value(d1)) {
				why = "the comparison is not between the roots of both arguments"
				continue
			}
			eq := b.Succs[0]
			ne := b.Succs[1]
			if bin.Op == token.NEQ {
				eq, ne = ne, eq
			}
			if !(eq.Dominates(r.at.Block()) && len(eq.Preds) == 1) || c10Reach(ne, r.at.Block(), nil, nil) {
				why = "nil is reachable when the roots differ"
				continue
			}
			// both HashTreeRoot calls are error-checked
			if ok1, _ := an.Guarded(ex, iff, an.DefaultGuard); !ok1 {
				why = "HashTreeRoot error ignored"
				continue
			}
			if ok2, _ := an.Guarded(ey, iff, an.DefaultGuard); !ok2 {
				why = "HashTreeRoot error ignored"
				continue
			}
			good = true
		}
		c.Check("checkHashes nil only for equal roots", posOf(r.at), good, why)
	}
	// (c) version coverage: same constants as VersionedSignedProposal.MessageRoot
	got := c10SwitchConsts(match, func(v ssa.Value) bool {
		k, base, ok := an.FieldOf(v)
		return ok && strings.HasSuffix(k, "VersionedProposal.Version") && rootedAt(base, propP)
	})
	ref := c.Fn("core.VersionedSignedProposal.MessageRoot")
	want := c10SwitchConsts(ref, func(v ssa.Value) bool {
		k, _, ok := an.FieldOf(v)
		return ok && strings.HasSuffix(k, "VersionedSignedProposal.Version")
	})
	if len(want) == 0 {
		c.Bail("no version switch found in core.VersionedSignedProposal.MessageRoot")
	}
	c.Check("propDataMatchesDuty version switch covers all proposal versions", match.Pos(), fmt.Sprint(got) == fmt.Sprint(want),
		fmt.Sprintf("versions handled %v, versions of core.VersionedSignedProposal.MessageRoot %v", got, want))
	// the three header fields
	for _, f := range []string{"Blinded", "Version"} {
		ok := false
		for _, b := range match.Blocks {
			iff, isIf := b.Instrs[len(b.Instrs)-1].(*ssa.If)
			if !isIf {
				continue
			}
			bin, isBin := iff.Cond.(*ssa.BinOp)
			if !isBin || bin.Op != token.NEQ {
				continue
			}
			kx, sx, okx := c10FieldPath(bin.X, optsP)
			ky, sy, oky := c10FieldPath(bin.Y, propP)
			if !okx || !oky || !sx || !sy || kx[len(kx)-1] != f || ky[len(ky)-1] != f {
				continue
			}
			// unequal edge returns a non-nil error
			if c10AllReturnsNonNil(c, match, b.Succs[0], b.Succs[1]) {
				ok = true
			}
		}
		c.Check("propDataMatchesDuty "+f+" equal", match.Pos(), ok, "submission and agreed proposal are not required to have the same "+f)
	}
}

// c10AllReturnsNonNil: block then does not fall through to els and returns a non-nil error.
func c10AllReturnsNonNil(c *rt.Ctx, fn *ssa.Function, then, els *ssa.BasicBlock) bool {
	if len(then.Succs) != 0 {
		return false
	}
	r, ok := then.Instrs[len(then.Instrs)-1].(*ssa.Return)
	if !ok {
		return false
	}
	return c10NonNil(r.Results[len(r.Results)-1], r)
}

// c10FromOpts: v is the handler's opts parameter, or a literal whose every member is a constant, a
// nested literal of the same kind, or read from the opts parameter.
func c10FromOpts(v ssa.Value, opts ssa.Value) (bool, string) {
	v = an.Unwrap(v)
	if v == opts {
		return true, ""
	}
	al, ok := v.(*ssa.Alloc)
	if !ok {
		return false, "the object compared with the agreed proposal is not the submission"
	}
	n := 0
	for _, ref := range *al.Referrers() {
		fa, ok := ref.(*ssa.FieldAddr)
		if !ok {
			continue
		}
		for _, r2 := range *fa.Referrers() {
			st, ok := r2.(*ssa.Store)
			if !ok || st.Addr != ssa.Value(fa) {
				continue
			}
			n++
			val := an.Unwrap(st.Val)
			if _, isC := val.(*ssa.Const); isC {
				continue
			}
			if rootedAt(val, opts) {
				continue
			}
			if _, isAl := val.(*ssa.Alloc); isAl {
				if ok, w := c10FromOpts(val, opts); ok {
					continue
				} else {
					return false, w
				}
			}
			return false, "the object compared with the agreed proposal has a member that does not come from the submission"
		}
	}
	if n == 0 {
		return false, "the object compared with the agreed proposal is empty"
	}
	return true, ""
}

// c10FieldPath: v is loaded through a chain of field selections from root; returns the field names.
// pure is false if anything but loads and field selections is on the way.
func c10FieldPath(v ssa.Value, root ssa.Value) (names []string, pure bool, ok bool) {
	pure = true
	for i := 0; i < 16; i++ {
		v = an.Unwrap(v)
		if v == root {
			for l, r := 0, len(names)-1; l < r; l, r = l+1, r-1 {
				names[l], names[r] = names[r], names[l]
			}
			return names, pure, len(names) > 0
		}
		switch x := v.(type) {
		case *ssa.UnOp:
			if x.Op != token.MUL {
				return nil, false, false
			}
			v = x.X
		case *ssa.FieldAddr:
			names = append(names, c10FieldName(x.X.Type(), x.Field))
			v = x.X
		case *ssa.Field:
			names = append(names, c10FieldName(x.X.Type(), x.Field))
			v = x.X
		default:
			return nil, false, false
		}
	}
	return nil, false, false
}

func c10FieldName(t types.Type, idx int) string {
	k := an.FieldKey(t, idx)
	return k[strings.LastIndex(k, ".")+1:]
}

// c10ForkOf picks the fork payload member of a field path: prop.Deneb.Block -> "Deneb",
// opts.Proposal.DenebBlinded.Message -> "DenebBlinded".
func c10ForkOf(path []string) string {
	for _, p := range path {
		switch p {
		case "Proposal", "Message", "Block", "SignedBlock":
			continue
		}
		return p
	}
	return ""
}

// c10CaseConst returns the name of the data-version constant of the switch case (on prop.Version)
// that dominates block b, "" if none.
func c10CaseConst(fn *ssa.Function, b *ssa.BasicBlock, root ssa.Value) string {
	best := ""
	var bestBlk *ssa.BasicBlock
	for _, blk := range fn.Blocks {
		iff, ok := blk.Instrs[len(blk.Instrs)-1].(*ssa.If)
		if !ok {
			continue
		}
		bin, ok := iff.Cond.(*ssa.BinOp)
		if !ok || bin.Op != token.EQL {
			continue
		}
		k, ok := bin.Y.(*ssa.Const)
		if !ok || k.Value == nil {
			continue
		}
		path, _, ok := c10FieldPath(bin.X, root)
		if !ok || path[len(path)-1] != "Version" {
			continue
		}
		t := blk.Succs[0]
		if len(t.Preds) == 1 && t.Dominates(b) && (bestBlk == nil || bestBlk.Dominates(t)) {
			best, bestBlk = c10ConstName(k), t
		}
	}
	return best
}

// c10BlindedEdge: 1 if b is dominated by the true edge of a test of root.Blinded, 0 by the false edge, -1 none.
func c10BlindedEdge(fn *ssa.Function, b *ssa.BasicBlock, root ssa.Value) int {
	res := -1
	for _, in := range an.Instrs(fn, false) {
		v, ok := in.(ssa.Value)
		if !ok {
			continue
		}
		path, _, ok := c10FieldPath(v, root)
		if !ok || len(path) != 1 || path[0] != "Blinded" {
			continue
		}
		if _, isLoad := v.(*ssa.UnOp); !isLoad {
			continue
		}
		for _, cd := range an.CondsOn(fn, v) {
			if cd.Other != nil {
				continue
			}
			if t := cd.Succ(true); len(t.Preds) == 1 && t.Dominates(b) {
				res = 1
			}
			if f := cd.Succ(false); len(f.Preds) == 1 && f.Dominates(b) && res != 1 {
				res = 0
			}
		}
	}
	return res
}

// c10Deref looks through a load of a local that is stored exactly once.
func c10Deref(v ssa.Value) ssa.Value {
	for i := 0; i < 4; i++ {
		ld, ok := an.Unwrap(v).(*ssa.UnOp)
		if !ok || ld.Op != token.MUL {
			return an.Unwrap(v)
		}
		al, ok := ld.X.(*ssa.Alloc)
		if !ok || c10StoresTo(al) != 1 {
			return an.Unwrap(v)
		}
		for _, ref := range *al.Referrers() {
			if st, ok := ref.(*ssa.Store); ok && st.Addr == ssa.Value(al) {
				v = st.Val
			}
		}
	}
	return an.Unwrap(v)
}

// c10ConstName renders an enum constant by its declared name (via String-less lookup in its package).
func c10ConstName(k *ssa.Const) string {
	nt, ok := k.Type().(*types.Named)
	if !ok || nt.Obj().Pkg() == nil {
		return k.Value.String()
	}
	sc := nt.Obj().Pkg().Scope()
	for _, n := range sc.Names() {
		if cn, ok := sc.Lookup(n).(*types.Const); ok && types.Identical(cn.Type(), nt) && constant.Compare(cn.Val(), token.EQL, k.Value) {
			return n
		}
	}
	return k.Value.String()
}

// c10SwitchConsts lists (sorted, by name) the constants some value satisfying isTag is compared equal to.
func c10SwitchConsts(fn *ssa.Function, isTag func(ssa.Value) bool) []string {
	set := map[string]bool{}
	for _, in := range an.Instrs(fn, false) {
		bin, ok := in.(*ssa.BinOp)
		if !ok || bin.Op != token.EQL {
			continue
		}
		k, ok := bin.Y.(*ssa.Const)
		if !ok || k.Value == nil || !isTag(bin.X) {
			continue
		}
		set[c10ConstName(k)] = true
	}
	var out []string
	for n := range set {
		out = append(out, n)
	}
	sort.Strings(out)
	return out
}

// c10RootOf: v is the root (tuple element 0) of an invoke HashTreeRoot() on a parameter: returns the
// receiver and the call.
func c10RootOf(v ssa.Value) (ssa.Value, ssa.CallInstruction) {
	ex, ok := an.Unwrap(v).(*ssa.Extract)
	if !ok || ex.Index != 0 {
		return nil, nil
	}
	call, ok := ex.Tuple.(*ssa.Call)
	if !ok || !call.Call.IsInvoke() || call.Call.Method.Name() != "HashTreeRoot" {
		return nil, nil
	}
	return an.Unwrap(call.Call.Value), call
}

// ---------------------------------------------------------------------------------------------
// H6

func c10H6(c *rt.Ctx) {
	fn := c.Fn("app.wireCoreWorkflow")
	// parsigex wiring
	psx := c.OneCall(fn, an.Static("core/parsigex.NewParSigEx"), "parsigex.NewParSigEx", false)
	ctor := c.Fn("core/parsigex.NewParSigEx")
	var verIdx, gateIdx = -1, -1
	for i, p := range ctor.Params {
		switch {
		case an.TypeName(p.Type()) == "core.DutyGaterFunc":
			gateIdx = i
		case p.Name() == "verifyFunc":
			verIdx = i
		}
	}
	if verIdx < 0 || gateIdx < 0 {
		c.Bail("NewParSigEx: verifyFunc/gaterFunc parameters not found")
	}
	fromCall := func(v ssa.Value, callee string, sink ssa.Instruction) *ssa.Call {
		ex, ok := an.Unwrap(v).(*ssa.Extract)
		if !ok || ex.Index != 0 {
			return nil
		}
		call, ok := ex.Tuple.(*ssa.Call)
		if !ok || !an.Static(callee)(&call.Call) {
			return nil
		}
		if g, _ := an.Guarded(call, sink, an.DefaultGuard); !g {
			return nil
		}
		return call
	}
	ver := fromCall(psx.Common().Args[verIdx], "core/parsigex.NewEth2Verifier", psx)
	c.Check("wireCoreWorkflow parsigex verifier = NewEth2Verifier", psx.Pos(), ver != nil, "production ParSigEx is not given the checked result of parsigex.NewEth2Verifier")
	gate := fromCall(psx.Common().Args[gateIdx], "core.NewDutyGater", psx)
	c.Check("wireCoreWorkflow parsigex gater = NewDutyGater", psx.Pos(), gate != nil, "production ParSigEx is not given the checked result of core.NewDutyGater")
	// validator API wiring
	vapi := c.OneCall(fn, an.Static(c10Vapi+".NewComponent"), "validatorapi.NewComponent", false)
	var tbl ssa.Value
	for _, a := range vapi.Common().Args {
		if an.IsMapType(a.Type()) {
			tbl = an.Unwrap(a)
		}
	}
	mm, isMake := tbl.(*ssa.MakeMap)
	if !isMake {
		c.Bail("share table given to validatorapi.NewComponent is not a local map")
	}
	same := ver != nil && len(ver.Call.Args) == 2 && an.Unwrap(ver.Call.Args[1]) == tbl
	c.Check("wireCoreWorkflow same share table for vapi and parsigex", vapi.Pos(), same, "validatorapi.NewComponent and parsigex.NewEth2Verifier are given different share tables")
	// table[corePubkey(val.PubKey)][i+1] = pubkey(val.PubShares[i])
	ups := mapUpdates(fn, func(m ssa.Value) bool { return m == ssa.Value(mm) })
	if len(ups) == 0 {
		c.Bail("share table is never filled in wireCoreWorkflow")
	}
	for _, up := range ups {
		good, why := c10ShareTableEntry(fn, up)
		c.Check("wireCoreWorkflow share table entry = lock public shares, 1-indexed", posOf(up), good, why)
	}
	// NewComponent: getVerifyShareFunc(pubkey) = allPubSharesByKey[pubkey][shareIdx]
	nc := c.Fn(c10Vapi + ".NewComponent")
	good, why := c10VerifyShareTable(c, nc)
	c.Check("NewComponent getVerifyShareFunc = allPubSharesByKey[pubkey][shareIdx]", nc.Pos(), good, why)
}

func c10ShareTableEntry(fn *ssa.Function, up *ssa.MapUpdate) (bool, string) {
	// key: core.PubKeyFromBytes(val.PubKey)
	var val ssa.Value
	if ex, ok := an.Unwrap(up.Key).(*ssa.Extract); ok && ex.Index == 0 {
		if call, ok := ex.Tuple.(*ssa.Call); ok && an.Static("core.PubKeyFromBytes")(&call.Call) {
			if k, base, ok := an.FieldOf(call.Call.Args[0]); ok && k == "cluster.DistValidator.PubKey" {
				val = base
			}
		}
	}
	if val == nil {
		return false, "table key is not core.PubKeyFromBytes(val.PubKey) of a lock validator"
	}
	inner, ok := an.Unwrap(up.Value).(*ssa.MakeMap)
	if !ok {
		return false, "per-validator share map is not built here"
	}
	n := 0
	for _, ref := range *inner.Referrers() {
		iu, ok := ref.(*ssa.MapUpdate)
		if !ok || iu.Map != ssa.Value(inner) {
			continue
		}
		n++
		// value: tblsconv.PubkeyFromBytes(val.PubShares[i]) checked
		var idx ssa.Value
		if ex, ok := an.Unwrap(iu.Value).(*ssa.Extract); ok && ex.Index == 0 {
			if call, ok := ex.Tuple.(*ssa.Call); ok && an.Static("tbls/tblsconv.PubkeyFromBytes")(&call.Call) {
				if ld, ok := an.Unwrap(call.Call.Args[0]).(*ssa.UnOp); ok {
					if ia, ok := ld.X.(*ssa.IndexAddr); ok {
						if k, base, ok := an.FieldOf(ia.X); ok && k == "cluster.DistValidator.PubShares" && base == val {
							idx = ia.Index
						}
					}
				}
			}
		}
		if idx == nil {
			return false, "share value is not tblsconv.PubkeyFromBytes(val.PubShares[i]) of the same validator"
		}
		bin, ok := an.Unwrap(iu.Key).(*ssa.BinOp)
		if !ok || bin.Op != token.ADD || bin.X != idx {
			return false, "share index key is not i+1 for the position i of the share in the lock"
		}
		if n1, ok := an.ConstInt(bin.Y); !ok || n1 != 1 {
			return false, "share index key is not i+1 for the position i of the share in the lock"
		}
	}
	if n == 0 {
		return false, "per-validator share map is never filled"
	}
	return true, ""
}

func c10VerifyShareTable(c *rt.Ctx, nc *ssa.Function) (bool, string) {
	gvsKey := c10Field(c, c10Vapi, "Component", "getVerifyShareFunc")
	var tableP, idxP *ssa.Parameter
	for _, p := range nc.Params {
		if mt, ok := p.Type().Underlying().(*types.Map); ok && an.TypeName(mt.Key()) == c10PubKeyT {
			tableP = p
		}
		if p.Name() == "shareIdx" {
			idxP = p
		}
	}
	if tableP == nil || idxP == nil {
		c.Bail("NewComponent: table / shareIdx parameters not found")
	}
	// the closure stored in getVerifyShareFunc
	var cl *ssa.Function
	var mc *ssa.MakeClosure
	for _, in := range an.Instrs(nc, false) {
		st, ok := in.(*ssa.Store)
		if !ok {
			continue
		}
		fa, ok := st.Addr.(*ssa.FieldAddr)
		if !ok || an.FieldKey(fa.X.Type(), fa.Field) != gvsKey {
			continue
		}
		m, ok := an.Unwrap(st.Val).(*ssa.MakeClosure)
		if !ok {
			return false, "getVerifyShareFunc is not a function literal of NewComponent"
		}
		mc, cl = m, m.Fn.(*ssa.Function)
	}
	if cl == nil {
		return false, "NewComponent does not set getVerifyShareFunc"
	}
	// closure: every (value, nil) return is a checked comma-ok lookup of the captured map under the parameter
	var local ssa.Value
	for _, r := range an.Returns(cl) {
		if len(r.Results) != 2 || c10NonNil(r.Results[1], r) {
			continue
		}
		ex, ok := an.Unwrap(r.Results[0]).(*ssa.Extract)
		if !ok || ex.Index != 0 {
			return false, "getVerifyShareFunc returns a share that is not looked up"
		}
		lk, ok := ex.Tuple.(*ssa.Lookup)
		if !ok || !lk.CommaOk || an.Unwrap(lk.Index) != ssa.Value(cl.Params[0]) {
			return false, "getVerifyShareFunc does not look the share up under the requested pubkey"
		}
		if !c10CommaOkChecked(lk, r) {
			return false, "getVerifyShareFunc returns the zero share with a nil error for an unknown pubkey"
		}
		ld, ok := an.Unwrap(lk.X).(*ssa.UnOp)
		if !ok {
			return false, "getVerifyShareFunc reads an unknown table"
		}
		fv, ok := ld.X.(*ssa.FreeVar)
		if !ok {
			return false, "getVerifyShareFunc reads an unknown table"
		}
		for i, f := range cl.FreeVars {
			if f == fv {
				local = mc.Bindings[i]
			}
		}
	}
	al, ok := local.(*ssa.Alloc)
	if !ok {
		return false, "getVerifyShareFunc has no successful return"
	}
	// the captured map variable holds one MakeMap, filled as m[corePubkey] = shares[shareIdx]
	var m ssa.Value
	for _, ref := range *al.Referrers() {
		if st, ok := ref.(*ssa.Store); ok && st.Addr == ssa.Value(al) {
			if m != nil {
				return false, "table captured by getVerifyShareFunc is reassigned"
			}
			m = st.Val
		}
	}
	if _, ok := m.(*ssa.MakeMap); !ok {
		return false, "table captured by getVerifyShareFunc is not built in NewComponent"
	}
	n := 0
	for _, in := range an.Instrs(nc, true) {
		up, ok := in.(*ssa.MapUpdate)
		if !ok {
			continue
		}
		ld, ok := up.Map.(*ssa.UnOp)
		if !ok || ld.X != ssa.Value(al) {
			continue
		}
		n++
		l := an.InnermostLoop(up.Parent(), up.Block())
		if l == nil || up.Parent() != nc {
			return false, "verify-share table is filled outside the loop over allPubSharesByKey"
		}
		coll := l.RangeColl()
		if coll == nil || !rootedAt(coll, tableP) {
			return false, "verify-share table is not filled from the allPubSharesByKey parameter"
		}
		key, ok := an.Unwrap(up.Key).(*ssa.Extract)
		if !ok || key.Index != 1 || !l.ElemOf(key) {
			return false, "verify-share table key is not the validator key of the iteration"
		}
		lk, ok := c10Deref(up.Value).(*ssa.Lookup)
		if !ok {
			return false, "verify-share table value is not shares[shareIdx]"
		}
		sh, ok := an.Unwrap(lk.X).(*ssa.Extract)
		if !ok || sh.Index != 2 || !l.ElemOf(sh) {
			return false, "verify-share table value is not taken from the shares of the same validator"
		}
		if !rootedAt(lk.Index, idxP) {
			return false, "verify-share table value is not the share of this node's shareIdx"
		}
	}
	if n == 0 {
		return false, "verify-share table is never filled"
	}
	return true, ""
}

// ---------------------------------------------------------------------------------------------
// Seeded one-edit variants for C10 (DESIGN §4.4 / Appendix C).
var c10Mutants = []Mutant{
	// ---- H1
	{ID: "C10-H1-syncmsg-no-verify", File: c10VapiFile, Expect: "H1|SubmitSyncCommitteeMessages",
		Old: "\t\terr = c.verifyPartialSig(ctx, parSigData, pk)\n\t\tif err != nil {\n\t\t\treturn err\n\t\t}\n\n\t\tlog.Debug(ctx, \"Sync committee message received",
		New: "\t\t_ = parSigData\n\n\t\tlog.Debug(ctx, \"Sync committee message received"},
	{ID: "C10-H1-syncmsg-other-value", File: c10VapiFile, Expect: "H1|SubmitSyncCommitteeMessages",
		Old: "psigsBySlot[slot][pk] = core.NewPartialSignedSyncMessage(msg, c.shareIdx)",
		New: "psigsBySlot[slot][pk] = core.NewPartialSignedSyncMessage(messages[0], c.shareIdx)"},
	{ID: "C10-H1-syncmsg-other-shareidx", File: c10VapiFile, Expect: "H1|SubmitSyncCommitteeMessages",
		Old: "psigsBySlot[slot][pk] = core.NewPartialSignedSyncMessage(msg, c.shareIdx)",
		New: "psigsBySlot[slot][pk] = core.NewPartialSignedSyncMessage(msg, c.shareIdx+1)"},
	{ID: "C10-H1-att-other-key", File: c10VapiFile, Expect: "H1|SubmitAttestations",
		Old: "\t\tset[pubkey] = parSigData",
		New: "\t\tset[core.PubKey(fmt.Sprint(valIdx))] = parSigData"},
	{ID: "C10-H1-exit-error-logged", File: c10VapiFile, Expect: "H1|SubmitVoluntaryExit",
		Old: "\terr = c.verifyPartialSig(ctx, parSigData, pubkey)\n\tif err != nil {\n\t\treturn err\n\t}\n\n\tlog.Info(ctx, \"Voluntary exit submitted",
		New: "\terr = c.verifyPartialSig(ctx, parSigData, pubkey)\n\tif err != nil {\n\t\tlog.Warn(ctx, \"invalid partial signature\", err)\n\t}\n\n\tlog.Info(ctx, \"Voluntary exit submitted"},
	{ID: "C10-H1-aggatt-check-weakened", File: c10VapiFile, Expect: "H1|SubmitAggregateAttestations",
		Old: "\t\terr = c.verifyPartialSig(ctx, parSigData, pk)\n\t\tif err != nil {\n\t\t\treturn err\n\t\t}\n\n\t\t_, ok = psigsBySlot[slot]\n\t\tif !ok {\n\t\t\tpsigsBySlot[slot] = make(core.ParSignedDataSet)\n\t\t}\n\n\t\tpsigsBySlot[slot][pk] = parSigData",
		New: "\t\terr = c.verifyPartialSig(ctx, parSigData, pk)\n\t\tif err != nil && len(psigsBySlot) == 0 {\n\t\t\treturn err\n\t\t}\n\n\t\t_, ok = psigsBySlot[slot]\n\t\tif !ok {\n\t\t\tpsigsBySlot[slot] = make(core.ParSignedDataSet)\n\t\t}\n\n\t\tpsigsBySlot[slot][pk] = parSigData"},
	{ID: "C10-H1-randao-verify-other", File: c10VapiFile, Expect: "H1|Proposal",
		Old: "\terr = c.verifyPartialSig(ctx, parSig, pubkey)\n\tif err != nil {\n\t\treturn nil, err\n\t}\n\n\tfor _, sub := range c.subs {",
		New: "\terr = c.verifyPartialSig(ctx, core.NewPartialSignedRandao(sigEpoch.Epoch, sigEpoch.Signature, c.shareIdx+1), pubkey)\n\tif err != nil {\n\t\treturn nil, err\n\t}\n\n\tfor _, sub := range c.subs {"},
	{ID: "C10-H1-selection-verify-after-continue", File: c10VapiFile, Expect: "H1|SyncCommitteeSelections",
		Old: "\t\t// Verify selection proof.\n\t\terr = c.verifyPartialSig(ctx, parSigData, pubkey)\n\t\tif err != nil {\n\t\t\treturn nil, err\n\t\t}\n",
		New: "\t\t// Verify selection proof.\n\t\tif i == 0 {\n\t\t\terr = c.verifyPartialSig(ctx, parSigData, pubkey)\n\t\t\tif err != nil {\n\t\t\t\treturn nil, err\n\t\t\t}\n\t\t}\n"},
	// ---- H2
	{ID: "C10-H2-nil-on-unknown-share", File: c10VapiFile, Expect: "H2|verifyPartialSig",
		Old: "\tpubshare, err := c.getVerifyShareFunc(pubkey)\n\tif err != nil {\n\t\treturn err\n\t}",
		New: "\tpubshare, err := c.getVerifyShareFunc(pubkey)\n\tif err != nil {\n\t\treturn nil\n\t}"},
	{ID: "C10-H2-share-error-logged", File: c10VapiFile, Expect: "H2|verifyPartialSig",
		Old: "\tpubshare, err := c.getVerifyShareFunc(pubkey)\n\tif err != nil {\n\t\treturn err\n\t}",
		New: "\tpubshare, err := c.getVerifyShareFunc(pubkey)\n\tif err != nil {\n\t\tlog.Warn(ctx, \"unknown share\", err)\n\t}"},
	{ID: "C10-H2-insecure-weakened", File: c10VapiFile, Expect: "H2|verifyPartialSig",
		Old: "\tif c.insecureTest {\n\t\treturn nil\n\t}",
		New: "\tif c.insecureTest || c.shareIdx == 0 {\n\t\treturn nil\n\t}"},
	{ID: "C10-H2-zero-share", File: c10VapiFile, Expect: "H2|verifyPartialSig",
		Old: "return core.VerifyEth2SignedData(ctx, c.eth2Cl, eth2Signed, pubshare)",
		New: "return core.VerifyEth2SignedData(ctx, c.eth2Cl, eth2Signed, func() tbls.PublicKey { _ = pubshare; return tbls.PublicKey{} }())"},
	{ID: "C10-H2-insecure-in-production-ctor", File: c10VapiFile, Expect: "H2|sets insecureTest",
		Old: "\t\tswallowRegFilter:   log.Filter(),\n\t}, nil",
		New: "\t\tswallowRegFilter:   log.Filter(),\n\t\tinsecureTest:       shareIdx == 0,\n\t}, nil"},
	{ID: "C10-H2-insecure-ctor-in-app", File: "app/app.go", Expect: "H2|NewComponentInsecure referenced",
		Old: "validatorapi.NewComponent(eth2Cl, allPubSharesByKey, nodeIdx.ShareIdx, builderRegSvc.FeeRecipient, conf.BuilderAPI, lock.TargetGasLimit)",
		New: "validatorapi.NewComponentInsecure(nil, eth2Cl, nodeIdx.ShareIdx)"},
	{ID: "C10-H2-aggproof-skip-weakened", File: c10VapiFile, Expect: "H2|SubmitAggregateAttestations",
		Old: "\t\tif !c.insecureTest {\n\t\t\terr = signing.VerifyAggregateAndProofSelection(",
		New: "\t\tif !c.insecureTest && c.builderEnabled {\n\t\t\terr = signing.VerifyAggregateAndProofSelection("},
	{ID: "C10-H2-contribproof-error-logged", File: c10VapiFile, Expect: "H2|SubmitSyncCommitteeContributions",
		Old: "\t\t\terr = core.VerifyEth2SignedData(ctx, c.eth2Cl, msg, tbls.PublicKey(eth2Pubkey))\n\t\t\tif err != nil {\n\t\t\t\treturn err\n\t\t\t}",
		New: "\t\t\terr = core.VerifyEth2SignedData(ctx, c.eth2Cl, msg, tbls.PublicKey(eth2Pubkey))\n\t\t\tif err != nil {\n\t\t\t\tlog.Warn(ctx, \"bad selection proof\", err)\n\t\t\t}"},
	{ID: "C10-H2-contribproof-other-object", File: c10VapiFile, Expect: "H2|SubmitSyncCommitteeContributions",
		Old: "msg := core.NewSyncContributionAndProof(contrib.Message)",
		New: "msg := core.NewSyncContributionAndProof(contributionAndProofs[0].Message)"},
	// ---- H3
	{ID: "C10-H3-break-after-first", File: c10PSXFile, Expect: "H3|verifyFunc",
		Old: "\t\t\treturn nil, false, errors.Wrap(err, \"invalid partial signature\")\n\t\t}\n",
		New: "\t\t\treturn nil, false, errors.Wrap(err, \"invalid partial signature\")\n\t\t}\n\n\t\tbreak\n"},
	{ID: "C10-H3-verify-error-logged", File: c10PSXFile, Expect: "H3|verifyFunc",
		Old: "\t\t\treturn nil, false, errors.Wrap(err, \"invalid partial signature\")",
		New: "\t\t\tlog.Warn(ctx, \"invalid partial signature\", err)"},
	{ID: "C10-H3-verify-skips-exits", File: c10PSXFile, Expect: "H3|verifyFunc",
		Old: "\tfor pubkey, data := range set {\n",
		New: "\tfor pubkey, data := range set {\n\t\tif duty.Type == core.DutyExit {\n\t\t\tcontinue\n\t\t}\n"},
	{ID: "C10-H3-no-gater", File: c10PSXFile, Expect: "H3|gaterFunc",
		Old: "\tif !m.gaterFunc(duty) {\n\t\treturn nil, false, errors.New(\"invalid duty\")\n\t}\n",
		New: ""},
	{ID: "C10-H3-gater-weakened", File: c10PSXFile, Expect: "H3|gaterFunc",
		Old: "\tif !m.gaterFunc(duty) {",
		New: "\tif !m.gaterFunc(duty) && duty.Slot == 0 {"},
	{ID: "C10-H3-gater-other-duty", File: c10PSXFile, Expect: "H3|gaterFunc",
		Old: "\tif !m.gaterFunc(duty) {",
		New: "\tif !m.gaterFunc(core.Duty{Type: duty.Type}) {"},
	// ---- H4
	{ID: "C10-H4-fixed-share", File: c10PSXFile, Expect: "H4|pubshare=",
		Old: "pubshare, ok := pubshares[data.ShareIdx]",
		New: "pubshare, ok := pubshares[1]"},
	{ID: "C10-H4-unknown-shareidx-accepted", File: c10PSXFile, Expect: "H4|unknown share index",
		Old: "\t\tpubshare, ok := pubshares[data.ShareIdx]\n\t\tif !ok {\n\t\t\treturn errors.New(\"invalid shareIdx\")\n\t\t}",
		New: "\t\tpubshare, ok := pubshares[data.ShareIdx]\n\t\tif !ok {\n\t\t\tlog.Debug(ctx, \"invalid shareIdx\")\n\t\t}"},
	{ID: "C10-H4-unknown-pubkey-accepted", File: c10PSXFile, Expect: "H4|unknown pubkey",
		Old: "\t\tif !ok {\n\t\t\treturn errors.New(\"unknown pubkey, not part of cluster lock\")\n\t\t}",
		New: "\t\tif !ok && len(pubSharesByKey) == 0 {\n\t\t\treturn errors.New(\"unknown pubkey, not part of cluster lock\")\n\t\t}"},
	{ID: "C10-H4-verify-error-logged", File: c10PSXFile, Expect: "H4|nil only via",
		Old: "\t\t\treturn errors.Wrap(err, \"invalid signature\", z.Str(\"duty\", duty.String()))",
		New: "\t\t\tlog.Warn(ctx, \"invalid signature\", err, z.Str(\"duty\", duty.String()))"},
	// ---- H5
	{ID: "C10-H5-blinded-mismatch-logged", File: c10VapiFile, Expect: "H5|SubmitBlindedProposal",
		Old: "\t}, prop); err != nil {\n\t\treturn errors.Wrap(err, \"consensus proposal and VC-submitted one do not match\")",
		New: "\t}, prop); err != nil {\n\t\tlog.Warn(ctx, \"consensus proposal and VC-submitted one do not match\", err)"},
	{ID: "C10-H5-proposal-check-weakened", File: c10VapiFile, Expect: "H5|SubmitProposal",
		Old: "\tif err := propDataMatchesDuty(opts, prop); err != nil {",
		New: "\tif err := propDataMatchesDuty(opts, prop); err != nil && c.builderEnabled {"},
	{ID: "C10-H5-proposal-self-compare", File: c10VapiFile, Expect: "H5|SubmitProposal",
		Old: "\tif err := propDataMatchesDuty(opts, prop); err != nil {",
		New: "\tif err := propDataMatchesDuty(&eth2api.SubmitProposalOpts{Proposal: &eth2api.VersionedSignedProposal{Version: prop.Version, Blinded: prop.Blinded}}, prop); err != nil {"},
	{ID: "C10-H5-roots-weakened", File: c10VapiFile, Expect: "H5|checkHashes",
		Old: "\t\tif ddb != vc {",
		New: "\t\tif ddb != vc && d2 == nil {"},
	{ID: "C10-H5-altair-unchecked", File: c10VapiFile, Expect: "H5|propDataMatchesDuty",
		Old: "\t\treturn checkHashes(prop.Altair, opts.Proposal.Altair.Message)",
		New: "\t\treturn nil"},
	{ID: "C10-H5-capella-self-compare", File: c10VapiFile, Expect: "H5|propDataMatchesDuty",
		Old: "\t\treturn checkHashes(prop.Capella, opts.Proposal.Capella.Message)",
		New: "\t\treturn checkHashes(prop.Capella, prop.Capella)"},
	{ID: "C10-H5-fulu-case-dropped", File: c10VapiFile, Expect: "H5|version switch",
		Old: "\tcase eth2spec.DataVersionFulu:\n\t\tif prop.Blinded {\n\t\t\treturn checkHashes(prop.FuluBlinded, opts.Proposal.FuluBlinded.Message)\n\t\t}\n\n\t\treturn checkHashes(prop.Fulu.Block, opts.Proposal.Fulu.SignedBlock.Message)\n",
		New: ""},
	{ID: "C10-H5-version-check-weakened", File: c10VapiFile, Expect: "H5|Version equal",
		Old: "\tif opts.Proposal.Version != prop.Version {",
		New: "\tif opts.Proposal.Version != prop.Version && prop.Blinded {"},
	// ---- H6
	{ID: "C10-H6-zero-indexed-shares", File: "app/app.go", Expect: "H6|share table entry",
		Old: "\t\t\tallPubShares[i+1] = pubshare",
		New: "\t\t\tallPubShares[i] = pubshare"},
	{ID: "C10-H6-noop-verifier", File: "app/app.go", Expect: "H6|parsigex verifier",
		Old: "\t\tverifyFunc, err := parsigex.NewEth2Verifier(eth2Cl, allPubSharesByKey)\n\t\tif err != nil {\n\t\t\treturn err\n\t\t}\n",
		New: "\t\tverifyFunc, err := parsigex.NewEth2Verifier(eth2Cl, allPubSharesByKey)\n\t\tif err != nil {\n\t\t\treturn err\n\t\t}\n\n\t\tverifyFunc = func(context.Context, peer.ID, core.Duty, core.PubKey, core.ParSignedData) error { return nil }\n"},
	{ID: "C10-H6-open-gater", File: "app/app.go", Expect: "H6|parsigex gater",
		Old: "peerIDs, verifyFunc, gaterFunc)",
		New: "peerIDs, verifyFunc, func(core.Duty) bool { return true })"},
	{ID: "C10-H6-next-nodes-share", File: c10VapiFile, Expect: "H6|getVerifyShareFunc",
		Old: "\t\tpubshare := shares[shareIdx]",
		New: "\t\tpubshare := shares[shareIdx+1]"},
}
