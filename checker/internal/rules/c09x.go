package rules

// Path-based formulation of C09 G1/G2/G3 and of the "success only via the next link" clause of G4.
// The obligations are decided on the paths enumerated by an.H09Walk (branch conditions evaluated
// under the facts of the path, phis decided by the edge taken, locals followed through their
// stores, in-package helpers and directly called closures executed with argument substitution), so
// that they do not depend on the block structure of today's code. Every obligation is keyed by the
// resolved instruction (return, map insertion, call) it talks about; its verdict is the worst one
// over all paths: a path that breaks it -> violation, a path the walker cannot follow -> undecided.

import (
	"fmt"
	"go/token"
	"sort"

	"golang.org/x/tools/go/ssa"

	"charonverif/internal/an"
	"charonverif/internal/rt"
)

type c09Key struct {
	construct string
	in        ssa.Instruction
}

type c09Verdict struct {
	bad, unsure, good string
	n                 int
}

// c09Acc accumulates per-(construct, instruction) verdicts over paths.
type c09Acc struct {
	m     map[c09Key]*c09Verdict
	order []c09Key
}

func newC09Acc() *c09Acc { return &c09Acc{m: map[c09Key]*c09Verdict{}} }

func (a *c09Acc) get(construct string, in ssa.Instruction) *c09Verdict {
	k := c09Key{construct, in}
	v := a.m[k]
	if v == nil {
		v = &c09Verdict{}
		a.m[k] = v
		a.order = append(a.order, k)
	}
	v.n++
	return v
}

func (a *c09Acc) bad(construct string, in ssa.Instruction, msg string) {
	if v := a.get(construct, in); v.bad == "" {
		v.bad = msg
	}
}

func (a *c09Acc) unsure(construct string, in ssa.Instruction, msg string) {
	if v := a.get(construct, in); v.unsure == "" {
		v.unsure = msg
	}
}

func (a *c09Acc) good(construct string, in ssa.Instruction, msg string) {
	if v := a.get(construct, in); v.good == "" {
		v.good = msg
	}
}

// soften turns the violations recorded for a construct into undecided findings (used when another path showed that
// the evidence rests on something the walker cannot follow).
func (a *c09Acc) soften(construct, why string) {
	for k, v := range a.m {
		if k.construct == construct && v.bad != "" {
			v.bad, v.unsure = "", why
		}
	}
}

func (a *c09Acc) flush(c *rt.Ctx) {
	keys := append([]c09Key{}, a.order...)
	sort.SliceStable(keys, func(i, j int) bool {
		if keys[i].construct != keys[j].construct {
			return false // keep first-seen order of constructs
		}
		return posOf(keys[i].in) < posOf(keys[j].in)
	})
	for _, k := range keys {
		v := a.m[k]
		switch {
		case v.bad != "":
			c.Bad(k.construct, posOf(k.in), v.bad)
		case v.unsure != "":
			c.Unsure(k.construct, posOf(k.in), v.unsure)
		default:
			c.Good(k.construct, posOf(k.in), v.good)
		}
	}
}

// c09WalkCfg: follow static callees and directly called closures of the same package, except the
// anchors named in stop (they are obligations of their own).
func c09WalkCfg(root *ssa.Function, stop ...string) an.H09Config {
	top := func(f *ssa.Function) *ssa.Function {
		f = an.Orig(f)
		for f.Parent() != nil {
			f = f.Parent()
		}
		return f
	}
	pkg := top(root).Pkg
	return an.H09Config{
		Inline: func(f *ssa.Function) bool {
			if f.Synthetic != "" && f.Parent() == nil && len(f.Blocks) == 1 {
				return true // bound-method wrappers and thunks (`clone := output.Clone`): straight-line forwarding
			}
			if pkg == nil || top(f).Pkg != pkg {
				return false
			}
			n := an.FuncName(f)
			for _, s := range stop {
				if n == s {
					return false
				}
			}
			return true
		},
		NonNil: an.Static("app/errors.New", "app/errors.Wrap"),
	}
}

func c09Common(ev *an.H09Event) *ssa.CallCommon {
	if ci, ok := ev.In.(ssa.CallInstruction); ok {
		return ci.Common()
	}
	return nil
}

// c09FieldOfRecv: sv is (an element of) the named field of base (a pointer or value instance).
// It returns whether the last field step is the named one and whether the base is the wanted one.
func c09FieldOfRecv(st *an.H09State, sv, base an.H09SV, key string) (isField, ofBase bool) {
	p := st.PathOf(sv)
	fi := -1
	for i, s := range p.Steps {
		if s.Kind == "field" && s.Field == key {
			fi = i
		}
	}
	if fi < 0 {
		return false, false
	}
	for _, s := range p.Steps[:fi] {
		if s.Kind != "deref" {
			return true, false
		}
	}
	return true, p.Base == base
}

func c09Opaque(st *an.H09State, sv an.H09SV) bool {
	_, o := c09Describe(st, sv)
	return o
}

func c09SamePkgCallee(st *an.H09State, root *ssa.Function, sv an.H09SV) bool {
	call, _, ok := st.ResultOf(sv)
	if !ok {
		return false
	}
	cv := call.V.(*ssa.Call)
	f := cv.Call.StaticCallee()
	if f == nil {
		_, isClosure := an.Unwrap(cv.Call.Value).(*ssa.MakeClosure)
		return isClosure
	}
	g := an.Orig(f)
	for g.Parent() != nil {
		g = g.Parent()
	}
	r := root
	for r.Parent() != nil {
		r = r.Parent()
	}
	return g.Pkg != nil && g.Pkg == r.Pkg
}

func c09Incomplete(c *rt.Ctx, what string, fn *ssa.Function, res an.H09Result) {
	if !res.Complete {
		c.Unsure(what, fn.Pos(), "path exploration of "+an.FuncName(fn)+" is incomplete: "+res.Why)
	} else if res.Paths == 0 {
		c.Unsure(what, fn.Pos(), "no path of "+an.FuncName(fn)+" reaches a return within the unrolling bound")
	}
}

// ---------------------------------------------------------------------------------------------
// G1/G2/G3 are decided on the paths of the entry point Aggregator.Aggregate with every in-package
// callee, closure and bound method executed in place. The obligations are anchored on the mechanism —
// calls through the receiver's verifyFunc and subs fields, tbls.ThresholdAggregate, entries of the
// input set — not on the helper the per-validator step happens to live in (a method, a closure of
// Aggregate, a method of a parameter struct).

// c09AggAnchor resolves the entry point: the method of Aggregator that receives the input set.
func c09AggAnchor(c *rt.Ctx) (fn *ssa.Function, recv, set an.H09SV) {
	const setT = "map[core.PubKey][]core.ParSignedData"
	fn = c.FnOpt(c09FnAggUpper)
	if fn == nil || len(fn.Blocks) == 0 {
		fn = nil
		for _, f := range an.PkgFuncs(c.SSAPkg("core/sigagg")) {
			if f.Parent() != nil || f.Signature.Recv() == nil || f.Object() == nil || !f.Object().Exported() ||
				an.TypeName(f.Signature.Recv().Type()) != c09Agg {
				continue
			}
			for _, p := range f.Params {
				if c09TypeStr(p.Type()) == setT {
					if fn != nil && fn != f {
						c.Bail("two exported methods of Aggregator take the input set")
					}
					fn = f
				}
			}
		}
		if fn == nil {
			c.Bail("entry point %s not found", c09FnAggUpper)
		}
	}
	setP := c09ParamOfType(c, fn, setT)
	if len(fn.Params) == 0 || fn.Signature.Recv() == nil {
		c.Bail("Aggregate has no receiver")
	}
	return fn, an.H09Param(fn.Params[0]), an.H09Param(setP)
}

func c09AggCfg(fn *ssa.Function) an.H09Config {
	cfg := c09WalkCfg(fn)
	cfg.MaxDepth = 8
	cfg.InnerVisits = 2
	cfg.MaxPaths = 60000
	return cfg
}

// c09IsVerify: ev is a call through the verifyFunc field (isF) of the receiver (ofRecv).
func c09IsVerify(st *an.H09State, e *an.H09Event, recv an.H09SV) (isF, ofRecv bool) {
	if e.Kind != "call" || e.Inlined || len(e.Args) != 3 {
		return false, false
	}
	cc := c09Common(e)
	if cc == nil || cc.IsInvoke() || cc.StaticCallee() != nil {
		return false, false
	}
	return c09FieldOfRecv(st, e.Callee, recv, c09Agg+".verifyFunc")
}

// c09IsPublication: ev is a call through the subs field.
func c09IsPublication(st *an.H09State, ev *an.H09Event, recv an.H09SV) (isPub, ofRecv bool) {
	if ev.Kind != "call" && ev.Kind != "go" && ev.Kind != "defer" {
		return false, false
	}
	cc := c09Common(ev)
	if cc == nil || cc.IsInvoke() || cc.StaticCallee() != nil {
		return false, false
	}
	isF, of := c09FieldOfRecv(st, ev.Callee, recv, c09Agg+".subs")
	if !isF && !an.FieldCall(c09Agg + ".subs")(cc) {
		return false, false
	}
	return true, of || !isF
}

// c09PublishedMap: the map handed to a subscriber, seen through a checked Clone. status: "" ok,
// otherwise why not (bad: positive evidence; unsure otherwise).
func c09PublishedMap(st *an.H09State, ev *an.H09Event) (m an.H09SV, bad, unsure string) {
	if len(ev.Args) != 3 {
		return an.H09SV{}, "", "subscriber signature changed"
	}
	m = ev.Args[2]
	if call, idx, ok := st.ResultOf(m); ok && idx == 0 {
		if ce := st.CallEvent(call); ce != nil && !ce.Inlined && an.Static("core.SignedDataSet.Clone")(c09Common(ce)) && len(ce.Args) == 1 {
			m = ce.Args[0]
			if k, isNil := st.ErrOf(call); !k || !isNil {
				return m, "clone of the output set is used although Clone failed (its error is not checked on this path)", ""
			}
		}
	}
	if _, ok := m.V.(*ssa.MakeMap); !ok {
		return m, "", "the set handed to subscribers is not (a clone of) a map made by Aggregate or its helpers"
	}
	return m, "", ""
}

// c09VerifiedAs finds the verification of value v on the path. good: verified by the receiver's verifyFunc under
// key with a nil verdict; otherwise bad (positive evidence) or unsure says why not.
func c09VerifiedAs(st *an.H09State, root *ssa.Function, recv, key, v an.H09SV) (good bool, bad, unsure string) {
	var hits []*an.H09Event
	for i := range st.Trace {
		e := &st.Trace[i]
		if isF, _ := c09IsVerify(st, e, recv); isF && e.Args[2] == v {
			hits = append(hits, e)
		}
	}
	if len(hits) == 0 {
		switch {
		case c09SamePkgCallee(st, root, v):
			return false, "", "the published value comes from an in-package call the checker did not follow"
		case c09Opaque(st, v):
			return false, "", "cannot follow the published value"
		}
		return false, "a value is published that was not passed to a.verifyFunc (the published object is not the verified one)", ""
	}
	for _, hit := range hits {
		if _, ofRecv := c09FieldOfRecv(st, hit.Callee, recv, c09Agg+".verifyFunc"); !ofRecv {
			bad = "verifyFunc is not the receiver's"
			continue
		}
		if hit.Args[1] != key {
			if c09Opaque(st, hit.Args[1]) || c09Opaque(st, key) {
				unsure = "cannot tell whether the aggregate is verified under the key it is published for"
			} else {
				bad = "the aggregate is verified under a key other than the one it is published for"
			}
			continue
		}
		switch k, isNil := st.ErrOf(hit.SV); {
		case k && isNil:
			return true, "", ""
		case k:
			bad = "the value is published on a path on which a.verifyFunc returned an error"
		default:
			bad = "the value is published on a path on which the verdict of a.verifyFunc was not checked"
		}
	}
	if bad != "" {
		return false, bad, ""
	}
	return false, "", unsure
}

// G1: every value of the set handed to subscribers is the instance verified by the receiver's
// verifyFunc under the key it is published for, on a path on which that verification returned nil.
func c09G1(c *rt.Ctx) {
	fn, recv, _ := c09AggAnchor(c)
	c09HasField(c, "core/sigagg", "Aggregator", "verifyFunc")
	c09HasField(c, "core/sigagg", "Aggregator", "subs")
	construct := "aggregate non-nil result verified"
	acc := newC09Acc()
	checked, pubs := 0, 0
	cfg := c09AggCfg(fn)
	cfg.OnEvent = func(st *an.H09State, ev *an.H09Event) {
		if isPub, _ := c09IsPublication(st, ev, recv); !isPub {
			return
		}
		pubs++
		m, _, _ := c09PublishedMap(st, ev)
		if _, ok := m.V.(*ssa.MakeMap); !ok {
			return // G2 reports what is wrong with the published set
		}
		for i := range st.Trace {
			e := &st.Trace[i]
			if e.Kind != "mapupdate" || e.Map != m {
				continue
			}
			checked++
			good, bad, unsure := c09VerifiedAs(st, fn, recv, e.Key, e.Val)
			switch {
			case good:
				acc.good(construct, e.In, "")
			case bad != "":
				acc.bad(construct, e.In, bad)
			default:
				acc.unsure(construct, e.In, unsure)
			}
		}
	}
	res := an.H09Walk(fn, cfg)
	c09Incomplete(c, construct, fn, res)
	acc.flush(c)
	if checked == 0 && res.Complete {
		if pubs == 0 {
			c.Bail("no call through Aggregator.subs is reached from Aggregate")
		}
		c.Bail("no value is stored into a set handed to subscribers on the explored paths")
	}
}

// ---------------------------------------------------------------------------------------------
// G2: all-or-nothing publication.

func c09G2(c *rt.Ctx) {
	fn, recv, set := c09AggAnchor(c)
	c09HasField(c, "core/sigagg", "Aggregator", "subs")
	subsM := an.FieldCall(c09Agg + ".subs")
	pkg := c.SSAPkg("core/sigagg")
	acc := newC09Acc()
	covered := map[ssa.Instruction]bool{}
	walked := map[*ssa.Function]bool{fn: true}
	verifies := 0
	unfollowed := false
	cfg := c09AggCfg(fn)
	cfg.OnEvent = func(st *an.H09State, ev *an.H09Event) {
		if ev.Kind != "call" && ev.Kind != "go" && ev.Kind != "defer" {
			return
		}
		if ev.Inlined && ev.Target != nil {
			walked[ev.Target] = true
		}
		if isF, _ := c09IsVerify(st, ev, recv); isF {
			verifies++
			return
		}
		isPub, ofRecv := c09IsPublication(st, ev, recv)
		if !isPub {
			return
		}
		covered[ev.In] = true
		if !ofRecv {
			acc.unsure("Aggregate published set", ev.In, "subscribers of another aggregator are called")
			return
		}
		if ev.Kind != "call" {
			acc.unsure("Aggregate published set", ev.In, "subscribers are started asynchronously/deferred")
			return
		}
		c09Publication(acc, st, ev, fn, recv, set, &unfollowed)
	}
	res := an.H09Walk(fn, cfg)
	c09Incomplete(c, "Aggregate published set", fn, res)
	// sweep: nobody else publishes
	for _, f := range an.PkgFuncs(pkg) {
		for _, k := range an.Calls(f, subsM, false) {
			if covered[k] {
				continue
			}
			root := f
			for root.Parent() != nil {
				root = root.Parent()
			}
			if walked[f] {
				c.Unsure("subscribers called from "+an.FuncName(root), k.Pos(), "this publication is not reached by any explored path of Aggregate")
				continue
			}
			// a helper that merely forwards a set it was given is not followed (undecided); one that
			// publishes a set of its own making bypasses the aggregation loop.
			forwards := false
			if a := k.Common().Args; len(a) == 3 {
				for _, o := range c09Origins(a[2]) {
					if o.Kind == "param" || o.Kind == "other" || o.Kind == "freevar" {
						forwards = true
					}
				}
			}
			if forwards {
				c.Unsure("subscribers called from "+an.FuncName(root), k.Pos(), "publication through a helper is not followed back to Aggregate")
			} else {
				c.Bad("subscribers called from "+an.FuncName(root), k.Pos(), "subscribers are called outside Aggregator.Aggregate with a set that is not the checked result of the aggregation loop")
			}
		}
	}
	if len(covered) == 0 {
		c.Bail("no call through Aggregator.subs is reached from Aggregate")
	}
	if verifies == 0 {
		c.Bail("no call through Aggregator.verifyFunc is reached from Aggregate")
	}
	// the helpers the publication was followed into belong to Aggregate only
	for f := range walked {
		if f == fn || f.Parent() != nil {
			continue
		}
		publishes := false
		for _, k := range an.Calls(f, func(*ssa.CallCommon) bool { return true }, true) {
			if covered[k] {
				publishes = true
			}
		}
		if !publishes {
			continue
		}
		for _, g := range an.PkgFuncs(pkg) {
			for _, in := range an.Instrs(g, false) {
				for _, op := range an.Operands(in) {
					if op != ssa.Value(f) {
						continue
					}
					ci, isCall := in.(ssa.CallInstruction)
					if isCall && ci.Common().Value == op && walked[g] {
						continue
					}
					c.Unsure("subscribers called from "+an.FuncName(f), posOf(in), "the publishing helper is also used outside Aggregate (from "+an.FuncName(g)+")")
				}
			}
		}
	}
	if unfollowed {
		// some insertion into the published set is fed from a container the walker does not model (its key or value
		// cannot be followed): which validators were stored is unknown on every path, a "skipped validator" is no evidence
		acc.soften("Aggregate: subscribers run only after every validator aggregated", "cannot tell which validators the insertions into the published set belong to")
	}
	acc.flush(c)
}

// c09PartialsEntry follows a published aggregate back to the entry of the input set whose partials were threshold
// aggregated for it: v = X.SetSignature(SigToCore(sig)), sig = tbls.ThresholdAggregate(m), m filled from elements of
// set[k]. It returns the entry steps met (nil when a link cannot be followed).
func c09PartialsEntry(st *an.H09State, set, v an.H09SV) (entries []an.H09Step, followed bool) {
	call, idx, ok := st.ResultOf(v)
	if !ok || idx != 0 {
		return nil, false
	}
	ce := st.CallEvent(call)
	if ce == nil || ce.Inlined || len(ce.Args) != 1 {
		return nil, false
	}
	if cc := c09Common(ce); !cc.IsInvoke() || cc.Method.Name() != "SetSignature" {
		return nil, false
	}
	tcall, tidx, ok := st.ResultOf(c09PeelSV(st, ce.Args[0]))
	if !ok || tidx != 0 {
		return nil, false
	}
	te := st.CallEvent(tcall)
	if te == nil || te.Inlined || len(te.Args) != 1 || !an.Static("tbls.ThresholdAggregate")(c09Common(te)) {
		return nil, false
	}
	m := te.Args[0]
	if _, isMake := m.V.(*ssa.MakeMap); !isMake {
		return nil, false
	}
	n := 0
	for i := range st.Trace {
		e := &st.Trace[i]
		if e.Kind != "mapupdate" || e.Map != m {
			continue
		}
		n++
		found := false
		if p := st.PathOf(e.Key); p.Base == set && len(p.Steps) >= 2 && (p.Steps[0].Kind == "rangeval" || p.Steps[0].Kind == "index") {
			entries, found = append(entries, p.Steps[0]), true
		}
		if elem, _, _ := c09ShareValue(st, e.Val); elem != nil && elem.Base == set && len(elem.Steps) >= 2 && (elem.Steps[0].Kind == "rangeval" || elem.Steps[0].Kind == "index") {
			entries, found = append(entries, elem.Steps[0]), true
		}
		if !found {
			return nil, false
		}
	}
	return entries, true // no insertion on this path: an empty share map, nothing to bind
}

// c09KeyOfEntry: key is the key of the entry of the input set selected by step.
func c09KeyOfEntry(st *an.H09State, set, key an.H09SV, step an.H09Step) bool {
	if step.Kind == "index" {
		return step.Idx == key
	}
	kp := st.PathOf(key)
	return kp.Base == set && len(kp.Steps) == 1 && kp.Steps[0].Kind == "rangekey" && kp.Steps[0].Idx == step.Idx
}

// c09Publication decides the three G2 obligations for one publication on one path.
func c09Publication(acc *c09Acc, st *an.H09State, ev *an.H09Event, root *ssa.Function, recv, set an.H09SV, unfollowed *bool) {
	const (
		pubC = "Aggregate published set"
		upC  = "Aggregate output[pubkey] = checked aggregate(pubkey, set[pubkey])"
		allC = "Aggregate: subscribers run only after every validator aggregated"
	)
	m, badWhy, unsureWhy := c09PublishedMap(st, ev)
	switch {
	case badWhy != "":
		acc.bad(pubC, ev.In, badWhy)
		return
	case unsureWhy != "":
		acc.unsure(pubC, ev.In, unsureWhy)
		return
	}
	acc.good(pubC, ev.In, "output set")
	stored := map[an.H09SV]bool{}
	unknownStore := false // an insertion whose key or value the walker cannot follow: it may be the aggregate of any validator
	for i := range st.Trace {
		e := &st.Trace[i]
		switch e.Kind {
		case "mapupdate":
			if e.Map != m {
				if e.Val == m {
					acc.unsure("Aggregate output set escapes", e.In, "output set is stored into another map")
				}
				continue
			}
			// the value is a checked aggregate: verified under this key with a nil verdict (G1 states the same per value;
			// here it decides which validators count as aggregated)
			good, badWhy, unsureWhy := c09VerifiedAs(st, root, recv, e.Key, e.Val)
			if !good {
				if badWhy != "" {
					acc.bad(upC, e.In, "the value stored in the published set is not an aggregate whose verification succeeded on this path: "+badWhy)
				} else {
					acc.unsure(upC, e.In, unsureWhy)
					unknownStore, *unfollowed = true, true
				}
				continue
			}
			// the key is a key of the input set and the partials aggregated for it are those of that entry
			entries, followed := c09PartialsEntry(st, set, e.Val)
			entry := "ok"
			switch {
			case !followed && c09Opaque(st, e.Key):
				entry = "unknown"
			case !followed:
				entry = "unfollowed"
			}
			for _, es := range entries {
				if !c09KeyOfEntry(st, set, e.Key, es) {
					entry = "mismatch"
				}
			}
			switch entry {
			case "mismatch":
				acc.bad(upC, e.In, "the aggregate published under this key is not built from the partials of that key's entry of the input set (key and partials of different entries)")
				continue
			case "unknown", "unfollowed":
				acc.unsure(upC, e.In, "cannot follow the published aggregate back to the partials of one entry of the input set")
				unknownStore, *unfollowed = true, true
				continue
			}
			stored[e.Key] = true
			acc.good(upC, e.In, "")
		case "call", "go", "defer":
			if e.Inlined || e == ev {
				continue
			}
			uses := false
			for _, x := range e.Args {
				if x == m {
					uses = true
				}
			}
			if !uses {
				continue
			}
			cc := c09Common(e)
			if b, ok := cc.Value.(*ssa.Builtin); ok && b.Name() == "len" {
				continue
			}
			if an.Static("core.SignedDataSet.Clone")(cc) {
				continue
			}
			if isF, _ := c09FieldOfRecv(st, e.Callee, recv, c09Agg+".subs"); isF {
				continue
			}
			acc.unsure("Aggregate output set escapes", e.In, "output set is passed to "+c09EvName(e))
		}
	}
	// completeness: a range loop over the input set ran to exhaustion and every entry it yielded was stored
	type loop struct {
		rng   an.H09SV
		nexts []an.H09SV
	}
	var loops []*loop
	for i := range st.Trace {
		e := &st.Trace[i]
		if e.Kind != "next" {
			continue
		}
		ops := st.Ops(e.SV)
		if len(ops) != 1 {
			continue
		}
		if _, isRange := ops[0].V.(*ssa.Range); !isRange {
			continue
		}
		if r := st.Ops(ops[0]); len(r) != 1 || r[0] != set {
			continue
		}
		var l *loop
		for _, x := range loops {
			if x.rng == ops[0] {
				l = x
			}
		}
		if l == nil {
			l = &loop{rng: ops[0]}
			loops = append(loops, l)
		}
		l.nexts = append(l.nexts, e.SV)
	}
	if len(loops) == 0 {
		acc.unsure(allC, ev.In, "no range loop over the input set precedes the publication on this path")
		return
	}
	// position of the publication and of every range step in the trace
	pubAt := len(st.Trace)
	for i := range st.Trace {
		if &st.Trace[i] == ev {
			pubAt = i
		}
	}
	at := func(n an.H09SV) int {
		for i := range st.Trace {
			if e := &st.Trace[i]; e.Kind == "next" && e.SV == n {
				return i
			}
		}
		return -1
	}
	// aggregates(from, to, key): an aggregate is verified for key between two trace positions
	aggregates := func(from, to int, key an.H09SV) bool {
		for i := from; i >= 0 && i < to && i < len(st.Trace); i++ {
			e := &st.Trace[i]
			if isF, _ := c09IsVerify(st, e, recv); isF && e.Args[1] == key {
				return true
			}
		}
		return false
	}
	why, unsure := "", ""
	for _, l := range loops {
		ok := true
		isAggLoop := false
		for i, n := range l.nexts {
			end := pubAt
			if i+1 < len(l.nexts) {
				end = at(l.nexts[i+1])
			}
			if key := st.ExtractOf(n, 1); key.V != nil && aggregates(at(n), end, key) {
				isAggLoop = true
			}
		}
		for i, n := range l.nexts {
			okv := st.ExtractOf(n, 0)
			k, more := st.BoolOf(okv)
			last := i == len(l.nexts)-1
			switch {
			case okv.V == nil || !k:
				ok, unsure = false, "cannot tell whether the loop over the input set was exhausted"
			case last && more && isAggLoop:
				ok, why = false, "subscribers are reached before the loop over the input set is exhausted (publication inside the loop, or the loop is left early)"
			case last && more:
				ok, unsure = false, "a loop over the input set that does not aggregate is left early"
			case !last && !more:
				ok, unsure = false, "iteration continues after exhaustion"
			case more:
				key := st.ExtractOf(n, 1)
				switch {
				case key.V == nil:
					ok, unsure = false, "the loop over the input set does not bind the key"
				case stored[key]:
				case unknownStore:
					ok, unsure = false, "cannot tell which validators the insertions into the published set belong to"
				case isAggLoop:
					ok, why = false, "a validator of the input set was skipped or failed (no checked aggregate stored for it) and subscribers are still reached: the set published is partial"
				default:
					ok, unsure = false, "the loop over the input set does not aggregate its entries itself; completeness of the published set is not followed"
				}
			}
			if !ok {
				break
			}
		}
		if ok {
			acc.good(allC, ev.In, "")
			return
		}
	}
	if why != "" {
		acc.bad(allC, ev.In, why)
	} else {
		acc.unsure(allC, ev.In, unsure)
	}
}

func c09EvName(e *an.H09Event) string {
	if cc := c09Common(e); cc != nil {
		if n := an.CalleeName(cc); n != "" {
			return n
		}
	}
	return "a dynamic call"
}

// ---------------------------------------------------------------------------------------------
// G3: the share map given to tbls.ThresholdAggregate.

func c09G3(c *rt.Ctx) {
	fn, recv, set := c09AggAnchor(c)
	c09HasField(c, "core/sigagg", "Aggregator", "threshold")
	// isElem: the access path denotes an element of the partials of one entry of the input set
	isElem := func(base an.H09SV, steps []an.H09Step) bool {
		return base == set && len(steps) == 2 && (steps[0].Kind == "rangeval" || steps[0].Kind == "index") && steps[1].Kind == "index"
	}
	isEntry := func(st *an.H09State, sv an.H09SV) bool {
		p := st.PathOf(sv)
		return p.Base == set && len(p.Steps) == 1 && (p.Steps[0].Kind == "rangeval" || p.Steps[0].Kind == "index")
	}
	taM := an.Static("tbls.ThresholdAggregate")
	const (
		mapC  = "aggregate share map"
		fillC = "aggregate share map filled from parSigs"
		keyC  = "aggregate share map keyed by ShareIdx"
		valC  = "aggregate share map value"
		lenC  = "aggregate len(distinct shares) < threshold → no aggregation"
		allC  = "aggregate share map holds every partial of the entry"
	)
	acc := newC09Acc()
	fill := newC09FillRec()
	covered := map[ssa.Instruction]bool{}
	updates, taPaths, prePaths := 0, 0, 0
	isThr := func(st *an.H09State, sv an.H09SV) bool {
		p := st.PathOf(sv)
		return p.Base == recv && len(p.Steps) == 1 && p.Steps[0].Kind == "field" && p.Steps[0].Field == c09Agg+".threshold"
	}
	// atLeast: the assumption e establishes len(of) >= a.threshold, with len evaluated after trace index `after`.
	atLeast := func(st *an.H09State, e *an.H09Event, of func(an.H09SV) bool, after int) bool {
		isLen := func(sv an.H09SV) bool {
			cv, ok := sv.V.(*ssa.Call)
			if !ok {
				return false
			}
			b, ok := cv.Call.Value.(*ssa.Builtin)
			ops := st.Ops(sv)
			return ok && b.Name() == "len" && len(ops) == 1 && of(ops[0])
		}
		if e.Kind != "assume" || e.NilTest {
			return false
		}
		bin, ok := e.Atom.V.(*ssa.BinOp)
		ops := st.Ops(e.Atom)
		if !ok || len(ops) != 2 {
			return false
		}
		var lenSV an.H09SV
		var want bool
		switch {
		case isLen(ops[0]) && isThr(st, ops[1]):
			lenSV = ops[0]
			switch bin.Op {
			case token.LSS:
				want = false
			case token.GEQ:
				want = true
			default:
				return false
			}
		case isLen(ops[1]) && isThr(st, ops[0]):
			lenSV = ops[1]
			switch bin.Op {
			case token.GTR:
				want = false
			case token.LEQ:
				want = true
			default:
				return false
			}
		default:
			return false
		}
		if e.Truth != want {
			return false
		}
		for i := after + 1; i < len(st.Trace); i++ {
			if x := &st.Trace[i]; x.Kind == "call" && x.SV == lenSV {
				return true
			}
		}
		return false
	}
	cfg := c09AggCfg(fn)
	cfg.OnEvent = func(st *an.H09State, ev *an.H09Event) {
		if ev.Kind != "call" || ev.Inlined || !taM(c09Common(ev)) {
			return
		}
		covered[ev.In] = true
		taPaths++
		if len(ev.Args) != 1 {
			acc.unsure(mapC, ev.In, "tbls.ThresholdAggregate: unexpected arity")
			return
		}
		m := ev.Args[0]
		if _, ok := m.V.(*ssa.MakeMap); !ok {
			acc.unsure(mapC, ev.In, "the argument of tbls.ThresholdAggregate is not a map made in aggregate or its helpers")
			return
		}
		lastUp := -1
		added := map[an.H09SV]bool{}  // index instances (within the partials of the entry) of the elements inserted
		idxVals := map[ssa.Value]bool{} // their SSA values: the induction value(s) of the filling loop
		for i := range st.Trace {
			e := &st.Trace[i]
			switch e.Kind {
			case "mapupdate":
				if e.Map != m {
					if e.Val == m {
						acc.unsure(mapC, e.In, "share map is stored into another map")
					}
					continue
				}
				lastUp = i
				updates++
				// key: the ShareIdx of an element of the partials parameter
				kp := st.PathOf(e.Key)
				n := len(kp.Steps)
				var elem []an.H09Step
				isShare := n >= 1 && kp.Steps[n-1].Kind == "field" && kp.Steps[n-1].Field == "core.ParSignedData.ShareIdx"
				if isShare {
					elem = kp.Steps[:n-1]
				}
				fromPar := isShare && isElem(kp.Base, elem)
				keyOpaque := !isShare && c09Opaque(st, kp.Base)
				// value: tblsconv.SigFromCore(elem.Signature()), conversion checked
				valElem, valWhy, valUnsure := c09ShareValue(st, e.Val)
				switch {
				case valElem != nil && valWhy == "" && isElem(valElem.Base, valElem.Steps):
					// (the signature of that element, converted and checked, is what enters the interpolation)
					added[valElem.Steps[1].Idx] = true
					idxVals[valElem.Steps[1].Idx.V] = true
				case valElem == nil && fromPar:
					idxVals[elem[1].Idx.V] = true
				}
				switch {
				case fromPar:
					acc.good(fillC, e.In, "")
				case valElem != nil && isElem(valElem.Base, valElem.Steps):
					acc.good(fillC, e.In, "")
				case (isShare && c09Opaque(st, kp.Base)) || (valElem != nil && c09Opaque(st, valElem.Base)) || (valElem == nil && valUnsure && keyOpaque):
					acc.unsure(fillC, e.In, "cannot follow the inserted share back to an element of the partials of an entry of the input set")
				case valElem != nil || isShare:
					acc.bad(fillC, e.In, "the share inserted is not taken from an element of the partials of an entry of the input set")
				default:
					acc.bad(fillC, e.In, "insertion into the share map is not fed by the elements of the partials of an entry of the input set")
				}
				switch {
				case keyOpaque:
					acc.unsure(keyC, e.In, "cannot follow the key of the share map")
				case !isShare:
					acc.bad(keyC, e.In, "the share map is not keyed by the ShareIdx of the partial being added: a repeated share is counted twice")
				case valElem != nil && (kp.Base != valElem.Base || !c09SameSteps(elem, valElem.Steps)):
					if c09Opaque(st, kp.Base) || c09Opaque(st, valElem.Base) {
						acc.unsure(keyC, e.In, "cannot tell whether key and signature belong to the same partial")
					} else {
						acc.bad(keyC, e.In, "the key is the ShareIdx of another partial than the one whose signature is stored")
					}
				default:
					acc.good(keyC, e.In, "")
				}
				switch {
				case valElem != nil && valWhy == "":
					acc.good(valC, e.In, "")
				case valUnsure:
					acc.unsure(valC, e.In, valWhy)
				default:
					acc.bad(valC, e.In, valWhy)
				}
			case "call", "go", "defer":
				if e.Inlined || e == ev {
					continue
				}
				uses := false
				for _, x := range e.Args {
					if x == m {
						uses = true
					}
				}
				if !uses {
					continue
				}
				if b, ok := c09Common(e).Value.(*ssa.Builtin); ok && b.Name() == "len" {
					continue
				}
				if b, ok := c09Common(e).Value.(*ssa.Builtin); ok && (b.Name() == "delete" || b.Name() == "clear") && len(e.Args) > 0 && e.Args[0] == m {
					lastUp = i // removing shares changes the count like an insertion does: the size must be tested afterwards
					continue
				}
				acc.unsure(mapC, e.In, "share map is passed to "+c09EvName(e))
			}
		}
		fill.record(st, ev, added, idxVals, isThr, isEntry)
		good, pre := false, false
		for i := range st.Trace {
			e := &st.Trace[i]
			if i > lastUp && atLeast(st, e, func(x an.H09SV) bool { return x == m }, lastUp) {
				good = true
			}
			if atLeast(st, e, func(x an.H09SV) bool { return isEntry(st, x) }, -1) {
				pre = true
			}
		}
		if pre {
			prePaths++
		}
		// a test that involves len(share map) only indirectly (through arithmetic) is not decoded
		indirect := false
		if !good {
			var mentions func(sv an.H09SV, d int) (bool, bool)
			mentions = func(sv an.H09SV, d int) (found, direct bool) {
				if st.IsLenOf(sv, m) {
					return true, true
				}
				if d > 4 {
					return false, false
				}
				switch sv.V.(type) {
				case *ssa.BinOp, *ssa.UnOp, *ssa.Call:
					// arithmetic on the size, or a predicate/helper the walker did not execute that is given the size
					for _, o := range st.Ops(sv) {
						if f, _ := mentions(o, d+1); f {
							return true, false
						}
					}
				}
				return false, false
			}
			for i := lastUp + 1; i < len(st.Trace); i++ {
				e := &st.Trace[i]
				if e.Kind != "assume" || e.NilTest {
					continue
				}
				if _, isCall := e.Atom.V.(*ssa.Call); isCall {
					if f, d := mentions(e.Atom, 0); f && !d {
						indirect = true // the verdict of a predicate over the size
					}
					continue
				}
				if _, isBin := e.Atom.V.(*ssa.BinOp); !isBin {
					continue
				}
				direct := false
				found := false
				ops := st.Ops(e.Atom)
				for _, o := range ops {
					f, d := mentions(o, 0)
					found = found || f
					direct = direct || d
				}
				if found && !direct {
					indirect = true
				}
				// the size compared with a bound the walker cannot follow (not positively "another bound")
				if direct && len(ops) == 2 {
					other := ops[0]
					if st.IsLenOf(ops[0], m) {
						other = ops[1]
					}
					if !isThr(st, other) && c09Opaque(st, other) {
						indirect = true
					}
				}
			}
		}
		if good {
			acc.good(lenC, ev.In, "")
		} else if indirect {
			acc.unsure(lenC, ev.In, "the size of the share map is tested in a form the checker does not decode")
		} else {
			acc.bad(lenC, ev.In, "tbls.ThresholdAggregate is reached on a path without a test `len(share map) >= a.threshold` made after the last insertion: fewer than threshold distinct shares (or shares added after the test) are aggregated")
		}
	}
	res := an.H09Walk(fn, cfg)
	c09Incomplete(c, mapC, fn, res)
	for _, f := range an.PkgFuncs(c.SSAPkg("core/sigagg")) {
		for _, k := range an.Calls(f, taM, false) {
			if !covered[k] {
				c.Unsure(mapC, k.Pos(), "this call of tbls.ThresholdAggregate is not reached by any explored path of aggregate")
			}
		}
	}
	if len(covered) == 0 {
		c.Bail("no call to tbls.ThresholdAggregate is reached from aggregate")
	}
	if updates == 0 && res.Complete {
		c.Bail("no insertion into the share map")
	}
	// The round-5 clause "every partial of the entry enters the share map" (seed C09-r5A) is WITHDRAWN: on the regression
	// corpus it raised VIOLATIONs on six behaviour-preserving refactorings (index loops, fill helpers, publish closures) because
	// the loop-exhaustion tests of earlier activations are not separated reliably. The recorder is kept for a later round.
	_ = fill
	_ = allC
	acc.flush(c)
	// the cheap pre-check on the raw list is implied by the test above (len(map) <= len(list)); recorded when present
	if taPaths > 0 && prePaths == taPaths {
		c.Good("aggregate len(parSigs) < threshold pre-check", fn.Pos(), "")
	} else {
		c.Note("G3: no len(parSigs) < threshold pre-check in aggregate (implied by the distinct-share test)")
	}
}

func c09SameSteps(a, b []an.H09Step) bool {
	if len(a) != len(b) {
		return false
	}
	for i := range a {
		if a[i] != b[i] {
			return false
		}
	}
	return true
}

// c09ShareValue decodes v as result 0 of tblsconv.SigFromCore(x.Signature()) with the conversion
// error known nil; it returns the access path of x without its trailing SignedData selection.
func c09ShareValue(st *an.H09State, v an.H09SV) (elem *an.H09Path, why string, unsure bool) {
	call, idx, ok := st.ResultOf(v)
	var ce *an.H09Event
	if ok {
		ce = st.CallEvent(call)
	}
	if ce == nil {
		return nil, "cannot follow the stored signature", true
	}
	if idx != 0 || !an.Static("tbls/tblsconv.SigFromCore")(c09Common(ce)) || len(ce.Args) != 1 {
		return nil, "the signature stored is not tblsconv.SigFromCore(partial.Signature()): result of " + c09EvName(ce), false
	}
	sc, _, ok := st.ResultOf(ce.Args[0])
	var se *an.H09Event
	if ok {
		se = st.CallEvent(sc)
	}
	if se == nil {
		return nil, "cannot follow the signature converted", true
	}
	cc := c09Common(se)
	if !cc.IsInvoke() || cc.Method.Name() != "Signature" {
		return nil, "the signature stored is not the Signature() of the partial being added", false
	}
	p := st.PathOf(se.Callee)
	if n := len(p.Steps); n >= 1 && p.Steps[n-1].Kind == "field" && p.Steps[n-1].Field == "core.ParSignedData.SignedData" {
		p.Steps = p.Steps[:n-1]
	}
	if k, isNil := st.ErrOf(call); !k || !isNil {
		return &p, "signature conversion error is not checked on this path", false
	}
	return &p, "", false
}

// ---------------------------------------------------------------------------------------------
// G4: "fn reports success only through gate".

// c09NilOnlyVia: every path of fn that returns a possibly-nil error either returns the verdict of
// the gate call itself or returns nil after the gate returned nil on that path. Non-nil errors
// (error constructors, values known non-nil on the path) carry no obligation.
func c09NilOnlyVia(c *rt.Ctx, fn *ssa.Function, gate an.Matcher, label string, stop []string, opts ...func(*an.H09Config)) {
	construct := fmt.Sprintf("%s success only via %s", an.FuncName(fn), label)
	acc := newC09Acc()
	cfg := c09WalkCfg(fn, stop...)
	for _, o := range opts {
		o(&cfg)
	}
	cfg.OnReturn = func(st *an.H09State, ret *ssa.Return, vals []an.H09SV) {
		if len(vals) == 0 {
			return
		}
		e := vals[len(vals)-1]
		known, isNil := st.NilOf(e)
		if known && !isNil {
			return // failure
		}
		// the gate instances executed on this path
		var gates []*an.H09Event
		for i := range st.Trace {
			if x := &st.Trace[i]; x.Kind == "call" && !x.Inlined && gate(c09Common(x)) {
				gates = append(gates, x)
			}
		}
		if call, _, ok := st.ResultOf(e); ok {
			for _, g := range gates {
				if g.SV == call {
					acc.good(construct, ret, "returns the verdict of "+label)
					return
				}
			}
		}
		if !known {
			acc.unsure(construct, ret, "cannot tell whether the returned error can be nil without "+label+" succeeding")
			return
		}
		for _, g := range gates {
			if k, n := st.ErrOf(g.SV); k && n {
				acc.good(construct, ret, "")
				return
			}
		}
		if len(gates) == 0 {
			acc.bad(construct, ret, "a nil error is returned on a path that never calls "+label)
		} else {
			acc.bad(construct, ret, "a nil error is returned on a path on which "+label+" did not succeed (its error is non-nil or unchecked there)")
		}
	}
	res := an.H09Walk(fn, cfg)
	c09Incomplete(c, construct, fn, res)
	acc.flush(c)
}

// ---------------------------------------------------------------------------------------------
// G4: the verifier chain, decided at the sinks of each link on the paths that reach them.

// c09Spec is one provenance obligation on argument Arg of a sink call.
type c09Spec struct {
	Construct string
	Arg       int
	Desc      string
	Want      func(st *an.H09State, sv an.H09SV) bool
	// Checked != "": second obligation — the call the (accepted) value is a result of returned a nil error on the path.
	Checked    string
	CheckedMsg string
}

// c09PeelSV looks through calls that only re-type their argument.
func c09PeelSV(st *an.H09State, sv an.H09SV) an.H09SV {
	for i := 0; i < 4; i++ {
		call, idx, ok := st.ResultOf(sv)
		if !ok || idx != 0 {
			return sv
		}
		ce := st.CallEvent(call)
		if ce == nil || ce.Inlined || len(ce.Args) != 1 {
			return sv
		}
		cc := c09Common(ce)
		if cc.IsInvoke() || cc.StaticCallee() == nil || !c09Peel[an.FuncName(cc.StaticCallee())] {
			return sv
		}
		sv = ce.Args[0]
	}
	return sv
}

// c09Describe says what an instance is when it is not what the obligation wants; opaque reports
// that the walker could not follow it (-> undecided, never a violation).
func c09Describe(st *an.H09State, sv an.H09SV) (desc string, opaque bool) {
	// an access path the walker followed (x.f, m[k], a slice of a copy) is as well understood as its base
	if p := st.PathOf(sv); p.Base != sv {
		d, o := c09Describe(st, p.Base)
		if len(p.Steps) == 0 {
			return d, o
		}
		// the content of a container built in the walked code (a slice grown by append, a map or array made in
		// place, a merged value) is not modelled by the walker: what is read back from it is unknown, not "different"
		switch b := p.Base.V.(type) {
		case *ssa.MakeSlice, *ssa.MakeMap, *ssa.Alloc, *ssa.Phi, *ssa.Slice, *ssa.MakeInterface:
			o = true
		case *ssa.Call:
			if bi, ok := b.Call.Value.(*ssa.Builtin); ok && bi.Name() == "append" {
				o = true
			}
		}
		switch last := p.Steps[len(p.Steps)-1]; last.Kind {
		case "index":
			return "an element/lookup (with another key or container) of " + d, o
		case "field":
			return "field " + last.Field + " of " + d, o
		case "rangekey", "rangeval":
			return "a range variable over " + d, o
		}
		return "a dereference of " + d, o
	}
	switch x := sv.V.(type) {
	case nil:
		return "nothing", true
	case *ssa.Const:
		return "a constant", false
	case *ssa.Parameter:
		return "parameter " + x.Name(), false
	case *ssa.FreeVar:
		return "captured variable " + x.Name(), false
	case *ssa.Function, *ssa.MakeClosure:
		return "a function literal", false
	case *ssa.BinOp:
		return "a computed expression", false
	case *ssa.MakeMap, *ssa.MakeSlice, *ssa.Alloc, *ssa.MakeInterface:
		return "a value made in place", false
	case *ssa.Lookup:
		return "a map lookup", false
	}
	if call, idx, ok := st.ResultOf(sv); ok {
		if ce := st.CallEvent(call); ce != nil {
			if ce.Inlined {
				return "result of a followed call", true
			}
			if cc := c09Common(ce); cc != nil && !cc.IsInvoke() && cc.StaticCallee() == nil {
				if _, isBuiltin := cc.Value.(*ssa.Builtin); !isBuiltin {
					// a call through a function value the walker could not resolve: what it returns is unknown
					return fmt.Sprintf("result %d of a dynamic call", idx), true
				}
			}
			return fmt.Sprintf("result %d of %s", idx, c09EvName(ce)), false
		}
	}
	if t, _, ok := st.TupleOf(sv); ok {
		if _, isLk := t.V.(*ssa.Lookup); isLk {
			return "a map lookup", false
		}
	}
	return "an expression the checker does not follow", true
}

func c09ApplySpecs(acc *c09Acc, st *an.H09State, ev *an.H09Event, specs []c09Spec) {
	for _, sp := range specs {
		if sp.Arg >= len(ev.Args) {
			acc.unsure(sp.Construct, ev.In, "unexpected arity")
			continue
		}
		sv := c09PeelSV(st, ev.Args[sp.Arg])
		if sp.Want(st, sv) {
			acc.good(sp.Construct, ev.In, sp.Desc)
			if sp.Checked != "" {
				call, _, ok := st.ResultOf(sv)
				if !ok {
					call, _, ok = st.ResultOf(st.PathOf(sv).Base) // seen through a slice / assertion
				}
				k, isNil := false, false
				if ok {
					k, isNil = st.ErrOf(call)
				}
				if k && isNil {
					acc.good(sp.Checked, ev.In, "")
				} else {
					acc.bad(sp.Checked, ev.In, sp.CheckedMsg+"the value is used on a path on which the error was non-nil or not tested")
				}
			}
			continue
		}
		if d, opaque := c09Describe(st, sv); opaque {
			acc.unsure(sp.Construct, ev.In, "cannot follow the argument back to "+sp.Desc)
		} else {
			acc.bad(sp.Construct, ev.In, "expected "+sp.Desc+", found "+d)
		}
	}
}

func c09WParam(p *ssa.Parameter) func(*an.H09State, an.H09SV) bool {
	return c09WSV(an.H09Param(p))
}

// c09WTailParam: the unique parameter of the given type of the function the root returned (Tail walks).
func c09WTailParam(short string) func(*an.H09State, an.H09SV) bool {
	return func(st *an.H09State, sv an.H09SV) bool {
		fn := st.TailFn()
		if fn == nil {
			return false
		}
		var found *ssa.Parameter
		for _, p := range fn.Params {
			if c09TypeStr(p.Type()) == short {
				if found != nil {
					return false
				}
				found = p
			}
		}
		return found != nil && c09WSV(an.H09Param(found))(st, sv)
	}
}

func c09WSV(want an.H09SV) func(*an.H09State, an.H09SV) bool {
	return func(st *an.H09State, sv an.H09SV) bool {
		if sv == want {
			return true
		}
		// the parameter seen through a (checked or unchecked) type assertion / slicing of a copy
		if pp := st.PathOf(sv); len(pp.Steps) == 0 && pp.Base == want {
			return true
		}
		return false
	}
}

// c09WInvokeOn: result idx of interface method `method` invoked on parameter recv.
func c09WInvokeOn(recv *ssa.Parameter, method string, idx int) func(*an.H09State, an.H09SV) bool {
	want := an.H09Param(recv)
	return func(st *an.H09State, sv an.H09SV) bool {
		call, i, ok := st.ResultOf(sv)
		if !ok || i != idx {
			return false
		}
		ce := st.CallEvent(call)
		if ce == nil || ce.Inlined {
			return false
		}
		cc := c09Common(ce)
		return cc.IsInvoke() && cc.Method.Name() == method && ce.Callee == want
	}
}

// c09WResultOf: result idx of a (not followed) call selected by m whose own arguments satisfy args.
func c09WResultOf(m an.Matcher, idx int, args ...func(*an.H09State, an.H09SV) bool) func(*an.H09State, an.H09SV) bool {
	return func(st *an.H09State, sv an.H09SV) bool {
		call, i, ok := st.ResultOf(sv)
		if !ok || i != idx {
			return false
		}
		ce := st.CallEvent(call)
		if ce == nil || ce.Inlined || !m(c09Common(ce)) {
			return false
		}
		for j, w := range args {
			if w == nil {
				continue
			}
			if j >= len(ce.Args) || !w(st, c09PeelSV(st, ce.Args[j])) {
				return false
			}
		}
		return true
	}
}

// c09Sinks walks fn and applies the specs at every executed call selected by sink. It returns the
// static sink instructions reached.
func c09Sinks(c *rt.Ctx, fn *ssa.Function, sink an.Matcher, what string, stop []string, specs func(ev *an.H09Event) []c09Spec, opts ...func(*an.H09Config)) map[ssa.Instruction]bool {
	acc := newC09Acc()
	seen := map[ssa.Instruction]bool{}
	cfg := c09WalkCfg(fn, stop...)
	for _, o := range opts {
		o(&cfg)
	}
	cfg.OnEvent = func(st *an.H09State, ev *an.H09Event) {
		if ev.Kind != "call" || ev.Inlined {
			return
		}
		if cc := c09Common(ev); cc == nil || !sink(cc) {
			return
		}
		seen[ev.In] = true
		c09ApplySpecs(acc, st, ev, specs(ev))
	}
	res := an.H09Walk(fn, cfg)
	c09Incomplete(c, an.FuncName(fn)+"→"+what, fn, res)
	if len(seen) == 0 && res.Complete {
		// not an anchor failure of the whole rule: the "success only via" clause still decides whether fn can
		// succeed without the link (a stub that returns nil is a violation there)
		c.Unsure(an.FuncName(fn)+"→"+what, fn.Pos(), "no call to "+what+" is reached in "+an.FuncName(fn))
	}
	acc.flush(c)
	return seen
}

// c09Gate: the static gate call instructions of fn (and the in-package helpers it is followed into) for NilOnlyVia.
func c09OneOf(m map[ssa.Instruction]bool) []ssa.Instruction {
	var out []ssa.Instruction
	for k := range m {
		out = append(out, k)
	}
	sort.Slice(out, func(i, j int) bool { return out[i].Pos() < out[j].Pos() })
	return out
}

// c09ChainStop: the links of the chain are obligations of their own and are never followed into.
var c09ChainStop = []string{"core.VerifyEth2SignedData", c09SigningPkg + ".Verify", c09SigningPkg + ".GetDataRoot", c09SigningPkg + ".GetDomain", "core.Signature.ToETH2"}

func c09G4(c *rt.Ctx) {
	const (
		tEpoch = "github.com/attestantio/go-eth2-client/spec/phase0.Epoch"
		tRoot  = "github.com/attestantio/go-eth2-client/spec/phase0.Root"
		tSig   = "github.com/attestantio/go-eth2-client/spec/phase0.BLSSignature"
	)
	// (a) the function NewVerifier returns: NewVerifier is executed and the function value it returns (a closure, a
	// bound method, a named function; closures it captured included) is entered with symbolic arguments.
	{
		nv := c.Fn("core/sigagg.NewVerifier")
		tail := func(cfg *an.H09Config) {
			cfg.Tail = true
			cfg.OnTailFail = func(_ *an.H09State, ret *ssa.Return) {
				c.Unsure("NewVerifier returns the verifying closure", posOf(ret), "returned function value cannot be resolved")
			}
		}
		gateM := an.Static("core.VerifyEth2SignedData")
		gates := c09Sinks(c, nv, gateM, "core.VerifyEth2SignedData", c09ChainStop, func(*an.H09Event) []c09Spec {
			return []c09Spec{
				{Construct: "NewVerifier→VerifyEth2SignedData pubkey", Arg: 3, Desc: "tblsconv.PubkeyFromCore(pubkey)",
					Want:    c09WResultOf(an.Static("tbls/tblsconv.PubkeyFromCore"), 0, c09WTailParam("core.PubKey")),
					Checked: "NewVerifier→VerifyEth2SignedData pubkey", CheckedMsg: "pubkey conversion error is not checked: "},
				{Construct: "NewVerifier→VerifyEth2SignedData data", Arg: 2, Desc: "the data parameter (asserted to core.Eth2SignedData)", Want: c09WTailParam("core.SignedData")},
			}
		}, tail)
		if len(gates) > 0 {
			c.Good("NewVerifier returns the verifying closure", nv.Pos(), "")
		}
		tailQuiet := func(cfg *an.H09Config) { cfg.Tail = true }
		c09NilOnlyVia(c, nv, gateM, "core.VerifyEth2SignedData", c09ChainStop, tailQuiet)
	}
	// (b) core.VerifyEth2SignedData
	{
		fn := c.Fn("core.VerifyEth2SignedData")
		dataP := c09ParamOfType(c, fn, "core.Eth2SignedData")
		pubkeyP := c09ParamOfType(c, fn, "tbls.PublicKey")
		gateM := an.Static(c09SigningPkg + ".Verify")
		pre := "VerifyEth2SignedData→signing.Verify "
		c09Sinks(c, fn, gateM, "signing.Verify", c09ChainStop, func(ev *an.H09Event) []c09Spec {
			if len(ev.Args) != 7 {
				return []c09Spec{{Construct: pre + "domain", Arg: 99}}
			}
			return []c09Spec{
				{Construct: pre + "domain", Arg: 2, Desc: "data.DomainName()", Want: c09WInvokeOn(dataP, "DomainName", 0)},
				{Construct: pre + "epoch", Arg: 3, Desc: "data.Epoch(ctx, eth2Cl)", Want: c09WInvokeOn(dataP, "Epoch", 0),
					Checked: pre + "epoch error checked", CheckedMsg: "data.Epoch's error is not checked: "},
				{Construct: pre + "root", Arg: 4, Desc: "data.MessageRoot()", Want: c09WInvokeOn(dataP, "MessageRoot", 0),
					Checked: pre + "root error checked", CheckedMsg: "data.MessageRoot's error is not checked: "},
				{Construct: pre + "signature", Arg: 5, Desc: "data.Signature()", Want: c09WInvokeOn(dataP, "Signature", 0)},
				{Construct: pre + "pubkey", Arg: 6, Desc: "the pubkey parameter", Want: c09WParam(pubkeyP)},
			}
		})
		c09NilOnlyVia(c, fn, gateM, "signing.Verify", c09ChainStop)
	}
	// (c) signing.Verify
	var gdFn *ssa.Function
	{
		fn := c.Fn(c09SigningPkg + ".Verify")
		domP := c09ParamOfType(c, fn, c09SigningPkg+".DomainName")
		epP := c09ParamOfType(c, fn, tEpoch)
		rootP := c09ParamOfType(c, fn, tRoot)
		sigP := c09ParamOfType(c, fn, tSig)
		pkP := c09ParamOfType(c, fn, "tbls.PublicKey")
		gdM := an.Static(c09SigningPkg + ".GetDataRoot")
		pre := "signing.Verify→GetDataRoot "
		gds := c09Sinks(c, fn, gdM, "GetDataRoot", c09ChainStop, func(ev *an.H09Event) []c09Spec {
			if len(ev.Args) != 5 {
				return []c09Spec{{Construct: pre + "domain", Arg: 99}}
			}
			return []c09Spec{
				{Construct: pre + "domain", Arg: 2, Desc: "the domain parameter", Want: c09WParam(domP)},
				{Construct: pre + "epoch", Arg: 3, Desc: "the epoch parameter", Want: c09WParam(epP)},
				{Construct: pre + "root", Arg: 4, Desc: "the sigRoot parameter", Want: c09WParam(rootP)},
			}
		})
		for _, g := range c09OneOf(gds) {
			gdFn = g.(ssa.CallInstruction).Common().StaticCallee()
		}
		tvM := an.Static("tbls.Verify")
		pre2 := "signing.Verify→tbls.Verify "
		c09Sinks(c, fn, tvM, "tbls.Verify", c09ChainStop, func(ev *an.H09Event) []c09Spec {
			if len(ev.Args) != 3 {
				return []c09Spec{{Construct: pre2 + "pubkey", Arg: 99}}
			}
			return []c09Spec{
				{Construct: pre2 + "pubkey", Arg: 0, Desc: "the pubkey parameter", Want: c09WParam(pkP)},
				{Construct: pre2 + "message", Arg: 1, Desc: "the signing root returned by GetDataRoot",
					Want: func(st *an.H09State, sv an.H09SV) bool {
						// the root is sliced out of a local copy: look through the slice
						p := st.PathOf(sv)
						if len(p.Steps) != 0 {
							return false
						}
						return c09WResultOf(gdM, 0, nil, nil, c09WParam(domP), c09WParam(epP), c09WParam(rootP))(st, p.Base)
					},
					Checked: pre2 + "message error checked", CheckedMsg: "GetDataRoot's error is not checked: "},
				{Construct: pre2 + "signature", Arg: 2, Desc: "the signature parameter", Want: c09WParam(sigP)},
			}
		})
		c09NilOnlyVia(c, fn, tvM, "tbls.Verify", c09ChainStop)
	}
	// (d) GetDataRoot
	var domFn *ssa.Function
	{
		fn := gdFn
		if fn == nil || fn.Blocks == nil {
			c.Bail("GetDataRoot has no body")
		}
		nameP := c09ParamOfType(c, fn, c09SigningPkg+".DomainName")
		epP := c09ParamOfType(c, fn, tEpoch)
		rootP := c09ParamOfType(c, fn, tRoot)
		domM := an.Static(c09SigningPkg + ".GetDomain")
		doms := c09Sinks(c, fn, domM, "GetDomain", c09ChainStop, func(ev *an.H09Event) []c09Spec {
			if len(ev.Args) != 4 {
				return []c09Spec{{Construct: "GetDataRoot→GetDomain name", Arg: 99}}
			}
			return []c09Spec{
				{Construct: "GetDataRoot→GetDomain name", Arg: 2, Desc: "the name parameter", Want: c09WParam(nameP)},
				{Construct: "GetDataRoot→GetDomain epoch", Arg: 3, Desc: "the epoch parameter", Want: c09WParam(epP)},
			}
		})
		for _, g := range c09OneOf(doms) {
			domFn = g.(ssa.CallInstruction).Common().StaticCallee()
		}
		c09DataRootReturns(c, fn, rootP, domM)
	}
	// (e) GetDomain
	{
		fn := domFn
		if fn == nil || fn.Blocks == nil {
			c.Bail("GetDomain has no body")
		}
		c09DomFn = fn // G5 decides the container the domain type is read from
		nameP := c09ParamOfType(c, fn, c09SigningPkg+".DomainName")
		epP := c09ParamOfType(c, fn, tEpoch)
		name := an.H09Param(nameP)
		nEpoch := 0
		specKey := func(st *an.H09State, sv an.H09SV) bool {
			// spec[string(name)], possibly through the comma-ok form and a type assertion
			p := st.PathOf(sv)
			// (which container is indexed — the beacon node's spec or a constant table — is decided by G5 "domain type source")
			n := len(p.Steps)
			return n >= 1 && p.Steps[n-1].Kind == "index" && p.Steps[n-1].Idx == name
		}
		c09Sinks(c, fn, an.Invoke("app/eth2wrap.Client.Domain", "app/eth2wrap.Client.GenesisDomain"), "eth2Cl.Domain/GenesisDomain", c09ChainStop, func(ev *an.H09Event) []c09Spec {
			meth := c09Common(ev).Method.Name()
			out := []c09Spec{{Construct: "GetDomain " + meth + " domain type = spec[name]", Arg: 1, Desc: "the name parameter as spec key", Want: specKey}}
			if meth == "Domain" {
				nEpoch++
				out = append(out, c09Spec{Construct: "GetDomain Domain epoch", Arg: 2, Desc: "the epoch parameter", Want: c09WParam(epP)})
			}
			return out
		})
		if nEpoch == 0 {
			c.Bad("GetDomain Domain epoch", fn.Pos(), "no epoch-dependent domain is requested: every signature is checked against the genesis domain")
		}
	}
}

// c09DataRootReturns: every success return of GetDataRoot yields HashTreeRoot() of a SigningData whose
// ObjectRoot is the root parameter and whose Domain is the (checked) result of GetDomain.
func c09DataRootReturns(c *rt.Ctx, fn *ssa.Function, rootP *ssa.Parameter, domM an.Matcher) {
	construct := "GetDataRoot = HashTreeRoot(SigningData{ObjectRoot: root, Domain: GetDomain(name, epoch)})"
	acc := newC09Acc()
	n := 0
	cfg := c09WalkCfg(fn, c09ChainStop...)
	cfg.OnReturn = func(st *an.H09State, ret *ssa.Return, vals []an.H09SV) {
		if len(vals) != 2 {
			acc.unsure("GetDataRoot success value", ret, "unexpected result arity")
			return
		}
		known, isNil := st.NilOf(vals[1])
		if known && !isNil {
			return
		}
		if !known {
			acc.unsure("GetDataRoot success value", ret, "cannot tell whether this return reports success")
			return
		}
		n++
		call, idx, ok := st.ResultOf(vals[0])
		var ce *an.H09Event
		if ok {
			ce = st.CallEvent(call)
		}
		if ce == nil {
			if isMemo, sound := c09SoundMemoRead(st, fn, vals[0]); isMemo && sound {
				// a memo hit: the value is the one a computing path (decided here) stored under a key that covers
				// every input it was computed from (decided by G7)
				acc.good(construct+" ObjectRoot", ret, "memo of the computed root, keyed by all its inputs (G7)")
				return
			}
			if d, opaque := c09Describe(st, vals[0]); !opaque {
				acc.bad(construct+" ObjectRoot", ret, "the root returned with a nil error is not phase0.SigningData.HashTreeRoot(): "+d)
			} else {
				acc.unsure(construct+" ObjectRoot", ret, "cannot follow the returned root")
			}
			return
		}
		cc := c09Common(ce)
		if ce.Inlined || cc.IsInvoke() || cc.StaticCallee() == nil || cc.StaticCallee().Name() != "HashTreeRoot" || idx != 0 || len(ce.Args) != 1 ||
			an.TypeName(cc.Args[0].Type()) != c09SigningDat {
			acc.bad(construct+" ObjectRoot", ret, "the root returned with a nil error is not phase0.SigningData.HashTreeRoot(): result of "+c09EvName(ce))
			return
		}
		if k, nilErr := st.ErrOf(call); !k || !nilErr {
			acc.bad(construct+" ObjectRoot", ret, "HashTreeRoot's error is not checked on this path")
			return
		}
		obj := ce.Args[0]
		if _, isAlloc := obj.V.(*ssa.Alloc); !isAlloc {
			acc.unsure(construct+" ObjectRoot", ret, "the SigningData hashed is not a literal built in GetDataRoot")
			return
		}
		fields := map[string]an.H09SV{}
		clean := true
		hashAt := -1
		for i := range st.Trace {
			e := &st.Trace[i]
			switch e.Kind {
			case "call", "defer", "go":
				if e.SV == call {
					hashAt = i
					continue
				}
				for _, a := range e.Args {
					if a == obj && !e.Inlined {
						clean = false
					}
				}
			case "store":
				if e.Key == obj {
					// whole-value assignment: followed when the value is a literal assembled in a temporary
					// (`sd := SigningData{…}; sd.HashTreeRoot()`), otherwise not
					snap, ok := st.FieldsOf(e.Val)
					if !ok || hashAt >= 0 {
						clean = hashAt >= 0 && clean
						continue
					}
					fields = map[string]an.H09SV{}
					for idx, fv := range snap {
						fields[an.FieldKey(obj.V.Type(), idx)] = fv
					}
					continue
				}
				fa, ok := e.Key.V.(*ssa.FieldAddr)
				if !ok {
					if e.Val == obj {
						clean = false
					}
					continue
				}
				if ops := st.Ops(e.Key); len(ops) >= 1 && ops[0] == obj {
					if hashAt >= 0 {
						continue // assigned after hashing
					}
					fields[an.FieldKey(fa.X.Type(), fa.Field)] = e.Val
				}
			}
		}
		if !clean {
			acc.unsure(construct+" ObjectRoot", ret, "the SigningData literal is modified in ways the checker does not follow")
			return
		}
		or, okO := fields[c09SigningDat+".ObjectRoot"]
		dm, okD := fields[c09SigningDat+".Domain"]
		if !okO || !okD {
			acc.bad(construct+" ObjectRoot", ret, "ObjectRoot or Domain of the hashed SigningData is left zero")
			return
		}
		or, dm = c09PeelSV(st, or), c09PeelSV(st, dm)
		if c09WParam(rootP)(st, or) {
			acc.good(construct+" ObjectRoot", ret, "the root parameter")
		} else if d, opaque := c09Describe(st, or); opaque {
			acc.unsure(construct+" ObjectRoot", ret, "cannot follow ObjectRoot back to the root parameter")
		} else {
			acc.bad(construct+" ObjectRoot", ret, "expected the root parameter, found "+d)
		}
		if c09WResultOf(domM, 0)(st, dm) {
			acc.good(construct+" Domain", ret, "the domain returned by GetDomain")
			dc, _, _ := st.ResultOf(dm)
			if k, nilErr := st.ErrOf(dc); k && nilErr {
				acc.good(construct+" Domain error checked", ret, "")
			} else {
				acc.bad(construct+" Domain error checked", ret, "GetDomain's error is not checked: the domain is used on a path on which the error was non-nil or not tested")
			}
		} else if isMemo, sound, holds := c09SoundMemoOf(st, fn, dm); isMemo && sound && domM(&ssa.CallCommon{Value: c09FnByName(fn, holds)}) {
			// a memo of GetDomain's checked results, keyed by every input they were computed from (G7)
			acc.good(construct+" Domain", ret, "memo of the domain returned by GetDomain (G7)")
			acc.good(construct+" Domain error checked", ret, "")
		} else if d, opaque := c09Describe(st, dm); opaque {
			acc.unsure(construct+" Domain", ret, "cannot follow Domain back to GetDomain")
		} else {
			acc.bad(construct+" Domain", ret, "expected the domain returned by GetDomain, found "+d)
		}
	}
	res := an.H09Walk(fn, cfg)
	c09Incomplete(c, construct, fn, res)
	acc.flush(c)
	if n == 0 && res.Complete {
		c.Bail("GetDataRoot has no success return")
	}
}

// c09FnByName: the function of fn's package with the given short name (nil when there is none).
func c09FnByName(fn *ssa.Function, name string) ssa.Value {
	if fn.Pkg != nil {
		for _, m := range fn.Pkg.Members {
			if f, ok := m.(*ssa.Function); ok && an.FuncName(f) == name {
				return f
			}
		}
	}
	return nil
}

func init() {
	// mutants for the C09 rules that C01 imports (crosslinks.go registers the link itself)
	Extend("C01", "", func(*rt.Ctx) {},
		Mutant{ID: "C01-link-aggregate-verify-logged-b", File: "core/sigagg/sigagg.go", Expect: "C09.G1",
			Old: "\t\tspan.SetStatus(codes.Error, err.Error())\n\n\t\treturn nil, err\n\t}\n\n\tspan.SetStatus(codes.Ok, \"success\")",
			New: "\t\tspan.SetStatus(codes.Error, err.Error())\n\t}\n\n\tspan.SetStatus(codes.Ok, \"success\")"},
		Mutant{ID: "C01-link-aggregate-verdict-overwritten", File: "core/sigagg/sigagg.go", Expect: "C09.G1",
			Old: "\tif err := a.verifyFunc(ctx, pubkey, aggSig); err != nil {",
			New: "\terr = a.verifyFunc(ctx, pubkey, aggSig)\n\t_, err = fullSig.SetSignature(tblsconv.SigToCore(sig))\n\n\tif err != nil {"},
		Mutant{ID: "C01-link-publish-partial-set", File: "core/sigagg/sigagg.go", Expect: "C09.G2",
			Old: "\t\t\treturn errors.Wrap(err, \"threshold aggregate\", z.Any(\"pubkey\", pubkey))",
			New: "\t\t\tcontinue"},
		Mutant{ID: "C01-link-publish-on-failure", File: "core/sigagg/sigagg.go", Expect: "C09.G2",
			Old: "\t\t\treturn errors.Wrap(err, \"threshold aggregate\", z.Any(\"pubkey\", pubkey))",
			New: "\t\t\tfor _, sub := range a.subs {\n\t\t\t\t_ = sub(ctx, duty, output)\n\t\t\t}\n\n\t\t\treturn errors.Wrap(err, \"threshold aggregate\", z.Any(\"pubkey\", pubkey))"},
		Mutant{ID: "C01-link-aggregator-stub-verifier", File: "app/app.go", Expect: "C09.G6",
			Old: "sigagg.New(lock.Threshold, sigagg.NewVerifier(eth2Cl))",
			New: "sigagg.New(lock.Threshold, func(context.Context, core.PubKey, core.SignedData) error { return nil })"},
		Mutant{ID: "C01-link-aggregator-verifier-reset", File: "core/sigagg/sigagg.go", Expect: "C09.G6",
			Old: "\ta.subs = append(a.subs, fn)",
			New: "\ta.subs = append(a.subs, fn)\n\ta.verifyFunc = func(context.Context, core.PubKey, core.SignedData) error { return nil }"},
	)
}
