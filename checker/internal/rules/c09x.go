package rules

// Path-based formulation of C09 G1/G2/G3 and of the "success only via the next link" clause of G4.
// The obligations are decided on the paths enumerated by an.H09Walk (branch conditions evaluated
// under the facts of the path, phis decided by the edge taken, locals followed through their
// stores, in-package helpers and directly called closures executed with argument substitution), so
// that they do not depend on the block structure of today's code. Every obligation is keyed by the
// resolved instruction (return, map insertion, call) it talks about; its verdict is the worst one
// over all paths: a path that breaks it -> violation, a path the walker cannot follow -> undecided.

import (
	"fmt"
	"go/token"
	"sort"

	"golang.org/x/tools/go/ssa"

	"charonverif/internal/an"
	"charonverif/internal/rt"
)

type c09Key struct {
	construct string
	in        ssa.Instruction
}

type c09Verdict struct {
	bad, unsure, good string
	n                 int
}

// c09Acc accumulates per-(construct, instruction) verdicts over paths.
type c09Acc struct {
	m     map[c09Key]*c09Verdict
	order []c09Key
}

func newC09Acc() *c09Acc { return &c09Acc{m: map[c09Key]*c09Verdict{}} }

func (a *c09Acc) get(construct string, in ssa.Instruction) *c09Verdict {
	k := c09Key{construct, in}
	v := a.m[k]
	if v == nil {
		v = &c09Verdict{}
		a.m[k] = v
		a.order = append(a.order, k)
	}
	v.n++
	return v
}

func (a *c09Acc) bad(construct string, in ssa.Instruction, msg string) {
	if v := a.get(construct, in); v.bad == "" {
		v.bad = msg
	}
}

func (a *c09Acc) unsure(construct string, in ssa.Instruction, msg string) {
	if v := a.get(construct, in); v.unsure == "" {
		v.unsure = msg
	}
}

func (a *c09Acc) good(construct string, in ssa.Instruction, msg string) {
	if v := a.get(construct, in); v.good == "" {
		v.good = msg
	}
}

func (a *c09Acc) flush(c *rt.Ctx) {
	keys := append([]c09Key{}, a.order...)
	sort.SliceStable(keys, func(i, j int) bool {
		if keys[i].construct != keys[j].construct {
			return false // keep first-seen order of constructs
		}
		return posOf(keys[i].in) < posOf(keys[j].in)
	})
	for _, k := range keys {
		v := a.m[k]
		switch {
		case v.bad != "":
			c.Bad(k.construct, posOf(k.in), v.bad)
		case v.unsure != "":
			c.Unsure(k.construct, posOf(k.in), v.unsure)
		default:
			c.Good(k.construct, posOf(k.in), v.good)
		}
	}
}

// c09WalkCfg: follow static callees and directly called closures of the same package, except the
// anchors named in stop (they are obligations of their own).
func c09WalkCfg(root *ssa.Function, stop ...string) an.H09Config {
	top := func(f *ssa.Function) *ssa.Function {
		f = an.Orig(f)
		for f.Parent() != nil {
			f = f.Parent()
		}
		return f
	}
	pkg := top(root).Pkg
	return an.H09Config{
		Inline: func(f *ssa.Function) bool {
			if f.Synthetic != "" && f.Parent() == nil && len(f.Blocks) == 1 {
				return true // bound-method wrappers and thunks (`clone := output.Clone`): straight-line forwarding
			}
			if pkg == nil || top(f).Pkg != pkg {
				return false
			}
			n := an.FuncName(f)
			for _, s := range stop {
				if n == s {
					return false
				}
			}
			return true
		},
		NonNil: an.Static("app/errors.New", "app/errors.Wrap"),
	}
}

func c09Common(ev *an.H09Event) *ssa.CallCommon {
	if ci, ok := ev.In.(ssa.CallInstruction); ok {
		return ci.Common()
	}
	return nil
}

// c09FieldOfRecv: sv is (an element of) the named field of base (a pointer or value instance).
// It returns whether the last field step is the named one and whether the base is the wanted one.
func c09FieldOfRecv(st *an.H09State, sv, base an.H09SV, key string) (isField, ofBase bool) {
	p := st.PathOf(sv)
	fi := -1
	for i, s := range p.Steps {
		if s.Kind == "field" && s.Field == key {
			fi = i
		}
	}
	if fi < 0 {
		return false, false
	}
	for _, s := range p.Steps[:fi] {
		if s.Kind != "deref" {
			return true, false
		}
	}
	return true, p.Base == base
}

func c09Opaque(st *an.H09State, sv an.H09SV) bool {
	_, o := c09Describe(st, sv)
	return o
}

func c09SamePkgCallee(st *an.H09State, root *ssa.Function, sv an.H09SV) bool {
	call, _, ok := st.ResultOf(sv)
	if !ok {
		return false
	}
	cv := call.V.(*ssa.Call)
	f := cv.Call.StaticCallee()
	if f == nil {
		_, isClosure := an.Unwrap(cv.Call.Value).(*ssa.MakeClosure)
		return isClosure
	}
	g := an.Orig(f)
	for g.Parent() != nil {
		g = g.Parent()
	}
	r := root
	for r.Parent() != nil {
		r = r.Parent()
	}
	return g.Pkg != nil && g.Pkg == r.Pkg
}

func c09Incomplete(c *rt.Ctx, what string, fn *ssa.Function, res an.H09Result) {
	if !res.Complete {
		c.Unsure(what, fn.Pos(), "path exploration of "+an.FuncName(fn)+" is incomplete: "+res.Why)
	} else if res.Paths == 0 {
		c.Unsure(what, fn.Pos(), "no path of "+an.FuncName(fn)+" reaches a return within the unrolling bound")
	}
}

// ---------------------------------------------------------------------------------------------
// G1: every non-nil result of aggregate is the instance verified under the pubkey parameter, and
// is returned only on paths on which that verification returned nil.

func c09G1(c *rt.Ctx) {
	fn := c.Fn(c09FnAggLower)
	c09HasField(c, "core/sigagg", "Aggregator", "verifyFunc")
	pubkeyP := c09ParamOfType(c, fn, "core.PubKey")
	if len(fn.Params) == 0 {
		c.Bail("aggregate has no receiver")
	}
	recv, pubkey := an.H09Param(fn.Params[0]), an.H09Param(pubkeyP)
	construct := "aggregate non-nil result verified"
	acc := newC09Acc()
	nonNil, arity := 0, true
	cfg := c09WalkCfg(fn)
	cfg.OnReturn = func(st *an.H09State, ret *ssa.Return, vals []an.H09SV) {
		if len(vals) != 2 {
			arity = false
			return
		}
		v := vals[0]
		if k, isNil := st.NilOf(v); k && isNil {
			return
		}
		nonNil++
		var hit, other *an.H09Event
		for i := range st.Trace {
			e := &st.Trace[i]
			if e.Kind != "call" || e.Inlined || len(e.Args) != 3 {
				continue
			}
			if isF, _ := c09FieldOfRecv(st, e.Callee, recv, c09Agg+".verifyFunc"); !isF {
				continue
			}
			if e.Args[2] == v {
				hit = e
			} else {
				other = e
			}
		}
		switch {
		case hit == nil && c09SamePkgCallee(st, fn, v):
			acc.unsure(construct, ret, "the result comes from an in-package call the checker did not follow")
		case hit == nil && c09Opaque(st, v):
			acc.unsure(construct, ret, "cannot follow the returned value")
		case hit == nil && other != nil:
			acc.bad(construct, ret, "a non-nil result is returned that was not passed to a.verifyFunc (another value was verified: the published object is not the verified one)")
		case hit == nil:
			acc.bad(construct, ret, "a non-nil result is returned that was not passed to a.verifyFunc")
		default:
			if _, ofRecv := c09FieldOfRecv(st, hit.Callee, recv, c09Agg+".verifyFunc"); !ofRecv {
				acc.bad(construct, ret, "verifyFunc is not the receiver's")
				return
			}
			if hit.Args[1] != pubkey {
				acc.bad(construct, ret, "the aggregate is verified under a key other than the pubkey parameter")
				return
			}
			switch k, isNil := st.ErrOf(hit.SV); {
			case k && isNil:
				acc.good(construct, ret, "")
			case k:
				acc.bad(construct, ret, "the result is returned on a path on which a.verifyFunc returned an error")
			default:
				acc.bad(construct, ret, "the result is returned on a path on which the verdict of a.verifyFunc was not checked")
			}
		}
	}
	res := an.H09Walk(fn, cfg)
	if !arity {
		c.Bail("aggregate: unexpected result arity")
	}
	c09Incomplete(c, construct, fn, res)
	acc.flush(c)
	if nonNil == 0 && res.Complete {
		c.Bail("aggregate never returns a non-nil result")
	}
}

// ---------------------------------------------------------------------------------------------
// G2: all-or-nothing publication.

func c09G2(c *rt.Ctx) {
	fn := c.Fn(c09FnAggUpper)
	c09HasField(c, "core/sigagg", "Aggregator", "subs")
	setP := c09ParamOfType(c, fn, "map[core.PubKey][]core.ParSignedData")
	if len(fn.Params) == 0 {
		c.Bail("Aggregate has no receiver")
	}
	recv, set := an.H09Param(fn.Params[0]), an.H09Param(setP)
	subsM := an.FieldCall(c09Agg + ".subs")
	pkg := c.SSAPkg("core/sigagg")
	acc := newC09Acc()
	covered := map[ssa.Instruction]bool{}
	walked := map[*ssa.Function]bool{fn: true}
	aggCalls := 0
	cfg := c09WalkCfg(fn, c09FnAggLower)
	cfg.OnEvent = func(st *an.H09State, ev *an.H09Event) {
		if ev.Kind != "call" && ev.Kind != "go" && ev.Kind != "defer" {
			return
		}
		if ev.Inlined && ev.Target != nil {
			walked[ev.Target] = true
		}
		cc := c09Common(ev)
		if cc == nil || cc.IsInvoke() || cc.StaticCallee() != nil {
			if cc != nil && an.Static(c09FnAggLower)(cc) {
				aggCalls++
			}
			return
		}
		isF, ofRecv := c09FieldOfRecv(st, ev.Callee, recv, c09Agg+".subs")
		if !isF && !subsM(cc) {
			return
		}
		covered[ev.In] = true
		if isF && !ofRecv {
			acc.unsure("Aggregate published set", ev.In, "subscribers of another aggregator are called")
			return
		}
		if ev.Kind != "call" {
			acc.unsure("Aggregate published set", ev.In, "subscribers are started asynchronously/deferred")
			return
		}
		c09Publication(acc, st, ev, recv, set)
	}
	res := an.H09Walk(fn, cfg)
	c09Incomplete(c, "Aggregate published set", fn, res)
	// sweep: nobody else publishes
	for _, f := range an.PkgFuncs(pkg) {
		for _, k := range an.Calls(f, subsM, false) {
			if covered[k] {
				continue
			}
			root := f
			for root.Parent() != nil {
				root = root.Parent()
			}
			if walked[f] {
				c.Unsure("subscribers called from "+an.FuncName(root), k.Pos(), "this publication is not reached by any explored path of Aggregate")
				continue
			}
			// a helper that merely forwards a set it was given is not followed (undecided); one that
			// publishes a set of its own making bypasses the aggregation loop.
			forwards := false
			if a := k.Common().Args; len(a) == 3 {
				for _, o := range c09Origins(a[2]) {
					if o.Kind == "param" || o.Kind == "other" || o.Kind == "freevar" {
						forwards = true
					}
				}
			}
			if forwards {
				c.Unsure("subscribers called from "+an.FuncName(root), k.Pos(), "publication through a helper is not followed back to Aggregate")
			} else {
				c.Bad("subscribers called from "+an.FuncName(root), k.Pos(), "subscribers are called outside Aggregator.Aggregate with a set that is not the checked result of the aggregation loop")
			}
		}
	}
	if len(covered) == 0 {
		c.Bail("no call through Aggregator.subs is reached from Aggregate")
	}
	if aggCalls == 0 {
		c.Bail("no call to a.aggregate is reached from Aggregate")
	}
	// the helpers the publication/aggregation was followed into belong to Aggregate only
	for f := range walked {
		if f == fn || f.Parent() != nil {
			continue
		}
		for _, g := range an.PkgFuncs(pkg) {
			for _, in := range an.Instrs(g, false) {
				for _, op := range an.Operands(in) {
					if op != ssa.Value(f) {
						continue
					}
					ci, isCall := in.(ssa.CallInstruction)
					if isCall && ci.Common().Value == op && walked[g] {
						continue
					}
					publishes := false
					for _, k := range an.Calls(f, func(*ssa.CallCommon) bool { return true }, true) {
						if covered[k] {
							publishes = true
						}
					}
					if publishes {
						c.Unsure("subscribers called from "+an.FuncName(f), posOf(in), "the publishing helper is also used outside Aggregate (from "+an.FuncName(g)+")")
					}
				}
			}
		}
	}
	acc.flush(c)
}

// c09Publication decides the three G2 obligations for one publication on one path.
func c09Publication(acc *c09Acc, st *an.H09State, ev *an.H09Event, recv, set an.H09SV) {
	const (
		pubC = "Aggregate published set"
		upC  = "Aggregate output[pubkey] = checked aggregate(pubkey, set[pubkey])"
		allC = "Aggregate: subscribers run only after every validator aggregated"
	)
	if len(ev.Args) != 3 {
		acc.unsure(pubC, ev.In, "subscriber signature changed")
		return
	}
	m := ev.Args[2]
	if call, idx, ok := st.ResultOf(m); ok && idx == 0 {
		if ce := st.CallEvent(call); ce != nil && !ce.Inlined && an.Static("core.SignedDataSet.Clone")(c09Common(ce)) && len(ce.Args) == 1 {
			m = ce.Args[0]
			if k, isNil := st.ErrOf(call); !k || !isNil {
				acc.bad(pubC, ev.In, "clone of the output set is used although Clone failed (its error is not checked on this path)")
				return
			}
		}
	}
	if _, ok := m.V.(*ssa.MakeMap); !ok {
		acc.unsure(pubC, ev.In, "the set handed to subscribers is not (a clone of) a map made by Aggregate or its helpers")
		return
	}
	acc.good(pubC, ev.In, "output set")
	stored := map[an.H09SV]bool{}
	for i := range st.Trace {
		e := &st.Trace[i]
		switch e.Kind {
		case "mapupdate":
			if e.Map != m {
				if e.Val == m {
					acc.unsure("Aggregate output set escapes", e.In, "output set is stored into another map")
				}
				continue
			}
			call, idx, ok := st.ResultOf(e.Val)
			var ce *an.H09Event
			if ok {
				ce = st.CallEvent(call)
			}
			if ce == nil || idx != 0 || ce.Inlined || !an.Static(c09FnAggLower)(c09Common(ce)) {
				acc.bad(upC, e.In, "a value that is not the result of a.aggregate is published")
				continue
			}
			a := ce.Args
			if len(a) != 4 {
				acc.unsure(upC, e.In, "a.aggregate: unexpected arity")
				continue
			}
			if a[0] != recv {
				acc.unsure(upC, e.In, "aggregate of another aggregator")
				continue
			}
			if e.Key != a[2] {
				acc.bad(upC, e.In, "the aggregate is published under a key other than the one it was verified for")
				continue
			}
			kp, vp := st.PathOf(a[2]), st.PathOf(a[3])
			entry := "unknown"
			switch {
			case vp.Base == set && len(vp.Steps) == 1 && vp.Steps[0].Kind == "rangeval":
				if kp.Base == set && len(kp.Steps) == 1 && kp.Steps[0].Kind == "rangekey" && kp.Steps[0].Idx == vp.Steps[0].Idx {
					entry = "ok"
				} else {
					entry = "mismatch"
				}
			case vp.Base == set && len(vp.Steps) == 1 && vp.Steps[0].Kind == "index":
				if vp.Steps[0].Idx == a[2] {
					entry = "ok"
				} else {
					entry = "mismatch"
				}
			case vp.Base == set:
				entry = "mismatch"
			}
			switch entry {
			case "mismatch":
				acc.bad(upC, e.In, "a.aggregate does not receive the key and the partials of one entry of the input set")
				continue
			case "unknown":
				acc.unsure(upC, e.In, "cannot follow the partials given to a.aggregate back to an entry of the input set")
				continue
			}
			if k, isNil := st.ErrOf(call); !k || !isNil {
				acc.bad(upC, e.In, "result of a.aggregate is published although it returned an error (or its error is unchecked) on this path")
				continue
			}
			stored[e.Key] = true
			acc.good(upC, e.In, "")
		case "call", "go", "defer":
			if e.Inlined || e == ev {
				continue
			}
			uses := false
			for _, x := range e.Args {
				if x == m {
					uses = true
				}
			}
			if !uses {
				continue
			}
			cc := c09Common(e)
			if b, ok := cc.Value.(*ssa.Builtin); ok && b.Name() == "len" {
				continue
			}
			if an.Static("core.SignedDataSet.Clone")(cc) {
				continue
			}
			if isF, _ := c09FieldOfRecv(st, e.Callee, recv, c09Agg+".subs"); isF {
				continue
			}
			acc.unsure("Aggregate output set escapes", e.In, "output set is passed to "+c09EvName(e))
		}
	}
	// completeness: a range loop over the input set ran to exhaustion and every entry it yielded was stored
	type loop struct {
		rng   an.H09SV
		nexts []an.H09SV
	}
	var loops []*loop
	for i := range st.Trace {
		e := &st.Trace[i]
		if e.Kind != "next" {
			continue
		}
		ops := st.Ops(e.SV)
		if len(ops) != 1 {
			continue
		}
		if _, isRange := ops[0].V.(*ssa.Range); !isRange {
			continue
		}
		if r := st.Ops(ops[0]); len(r) != 1 || r[0] != set {
			continue
		}
		var l *loop
		for _, x := range loops {
			if x.rng == ops[0] {
				l = x
			}
		}
		if l == nil {
			l = &loop{rng: ops[0]}
			loops = append(loops, l)
		}
		l.nexts = append(l.nexts, e.SV)
	}
	if len(loops) == 0 {
		acc.unsure(allC, ev.In, "no range loop over the input set precedes the publication on this path")
		return
	}
	// position of the publication and of every range step in the trace
	pubAt := len(st.Trace)
	for i := range st.Trace {
		if &st.Trace[i] == ev {
			pubAt = i
		}
	}
	at := func(n an.H09SV) int {
		for i := range st.Trace {
			if e := &st.Trace[i]; e.Kind == "next" && e.SV == n {
				return i
			}
		}
		return -1
	}
	// aggregates(from, to, key): a.aggregate is called for key between two trace positions
	aggregates := func(from, to int, key an.H09SV) bool {
		for i := from; i >= 0 && i < to && i < len(st.Trace); i++ {
			e := &st.Trace[i]
			if e.Kind == "call" && !e.Inlined && an.Static(c09FnAggLower)(c09Common(e)) && len(e.Args) == 4 && e.Args[2] == key {
				return true
			}
		}
		return false
	}
	why, unsure := "", ""
	for _, l := range loops {
		ok := true
		isAggLoop := false
		for i, n := range l.nexts {
			end := pubAt
			if i+1 < len(l.nexts) {
				end = at(l.nexts[i+1])
			}
			if key := st.ExtractOf(n, 1); key.V != nil && aggregates(at(n), end, key) {
				isAggLoop = true
			}
		}
		for i, n := range l.nexts {
			okv := st.ExtractOf(n, 0)
			k, more := st.BoolOf(okv)
			last := i == len(l.nexts)-1
			switch {
			case okv.V == nil || !k:
				ok, unsure = false, "cannot tell whether the loop over the input set was exhausted"
			case last && more && isAggLoop:
				ok, why = false, "subscribers are reached before the loop over the input set is exhausted (publication inside the loop, or the loop is left early)"
			case last && more:
				ok, unsure = false, "a loop over the input set that does not aggregate is left early"
			case !last && !more:
				ok, unsure = false, "iteration continues after exhaustion"
			case more:
				key := st.ExtractOf(n, 1)
				switch {
				case key.V == nil:
					ok, unsure = false, "the loop over the input set does not bind the key"
				case stored[key]:
				case isAggLoop:
					ok, why = false, "a validator of the input set was skipped or failed (no checked aggregate stored for it) and subscribers are still reached: the set published is partial"
				default:
					ok, unsure = false, "the loop over the input set does not aggregate its entries itself; completeness of the published set is not followed"
				}
			}
			if !ok {
				break
			}
		}
		if ok {
			acc.good(allC, ev.In, "")
			return
		}
	}
	if why != "" {
		acc.bad(allC, ev.In, why)
	} else {
		acc.unsure(allC, ev.In, unsure)
	}
}

func c09EvName(e *an.H09Event) string {
	if cc := c09Common(e); cc != nil {
		if n := an.CalleeName(cc); n != "" {
			return n
		}
	}
	return "a dynamic call"
}

// ---------------------------------------------------------------------------------------------
// G3: the share map given to tbls.ThresholdAggregate.

func c09G3(c *rt.Ctx) {
	fn := c.Fn(c09FnAggLower)
	c09HasField(c, "core/sigagg", "Aggregator", "threshold")
	parSigsP := c09ParamOfType(c, fn, "[]core.ParSignedData")
	if len(fn.Params) == 0 {
		c.Bail("aggregate has no receiver")
	}
	recv, parSigs := an.H09Param(fn.Params[0]), an.H09Param(parSigsP)
	taM := an.Static("tbls.ThresholdAggregate")
	const (
		mapC  = "aggregate share map"
		fillC = "aggregate share map filled from parSigs"
		keyC  = "aggregate share map keyed by ShareIdx"
		valC  = "aggregate share map value"
		lenC  = "aggregate len(distinct shares) < threshold → no aggregation"
	)
	acc := newC09Acc()
	covered := map[ssa.Instruction]bool{}
	updates, taPaths, prePaths := 0, 0, 0
	isThr := func(st *an.H09State, sv an.H09SV) bool {
		p := st.PathOf(sv)
		return p.Base == recv && len(p.Steps) == 1 && p.Steps[0].Kind == "field" && p.Steps[0].Field == c09Agg+".threshold"
	}
	// atLeast: the assumption e establishes len(of) >= a.threshold, with len evaluated after trace index `after`.
	atLeast := func(st *an.H09State, e *an.H09Event, of an.H09SV, after int) bool {
		if e.Kind != "assume" || e.NilTest {
			return false
		}
		bin, ok := e.Atom.V.(*ssa.BinOp)
		ops := st.Ops(e.Atom)
		if !ok || len(ops) != 2 {
			return false
		}
		var lenSV an.H09SV
		var want bool
		switch {
		case st.IsLenOf(ops[0], of) && isThr(st, ops[1]):
			lenSV = ops[0]
			switch bin.Op {
			case token.LSS:
				want = false
			case token.GEQ:
				want = true
			default:
				return false
			}
		case st.IsLenOf(ops[1], of) && isThr(st, ops[0]):
			lenSV = ops[1]
			switch bin.Op {
			case token.GTR:
				want = false
			case token.LEQ:
				want = true
			default:
				return false
			}
		default:
			return false
		}
		if e.Truth != want {
			return false
		}
		for i := after + 1; i < len(st.Trace); i++ {
			if x := &st.Trace[i]; x.Kind == "call" && x.SV == lenSV {
				return true
			}
		}
		return false
	}
	cfg := c09WalkCfg(fn)
	cfg.OnEvent = func(st *an.H09State, ev *an.H09Event) {
		if ev.Kind != "call" || ev.Inlined || !taM(c09Common(ev)) {
			return
		}
		covered[ev.In] = true
		taPaths++
		if len(ev.Args) != 1 {
			acc.unsure(mapC, ev.In, "tbls.ThresholdAggregate: unexpected arity")
			return
		}
		m := ev.Args[0]
		if _, ok := m.V.(*ssa.MakeMap); !ok {
			acc.unsure(mapC, ev.In, "the argument of tbls.ThresholdAggregate is not a map made in aggregate or its helpers")
			return
		}
		lastUp := -1
		for i := range st.Trace {
			e := &st.Trace[i]
			switch e.Kind {
			case "mapupdate":
				if e.Map != m {
					if e.Val == m {
						acc.unsure(mapC, e.In, "share map is stored into another map")
					}
					continue
				}
				lastUp = i
				updates++
				// key: the ShareIdx of an element of the partials parameter
				kp := st.PathOf(e.Key)
				n := len(kp.Steps)
				var elem []an.H09Step
				isShare := n >= 1 && kp.Steps[n-1].Kind == "field" && kp.Steps[n-1].Field == "core.ParSignedData.ShareIdx"
				if isShare {
					elem = kp.Steps[:n-1]
				}
				fromPar := isShare && kp.Base == parSigs && len(elem) == 1 && elem[0].Kind == "index"
				keyOpaque := !isShare && c09Opaque(st, kp.Base)
				// value: tblsconv.SigFromCore(elem.Signature()), conversion checked
				valElem, valWhy, valUnsure := c09ShareValue(st, e.Val)
				switch {
				case fromPar:
					acc.good(fillC, e.In, "")
				case valElem != nil && valElem.Base == parSigs && len(valElem.Steps) == 1 && valElem.Steps[0].Kind == "index":
					acc.good(fillC, e.In, "")
				case (isShare && c09Opaque(st, kp.Base)) || (valElem != nil && c09Opaque(st, valElem.Base)) || (valElem == nil && valUnsure && keyOpaque):
					acc.unsure(fillC, e.In, "cannot follow the inserted share back to an element of the partials parameter")
				case valElem != nil || isShare:
					acc.bad(fillC, e.In, "the share inserted is not taken from an element of the partials parameter")
				default:
					acc.bad(fillC, e.In, "insertion into the share map is not fed by the elements of the partials parameter")
				}
				switch {
				case keyOpaque:
					acc.unsure(keyC, e.In, "cannot follow the key of the share map")
				case !isShare:
					acc.bad(keyC, e.In, "the share map is not keyed by the ShareIdx of the partial being added: a repeated share is counted twice")
				case valElem != nil && (kp.Base != valElem.Base || !c09SameSteps(elem, valElem.Steps)):
					if c09Opaque(st, kp.Base) || c09Opaque(st, valElem.Base) {
						acc.unsure(keyC, e.In, "cannot tell whether key and signature belong to the same partial")
					} else {
						acc.bad(keyC, e.In, "the key is the ShareIdx of another partial than the one whose signature is stored")
					}
				default:
					acc.good(keyC, e.In, "")
				}
				switch {
				case valElem != nil && valWhy == "":
					acc.good(valC, e.In, "")
				case valUnsure:
					acc.unsure(valC, e.In, valWhy)
				default:
					acc.bad(valC, e.In, valWhy)
				}
			case "call", "go", "defer":
				if e.Inlined || e == ev {
					continue
				}
				uses := false
				for _, x := range e.Args {
					if x == m {
						uses = true
					}
				}
				if !uses {
					continue
				}
				if b, ok := c09Common(e).Value.(*ssa.Builtin); ok && b.Name() == "len" {
					continue
				}
				if b, ok := c09Common(e).Value.(*ssa.Builtin); ok && (b.Name() == "delete" || b.Name() == "clear") && len(e.Args) > 0 && e.Args[0] == m {
					lastUp = i // removing shares changes the count like an insertion does: the size must be tested afterwards
					continue
				}
				acc.unsure(mapC, e.In, "share map is passed to "+c09EvName(e))
			}
		}
		good, pre := false, false
		for i := range st.Trace {
			e := &st.Trace[i]
			if i > lastUp && atLeast(st, e, m, lastUp) {
				good = true
			}
			if atLeast(st, e, parSigs, -1) {
				pre = true
			}
		}
		if pre {
			prePaths++
		}
		// a test that involves len(share map) only indirectly (through arithmetic) is not decoded
		indirect := false
		if !good {
			var mentions func(sv an.H09SV, d int) (bool, bool)
			mentions = func(sv an.H09SV, d int) (found, direct bool) {
				if st.IsLenOf(sv, m) {
					return true, true
				}
				if d > 4 {
					return false, false
				}
				switch sv.V.(type) {
				case *ssa.BinOp, *ssa.UnOp:
					for _, o := range st.Ops(sv) {
						if f, _ := mentions(o, d+1); f {
							return true, false
						}
					}
				}
				return false, false
			}
			for i := lastUp + 1; i < len(st.Trace); i++ {
				e := &st.Trace[i]
				if e.Kind != "assume" || e.NilTest {
					continue
				}
				if _, isBin := e.Atom.V.(*ssa.BinOp); !isBin {
					continue
				}
				direct := false
				found := false
				for _, o := range st.Ops(e.Atom) {
					f, d := mentions(o, 0)
					found = found || f
					direct = direct || d
				}
				if found && !direct {
					indirect = true
				}
			}
		}
		if good {
			acc.good(lenC, ev.In, "")
		} else if indirect {
			acc.unsure(lenC, ev.In, "the size of the share map is tested in a form the checker does not decode")
		} else {
			acc.bad(lenC, ev.In, "tbls.ThresholdAggregate is reached on a path without a test `len(share map) >= a.threshold` made after the last insertion: fewer than threshold distinct shares (or shares added after the test) are aggregated")
		}
	}
	res := an.H09Walk(fn, cfg)
	c09Incomplete(c, mapC, fn, res)
	for _, f := range an.PkgFuncs(c.SSAPkg("core/sigagg")) {
		for _, k := range an.Calls(f, taM, false) {
			if !covered[k] {
				c.Unsure(mapC, k.Pos(), "this call of tbls.ThresholdAggregate is not reached by any explored path of aggregate")
			}
		}
	}
	if len(covered) == 0 {
		c.Bail("no call to tbls.ThresholdAggregate is reached from aggregate")
	}
	if updates == 0 && res.Complete {
		c.Bail("no insertion into the share map")
	}
	acc.flush(c)
	// the cheap pre-check on the raw list is implied by the test above (len(map) <= len(list)); recorded when present
	if taPaths > 0 && prePaths == taPaths {
		c.Good("aggregate len(parSigs) < threshold pre-check", fn.Pos(), "")
	} else {
		c.Note("G3: no len(parSigs) < threshold pre-check in aggregate (implied by the distinct-share test)")
	}
}

func c09SameSteps(a, b []an.H09Step) bool {
	if len(a) != len(b) {
		return false
	}
	for i := range a {
		if a[i] != b[i] {
			return false
		}
	}
	return true
}

// c09ShareValue decodes v as result 0 of tblsconv.SigFromCore(x.Signature()) with the conversion
// error known nil; it returns the access path of x without its trailing SignedData selection.
func c09ShareValue(st *an.H09State, v an.H09SV) (elem *an.H09Path, why string, unsure bool) {
	call, idx, ok := st.ResultOf(v)
	var ce *an.H09Event
	if ok {
		ce = st.CallEvent(call)
	}
	if ce == nil {
		return nil, "cannot follow the stored signature", true
	}
	if idx != 0 || !an.Static("tbls/tblsconv.SigFromCore")(c09Common(ce)) || len(ce.Args) != 1 {
		return nil, "the signature stored is not tblsconv.SigFromCore(partial.Signature()): result of " + c09EvName(ce), false
	}
	sc, _, ok := st.ResultOf(ce.Args[0])
	var se *an.H09Event
	if ok {
		se = st.CallEvent(sc)
	}
	if se == nil {
		return nil, "cannot follow the signature converted", true
	}
	cc := c09Common(se)
	if !cc.IsInvoke() || cc.Method.Name() != "Signature" {
		return nil, "the signature stored is not the Signature() of the partial being added", false
	}
	p := st.PathOf(se.Callee)
	if n := len(p.Steps); n >= 1 && p.Steps[n-1].Kind == "field" && p.Steps[n-1].Field == "core.ParSignedData.SignedData" {
		p.Steps = p.Steps[:n-1]
	}
	if k, isNil := st.ErrOf(call); !k || !isNil {
		return &p, "signature conversion error is not checked on this path", false
	}
	return &p, "", false
}

// ---------------------------------------------------------------------------------------------
// G4: "fn reports success only through gate".

// c09NilOnlyVia: every path of fn that returns a possibly-nil error either returns the verdict of
// the gate call itself or returns nil after the gate returned nil on that path. Non-nil errors
// (error constructors, values known non-nil on the path) carry no obligation.
func c09NilOnlyVia(c *rt.Ctx, fn *ssa.Function, gate an.Matcher, label string, stop ...string) {
	construct := fmt.Sprintf("%s success only via %s", an.FuncName(fn), label)
	acc := newC09Acc()
	cfg := c09WalkCfg(fn, stop...)
	cfg.OnReturn = func(st *an.H09State, ret *ssa.Return, vals []an.H09SV) {
		if len(vals) == 0 {
			return
		}
		e := vals[len(vals)-1]
		known, isNil := st.NilOf(e)
		if known && !isNil {
			return // failure
		}
		// the gate instances executed on this path
		var gates []*an.H09Event
		for i := range st.Trace {
			if x := &st.Trace[i]; x.Kind == "call" && !x.Inlined && gate(c09Common(x)) {
				gates = append(gates, x)
			}
		}
		if call, _, ok := st.ResultOf(e); ok {
			for _, g := range gates {
				if g.SV == call {
					acc.good(construct, ret, "returns the verdict of "+label)
					return
				}
			}
		}
		if !known {
			acc.unsure(construct, ret, "cannot tell whether the returned error can be nil without "+label+" succeeding")
			return
		}
		for _, g := range gates {
			if k, n := st.ErrOf(g.SV); k && n {
				acc.good(construct, ret, "")
				return
			}
		}
		if len(gates) == 0 {
			acc.bad(construct, ret, "a nil error is returned on a path that never calls "+label)
		} else {
			acc.bad(construct, ret, "a nil error is returned on a path on which "+label+" did not succeed (its error is non-nil or unchecked there)")
		}
	}
	res := an.H09Walk(fn, cfg)
	c09Incomplete(c, construct, fn, res)
	acc.flush(c)
}

// ---------------------------------------------------------------------------------------------
// G4: the verifier chain, decided at the sinks of each link on the paths that reach them.

// c09Spec is one provenance obligation on argument Arg of a sink call.
type c09Spec struct {
	Construct string
	Arg       int
	Desc      string
	Want      func(st *an.H09State, sv an.H09SV) bool
	// Checked != "": second obligation — the call the (accepted) value is a result of returned a nil error on the path.
	Checked    string
	CheckedMsg string
}

// c09PeelSV looks through calls that only re-type their argument.
func c09PeelSV(st *an.H09State, sv an.H09SV) an.H09SV {
	for i := 0; i < 4; i++ {
		call, idx, ok := st.ResultOf(sv)
		if !ok || idx != 0 {
			return sv
		}
		ce := st.CallEvent(call)
		if ce == nil || ce.Inlined || len(ce.Args) != 1 {
			return sv
		}
		cc := c09Common(ce)
		if cc.IsInvoke() || cc.StaticCallee() == nil || !c09Peel[an.FuncName(cc.StaticCallee())] {
			return sv
		}
		sv = ce.Args[0]
	}
	return sv
}

// c09Describe says what an instance is when it is not what the obligation wants; opaque reports
// that the walker could not follow it (-> undecided, never a violation).
func c09Describe(st *an.H09State, sv an.H09SV) (desc string, opaque bool) {
	// an access path the walker followed (x.f, m[k], a slice of a copy) is as well understood as its base
	if p := st.PathOf(sv); p.Base != sv {
		d, o := c09Describe(st, p.Base)
		if len(p.Steps) == 0 {
			return d, o
		}
		switch last := p.Steps[len(p.Steps)-1]; last.Kind {
		case "index":
			return "an element/lookup (with another key or container) of " + d, o
		case "field":
			return "field " + last.Field + " of " + d, o
		case "rangekey", "rangeval":
			return "a range variable over " + d, o
		}
		return "a dereference of " + d, o
	}
	switch x := sv.V.(type) {
	case nil:
		return "nothing", true
	case *ssa.Const:
		return "a constant", false
	case *ssa.Parameter:
		return "parameter " + x.Name(), false
	case *ssa.FreeVar:
		return "captured variable " + x.Name(), false
	case *ssa.Function, *ssa.MakeClosure:
		return "a function literal", false
	case *ssa.BinOp:
		return "a computed expression", false
	case *ssa.MakeMap, *ssa.MakeSlice, *ssa.Alloc, *ssa.MakeInterface:
		return "a value made in place", false
	case *ssa.Lookup:
		return "a map lookup", false
	}
	if call, idx, ok := st.ResultOf(sv); ok {
		if ce := st.CallEvent(call); ce != nil {
			if ce.Inlined {
				return "result of a followed call", true
			}
			return fmt.Sprintf("result %d of %s", idx, c09EvName(ce)), false
		}
	}
	if t, _, ok := st.TupleOf(sv); ok {
		if _, isLk := t.V.(*ssa.Lookup); isLk {
			return "a map lookup", false
		}
	}
	return "an expression the checker does not follow", true
}

func c09ApplySpecs(acc *c09Acc, st *an.H09State, ev *an.H09Event, specs []c09Spec) {
	for _, sp := range specs {
		if sp.Arg >= len(ev.Args) {
			acc.unsure(sp.Construct, ev.In, "unexpected arity")
			continue
		}
		sv := c09PeelSV(st, ev.Args[sp.Arg])
		if sp.Want(st, sv) {
			acc.good(sp.Construct, ev.In, sp.Desc)
			if sp.Checked != "" {
				call, _, ok := st.ResultOf(sv)
				if !ok {
					call, _, ok = st.ResultOf(st.PathOf(sv).Base) // seen through a slice / assertion
				}
				k, isNil := false, false
				if ok {
					k, isNil = st.ErrOf(call)
				}
				if k && isNil {
					acc.good(sp.Checked, ev.In, "")
				} else {
					acc.bad(sp.Checked, ev.In, sp.CheckedMsg+"the value is used on a path on which the error was non-nil or not tested")
				}
			}
			continue
		}
		if d, opaque := c09Describe(st, sv); opaque {
			acc.unsure(sp.Construct, ev.In, "cannot follow the argument back to "+sp.Desc)
		} else {
			acc.bad(sp.Construct, ev.In, "expected "+sp.Desc+", found "+d)
		}
	}
}

func c09WParam(p *ssa.Parameter) func(*an.H09State, an.H09SV) bool {
	want := an.H09Param(p)
	return func(st *an.H09State, sv an.H09SV) bool {
		if sv == want {
			return true
		}
		// the parameter seen through a (checked or unchecked) type assertion / slicing of a copy
		if pp := st.PathOf(sv); len(pp.Steps) == 0 && pp.Base == want {
			return true
		}
		return false
	}
}

// c09WInvokeOn: result idx of interface method `method` invoked on parameter recv.
func c09WInvokeOn(recv *ssa.Parameter, method string, idx int) func(*an.H09State, an.H09SV) bool {
	want := an.H09Param(recv)
	return func(st *an.H09State, sv an.H09SV) bool {
		call, i, ok := st.ResultOf(sv)
		if !ok || i != idx {
			return false
		}
		ce := st.CallEvent(call)
		if ce == nil || ce.Inlined {
			return false
		}
		cc := c09Common(ce)
		return cc.IsInvoke() && cc.Method.Name() == method && ce.Callee == want
	}
}

// c09WResultOf: result idx of a (not followed) call selected by m whose own arguments satisfy args.
func c09WResultOf(m an.Matcher, idx int, args ...func(*an.H09State, an.H09SV) bool) func(*an.H09State, an.H09SV) bool {
	return func(st *an.H09State, sv an.H09SV) bool {
		call, i, ok := st.ResultOf(sv)
		if !ok || i != idx {
			return false
		}
		ce := st.CallEvent(call)
		if ce == nil || ce.Inlined || !m(c09Common(ce)) {
			return false
		}
		for j, w := range args {
			if w == nil {
				continue
			}
			if j >= len(ce.Args) || !w(st, c09PeelSV(st, ce.Args[j])) {
				return false
			}
		}
		return true
	}
}

// c09Sinks walks fn and applies the specs at every executed call selected by sink. It returns the
// static sink instructions reached.
func c09Sinks(c *rt.Ctx, fn *ssa.Function, sink an.Matcher, what string, stop []string, specs func(ev *an.H09Event) []c09Spec) map[ssa.Instruction]bool {
	acc := newC09Acc()
	seen := map[ssa.Instruction]bool{}
	cfg := c09WalkCfg(fn, stop...)
	cfg.OnEvent = func(st *an.H09State, ev *an.H09Event) {
		if ev.Kind != "call" || ev.Inlined {
			return
		}
		if cc := c09Common(ev); cc == nil || !sink(cc) {
			return
		}
		seen[ev.In] = true
		c09ApplySpecs(acc, st, ev, specs(ev))
	}
	res := an.H09Walk(fn, cfg)
	c09Incomplete(c, an.FuncName(fn)+"→"+what, fn, res)
	if len(seen) == 0 && res.Complete {
		// not an anchor failure of the whole rule: the "success only via" clause still decides whether fn can
		// succeed without the link (a stub that returns nil is a violation there)
		c.Unsure(an.FuncName(fn)+"→"+what, fn.Pos(), "no call to "+what+" is reached in "+an.FuncName(fn))
	}
	acc.flush(c)
	return seen
}

// c09Gate: the static gate call instructions of fn (and the in-package helpers it is followed into) for NilOnlyVia.
func c09OneOf(m map[ssa.Instruction]bool) []ssa.Instruction {
	var out []ssa.Instruction
	for k := range m {
		out = append(out, k)
	}
	sort.Slice(out, func(i, j int) bool { return out[i].Pos() < out[j].Pos() })
	return out
}

// c09ChainStop: the links of the chain are obligations of their own and are never followed into.
var c09ChainStop = []string{"core.VerifyEth2SignedData", c09SigningPkg + ".Verify", c09SigningPkg + ".GetDataRoot", c09SigningPkg + ".GetDomain", "core.Signature.ToETH2"}

func c09G4(c *rt.Ctx) {
	const (
		tEpoch = "github.com/attestantio/go-eth2-client/spec/phase0.Epoch"
		tRoot  = "github.com/attestantio/go-eth2-client/spec/phase0.Root"
		tSig   = "github.com/attestantio/go-eth2-client/spec/phase0.BLSSignature"
	)
	// (a) the function NewVerifier returns
	nv := c.Fn("core/sigagg.NewVerifier")
	var vfn *ssa.Function
	for _, r := range c09Returns(nv) {
		if len(r.Vals) != 1 || r.Vals[0] == nil {
			c.Unsure("NewVerifier returns the verifying closure", posOf(r.Ret), "returned function value cannot be resolved")
			continue
		}
		var f *ssa.Function
		os := c09Origins(r.Vals[0])
		if len(os) == 1 && os[0].Kind == "func" {
			switch x := os[0].Val.(type) {
			case *ssa.MakeClosure:
				f, _ = x.Fn.(*ssa.Function)
			case *ssa.Function:
				f = x
			}
		}
		switch {
		case f == nil:
			c.Unsure("NewVerifier returns the verifying closure", posOf(r.Ret), "returned function value cannot be resolved")
		case vfn != nil && vfn != f:
			c.Unsure("NewVerifier returns the verifying closure", posOf(r.Ret), "NewVerifier returns different functions")
		default:
			vfn = f
		}
	}
	// a method value (`verifier{…}.verify`) is returned through a synthetic bound-method wrapper: analyse the method
	for i := 0; i < 3 && vfn != nil && vfn.Synthetic != ""; i++ {
		var callee *ssa.Function
		for _, in := range an.Instrs(vfn, false) {
			if ci, ok := in.(ssa.CallInstruction); ok {
				if f := ci.Common().StaticCallee(); f != nil && len(f.Blocks) > 0 {
					callee = f
				}
			}
		}
		if callee == nil {
			break
		}
		vfn = callee
	}
	if vfn == nil || len(vfn.Blocks) == 0 {
		c.Bail("NewVerifier: cannot resolve the function returned")
	}
	{
		pubkeyP := c09ParamOfType(c, vfn, "core.PubKey")
		dataP := c09ParamOfType(c, vfn, "core.SignedData")
		gateM := an.Static("core.VerifyEth2SignedData")
		gates := c09Sinks(c, vfn, gateM, "core.VerifyEth2SignedData", c09ChainStop, func(*an.H09Event) []c09Spec {
			return []c09Spec{
				{Construct: "NewVerifier→VerifyEth2SignedData pubkey", Arg: 3, Desc: "tblsconv.PubkeyFromCore(pubkey)",
					Want:    c09WResultOf(an.Static("tbls/tblsconv.PubkeyFromCore"), 0, c09WParam(pubkeyP)),
					Checked: "NewVerifier→VerifyEth2SignedData pubkey", CheckedMsg: "pubkey conversion error is not checked: "},
				{Construct: "NewVerifier→VerifyEth2SignedData data", Arg: 2, Desc: "the data parameter (asserted to core.Eth2SignedData)", Want: c09WParam(dataP)},
			}
		})
		if len(gates) > 0 {
			c.Good("NewVerifier returns the verifying closure", vfn.Pos(), "")
		}
		c09NilOnlyVia(c, vfn, gateM, "core.VerifyEth2SignedData", c09ChainStop...)
	}
	// (b) core.VerifyEth2SignedData
	{
		fn := c.Fn("core.VerifyEth2SignedData")
		dataP := c09ParamOfType(c, fn, "core.Eth2SignedData")
		pubkeyP := c09ParamOfType(c, fn, "tbls.PublicKey")
		gateM := an.Static(c09SigningPkg + ".Verify")
		pre := "VerifyEth2SignedData→signing.Verify "
		c09Sinks(c, fn, gateM, "signing.Verify", c09ChainStop, func(ev *an.H09Event) []c09Spec {
			if len(ev.Args) != 7 {
				return []c09Spec{{Construct: pre + "domain", Arg: 99}}
			}
			return []c09Spec{
				{Construct: pre + "domain", Arg: 2, Desc: "data.DomainName()", Want: c09WInvokeOn(dataP, "DomainName", 0)},
				{Construct: pre + "epoch", Arg: 3, Desc: "data.Epoch(ctx, eth2Cl)", Want: c09WInvokeOn(dataP, "Epoch", 0),
					Checked: pre + "epoch error checked", CheckedMsg: "data.Epoch's error is not checked: "},
				{Construct: pre + "root", Arg: 4, Desc: "data.MessageRoot()", Want: c09WInvokeOn(dataP, "MessageRoot", 0),
					Checked: pre + "root error checked", CheckedMsg: "data.MessageRoot's error is not checked: "},
				{Construct: pre + "signature", Arg: 5, Desc: "data.Signature()", Want: c09WInvokeOn(dataP, "Signature", 0)},
				{Construct: pre + "pubkey", Arg: 6, Desc: "the pubkey parameter", Want: c09WParam(pubkeyP)},
			}
		})
		c09NilOnlyVia(c, fn, gateM, "signing.Verify", c09ChainStop...)
	}
	// (c) signing.Verify
	var gdFn *ssa.Function
	{
		fn := c.Fn(c09SigningPkg + ".Verify")
		domP := c09ParamOfType(c, fn, c09SigningPkg+".DomainName")
		epP := c09ParamOfType(c, fn, tEpoch)
		rootP := c09ParamOfType(c, fn, tRoot)
		sigP := c09ParamOfType(c, fn, tSig)
		pkP := c09ParamOfType(c, fn, "tbls.PublicKey")
		gdM := an.Static(c09SigningPkg + ".GetDataRoot")
		pre := "signing.Verify→GetDataRoot "
		gds := c09Sinks(c, fn, gdM, "GetDataRoot", c09ChainStop, func(ev *an.H09Event) []c09Spec {
			if len(ev.Args) != 5 {
				return []c09Spec{{Construct: pre + "domain", Arg: 99}}
			}
			return []c09Spec{
				{Construct: pre + "domain", Arg: 2, Desc: "the domain parameter", Want: c09WParam(domP)},
				{Construct: pre + "epoch", Arg: 3, Desc: "the epoch parameter", Want: c09WParam(epP)},
				{Construct: pre + "root", Arg: 4, Desc: "the sigRoot parameter", Want: c09WParam(rootP)},
			}
		})
		for _, g := range c09OneOf(gds) {
			gdFn = g.(ssa.CallInstruction).Common().StaticCallee()
		}
		tvM := an.Static("tbls.Verify")
		pre2 := "signing.Verify→tbls.Verify "
		c09Sinks(c, fn, tvM, "tbls.Verify", c09ChainStop, func(ev *an.H09Event) []c09Spec {
			if len(ev.Args) != 3 {
				return []c09Spec{{Construct: pre2 + "pubkey", Arg: 99}}
			}
			return []c09Spec{
				{Construct: pre2 + "pubkey", Arg: 0, Desc: "the pubkey parameter", Want: c09WParam(pkP)},
				{Construct: pre2 + "message", Arg: 1, Desc: "the signing root returned by GetDataRoot",
					Want: func(st *an.H09State, sv an.H09SV) bool {
						// the root is sliced out of a local copy: look through the slice
						p := st.PathOf(sv)
						if len(p.Steps) != 0 {
							return false
						}
						return c09WResultOf(gdM, 0, nil, nil, c09WParam(domP), c09WParam(epP), c09WParam(rootP))(st, p.Base)
					},
					Checked: pre2 + "message error checked", CheckedMsg: "GetDataRoot's error is not checked: "},
				{Construct: pre2 + "signature", Arg: 2, Desc: "the signature parameter", Want: c09WParam(sigP)},
			}
		})
		c09NilOnlyVia(c, fn, tvM, "tbls.Verify", c09ChainStop...)
	}
	// (d) GetDataRoot
	var domFn *ssa.Function
	{
		fn := gdFn
		if fn == nil || fn.Blocks == nil {
			c.Bail("GetDataRoot has no body")
		}
		nameP := c09ParamOfType(c, fn, c09SigningPkg+".DomainName")
		epP := c09ParamOfType(c, fn, tEpoch)
		rootP := c09ParamOfType(c, fn, tRoot)
		domM := an.Static(c09SigningPkg + ".GetDomain")
		doms := c09Sinks(c, fn, domM, "GetDomain", c09ChainStop, func(ev *an.H09Event) []c09Spec {
			if len(ev.Args) != 4 {
				return []c09Spec{{Construct: "GetDataRoot→GetDomain name", Arg: 99}}
			}
			return []c09Spec{
				{Construct: "GetDataRoot→GetDomain name", Arg: 2, Desc: "the name parameter", Want: c09WParam(nameP)},
				{Construct: "GetDataRoot→GetDomain epoch", Arg: 3, Desc: "the epoch parameter", Want: c09WParam(epP)},
			}
		})
		for _, g := range c09OneOf(doms) {
			domFn = g.(ssa.CallInstruction).Common().StaticCallee()
		}
		c09DataRootReturns(c, fn, rootP, domM)
	}
	// (e) GetDomain
	{
		fn := domFn
		if fn == nil || fn.Blocks == nil {
			c.Bail("GetDomain has no body")
		}
		nameP := c09ParamOfType(c, fn, c09SigningPkg+".DomainName")
		epP := c09ParamOfType(c, fn, tEpoch)
		name := an.H09Param(nameP)
		nEpoch := 0
		specKey := func(st *an.H09State, sv an.H09SV) bool {
			// spec[string(name)], possibly through the comma-ok form and a type assertion
			p := st.PathOf(sv)
			// (the key is string-typed, so the container indexed is a map: the spec returned by the beacon node)
			n := len(p.Steps)
			return n >= 1 && p.Steps[n-1].Kind == "index" && p.Steps[n-1].Idx == name
		}
		c09Sinks(c, fn, an.Invoke("app/eth2wrap.Client.Domain", "app/eth2wrap.Client.GenesisDomain"), "eth2Cl.Domain/GenesisDomain", c09ChainStop, func(ev *an.H09Event) []c09Spec {
			meth := c09Common(ev).Method.Name()
			out := []c09Spec{{Construct: "GetDomain " + meth + " domain type = spec[name]", Arg: 1, Desc: "the name parameter as spec key", Want: specKey}}
			if meth == "Domain" {
				nEpoch++
				out = append(out, c09Spec{Construct: "GetDomain Domain epoch", Arg: 2, Desc: "the epoch parameter", Want: c09WParam(epP)})
			}
			return out
		})
		if nEpoch == 0 {
			c.Bad("GetDomain Domain epoch", fn.Pos(), "no epoch-dependent domain is requested: every signature is checked against the genesis domain")
		}
	}
}

// c09DataRootReturns: every success return of GetDataRoot yields HashTreeRoot() of a SigningData whose
// ObjectRoot is the root parameter and whose Domain is the (checked) result of GetDomain.
func c09DataRootReturns(c *rt.Ctx, fn *ssa.Function, rootP *ssa.Parameter, domM an.Matcher) {
	construct := "GetDataRoot = HashTreeRoot(SigningData{ObjectRoot: root, Domain: GetDomain(name, epoch)})"
	acc := newC09Acc()
	n := 0
	cfg := c09WalkCfg(fn, c09ChainStop...)
	cfg.OnReturn = func(st *an.H09State, ret *ssa.Return, vals []an.H09SV) {
		if len(vals) != 2 {
			acc.unsure("GetDataRoot success value", ret, "unexpected result arity")
			return
		}
		known, isNil := st.NilOf(vals[1])
		if known && !isNil {
			return
		}
		if !known {
			acc.unsure("GetDataRoot success value", ret, "cannot tell whether this return reports success")
			return
		}
		n++
		call, idx, ok := st.ResultOf(vals[0])
		var ce *an.H09Event
		if ok {
			ce = st.CallEvent(call)
		}
		if ce == nil {
			if d, opaque := c09Describe(st, vals[0]); !opaque {
				acc.bad(construct+" ObjectRoot", ret, "the root returned with a nil error is not phase0.SigningData.HashTreeRoot(): "+d)
			} else {
				acc.unsure(construct+" ObjectRoot", ret, "cannot follow the returned root")
			}
			return
		}
		cc := c09Common(ce)
		if ce.Inlined || cc.IsInvoke() || cc.StaticCallee() == nil || cc.StaticCallee().Name() != "HashTreeRoot" || idx != 0 || len(ce.Args) != 1 ||
			an.TypeName(cc.Args[0].Type()) != c09SigningDat {
			acc.bad(construct+" ObjectRoot", ret, "the root returned with a nil error is not phase0.SigningData.HashTreeRoot(): result of "+c09EvName(ce))
			return
		}
		if k, nilErr := st.ErrOf(call); !k || !nilErr {
			acc.bad(construct+" ObjectRoot", ret, "HashTreeRoot's error is not checked on this path")
			return
		}
		obj := ce.Args[0]
		if _, isAlloc := obj.V.(*ssa.Alloc); !isAlloc {
			acc.unsure(construct+" ObjectRoot", ret, "the SigningData hashed is not a literal built in GetDataRoot")
			return
		}
		fields := map[string]an.H09SV{}
		clean := true
		hashAt := -1
		for i := range st.Trace {
			e := &st.Trace[i]
			switch e.Kind {
			case "call", "defer", "go":
				if e.SV == call {
					hashAt = i
					continue
				}
				for _, a := range e.Args {
					if a == obj && !e.Inlined {
						clean = false
					}
				}
			case "store":
				if e.Key == obj {
					clean = false // whole-value assignment
					continue
				}
				fa, ok := e.Key.V.(*ssa.FieldAddr)
				if !ok {
					if e.Val == obj {
						clean = false
					}
					continue
				}
				if ops := st.Ops(e.Key); len(ops) >= 1 && ops[0] == obj {
					if hashAt >= 0 {
						continue // assigned after hashing
					}
					fields[an.FieldKey(fa.X.Type(), fa.Field)] = e.Val
				}
			}
		}
		if !clean {
			acc.unsure(construct+" ObjectRoot", ret, "the SigningData literal is modified in ways the checker does not follow")
			return
		}
		or, okO := fields[c09SigningDat+".ObjectRoot"]
		dm, okD := fields[c09SigningDat+".Domain"]
		if !okO || !okD {
			acc.bad(construct+" ObjectRoot", ret, "ObjectRoot or Domain of the hashed SigningData is left zero")
			return
		}
		or, dm = c09PeelSV(st, or), c09PeelSV(st, dm)
		if c09WParam(rootP)(st, or) {
			acc.good(construct+" ObjectRoot", ret, "the root parameter")
		} else if d, opaque := c09Describe(st, or); opaque {
			acc.unsure(construct+" ObjectRoot", ret, "cannot follow ObjectRoot back to the root parameter")
		} else {
			acc.bad(construct+" ObjectRoot", ret, "expected the root parameter, found "+d)
		}
		if c09WResultOf(domM, 0)(st, dm) {
			acc.good(construct+" Domain", ret, "the domain returned by GetDomain")
			dc, _, _ := st.ResultOf(dm)
			if k, nilErr := st.ErrOf(dc); k && nilErr {
				acc.good(construct+" Domain error checked", ret, "")
			} else {
				acc.bad(construct+" Domain error checked", ret, "GetDomain's error is not checked: the domain is used on a path on which the error was non-nil or not tested")
			}
		} else if d, opaque := c09Describe(st, dm); opaque {
			acc.unsure(construct+" Domain", ret, "cannot follow Domain back to GetDomain")
		} else {
			acc.bad(construct+" Domain", ret, "expected the domain returned by GetDomain, found "+d)
		}
	}
	res := an.H09Walk(fn, cfg)
	c09Incomplete(c, construct, fn, res)
	acc.flush(c)
	if n == 0 && res.Complete {
		c.Bail("GetDataRoot has no success return")
	}
}

func init() {
	// mutants for the C09 rules that C01 imports (crosslinks.go registers the link itself)
	Extend("C01", "", func(*rt.Ctx) {},
		Mutant{ID: "C01-link-aggregate-verify-logged-b", File: "core/sigagg/sigagg.go", Expect: "C09.G1",
			Old: "\t\tspan.SetStatus(codes.Error, err.Error())\n\n\t\treturn nil, err\n\t}\n\n\tspan.SetStatus(codes.Ok, \"success\")",
			New: "\t\tspan.SetStatus(codes.Error, err.Error())\n\t}\n\n\tspan.SetStatus(codes.Ok, \"success\")"},
		Mutant{ID: "C01-link-aggregate-verdict-overwritten", File: "core/sigagg/sigagg.go", Expect: "C09.G1",
			Old: "\tif err := a.verifyFunc(ctx, pubkey, aggSig); err != nil {",
			New: "\terr = a.verifyFunc(ctx, pubkey, aggSig)\n\t_, err = fullSig.SetSignature(tblsconv.SigToCore(sig))\n\n\tif err != nil {"},
		Mutant{ID: "C01-link-publish-partial-set", File: "core/sigagg/sigagg.go", Expect: "C09.G2",
			Old: "\t\t\treturn errors.Wrap(err, \"threshold aggregate\", z.Any(\"pubkey\", pubkey))",
			New: "\t\t\tcontinue"},
		Mutant{ID: "C01-link-publish-on-failure", File: "core/sigagg/sigagg.go", Expect: "C09.G2",
			Old: "\t\t\treturn errors.Wrap(err, \"threshold aggregate\", z.Any(\"pubkey\", pubkey))",
			New: "\t\t\tfor _, sub := range a.subs {\n\t\t\t\t_ = sub(ctx, duty, output)\n\t\t\t}\n\n\t\t\treturn errors.Wrap(err, \"threshold aggregate\", z.Any(\"pubkey\", pubkey))"},
		Mutant{ID: "C01-link-aggregator-stub-verifier", File: "app/app.go", Expect: "C09.G6",
			Old: "sigagg.New(lock.Threshold, sigagg.NewVerifier(eth2Cl))",
			New: "sigagg.New(lock.Threshold, func(context.Context, core.PubKey, core.SignedData) error { return nil })"},
		Mutant{ID: "C01-link-aggregator-verifier-reset", File: "core/sigagg/sigagg.go", Expect: "C09.G6",
			Old: "\ta.subs = append(a.subs, fn)",
			New: "\ta.subs = append(a.subs, fn)\n\ta.verifyFunc = func(context.Context, core.PubKey, core.SignedData) error { return nil }"},
	)
}
