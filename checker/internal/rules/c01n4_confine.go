package rules

import (
	"go/token"

	"golang.org/x/tools/go/ssa"

	"charonverif/internal/an"
)

// Three-valued confinement for R2: is helper h only ever run on behalf of `owner`?
//
//	c01Yes     every use is a static call from owner (or from a helper itself confined to owner), or h sits in an
//	           unexported package-level table that is filled by the package initialiser and read only by such functions;
//	c01No      positive evidence: h is exported / of another package, started as a goroutine, or statically called
//	           from a function that is not confined to owner;
//	c01Unknown h is used as a value the checker cannot follow (dispatch through function values).
const (
	c01No = iota
	c01Yes
	c01Unknown
)

func c01Confined3(pkg *ssa.Package, h *ssa.Function, owner string, seen map[*ssa.Function]bool) int {
	if an.FuncName(h) == owner {
		return c01Yes
	}
	if seen[h] || h.Object() == nil || h.Object().Exported() || h.Pkg != pkg {
		return c01No
	}
	seen[h] = true
	uses := 0
	res := c01Yes
	merge := func(r int) {
		switch {
		case r == c01No:
			res = c01No
		case r == c01Unknown && res == c01Yes:
			res = c01Unknown
		}
	}
	for _, f := range c01PkgFuncsInit(pkg) {
		for _, in := range an.Instrs(f, false) {
			for _, op := range an.Operands(in) {
				w, ok := op.(*ssa.Function)
				if !ok {
					continue
				}
				if w != h && !(w.Synthetic != "" && w.Object() != nil && w.Object() == h.Object()) {
					continue
				}
				uses++
				ci, isCall := in.(ssa.CallInstruction)
				if isCall && ci.Common().Value == op && w == h {
					if _, isGo := in.(*ssa.Go); isGo {
						merge(c01No)
						continue
					}
					merge(c01Confined3(pkg, c01Root(f), owner, seen))
					continue
				}
				// used as a value: follow it into an unexported package-level table
				globs, ok := c01TableGlobals(f, op)
				if !ok || len(globs) == 0 {
					merge(c01Unknown)
					continue
				}
				for _, g := range globs {
					merge(c01TableConfined(pkg, g, owner, seen))
				}
			}
		}
	}
	if uses == 0 {
		return c01No
	}
	return res
}

// c01TableConfined: the package-level variable g is unexported, written only by the package initialiser and read
// only by functions confined to owner.
func c01TableConfined(pkg *ssa.Package, g *ssa.Global, owner string, seen map[*ssa.Function]bool) int {
	if g.Pkg != pkg || g.Object() == nil || g.Object().Exported() {
		return c01Unknown
	}
	res := c01Yes
	for _, f := range c01PkgFuncsInit(pkg) {
		for _, in := range an.Instrs(f, false) {
			uses := false
			for _, op := range an.Operands(in) {
				if op == ssa.Value(g) {
					uses = true
				}
			}
			if !uses {
				continue
			}
			root := c01Root(f)
			if root.Synthetic != "" && root.Name() == "init" {
				continue // the composite literal that fills the table
			}
			if st, ok := in.(*ssa.Store); ok && st.Addr == ssa.Value(g) {
				return c01Unknown // re-assigned at run time
			}
			switch c01Confined3(pkg, root, owner, seen) {
			case c01Yes:
			default:
				// reading the table is not yet calling its entries: no positive evidence
				res = c01Unknown
			}
		}
	}
	return res
}

// c01TableGlobals follows function value fn, used inside f, through conversions and composite-literal stores to the
// package-level variables it ends up in. ok=false when it flows anywhere else (call argument, closure, return, …).
func c01TableGlobals(f *ssa.Function, fn ssa.Value) ([]*ssa.Global, bool) {
	tainted := map[ssa.Value]bool{fn: true}
	globs := map[*ssa.Global]bool{}
	root := func(a ssa.Value) ssa.Value {
		for i := 0; i < 8; i++ {
			switch x := a.(type) {
			case *ssa.IndexAddr:
				a = x.X
			case *ssa.FieldAddr:
				a = x.X
			case *ssa.Slice:
				a = x.X
			default:
				return a
			}
		}
		return a
	}
	instrs := an.Instrs(f, false)
	for changed, rounds := true, 0; changed && rounds < 16; rounds++ {
		changed = false
		taint := func(v ssa.Value) {
			if v != nil && !tainted[v] {
				tainted[v] = true
				changed = true
			}
		}
		for _, in := range instrs {
			uses := false
			for _, op := range an.Operands(in) {
				if op != nil && tainted[op] {
					uses = true
				}
			}
			if !uses {
				continue
			}
			switch x := in.(type) {
			case *ssa.DebugRef:
			case *ssa.ChangeType:
				taint(x)
			case *ssa.Convert:
				taint(x)
			case *ssa.MakeInterface:
				taint(x)
			case *ssa.Slice:
				taint(x)
			case *ssa.Phi:
				taint(x)
			case *ssa.IndexAddr:
				taint(x)
			case *ssa.FieldAddr:
				taint(x)
			case *ssa.UnOp:
				if x.Op != token.MUL {
					return nil, false
				}
				taint(x)
			case *ssa.MapUpdate:
				if tainted[x.Value] || tainted[x.Key] {
					taint(x.Map)
				}
			case *ssa.Store:
				if !tainted[x.Val] {
					continue // another value written into a container that also holds fn
				}
				switch r := root(x.Addr).(type) {
				case *ssa.Global:
					globs[r] = true
				case *ssa.Alloc:
					taint(r)
				default:
					return nil, false
				}
			default:
				return nil, false
			}
		}
	}
	var out []*ssa.Global
	for g := range globs {
		out = append(out, g)
	}
	return out, true
}

// c01PkgFuncsInit: the source functions of pkg plus its synthetic package initialiser (where the composite literals
// of package-level variables are evaluated), which an.PkgFuncs leaves out.
func c01PkgFuncsInit(pkg *ssa.Package) []*ssa.Function {
	out := an.PkgFuncs(pkg)
	if ini, ok := pkg.Members["init"].(*ssa.Function); ok && len(ini.Blocks) > 0 {
		out = append(out, an.Closure(ini)...)
	}
	return out
}
