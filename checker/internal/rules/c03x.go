package rules

import (
	"fmt"
	"go/constant"
	"go/token"
	"go/types"
	"os"
	"sort"
	"strings"

	"golang.org/x/tools/go/ssa"

	"charonverif/internal/an"
)

// C03 engine: a small valuation-driven, interprocedural abstract evaluator.
//
// The rules of C03 are all of the form "under assumption A, program point P is unreachable" or
// "under assumption A, every value returned is k". An assumption (c03Facts) assigns constants to SSA
// values (a comparison, an ok result) or to *terms*: canonical spellings of pure expressions over the
// parameters of the root function (`msg.Type()`, `isZeroVal(msg.Value())`), which stay the same
// expression when the code is moved into an in-package helper or a closure (parameters are replaced
// by the terms of the arguments at the call site that entered the frame). The walker explores the CFG
// taking only the successor decided by the assumption wherever a branch condition evaluates to a
// constant; a phi is decided by the edge through which its block was entered (this is what makes
// `a && b`, `a || b`, named booleans and single-exit `result` variables transparent), and a call of
// an in-package function or closure with a boolean result is decided by walking the callee under the
// same assumption. Nothing in here looks at names of locals, source text or positions.

// c03Frame is one activation: a function and the call site that entered it.
type c03Frame struct {
	fn   *ssa.Function
	up   *c03Frame
	site ssa.CallInstruction // call in up.fn (nil for the root)
}

func (fr *c03Frame) depth() int {
	n := 0
	for f := fr; f != nil; f = f.up {
		n++
	}
	return n
}

func (fr *c03Frame) has(fn *ssa.Function) bool {
	for f := fr; f != nil; f = f.up {
		if f.fn == fn {
			return true
		}
	}
	return false
}

// c03Facts is an assumption.
type c03Facts struct {
	byVal  map[ssa.Value]constant.Value
	byTerm map[string]constant.Value
}

func c03NoFacts() c03Facts {
	return c03Facts{map[ssa.Value]constant.Value{}, map[string]constant.Value{}}
}

func (f c03Facts) val(v ssa.Value, k constant.Value) c03Facts {
	f.byVal[v] = k
	return f
}

func (f c03Facts) term(t string, k constant.Value) c03Facts {
	neg := false
	for strings.HasPrefix(t, "!") {
		t, neg = t[1:], !neg
	}
	if neg && k.Kind() == constant.Bool {
		k = constant.MakeBool(!constant.BoolVal(k))
	}
	if t != "" {
		f.byTerm[t] = k
	}
	return f
}

func (f c03Facts) id() string {
	var parts []string
	for v, k := range f.byVal {
		parts = append(parts, fmt.Sprintf("%p=%s", v, k.ExactString()))
	}
	for t, k := range f.byTerm {
		parts = append(parts, t+"="+k.ExactString())
	}
	sort.Strings(parts)
	return strings.Join(parts, ";")
}

// evaluation status
const (
	c03Known  = 0 // a constant
	c03Free   = 1 // fully looked at, does not follow from the assumption
	c03Opaque = 2 // could not be looked into (unresolved callee, depth, budget)
)

type c03Eng struct {
	pkg       *ssa.Package
	facts     c03Facts
	names     map[ssa.Value]string            // terms of designated root values (the received message, classify's results)
	cellVal   func(ld *ssa.UnOp) ssa.Value    // value held by a captured variable at a load (nil: unknown)
	closureOf func(v ssa.Value) *ssa.Function // function literal denoted by a callee value
	memo      map[string]c03Sum
	visiting  map[*ssa.Phi]bool
	budget    *int
}

type c03Sum struct {
	k  constant.Value
	st int
}

func c03NewEng(pkg *ssa.Package) *c03Eng {
	b := 400000
	return &c03Eng{pkg: pkg, facts: c03NoFacts(), names: map[ssa.Value]string{}, memo: map[string]c03Sum{}, visiting: map[*ssa.Phi]bool{}, budget: &b}
}

// under returns an engine deciding under the given assumption.
func (e *c03Eng) under(f c03Facts) *c03Eng {
	n := *e
	n.facts = f
	n.memo = map[string]c03Sum{}
	n.visiting = map[*ssa.Phi]bool{}
	return &n
}

func (e *c03Eng) root(fn *ssa.Function) *c03Frame { return &c03Frame{fn: fn} }

// callee resolves the in-package function or function literal a call enters (nil if unknown/foreign).
func (e *c03Eng) callee(cc *ssa.CallCommon) *ssa.Function {
	if cc.IsInvoke() {
		return nil
	}
	if f := cc.StaticCallee(); f != nil {
		f = an.Orig(f)
		if f.Blocks == nil {
			return nil
		}
		if f.Pkg == e.pkg || (f.Parent() != nil && c03Outer(f).Pkg == e.pkg) {
			return f
		}
		return nil
	}
	if e.closureOf != nil {
		if f := e.closureOf(cc.Value); f != nil && f.Blocks != nil {
			return f
		}
	}
	if mc, ok := an.Unwrap(cc.Value).(*ssa.MakeClosure); ok {
		if f, ok := mc.Fn.(*ssa.Function); ok && f.Blocks != nil {
			return f
		}
	}
	return nil
}

func c03Outer(f *ssa.Function) *ssa.Function {
	for f.Parent() != nil {
		f = f.Parent()
	}
	return f
}

// enter builds the callee frame of a call in fr (nil if the callee is unknown, recursive or too deep).
func (e *c03Eng) enter(fr *c03Frame, call ssa.CallInstruction) *c03Frame {
	f := e.callee(call.Common())
	if f == nil || fr.has(f) || fr.depth() >= 5 {
		return nil
	}
	if len(f.Params) != len(call.Common().Args) {
		return nil
	}
	return &c03Frame{fn: f, up: fr, site: call}
}

func c03ParamIdx(fn *ssa.Function, p *ssa.Parameter) int {
	for i, q := range fn.Params {
		if q == p {
			return i
		}
	}
	return -1
}

// actual resolves a parameter of a non-root frame to the argument in the calling frame.
func (fr *c03Frame) actual(p *ssa.Parameter) (ssa.Value, *c03Frame, bool) {
	if fr.up == nil || fr.site == nil || p.Parent() != fr.fn {
		return nil, nil, false
	}
	i := c03ParamIdx(fr.fn, p)
	if i < 0 || i >= len(fr.site.Common().Args) {
		return nil, nil, false
	}
	return fr.site.Common().Args[i], fr.up, true
}

// c03LocalStores: direct stores into a local that is not shared with a function literal; ok=false if
// the local is captured (its value is then only known through the cell hook).
func c03LocalStores(al *ssa.Alloc) (stores []*ssa.Store, ok bool) {
	if al.Referrers() == nil {
		return nil, false
	}
	for _, ref := range *al.Referrers() {
		switch x := ref.(type) {
		case *ssa.Store:
			if x.Addr == ssa.Value(al) {
				stores = append(stores, x)
			}
		case *ssa.MakeClosure:
			return nil, false
		}
	}
	return stores, true
}

// resolve looks through conversions, spilled single-assignment locals, captured variables with a
// known value, and parameters of entered frames. It returns the value and the frame it lives in.
func (e *c03Eng) resolve(fr *c03Frame, v ssa.Value) (ssa.Value, *c03Frame) {
	for i := 0; i < 24; i++ {
		v = an.Unwrap(v)
		switch x := v.(type) {
		case *ssa.Parameter:
			if a, up, ok := fr.actual(x); ok {
				v, fr = a, up
				continue
			}
			return v, fr
		case *ssa.UnOp:
			if x.Op != token.MUL {
				return v, fr
			}
			if al, ok := x.X.(*ssa.Alloc); ok {
				if sts, local := c03LocalStores(al); local {
					if len(sts) == 1 {
						v = sts[0].Val
						continue
					}
					return v, fr
				}
			}
			if e.cellVal != nil {
				if _, isA := x.X.(*ssa.Alloc); isA {
					if nv := e.cellVal(x); nv != nil {
						v = nv
						continue
					}
				} else if _, isF := x.X.(*ssa.FreeVar); isF {
					if nv := e.cellVal(x); nv != nil {
						v = nv
						continue
					}
				} else if _, isFA := x.X.(*ssa.FieldAddr); isFA {
					if nv := e.cellVal(x); nv != nil {
						v = nv
						continue
					}
				}
			}
			if fa, ok := x.X.(*ssa.FieldAddr); ok {
				if nv, nfr, ok := e.fieldOfLocal(fr, fa.X, fa.Field, x, true); ok {
					v, fr = nv, nfr
					continue
				}
			}
			if fv, ok := x.X.(*ssa.FreeVar); ok {
				// a variable of the enclosing activation that is assigned once and only read by the function
				// literal entered here (a parameter captured by a predicate closure)
				if b, bfr, ok := c03n4Binding(fr, fv); ok {
					if al, isA := b.(*ssa.Alloc); isA {
						if st := c03n4OnlyStore(al); st != nil {
							v, fr = st.Val, bfr
							continue
						}
					}
				}
			}
			return v, fr
		case *ssa.Field:
			// a field of a struct value built locally (a parameter object, possibly handed on by value)
			if nv, nfr, ok := e.fieldOfLocal(fr, x.X, x.Field, x, false); ok {
				v, fr = nv, nfr
				continue
			}
			return v, fr
		default:
			return v, fr
		}
	}
	return v, fr
}

// c03FieldStores lists the stores into field `field` of the local struct al. ok=false if the struct (or
// that field) may be written or reached in any other way (address taken, whole-value assignment,
// captured by a function literal, pointer handed to a call).
func c03FieldStores(al *ssa.Alloc, field int) (stores []*ssa.Store, ok bool) {
	if al.Referrers() == nil {
		return nil, false
	}
	if _, isStruct := al.Type().Underlying().(*types.Pointer).Elem().Underlying().(*types.Struct); !isStruct {
		return nil, false
	}
	for _, ref := range *al.Referrers() {
		switch x := ref.(type) {
		case *ssa.DebugRef:
		case *ssa.UnOp:
			if x.Op != token.MUL {
				return nil, false
			}
		case *ssa.FieldAddr:
			if x.X != ssa.Value(al) {
				return nil, false
			}
			if x.Field != field {
				continue
			}
			if x.Referrers() == nil {
				return nil, false
			}
			for _, r2 := range *x.Referrers() {
				switch y := r2.(type) {
				case *ssa.DebugRef:
				case *ssa.UnOp:
					if y.Op != token.MUL {
						return nil, false
					}
				case *ssa.Store:
					if y.Addr != ssa.Value(x) {
						return nil, false
					}
					stores = append(stores, y)
				case *ssa.FieldAddr, *ssa.IndexAddr:
					if !c03ReadOnlyAddr(y.(ssa.Value), 0) {
						return nil, false
					}
				default:
					return nil, false
				}
			}
		default:
			return nil, false
		}
	}
	return stores, true
}

// c03ReadOnlyAddr: the address (of a field or element) is only loaded from, possibly through further
// field/element addresses.
func c03ReadOnlyAddr(addr ssa.Value, d int) bool {
	rs := addr.Referrers()
	if rs == nil || d > 4 {
		return false
	}
	for _, r2 := range *rs {
		switch y := r2.(type) {
		case *ssa.DebugRef:
		case *ssa.UnOp:
			if y.Op != token.MUL {
				return false
			}
		case *ssa.FieldAddr:
			if !c03ReadOnlyAddr(y, d+1) {
				return false
			}
		case *ssa.IndexAddr:
			if y.X != addr || !c03ReadOnlyAddr(y, d+1) {
				return false
			}
		default:
			return false // a store through the address, or the address is handed on
		}
	}
	return true
}

// c03PartlyWritten: the local is written through field or element addresses (its direct stores do not
// tell what it holds).
func c03PartlyWritten(al *ssa.Alloc) bool {
	if al.Referrers() == nil {
		return false
	}
	for _, ref := range *al.Referrers() {
		switch ref.(type) {
		case *ssa.FieldAddr, *ssa.IndexAddr:
			if !c03ReadOnlyAddr(ref.(ssa.Value), 0) {
				return true
			}
		}
	}
	return false
}

// c03WholeStore: the local struct is assigned as a whole exactly once and otherwise only read (directly
// or through field addresses): the value it holds.
func c03WholeStore(al *ssa.Alloc) *ssa.Store {
	if al.Referrers() == nil || c03PartlyWritten(al) {
		return nil
	}
	var st *ssa.Store
	for _, ref := range *al.Referrers() {
		switch x := ref.(type) {
		case *ssa.DebugRef, *ssa.FieldAddr, *ssa.IndexAddr:
		case *ssa.UnOp:
			if x.Op != token.MUL {
				return nil
			}
		case *ssa.Store:
			if x.Addr != ssa.Value(al) || st != nil {
				return nil
			}
			st = x
		default:
			return nil
		}
	}
	return st
}

// fieldOfLocal resolves field `field` of the struct value `base` (a struct value, or with viaAddr the
// address of one) when base denotes a struct built in a local of some activation of the chain and the
// field is assigned exactly once, before the struct is read (a parameter object, a value receiver).
func (e *c03Eng) fieldOfLocal(fr *c03Frame, base ssa.Value, field int, at ssa.Instruction, viaAddr bool) (ssa.Value, *c03Frame, bool) {
	if viaAddr {
		al, ok := base.(*ssa.Alloc)
		if !ok {
			return nil, nil, false
		}
		return e.fieldOfAlloc(fr, al, field, at, 0)
	}
	return e.fieldOfValue(fr, base, field, 0)
}

func (e *c03Eng) fieldOfValue(fr *c03Frame, val ssa.Value, field int, d int) (ssa.Value, *c03Frame, bool) {
	if d > 6 {
		return nil, nil, false
	}
	bv, bfr := e.resolveParams(fr, val)
	ld, ok := an.Unwrap(bv).(*ssa.UnOp)
	if !ok || ld.Op != token.MUL {
		return nil, nil, false
	}
	al, ok := ld.X.(*ssa.Alloc)
	if !ok {
		return nil, nil, false
	}
	return e.fieldOfAlloc(bfr, al, field, ld, d+1)
}

func (e *c03Eng) fieldOfAlloc(fr *c03Frame, al *ssa.Alloc, field int, read ssa.Instruction, d int) (ssa.Value, *c03Frame, bool) {
	if _, isStruct := al.Type().Underlying().(*types.Pointer).Elem().Underlying().(*types.Struct); !isStruct {
		return nil, nil, false
	}
	if sts, ok := c03FieldStores(al, field); ok {
		if len(sts) == 1 && an.Dominates(sts[0], read) {
			return sts[0].Val, fr, true
		}
		return nil, nil, false
	}
	if st := c03WholeStore(al); st != nil && an.Dominates(st, read) {
		return e.fieldOfValue(fr, st.Val, field, d+1)
	}
	return nil, nil, false
}

// resolveParams follows parameters to the arguments of the call chain (and conversions), nothing else.
func (e *c03Eng) resolveParams(fr *c03Frame, v ssa.Value) (ssa.Value, *c03Frame) {
	for i := 0; i < 12; i++ {
		v = an.Unwrap(v)
		p, ok := v.(*ssa.Parameter)
		if !ok {
			return v, fr
		}
		a, up, ok := fr.actual(p)
		if !ok {
			return v, fr
		}
		v, fr = a, up
	}
	return v, fr
}

func c03IsMsgIface(t types.Type) bool { return c03Strip(an.TypeName(t)) == c03P+".Msg" }

// term spells v as a canonical expression ("" if it has none).
func (e *c03Eng) term(fr *c03Frame, v ssa.Value) string { return e.termD(fr, v, 0) }

func (e *c03Eng) termD(fr *c03Frame, v ssa.Value, d int) string {
	if d > 14 || v == nil {
		return ""
	}
	if n, ok := e.names[v]; ok {
		return n
	}
	v, fr = e.resolve(fr, v)
	if n, ok := e.names[v]; ok {
		return n
	}
	switch x := v.(type) {
	case *ssa.Const:
		if x.Value == nil {
			return "nil"
		}
		return "k:" + x.Value.ExactString()
	case *ssa.Parameter:
		return fmt.Sprintf("p:%s#%d", c03Strip(an.FuncName(x.Parent())), c03ParamIdx(x.Parent(), x))
	case *ssa.Global:
		return "g:" + x.Name()
	case *ssa.Call:
		cc := &x.Call
		if b, ok := cc.Value.(*ssa.Builtin); ok {
			if len(cc.Args) == 1 && (b.Name() == "len" || b.Name() == "cap") {
				if t := e.termD(fr, cc.Args[0], d+1); t != "" {
					return b.Name() + "(" + t + ")"
				}
			}
			return ""
		}
		if cc.IsInvoke() {
			if len(cc.Args) != 0 {
				return ""
			}
			t := e.termD(fr, cc.Value, d+1)
			if t == "" {
				return ""
			}
			if c03IsMsgIface(cc.Value.Type()) {
				return "m:" + cc.Method.Name() + "(" + t + ")"
			}
			return "i:" + cc.Method.Name() + "(" + t + ")"
		}
		f := cc.StaticCallee()
		if f == nil {
			return ""
		}
		name := c03Strip(an.FuncName(f))
		switch name {
		case c03P + ".zeroVal":
			return "zero"
		case c03P + ".isZeroVal":
			if len(cc.Args) == 1 {
				if t := e.termD(fr, cc.Args[0], d+1); t != "" {
					return "zero?(" + t + ")"
				}
			}
			return ""
		}
		// a one-expression helper spells as the expression it returns
		if nf := e.enter(fr, x); nf != nil && nf.fn.Signature.Results().Len() == 1 && d < 8 {
			if rets := an.Returns(nf.fn); len(rets) == 1 && len(rets[0].Results) == 1 {
				if t := e.termD(nf, rets[0].Results[0], d+2); t != "" {
					return t
				}
			}
		}
		args := make([]string, len(cc.Args))
		for i, a := range cc.Args {
			if args[i] = e.termD(fr, a, d+1); args[i] == "" {
				return ""
			}
		}
		return "c:" + name + "(" + strings.Join(args, ",") + ")"
	case *ssa.Extract:
		if t := e.termD(fr, x.Tuple, d+1); t != "" {
			return fmt.Sprintf("x%d:%s", x.Index, t)
		}
	case *ssa.Alloc:
		// the address of a local: spelled by what it holds (`&v` with v := msg.Value())
		if sts, local := c03LocalStores(x); local && !c03PartlyWritten(x) {
			switch len(sts) {
			case 0:
				return "&zero"
			case 1:
				if t := e.termD(fr, sts[0].Val, d+1); t != "" {
					return "&" + t
				}
			}
		}
	case *ssa.UnOp:
		switch x.Op {
		case token.NOT:
			if t := e.termD(fr, x.X, d+1); t != "" {
				if strings.HasPrefix(t, "!") {
					return t[1:]
				}
				return "!" + t
			}
		case token.MUL:
			if al, ok := x.X.(*ssa.Alloc); ok {
				if sts, local := c03LocalStores(al); local && len(sts) == 0 && !c03PartlyWritten(al) {
					return "zero"
				}
				return ""
			}
			if fa, ok := x.X.(*ssa.FieldAddr); ok {
				if t := e.termD(fr, fa.X, d+1); t != "" {
					return "f:" + c03Strip(an.FieldKey(fa.X.Type(), fa.Field)) + "(" + t + ")"
				}
				return ""
			}
			if ia, ok := x.X.(*ssa.IndexAddr); ok {
				a, b := e.termD(fr, ia.X, d+1), e.termD(fr, ia.Index, d+1)
				if a != "" && b != "" {
					return "ix(" + a + "," + b + ")"
				}
			}
		case token.SUB:
			if t := e.termD(fr, x.X, d+1); t != "" {
				return "neg(" + t + ")"
			}
		}
	case *ssa.Field:
		if t := e.termD(fr, x.X, d+1); t != "" {
			return "f:" + c03Strip(an.FieldKey(x.X.Type(), x.Field)) + "(" + t + ")"
		}
	case *ssa.TypeAssert:
		if t := e.termD(fr, x.X, d+1); t != "" {
			return "ta:" + c03Strip(an.TypeName(x.AssertedType)) + "(" + t + ")"
		}
	case *ssa.Lookup:
		a, b := e.termD(fr, x.X, d+1), e.termD(fr, x.Index, d+1)
		if a != "" && b != "" {
			return "lk(" + a + "," + b + ")"
		}
	case *ssa.Index:
		a, b := e.termD(fr, x.X, d+1), e.termD(fr, x.Index, d+1)
		if a != "" && b != "" {
			return "ix(" + a + "," + b + ")"
		}
	case *ssa.BinOp:
		a, b := e.termD(fr, x.X, d+1), e.termD(fr, x.Y, d+1)
		if a == "" || b == "" {
			return ""
		}
		isZ := func(s string) bool { return s == "zero" || s == "nil" }
		switch x.Op {
		case token.EQL, token.NEQ:
			var t string
			switch {
			case isZ(b) && !isZ(a):
				t = "zero?(" + a + ")"
			case isZ(a) && !isZ(b):
				t = "zero?(" + b + ")"
			default:
				if b < a {
					a, b = b, a
				}
				t = "eq(" + a + "," + b + ")"
			}
			if x.Op == token.NEQ {
				t = "!" + t
			}
			return t
		case token.LSS:
			return "lt(" + a + "," + b + ")"
		case token.GEQ:
			return "!lt(" + a + "," + b + ")"
		case token.GTR:
			return "lt(" + b + "," + a + ")"
		case token.LEQ:
			return "!lt(" + b + "," + a + ")"
		case token.ADD, token.MUL:
			if b < a {
				a, b = b, a
			}
			return x.Op.String() + "(" + a + "," + b + ")"
		default:
			return x.Op.String() + "(" + a + "," + b + ")"
		}
	}
	return ""
}

// c03Path records, along one walked path, what each phi received on the edge its block was entered
// by: the constant if the incoming value is decided, else (boolean phis only) the incoming value.
type c03PhiVal struct {
	k constant.Value
	v ssa.Value
}

type c03Path map[*ssa.Phi]c03PhiVal

func (p c03Path) key() string {
	if len(p) == 0 {
		return ""
	}
	parts := make([]string, 0, len(p))
	for ph, pv := range p {
		if pv.k != nil {
			parts = append(parts, fmt.Sprintf("%p=%s", ph, pv.k.ExactString()))
		} else {
			parts = append(parts, fmt.Sprintf("%p=%p", ph, pv.v))
		}
	}
	sort.Strings(parts)
	return strings.Join(parts, ",")
}

func c03Worse(a, b int) int {
	if a > b {
		return a
	}
	return b
}

// eval evaluates v under the assumption along path pe.
func (e *c03Eng) eval(fr *c03Frame, v ssa.Value, pe c03Path) (constant.Value, int) {
	return e.evalD(fr, v, pe, 0)
}

func (e *c03Eng) evalD(fr *c03Frame, v ssa.Value, pe c03Path, d int) (constant.Value, int) {
	if d > 12 || v == nil {
		return nil, c03Opaque
	}
	if k, ok := e.facts.byVal[v]; ok {
		return k, c03Known
	}
	if len(e.facts.byTerm) > 0 {
		if t := e.termD(fr, v, 0); t != "" {
			neg := false
			for strings.HasPrefix(t, "!") {
				t, neg = t[1:], !neg
			}
			if k, ok := e.facts.byTerm[t]; ok {
				if neg && k.Kind() == constant.Bool {
					k = constant.MakeBool(!constant.BoolVal(k))
				}
				return k, c03Known
			}
		}
	}
	rv, rfr := e.resolve(fr, v)
	if rv != v || rfr != fr {
		if rfr != fr {
			pe = nil // a path of the callee says nothing about phis of the caller
		}
		return e.evalD(rfr, rv, pe, d+1)
	}
	switch x := v.(type) {
	case *ssa.Const:
		if x.Value != nil {
			return x.Value, c03Known
		}
		return nil, c03Free
	case *ssa.Parameter, *ssa.Global, *ssa.FreeVar:
		return nil, c03Free
	case *ssa.UnOp:
		switch x.Op {
		case token.NOT:
			k, st := e.evalD(fr, x.X, pe, d+1)
			if st == c03Known && k.Kind() == constant.Bool {
				return constant.MakeBool(!constant.BoolVal(k)), c03Known
			}
			return nil, st
		}
		// a load (state variable, field, element): not decided by the assumption
		return nil, c03Free
	case *ssa.BinOp:
		l, s1 := e.evalD(fr, x.X, pe, d+1)
		r, s2 := e.evalD(fr, x.Y, pe, d+1)
		if s1 == c03Known && s2 == c03Known && l.Kind() == r.Kind() && l.Kind() != constant.Unknown {
			switch x.Op {
			case token.EQL, token.NEQ:
				return constant.MakeBool(constant.Compare(l, x.Op, r)), c03Known
			case token.LSS, token.LEQ, token.GTR, token.GEQ:
				if l.Kind() != constant.Bool {
					return constant.MakeBool(constant.Compare(l, x.Op, r)), c03Known
				}
			case token.AND, token.OR:
				if l.Kind() == constant.Bool {
					if x.Op == token.AND {
						return constant.MakeBool(constant.BoolVal(l) && constant.BoolVal(r)), c03Known
					}
					return constant.MakeBool(constant.BoolVal(l) || constant.BoolVal(r)), c03Known
				}
			}
		}
		// an error (pointer) result of an in-package helper compared with nil
		if x.Op == token.EQL || x.Op == token.NEQ {
			var other ssa.Value
			switch {
			case an.IsNilConst(x.Y):
				other = x.X
			case an.IsNilConst(x.X):
				other = x.Y
			}
			if other != nil {
				if isNil, st := e.evalNil(fr, other, pe, 0); st == c03Known {
					return constant.MakeBool(isNil == (x.Op == token.EQL)), c03Known
				}
			}
		}
		// a status code compared with a constant: decided when no (or every) value the helper can hand
		// out under the assumption equals it
		if (x.Op == token.EQL || x.Op == token.NEQ) && (s1 == c03Known) != (s2 == c03Known) {
			k, other := l, x.Y
			if s2 == c03Known {
				k, other = r, x.X
			}
			if ks, ok := e.evalSet(fr, other); ok && len(ks) > 0 {
				all, none := true, true
				for _, q := range ks {
					if q.Kind() != k.Kind() {
						all, none = false, false
						break
					}
					if constant.Compare(q, token.EQL, k) {
						none = false
					} else {
						all = false
					}
				}
				if all || none {
					return constant.MakeBool(all == (x.Op == token.EQL)), c03Known
				}
			}
		}
		// non-short-circuit boolean operators decided by one side
		if x.Op == token.AND || x.Op == token.OR {
			for _, side := range []struct {
				k  constant.Value
				st int
			}{{l, s1}, {r, s2}} {
				if side.st == c03Known && side.k.Kind() == constant.Bool && constant.BoolVal(side.k) == (x.Op == token.OR) {
					return side.k, c03Known
				}
			}
		}
		st := c03Worse(s1, s2)
		if st == c03Known {
			st = c03Free
		}
		return nil, st
	case *ssa.Phi:
		if pv, ok := pe[x]; ok {
			if pv.k != nil {
				return pv.k, c03Known
			}
			if e.visiting[x] {
				return nil, c03Free
			}
			e.visiting[x] = true
			k, st := e.evalD(fr, pv.v, pe, d+1)
			delete(e.visiting, x)
			return k, st
		}
		if e.visiting[x] {
			return nil, c03Free // a loop-carried value
		}
		e.visiting[x] = true
		defer delete(e.visiting, x)
		var k0 constant.Value
		st := c03Known
		for _, ed := range x.Edges {
			if ed == ssa.Value(x) {
				continue
			}
			if ph, isPhi := ed.(*ssa.Phi); isPhi && e.visiting[ph] {
				continue
			}
			k, s := e.evalD(fr, ed, pe, d+1)
			if s != c03Known {
				st = c03Worse(st, s)
				continue
			}
			if k0 == nil {
				k0 = k
			} else if k0.Kind() != k.Kind() || !constant.Compare(k0, token.EQL, k) {
				st = c03Worse(st, c03Free)
			}
		}
		if st == c03Known && k0 != nil {
			return k0, c03Known
		}
		if st == c03Known {
			st = c03Free
		}
		return nil, st
	case *ssa.Extract:
		if call, ok := x.Tuple.(*ssa.Call); ok {
			return e.evalCall(fr, call, x.Index)
		}
		return nil, c03Free
	case *ssa.Call:
		return e.evalCall(fr, x, 0)
	}
	return nil, c03Free
}

// evalCall decides result idx of a call by walking the in-package callee under the assumption.
func (e *c03Eng) evalCall(fr *c03Frame, call *ssa.Call, idx int) (constant.Value, int) {
	cc := &call.Call
	if cc.IsInvoke() {
		return nil, c03Free
	}
	if _, ok := cc.Value.(*ssa.Builtin); ok {
		return nil, c03Free
	}
	cal := e.callee(cc)
	rel := e.argsRelate(fr, cc.Args)
	if cal == nil {
		if cc.StaticCallee() != nil {
			return nil, c03Free // another package: independent of the assumption
		}
		if _, _, isField := an.FieldOf(cc.Value); isField {
			return nil, c03Free // a function held in a struct field (Definition.IsLeader, ...)
		}
		if rel {
			return nil, c03Opaque // an unknown function value applied to something the assumption is about
		}
		return nil, c03Free
	}
	if !rel && !e.mentions(cal, 0, map[*ssa.Function]bool{}) {
		return nil, c03Free // nothing the assumption is about can be seen from the callee
	}
	res := cal.Signature.Results()
	if idx >= res.Len() {
		return nil, c03Opaque
	}
	if b, ok := res.At(idx).Type().Underlying().(*types.Basic); !ok || b.Info()&(types.IsBoolean|types.IsInteger) == 0 {
		return nil, c03Free
	}
	nf := e.enter(fr, call)
	if nf == nil {
		return nil, c03Opaque
	}
	key := fmt.Sprintf("%p/%p/%d", call, fr, idx)
	if s, ok := e.memo[key]; ok {
		return s.k, s.st
	}
	e.memo[key] = c03Sum{nil, c03Opaque}
	w := e.walk(nf, nil, 0, nil)
	var k0 constant.Value
	st := c03Known
	if w.truncated || w.opaque || len(w.rets) == 0 {
		st = c03Opaque
	}
	for _, rt := range w.rets {
		if idx >= len(rt.ret.Results) {
			st = c03Opaque
			continue
		}
		k, s := e.eval(nf, rt.ret.Results[idx], rt.pe)
		if s != c03Known {
			st = c03Worse(st, s)
			continue
		}
		if k0 == nil {
			k0 = k
		} else if k0.Kind() != k.Kind() || !constant.Compare(k0, token.EQL, k) {
			st = c03Worse(st, c03Free)
		}
	}
	out := c03Sum{nil, st}
	if st == c03Known && k0 != nil {
		out = c03Sum{k0, c03Known}
	} else if st == c03Known {
		out = c03Sum{nil, c03Free}
	}
	e.memo[key] = out
	return out.k, out.st
}

// evalNil decides whether v (an error or pointer) is nil under the assumption: a nil constant, a freshly
// made error, or the result of an in-package helper all of whose reachable returns agree.
func (e *c03Eng) evalNil(fr *c03Frame, v ssa.Value, pe c03Path, d int) (bool, int) {
	if d > 6 || v == nil {
		return false, c03Opaque
	}
	switch x := v.(type) {
	case *ssa.MakeInterface:
		return false, c03Known // an interface holding a concrete value is not nil
	case *ssa.ChangeInterface:
		return e.evalNil(fr, x.X, pe, d+1)
	case *ssa.ChangeType:
		return e.evalNil(fr, x.X, pe, d+1)
	case *ssa.Phi:
		if pv, ok := pe[x]; ok && pv.v != nil {
			return e.evalNil(fr, pv.v, pe, d+1)
		}
		if len(x.Edges) == 1 {
			return e.evalNil(fr, x.Edges[0], pe, d+1)
		}
		return false, c03Free
	}
	rv, rfr := e.resolve(fr, v)
	if rfr != fr {
		pe = nil
	}
	if rv != v {
		return e.evalNil(rfr, rv, pe, d+1)
	}
	idx := 0
	var call *ssa.Call
	switch x := rv.(type) {
	case *ssa.Const:
		return x.IsNil(), c03Known
	case *ssa.Alloc, *ssa.MakeMap, *ssa.MakeSlice, *ssa.MakeChan, *ssa.MakeClosure, *ssa.FieldAddr, *ssa.IndexAddr:
		return false, c03Known
	case *ssa.Extract:
		c, ok := x.Tuple.(*ssa.Call)
		if !ok {
			return false, c03Free
		}
		call, idx = c, x.Index
	case *ssa.Call:
		call = x
	default:
		return false, c03Free
	}
	cc := &call.Call
	if cc.IsInvoke() {
		return false, c03Free
	}
	if f := cc.StaticCallee(); f != nil && e.callee(cc) == nil {
		// constructors of errors never hand out nil
		if n := f.Name(); (n == "New" || n == "Errorf") && an.IsErrorType(f.Signature.Results().At(0).Type()) {
			return false, c03Known
		}
		return false, c03Free
	}
	cal := e.callee(cc)
	if cal == nil {
		return false, c03Free
	}
	if !e.argsRelate(fr, cc.Args) && !e.mentions(cal, 0, map[*ssa.Function]bool{}) {
		return false, c03Free
	}
	nf := e.enter(fr, call)
	if nf == nil {
		return false, c03Opaque
	}
	key := fmt.Sprintf("nil/%p/%p/%d", call, fr, idx)
	if _, busy := e.memo[key]; busy {
		return false, c03Opaque
	}
	e.memo[key] = c03Sum{nil, c03Opaque}
	defer delete(e.memo, key)
	w := e.walk(nf, nil, 0, nil)
	if w.truncated || w.opaque || len(w.rets) == 0 {
		return false, c03Opaque
	}
	first, out := true, false
	for _, rt := range w.rets {
		res := returnValues(rt.ret)
		if idx >= len(res) {
			return false, c03Opaque
		}
		isNil, st := e.evalNil(nf, res[idx], rt.pe, d+1)
		if st != c03Known {
			return false, st
		}
		if first {
			first, out = false, isNil
		} else if out != isNil {
			return false, c03Free
		}
	}
	return out, c03Known
}

// evalSet lists the constants result v (a result of a call of an in-package function with an integer
// or boolean result) can take under the assumption; ok=false if some reachable return is not decided.
func (e *c03Eng) evalSet(fr *c03Frame, v ssa.Value) ([]constant.Value, bool) {
	v, fr = e.resolve(fr, v)
	idx := 0
	var call *ssa.Call
	switch y := v.(type) {
	case *ssa.Extract:
		c, ok := y.Tuple.(*ssa.Call)
		if !ok {
			return nil, false
		}
		call, idx = c, y.Index
	case *ssa.Call:
		call = y
	default:
		return nil, false
	}
	cc := &call.Call
	if cc.IsInvoke() {
		return nil, false
	}
	cal := e.callee(cc)
	if cal == nil || (!e.argsRelate(fr, cc.Args) && !e.mentions(cal, 0, map[*ssa.Function]bool{})) {
		return nil, false
	}
	res := cal.Signature.Results()
	if idx >= res.Len() {
		return nil, false
	}
	if b, ok := res.At(idx).Type().Underlying().(*types.Basic); !ok || b.Info()&(types.IsBoolean|types.IsInteger) == 0 {
		return nil, false
	}
	nf := e.enter(fr, call)
	if nf == nil {
		return nil, false
	}
	key := fmt.Sprintf("set/%p/%p/%d", call, fr, idx)
	if _, busy := e.memo[key]; busy {
		return nil, false
	}
	e.memo[key] = c03Sum{nil, c03Opaque}
	defer delete(e.memo, key)
	w := e.walk(nf, nil, 0, nil)
	if w.truncated || w.opaque || len(w.rets) == 0 {
		return nil, false
	}
	var out []constant.Value
	for _, rt := range w.rets {
		if idx >= len(rt.ret.Results) {
			return nil, false
		}
		k, s := e.eval(nf, rt.ret.Results[idx], rt.pe)
		if s != c03Known {
			return nil, false
		}
		out = append(out, k)
	}
	return out, true
}

// argsRelate: one of the arguments is (part of) an expression the assumption assigns a value to.
func (e *c03Eng) argsRelate(fr *c03Frame, args []ssa.Value) bool {
	for _, a := range args {
		if _, ok := e.facts.byVal[a]; ok {
			return true
		}
		if rv, _ := e.resolve(fr, a); rv != a {
			if _, ok := e.facts.byVal[rv]; ok {
				return true
			}
		}
	}
	if len(e.facts.byTerm) == 0 {
		return false
	}
	for _, a := range args {
		t := e.term(fr, a)
		if t == "" || t == "nil" || t == "zero" || strings.HasPrefix(t, "k:") {
			continue
		}
		for ft := range e.facts.byTerm {
			if strings.Contains(ft, t) {
				return true
			}
		}
	}
	return false
}

// mentions: fn, a function literal of it, or a function it calls (depth-limited) contains a value the
// assumption assigns a constant to.
func (e *c03Eng) mentions(fn *ssa.Function, d int, seen map[*ssa.Function]bool) bool {
	if len(e.facts.byVal) == 0 || seen[fn] || d > 4 {
		return false
	}
	seen[fn] = true
	for v := range e.facts.byVal {
		if in, ok := v.(ssa.Instruction); ok && in.Parent() == fn {
			return true
		}
	}
	for _, in := range an.Instrs(fn, false) {
		ci, ok := in.(ssa.CallInstruction)
		if !ok {
			continue
		}
		if g := e.callee(ci.Common()); g != nil && e.mentions(g, d+1, seen) {
			return true
		}
	}
	return false
}

type c03Ret struct {
	ret *ssa.Return
	pe  c03Path
}

type c03Walk struct {
	blocks    map[*ssa.BasicBlock]bool
	edges     map[[2]*ssa.BasicBlock]bool
	rets      []c03Ret
	at        map[*ssa.BasicBlock][]c03Path // the paths under which each block was reached
	truncated bool
	opaque    bool // a branch could not be looked into: reachability is over-approximated
}

// reachedInstr: the instruction can execute on a walked path (walks started in the middle of a block
// only cover the instructions after the start).
func (w *c03Walk) reachedInstr(in ssa.Instruction) bool { return w.blocks[in.Block()] }

// walk explores fr.fn from the top of `start` (entry block if nil; from instruction index `from` of
// that block) under the assumption. Blocks in stop are not entered.
func (e *c03Eng) walk(fr *c03Frame, start *ssa.BasicBlock, from int, stop map[*ssa.BasicBlock]bool) *c03Walk {
	w := &c03Walk{blocks: map[*ssa.BasicBlock]bool{}, edges: map[[2]*ssa.BasicBlock]bool{}, at: map[*ssa.BasicBlock][]c03Path{}}
	if len(fr.fn.Blocks) == 0 {
		w.truncated = true
		return w
	}
	if start == nil {
		start = fr.fn.Blocks[0]
	}
	type state struct {
		b  *ssa.BasicBlock
		pe c03Path
	}
	seen := map[string]bool{}
	work := []state{{start, c03Path{}}}
	first := true
	for len(work) > 0 {
		st := work[len(work)-1]
		work = work[:len(work)-1]
		if *e.budget--; *e.budget < 0 {
			w.truncated = true
			return w
		}
		key := fmt.Sprintf("%d|%s", st.b.Index, st.pe.key())
		if !first {
			if seen[key] {
				continue
			}
			seen[key] = true
			w.blocks[st.b] = true
			w.at[st.b] = append(w.at[st.b], st.pe)
		} else if from == 0 {
			seen[key] = true
			w.blocks[st.b] = true
			w.at[st.b] = append(w.at[st.b], st.pe)
		}
		first = false
		if len(st.b.Instrs) == 0 {
			continue
		}
		var succs []*ssa.BasicBlock
		switch last := st.b.Instrs[len(st.b.Instrs)-1].(type) {
		case *ssa.If:
			k, s := e.eval(fr, last.Cond, st.pe)
			if s == c03Known && k.Kind() == constant.Bool {
				if constant.BoolVal(k) {
					succs = st.b.Succs[:1]
				} else {
					succs = st.b.Succs[1:2]
				}
			} else {
				if s == c03Opaque {
					w.opaque = true
					if os.Getenv("C03DEBUG") != "" {
						fmt.Fprintf(os.Stderr, "c03: opaque branch in %s block %d cond %s = %s\n", fr.fn.Name(), st.b.Index, last.Cond.Name(), last.Cond.String())
					}
				}
				succs = st.b.Succs
			}
		case *ssa.Return:
			w.rets = append(w.rets, c03Ret{last, st.pe})
		default:
			succs = st.b.Succs
		}
		for _, s := range succs {
			if stop[s] {
				w.edges[[2]*ssa.BasicBlock{st.b, s}] = true
				continue
			}
			idx := -1
			for i, p := range s.Preds {
				if p == st.b {
					idx = i
				}
			}
			npe := st.pe
			copied := false
			for _, in := range s.Instrs {
				ph, ok := in.(*ssa.Phi)
				if !ok {
					break
				}
				if idx < 0 || idx >= len(ph.Edges) {
					continue
				}
				k, ks := e.eval(fr, ph.Edges[idx], st.pe)
				_, had := npe[ph]
				isBool := false
				if b, ok := ph.Type().Underlying().(*types.Basic); ok && b.Kind() == types.Bool {
					isBool = true
				}
				if ks != c03Known && !had && !isBool {
					continue
				}
				if !copied {
					npe = make(c03Path, len(st.pe)+1)
					for a, b := range st.pe {
						npe[a] = b
					}
					copied = true
				}
				switch {
				case ks == c03Known:
					npe[ph] = c03PhiVal{k: k}
				case isBool:
					in := ph.Edges[idx]
					if ip, ok := in.(*ssa.Phi); ok {
						if pv, ok := st.pe[ip]; ok {
							npe[ph] = pv
							break
						}
					}
					npe[ph] = c03PhiVal{v: in}
				default:
					delete(npe, ph)
				}
			}
			w.edges[[2]*ssa.BasicBlock{st.b, s}] = true
			work = append(work, state{s, npe})
		}
	}
	return w
}

// c03Point is a program point: an instruction, or the CFG edge pred→succ.
type c03Point struct {
	fr   *c03Frame
	in   ssa.Instruction // instruction point
	pred *ssa.BasicBlock // edge point (in == nil)
	succ *ssa.BasicBlock
}

func (p c03Point) pos() token.Pos {
	if p.in != nil {
		return posOf(p.in)
	}
	if len(p.pred.Instrs) > 0 {
		return posOf(p.pred.Instrs[len(p.pred.Instrs)-1])
	}
	return p.fr.fn.Pos()
}

// reachable: under the assumption, can the point execute? Every frame of the chain must be able to
// reach its call site, and the innermost frame the point. undecided if a walk was cut short.
func (e *c03Eng) reachable(p c03Point) (reach bool, undecided bool) {
	w := e.walk(p.fr, nil, 0, nil)
	if w.truncated {
		return true, true
	}
	if p.in != nil {
		if !w.blocks[p.in.Block()] {
			return false, false
		}
	} else if !w.edges[[2]*ssa.BasicBlock{p.pred, p.succ}] {
		return false, false
	}
	opaque := w.opaque
	for fr := p.fr; fr.up != nil; fr = fr.up {
		uw := e.walk(fr.up, nil, 0, nil)
		if uw.truncated {
			return true, true
		}
		if !uw.blocks[fr.site.Block()] {
			return false, false
		}
		opaque = opaque || uw.opaque
	}
	return true, opaque
}

// reachableFrom: under the assumption, can control flow from just after `from` to `sink` (same
// function) without re-entering the block of `from` (a second execution of `from` yields a new value)?
func (e *c03Eng) reachableFrom(fr *c03Frame, from, sink ssa.Instruction) (reach bool, undecided bool) {
	if from.Block() == sink.Block() && an.Dominates(from, sink) {
		return true, false
	}
	idx := 0
	for i, in := range from.Block().Instrs {
		if in == from {
			idx = i + 1
		}
	}
	w := e.walk(fr, from.Block(), idx, map[*ssa.BasicBlock]bool{from.Block(): true})
	if w.truncated {
		return true, true
	}
	if w.blocks[sink.Block()] {
		return true, w.opaque
	}
	return false, false
}

// ---------------------------------------------------------------------------------------------
// outcomes of a (rule, justification) function

// c03Outcome is one way a function returns a (rule, list) pair: the rule value (resolved to the frame
// it is chosen in), the paired list and the point at which the pair is chosen.
type c03Outcome struct {
	pt   c03Point
	rule ssa.Value // constant if decided
	rfr  *c03Frame
	just ssa.Value
	jfr  *c03Frame
	odd  string // why the pair could not be expanded further
	// conds: the rule is this constant only where these values equal these constants (the key under
	// which the rule was taken out of a constant table)
	conds []c03Cond
}

// c03Cond says that value v of activation fr equals k.
type c03Cond struct {
	v  ssa.Value
	fr *c03Frame
	k  constant.Value
}

// reachableUnder: can the outcome point execute under assumption f together with the outcome's own
// conditions? A condition that contradicts f makes it unreachable.
func (e *c03Eng) reachableUnder(o c03Outcome, f c03Facts) (reach, und bool) {
	for _, cd := range o.conds {
		t := e.term(cd.fr, cd.v)
		for strings.HasPrefix(t, "!") {
			t = "" // not a plain value term
		}
		if t != "" {
			if kv, ok := f.byTerm[t]; ok {
				if kv.Kind() != cd.k.Kind() || !constant.Compare(kv, token.EQL, cd.k) {
					return false, false
				}
				continue
			}
			f.term(t, cd.k)
		}
		if kv, ok := f.byVal[cd.v]; ok && (kv.Kind() != cd.k.Kind() || !constant.Compare(kv, token.EQL, cd.k)) {
			return false, false
		}
		f.val(cd.v, cd.k)
	}
	return e.under(f).reachable(o.pt)
}

func (e *c03Eng) outcomes(fr *c03Frame) []c03Outcome {
	var out []c03Outcome
	for _, r := range an.Returns(fr.fn) {
		if len(r.Results) != 2 {
			continue
		}
		res := returnValues(r)
		e.expand(c03Point{fr: fr, in: r}, res[0], fr, res[1], fr, &out, 0)
	}
	return out
}

func (e *c03Eng) expand(pt c03Point, rule ssa.Value, rfr *c03Frame, just ssa.Value, jfr *c03Frame, out *[]c03Outcome, d int, conds ...c03Cond) {
	if d > 10 {
		*out = append(*out, c03Outcome{pt: pt, rule: rule, rfr: rfr, just: just, jfr: jfr, odd: "nesting too deep", conds: conds})
		return
	}
	rule, rfr = e.resolve(rfr, rule)
	just, jfr = e.resolve(jfr, just)
	switch x := rule.(type) {
	case *ssa.Const:
		*out = append(*out, c03Outcome{pt: pt, rule: rule, rfr: rfr, just: just, jfr: jfr, conds: conds})
		return
	case *ssa.Phi:
		if rfr != pt.fr {
			break
		}
		jp, jIsPhi := just.(*ssa.Phi)
		if jIsPhi && (jfr != rfr || jp.Block() != x.Block()) {
			// the list is merged elsewhere: pair conservatively with every value it may take
			jIsPhi = false
		}
		for i, ed := range x.Edges {
			if i >= len(x.Block().Preds) {
				continue
			}
			j := just
			if jIsPhi {
				j = jp.Edges[i]
			}
			npt := c03Point{fr: rfr, pred: x.Block().Preds[i], succ: x.Block()}
			e.expand(npt, ed, rfr, j, jfr, out, d+1, conds...)
		}
		return
	case *ssa.Extract:
		call, ok := x.Tuple.(*ssa.Call)
		if !ok || x.Index != 0 {
			break
		}
		jx, ok := just.(*ssa.Extract)
		if !ok || jx.Tuple != x.Tuple || jx.Index != 1 || jfr != rfr {
			break
		}
		nf := e.enter(rfr, call)
		if nf == nil {
			break
		}
		for _, r := range an.Returns(nf.fn) {
			if len(r.Results) != 2 {
				continue
			}
			res := returnValues(r)
			e.expand(c03Point{fr: nf, in: r}, res[0], nf, res[1], nf, out, d+1, conds...)
		}
		return
	case *ssa.Call:
		// a helper computing only the rule: pair each of its constant results with the list
		nf := e.enter(rfr, x)
		if nf == nil || nf.fn.Signature.Results().Len() != 1 {
			break
		}
		for _, r := range an.Returns(nf.fn) {
			res := returnValues(r)
			e.expand(c03Point{fr: nf, in: r}, res[0], nf, just, jfr, out, d+1, conds...)
		}
		return
	}
	if lk, ok := rule.(*ssa.Lookup); ok && !lk.CommaOk {
		// taken out of a package-level table that only ever holds the constants it is initialised with:
		// one outcome per entry, under the condition that the key is that entry's
		if entries, zero, ok := e.constTable(lk); ok {
			for _, en := range entries {
				nc := append(append([]c03Cond(nil), conds...), c03Cond{lk.Index, rfr, en[0].Value})
				*out = append(*out, c03Outcome{pt: pt, rule: en[1], rfr: rfr, just: just, jfr: jfr, conds: nc})
			}
			*out = append(*out, c03Outcome{pt: pt, rule: zero, rfr: rfr, just: just, jfr: jfr, conds: conds}) // a key that is not in the table
			return
		}
	}
	*out = append(*out, c03Outcome{pt: pt, rule: rule, rfr: rfr, just: just, jfr: jfr, odd: "the rule is computed", conds: conds})
}

// ---------------------------------------------------------------------------------------------
// filterMsgs criteria

// c03Spec is a resolved filterMsgs call, its criteria spelled as terms ("" = criterion absent).
type c03Spec struct {
	msgs, typ, round string
	value, pr, pv    string
	typV             ssa.Value // the type criterion as a value (for constant tests)
	typFr            *c03Frame
	call             *ssa.Call
	cfr              *c03Frame // activation the filterMsgs call is made in
	sem              bool      // criteria read off the filter's body (n4SemSpec), not off a positional call
}

const (
	c03SpecOK      = 0
	c03SpecNot     = 1 // resolved, and it is not a filter result
	c03SpecUnknown = 2
)

// pointee spells the value a pointer criterion points to ("" = nil pointer, i.e. criterion absent).
func (e *c03Eng) pointee(fr *c03Frame, p ssa.Value, d int) (string, bool) {
	if _, isPtr := p.Type().Underlying().(*types.Pointer); !isPtr {
		// a criterion handed over by value: it cannot be absent; whether the filter applies it for every
		// value is decided on the filter's body (c03n4_filter.go)
		t := e.term(fr, p)
		return t, t != ""
	}
	p, fr = e.resolve(fr, p)
	if an.IsNilConst(p) {
		return "", true
	}
	switch x := p.(type) {
	case *ssa.Alloc:
		sts, local := c03LocalStores(x)
		if !local || c03PartlyWritten(x) {
			return "", false
		}
		switch len(sts) {
		case 0:
			return "zero", true
		case 1:
			t := e.term(fr, sts[0].Val)
			return t, t != ""
		}
	case *ssa.Call:
		// a helper returning the address of a copy of its argument (`ptrTo(v)`)
		nf := e.enter(fr, x)
		if nf == nil || d > 2 {
			return "", false
		}
		rets := an.Returns(nf.fn)
		if len(rets) != 1 || len(rets[0].Results) != 1 {
			return "", false
		}
		return e.pointee(nf, rets[0].Results[0], d+1)
	}
	return "", false
}

// filter resolves v to the filterMsgs criteria it was computed with, following in-package wrappers
// and helpers (every return of the helper must yield the same criteria).
func (e *c03Eng) filter(fr *c03Frame, v ssa.Value, d int) (c03Spec, int) {
	v, fr = e.resolve(fr, v)
	if d > 4 {
		return c03Spec{}, c03SpecUnknown
	}
	idx := 0
	if ex, ok := v.(*ssa.Extract); ok {
		idx = ex.Index
		v = ex.Tuple
	}
	call, ok := v.(*ssa.Call)
	if !ok {
		switch v.(type) {
		case *ssa.Const, *ssa.Parameter, *ssa.Slice, *ssa.MakeSlice, *ssa.Alloc:
			return c03Spec{}, c03SpecNot
		}
		return c03Spec{}, c03SpecUnknown
	}
	cc := &call.Call
	if cc.IsInvoke() {
		return c03Spec{}, c03SpecNot // msg.Justification() and the like
	}
	f := cc.StaticCallee()
	if f == nil {
		if _, isB := cc.Value.(*ssa.Builtin); isB {
			return c03Spec{}, c03SpecNot // append(...)
		}
		if e.callee(cc) == nil {
			return c03Spec{}, c03SpecUnknown
		}
	}
	if f != nil && c03Strip(an.FuncName(f)) == c03P+".filterMsgs" {
		a := cc.Args
		if len(a) != 6 || idx != 0 {
			if c03n4SemFallback && idx == 0 {
				if sp, st, ok := e.n4SemSpec(fr, call); ok {
					return sp, st
				}
			}
			return c03Spec{}, c03SpecUnknown
		}
		sp := c03Spec{msgs: e.term(fr, a[0]), typ: e.term(fr, a[1]), round: e.term(fr, a[2]), call: call, cfr: fr}
		sp.typV, sp.typFr = e.resolve(fr, a[1])
		var ok1, ok2, ok3 bool
		sp.value, ok1 = e.pointee(fr, a[3], 0)
		sp.pr, ok2 = e.pointee(fr, a[4], 0)
		sp.pv, ok3 = e.pointee(fr, a[5], 0)
		if !ok1 || !ok2 || !ok3 || sp.msgs == "" || sp.typ == "" || sp.round == "" {
			if os.Getenv("C03DEBUG") != "" {
				fmt.Fprintf(os.Stderr, "c03: filter spec unknown: %v %v %v msgs=%q typ=%q round=%q in %s\n", ok1, ok2, ok3, sp.msgs, sp.typ, sp.round, fr.fn.Name())
			}
			return sp, c03SpecUnknown
		}
		return sp, c03SpecOK
	}
	nf := e.enter(fr, call)
	if nf == nil {
		if f != nil && an.Orig(f).Pkg != e.pkg {
			return c03Spec{}, c03SpecNot
		}
		return c03Spec{}, c03SpecUnknown
	}
	var got *c03Spec
	worst := c03SpecOK
	n := 0
	for _, r := range an.Returns(nf.fn) {
		res := returnValues(r)
		if idx >= len(res) {
			return c03Spec{}, c03SpecUnknown
		}
		n++
		sp, st := e.filter(nf, res[idx], d+1)
		if st != c03SpecOK {
			if st > worst {
				worst = st
			}
			continue
		}
		if got == nil {
			got = &sp
		} else if got.key() != sp.key() {
			return c03Spec{}, c03SpecUnknown
		}
	}
	if n > 0 && worst == c03SpecOK {
		return *got, c03SpecOK
	}
	// not a wrapper of a known filter call: is it a filter itself (whatever its name and parameter list)?
	if c03n4SemFallback && idx == 0 {
		if sp, st, ok := e.n4SemSpec(fr, call); ok {
			return sp, st
		}
	}
	if n == 0 {
		return c03Spec{}, c03SpecUnknown
	}
	if got != nil {
		return c03Spec{}, c03SpecUnknown // some returns filter, some do not
	}
	return c03Spec{}, worst
}

func (s c03Spec) key() string {
	return strings.Join([]string{s.msgs, s.typ, s.round, s.value, s.pr, s.pv}, "|")
}

// ---------------------------------------------------------------------------------------------
// quorum comparisons

// c03QCmp is a comparison of len(list) with Definition.Quorum(): Reached is the truth value of the
// comparison instruction that means "quorum reached".
type c03QCmp struct {
	bin     *ssa.BinOp
	fr      *c03Frame
	list    ssa.Value
	lfr     *c03Frame
	kind    string // threshold kind (c03Threshold)
	reached bool
	exact   bool // the comparison is `>=` / `<` (not strict in the wrong direction)
}

// quorumCmps lists the threshold comparisons over a length in fr.fn and (depth-limited) the in-package
// functions it calls.
func (e *c03Eng) quorumCmps(fr *c03Frame, d int, seen map[*ssa.Function]bool) []c03QCmp {
	if d > 3 {
		return nil
	}
	// every activation is looked at (a helper called from two sites compares two different lists); the
	// functions without any threshold comparison below them are remembered and skipped
	if seen[fr.fn] {
		return nil
	}
	var out []c03QCmp
	defer func() {
		if len(out) == 0 {
			seen[fr.fn] = true
		}
	}()
	for _, in := range an.Instrs(fr.fn, false) {
		switch x := in.(type) {
		case *ssa.BinOp:
			if !c03IsCmp(x.Op) {
				continue
			}
			count, thr, op := x.X, x.Y, x.Op
			// `a - b ⋛ 0` is `a ⋛ b`
			if n, isC := an.ConstInt(thr); isC && n == 0 {
				if sub, ok := an.Resolve(count).(*ssa.BinOp); ok && sub.Op == token.SUB {
					count, thr = sub.X, sub.Y
				}
			} else if n, isC := an.ConstInt(count); isC && n == 0 {
				if sub, ok := an.Resolve(thr).(*ssa.BinOp); ok && sub.Op == token.SUB {
					// 0 ⋛ a - b  is  b ⋛ a
					count, thr = sub.Y, sub.X
				}
			}
			k, isT := c03Thresh(e, fr, thr)
			if !isT {
				if k, isT = c03Thresh(e, fr, count); !isT {
					continue
				}
				count, op = thr, c03Flip(x.Op)
			}
			rc, _ := e.resolve(fr, count)
			arg := c03LenArg(rc)
			q := c03QCmp{bin: x, fr: fr, kind: k}
			if arg != nil {
				q.list, q.lfr = e.resolve(fr, arg)
			}
			switch op {
			case token.GEQ:
				q.reached, q.exact = true, true
			case token.LSS:
				q.reached, q.exact = false, true
			case token.GTR:
				q.reached = true
			case token.LEQ:
				q.reached = false
			default:
				continue
			}
			out = append(out, q)
		case ssa.CallInstruction:
			if nf := e.enter(fr, x); nf != nil {
				out = append(out, e.quorumCmps(nf, d+1, seen)...)
			}
		}
	}
	return out
}

func c03Thresh(e *c03Eng, fr *c03Frame, v ssa.Value) (string, bool) {
	rv, _ := e.resolve(fr, v)
	return c03Threshold(rv)
}

// resolveDeep additionally looks through in-package helpers that hand out the same value on every
// return (`commits, ok := commitQuorum(...)` denotes the list built inside commitQuorum).
func (e *c03Eng) resolveDeep(fr *c03Frame, v ssa.Value, d int) (ssa.Value, *c03Frame) {
	v, fr = e.resolve(fr, v)
	if d > 4 {
		return v, fr
	}
	idx := 0
	var call *ssa.Call
	switch x := v.(type) {
	case *ssa.Extract:
		c, ok := x.Tuple.(*ssa.Call)
		if !ok {
			return v, fr
		}
		call, idx = c, x.Index
	case *ssa.Call:
		call = x
	default:
		return v, fr
	}
	nf := e.enter(fr, call)
	if nf == nil {
		return v, fr
	}
	var got ssa.Value
	var gfr *c03Frame
	for _, r := range an.Returns(nf.fn) {
		res := returnValues(r)
		if idx >= len(res) {
			return v, fr
		}
		rv, rfr := e.resolveDeep(nf, res[idx], d+1)
		if an.IsNilConst(rv) {
			continue // failure returns hand out no list
		}
		if got != nil && got != rv {
			return v, fr
		}
		got, gfr = rv, rfr
	}
	if got == nil {
		return v, fr
	}
	return got, gfr
}

// c03FrameEq: the two activations are reached through the same chain of call sites.
func c03FrameEq(a, b *c03Frame) bool {
	for a != nil && b != nil {
		if a.fn != b.fn || a.site != b.site {
			return false
		}
		a, b = a.up, b.up
	}
	return a == nil && b == nil
}

// sameList: the two (resolved) list values denote the same list.
func (e *c03Eng) sameList(a ssa.Value, afr *c03Frame, b ssa.Value, bfr *c03Frame) bool {
	if a == nil || b == nil {
		return false
	}
	if a == b {
		return true
	}
	da, dafr := e.resolveDeep(afr, a, 0)
	db, dbfr := e.resolveDeep(bfr, b, 0)
	if da == db && (da != a || db != b) {
		// the same value inside a helper: only if it is the same activation of that helper
		return c03FrameEq(dafr, dbfr)
	}
	if da == db {
		return true
	}
	a, afr, b, bfr = da, dafr, db, dbfr
	ta, tb := e.term(afr, a), e.term(bfr, b)
	return ta != "" && ta == tb
}

func c03Bool(b bool) constant.Value { return constant.MakeBool(b) }

// c03SameType: the two types are identical up to the identity of type parameters (every generic
// function and method of core/qbft declares its own I, V, C; they are matched by position).
func c03SameType(a, b types.Type) bool { return c03SameTypeD(a, b, 0) }

func c03SameTypeD(a, b types.Type, d int) bool {
	if types.Identical(a, b) {
		return true
	}
	if d > 6 {
		return false
	}
	a, b = types.Unalias(a), types.Unalias(b)
	switch x := a.(type) {
	case *types.TypeParam:
		y, ok := b.(*types.TypeParam)
		return ok && x.Index() == y.Index()
	case *types.Slice:
		y, ok := b.(*types.Slice)
		return ok && c03SameTypeD(x.Elem(), y.Elem(), d+1)
	case *types.Pointer:
		y, ok := b.(*types.Pointer)
		return ok && c03SameTypeD(x.Elem(), y.Elem(), d+1)
	case *types.Array:
		y, ok := b.(*types.Array)
		return ok && x.Len() == y.Len() && c03SameTypeD(x.Elem(), y.Elem(), d+1)
	case *types.Chan:
		y, ok := b.(*types.Chan)
		return ok && x.Dir() == y.Dir() && c03SameTypeD(x.Elem(), y.Elem(), d+1)
	case *types.Map:
		y, ok := b.(*types.Map)
		return ok && c03SameTypeD(x.Key(), y.Key(), d+1) && c03SameTypeD(x.Elem(), y.Elem(), d+1)
	case *types.Named:
		y, ok := b.(*types.Named)
		if !ok || x.Origin().Obj() != y.Origin().Obj() {
			return false
		}
		xa, ya := x.TypeArgs(), y.TypeArgs()
		if xa.Len() != ya.Len() {
			return false
		}
		for i := 0; i < xa.Len(); i++ {
			if !c03SameTypeD(xa.At(i), ya.At(i), d+1) {
				return false
			}
		}
		return true
	}
	return false
}

// pkgAllFuncs lists every function of the engine's package: package-level functions, methods of its
// named types (generic ones included) and all function literals.
func (e *c03Eng) pkgAllFuncs() []*ssa.Function {
	seen := map[*ssa.Function]bool{}
	var out []*ssa.Function
	add := func(f *ssa.Function) {
		if f == nil {
			return
		}
		for _, g := range an.Closure(f) {
			if !seen[g] {
				seen[g] = true
				out = append(out, g)
			}
		}
	}
	for _, m := range e.pkg.Members {
		switch x := m.(type) {
		case *ssa.Function:
			add(x)
		case *ssa.Type:
			if named, ok := x.Type().(*types.Named); ok {
				for i := 0; i < named.NumMethods(); i++ {
					add(e.pkg.Prog.FuncValue(named.Method(i)))
				}
			}
		}
	}
	return out
}

// constTable: lk reads a package-level map that is assigned exactly once — in the package initialiser,
// a fresh map filled with constant keys and values — and is otherwise only read (lookups, len, range)
// anywhere in the package and not exported. Returns its entries and the zero value of its element type.
func (e *c03Eng) constTable(lk *ssa.Lookup) (entries [][2]*ssa.Const, zero *ssa.Const, ok bool) {
	ld, isLd := an.Unwrap(lk.X).(*ssa.UnOp)
	if !isLd || ld.Op != token.MUL {
		return nil, nil, false
	}
	g, isG := ld.X.(*ssa.Global)
	if !isG || g.Pkg != e.pkg || (g.Object() != nil && g.Object().Exported()) {
		return nil, nil, false
	}
	mt, isMap := g.Type().Underlying().(*types.Pointer).Elem().Underlying().(*types.Map)
	if !isMap {
		return nil, nil, false
	}
	eb, isB := mt.Elem().Underlying().(*types.Basic)
	if !isB || eb.Info()&types.IsInteger == 0 {
		return nil, nil, false
	}
	var theStore *ssa.Store
	for _, f := range e.pkgAllFuncs() {
		for _, in := range an.Instrs(f, false) {
			for _, op := range an.Operands(in) {
				if op != ssa.Value(g) {
					continue
				}
				switch x := in.(type) {
				case *ssa.Store:
					if x.Addr != ssa.Value(g) || theStore != nil || f.Name() != "init" || f.Parent() != nil {
						return nil, nil, false
					}
					theStore = x
				case *ssa.UnOp:
					if x.Op != token.MUL || x.Referrers() == nil {
						return nil, nil, false
					}
					for _, ref := range *x.Referrers() {
						switch y := ref.(type) {
						case *ssa.DebugRef, *ssa.Range:
						case *ssa.Lookup:
							if y.X != ssa.Value(x) {
								return nil, nil, false
							}
						case *ssa.Call:
							if b, isB := y.Call.Value.(*ssa.Builtin); !isB || b.Name() != "len" {
								return nil, nil, false
							}
						default:
							return nil, nil, false // updated, deleted from, handed on
						}
					}
				default:
					return nil, nil, false // address taken
				}
			}
		}
	}
	if theStore == nil {
		return nil, nil, false
	}
	mk, isMk := theStore.Val.(*ssa.MakeMap)
	if !isMk || mk.Referrers() == nil {
		return nil, nil, false
	}
	for _, ref := range *mk.Referrers() {
		switch y := ref.(type) {
		case *ssa.DebugRef:
		case *ssa.Store:
			if y != theStore {
				return nil, nil, false
			}
		case *ssa.MapUpdate:
			k, ok1 := y.Key.(*ssa.Const)
			v, ok2 := y.Value.(*ssa.Const)
			if y.Map != ssa.Value(mk) || !ok1 || !ok2 || k.Value == nil || v.Value == nil {
				return nil, nil, false
			}
			entries = append(entries, [2]*ssa.Const{k, v})
		default:
			return nil, nil, false
		}
	}
	if len(entries) == 0 {
		return nil, nil, false
	}
	return entries, ssa.NewConst(constant.MakeInt64(0), mt.Elem()), true
}
