package rules

// Interprocedural value-flow helpers of the C07 rules (second hardening round). The rules are stated on
// mechanisms (the map handed to the threshold subscribers, the growing append to entries, the removal
// from entries performed when the exempt cap is exceeded) and these helpers find the mechanisms wherever
// a refactoring has moved them: into a struct used as parameter object, a helper that returns the map, a
// method on a per-call state struct, a closure, a callee that received the tracked list as argument.

import (
	"go/constant"
	"go/token"
	"go/types"

	"golang.org/x/tools/go/ssa"

	"charonverif/internal/an"
)

// ---------------------------------------------------------------------------------------------
// aliases of a map value across locals, struct fields, parameters, results and closures

type c07flow struct {
	same map[ssa.Value]bool // values that denote the very same map object
	flow map[ssa.Value]bool // same, or an in-package copy of it (`clone(output)`)
}

// flowOf computes the alias closure of map value m over the package.
func (k *c07k) flowOf(m ssa.Value) *c07flow {
	f := &c07flow{same: map[ssa.Value]bool{}, flow: map[ssa.Value]bool{}}
	fields := map[string]bool{} // struct fields (by type and name) the map is stored in; value: true = same
	fieldSame := map[string]bool{}
	var work []ssa.Value
	add := func(v ssa.Value, same bool) {
		if v == nil {
			return
		}
		if same && !f.same[v] {
			f.same[v] = true
			f.flow[v] = true
			work = append(work, v)
			return
		}
		if !f.flow[v] {
			f.flow[v] = true
			work = append(work, v)
		}
	}
	loadsOf := func(addr ssa.Value, same bool) {
		if addr.Referrers() == nil {
			return
		}
		for _, r := range *addr.Referrers() {
			if ld, ok := r.(*ssa.UnOp); ok && ld.Op == token.MUL && ld.X == addr {
				add(ld, same)
			}
		}
	}
	scanFields := func() {
		for _, fn := range k.ix.Funcs {
			for _, in := range an.Instrs(fn, true) {
				switch x := in.(type) {
				case *ssa.FieldAddr:
					if key := an.FieldKey(x.X.Type(), x.Field); fields[key] {
						loadsOf(x, fieldSame[key])
					}
				case *ssa.Field:
					if key := an.FieldKey(x.X.Type(), x.Field); fields[key] {
						add(x, fieldSame[key])
					}
				}
			}
		}
	}
	add(m, true)
	for rounds := 0; rounds < 64; rounds++ {
		for len(work) > 0 {
			v := work[len(work)-1]
			work = work[:len(work)-1]
			same := f.same[v]
			if v.Referrers() == nil {
				continue
			}
			for _, ref := range *v.Referrers() {
				switch x := ref.(type) {
				case *ssa.Phi:
					add(x, same)
				case *ssa.ChangeType:
					add(x, same)
				case *ssa.Store:
					if x.Val != v {
						continue
					}
					switch a := x.Addr.(type) {
					case *ssa.Alloc:
						loadsOf(a, same)
						// captured by a function literal: loads of the free variable
						for _, r2 := range *a.Referrers() {
							mc, ok := r2.(*ssa.MakeClosure)
							if !ok {
								continue
							}
							g, ok := mc.Fn.(*ssa.Function)
							if !ok {
								continue
							}
							for i, b := range mc.Bindings {
								if b == ssa.Value(a) && i < len(g.FreeVars) {
									loadsOf(g.FreeVars[i], same)
								}
							}
						}
					case *ssa.FieldAddr:
						key := an.FieldKey(a.X.Type(), a.Field)
						if !fields[key] || (same && !fieldSame[key]) {
							fields[key] = true
							if same {
								fieldSame[key] = true
							}
						}
					}
				case *ssa.Return:
					fn := x.Parent()
					for i, res := range x.Results {
						if res != v {
							continue
						}
						for _, site := range k.callsOf(fn) {
							sv := site.Value()
							if sv == nil {
								continue
							}
							if len(x.Results) == 1 {
								add(sv, same)
								continue
							}
							for _, r2 := range *sv.Referrers() {
								if ex, ok := r2.(*ssa.Extract); ok && ex.Index == i {
									add(ex, same)
								}
							}
						}
					}
				case ssa.CallInstruction:
					cc := x.Common()
					g := k.ix.Callee(cc)
					if g == nil {
						continue
					}
					for j, a := range cc.Args {
						if a != v {
							continue
						}
						if j < len(g.Params) {
							add(g.Params[j], same)
						}
						// an in-package function given the map and returning a map of the same type: a copy
						if val := x.Value(); val != nil && types.Identical(val.Type(), v.Type()) {
							add(val, false)
						}
					}
				}
			}
		}
		before := len(f.flow)
		scanFields()
		if len(work) == 0 && len(f.flow) == before {
			break
		}
	}
	return f
}

// reachesFan: one of the values is handed to a call through the threshSubs field.
func (f *c07flow) reachesFan() bool {
	for v := range f.flow {
		if v.Referrers() == nil {
			continue
		}
		for _, ref := range *v.Referrers() {
			ci, ok := ref.(ssa.CallInstruction)
			if !ok || !an.FieldCall(c07f("threshSubs"))(ci.Common()) {
				continue
			}
			for _, a := range ci.Common().Args {
				if a == v {
					return true
				}
			}
		}
	}
	return false
}

// outputs: the alias sets of every locally made map of the package that is handed (possibly copied) to the
// threshold subscribers, merged.
func (k *c07k) outputs() *c07flow {
	if k.out != nil {
		return k.out
	}
	k.out = &c07flow{same: map[ssa.Value]bool{}, flow: map[ssa.Value]bool{}}
	for _, fn := range k.ix.Funcs {
		for _, in := range an.Instrs(fn, true) {
			mk, ok := in.(*ssa.MakeMap)
			if !ok || c07isCopyOf(mk) {
				continue
			}
			f := k.flowOf(mk)
			if !f.reachesFan() {
				continue
			}
			k.nOut++
			for v := range f.same {
				k.out.same[v] = true
			}
			for v := range f.flow {
				k.out.flow[v] = true
			}
		}
	}
	return k.out
}

// isCopyOf: the map is made and returned by a function that is given a map of the same type (`clone(output)`):
// a copy for one subscriber, not the map the results are collected in.
func c07isCopyOf(mk *ssa.MakeMap) bool {
	fn := mk.Parent()
	given := false
	for _, p := range fn.Params {
		if types.Identical(p.Type(), mk.Type()) {
			given = true
		}
	}
	if !given {
		return false
	}
	for _, r := range an.Returns(fn) {
		for _, v := range returnValues(r) {
			if an.Resolve(v) == ssa.Value(mk) {
				return true
			}
		}
	}
	return false
}

func (k *c07k) isOut(v ssa.Value) bool {
	o := k.outputs()
	return o.same[v] || o.same[an.Resolve(v)]
}

// outputWrites: every element assignment to an output map in the package.
func (k *c07k) outputWrites() []*ssa.MapUpdate {
	var out []*ssa.MapUpdate
	for _, fn := range k.ix.Funcs {
		for _, in := range an.Instrs(fn, true) {
			if up, ok := in.(*ssa.MapUpdate); ok && k.isOut(up.Map) {
				out = append(out, up)
			}
		}
	}
	return out
}

// ---------------------------------------------------------------------------------------------
// P2: from an insertion into the output map to the fan-out, continuing in the callers of helpers

func (k *c07k) outEnv() an.H07Env {
	return an.H07Env{LenMin: func(x ssa.Value) (int64, bool) { return 1, k.isOut(x) }}
}

// fanEffect2: the instruction starts the threshold fan-out (a load of the threshSubs field), or calls an
// in-package function that does so on every path to its return given that the output map is non-empty.
func (k *c07k) fanEffect2(in ssa.Instruction) bool {
	if isLoadOfField(in, c07f("threshSubs")) {
		return true
	}
	ci, ok := in.(*ssa.Call)
	if !ok {
		return false
	}
	if an.FieldCall(c07f("threshSubs"))(&ci.Call) {
		return true
	}
	g := k.ix.Callee(&ci.Call)
	if g == nil {
		return false
	}
	key := an.FuncName(g) + "|*"
	switch k.mustFan[key] {
	case 1:
		return true
	case 2:
		return false
	}
	if _, running := k.mustFan[key]; running {
		return false
	}
	k.mustFan[key] = 0
	_, esc := an.H07Path(g, nil, nil, k.fanEffect2, k.outEnv().Prune(), nil)
	if esc {
		k.mustFan[key] = 2
	} else {
		k.mustFan[key] = 1
	}
	return !esc
}

// fanAfter decides whether every path from just after instruction from reaches the fan-out before the
// operation ends. A helper that returns without fanning out is continued in its (static, closed) callers.
func (k *c07k) fanAfter(fn *ssa.Function, from ssa.Instruction, depth int) c07v {
	prune := k.outEnv().Prune()
	path, esc := an.H07Path(fn, from, nil, k.fanEffect2, prune, nil)
	if esc && c07pathHasFlagBranch(path) {
		// a flag variable decides: follow it from the function entry
		path, esc = an.H07PathVia(fn, from, k.fanEffect2, prune)
	}
	if !esc {
		return c07Ok()
	}
	if c07pathHasFlagBranch(path) && !c07flagsDecided(path) {
		return c07Unsure("the fan-out is skipped on a branch over a flag variable that is not evaluated: " + an.PathString(k.c.P, path))
	}
	sites, closed := k.ix.Callers(fn)
	if closed && len(sites) > 0 && depth < 4 {
		out := c07Ok()
		for _, s := range sites {
			if _, isCall := s.(*ssa.Call); !isCall {
				out = out.and(c07Unsure(an.FuncName(fn) + " inserts into the threshold-output map and is started with go/defer"))
				continue
			}
			out = out.and(k.fanAfter(s.Parent(), s, depth+1))
		}
		return out
	}
	return c07Bad("path from the validator reaching threshold to a return that skips the threshold fan-out: " + an.PathString(k.c.P, path))
}

// ---------------------------------------------------------------------------------------------
// entries: insertions and removals

// growsEntries: g (transitively) contains `entries[k] = append(entries[k], x)`.
func (k *c07k) growsEntries(g *ssa.Function) bool {
	return k.ix.MayReach(g, func(in ssa.Instruction) bool {
		up, ok := in.(*ssa.MapUpdate)
		if !ok || !c07entries(up.Map) {
			return false
		}
		_, _, grow := c07growAppend(up, c07entries)
		return grow
	})
}

// touchesEntries: the definition of v (through operands and the results of in-package callees) reads entries.
func (k *c07k) touchesEntries(v ssa.Value, depth int, seen map[ssa.Value]bool) bool {
	v = an.H07ReachingDef(v)
	if depth > 8 || seen[v] {
		return false
	}
	seen[v] = true
	if lk, ok := v.(*ssa.Lookup); ok && c07entries(lk.X) {
		return true
	}
	if call, idx, ok := c07resultOf(v); ok {
		if g := k.ix.Callee(&call.Call); g != nil {
			for _, r := range an.Returns(g) {
				rv := returnValues(r)
				if idx < len(rv) && k.touchesEntries(rv[idx], depth+1, seen) {
					return true
				}
			}
			return false
		}
	}
	in, ok := v.(ssa.Instruction)
	if !ok {
		return false
	}
	for _, op := range an.Operands(in) {
		if k.touchesEntries(op, depth+1, seen) {
			return true
		}
	}
	return false
}

// returnsSnapshot: result idx of h is the per-key list of entries (the stored slice or a copy of it).
func (k *c07k) returnsSnapshot(h *ssa.Function, idx int) bool {
	for _, r := range an.Returns(h) {
		rv := returnValues(r)
		if idx < len(rv) && !an.IsNilConst(an.Resolve(rv[idx])) && k.touchesEntries(rv[idx], 0, map[ssa.Value]bool{}) {
			return true
		}
	}
	return false
}

// removal: the instruction removes partial signatures from entries (delete/clear, or an overwrite with
// something other than append(entries[k], x)); key is the affected key (nil for clear).
func c07removal(in ssa.Instruction) (key ssa.Value, ok bool) {
	switch x := in.(type) {
	case *ssa.Call:
		b, isB := x.Call.Value.(*ssa.Builtin)
		if !isB || (b.Name() != "delete" && b.Name() != "clear") || len(x.Call.Args) == 0 {
			return nil, false
		}
		if fk, _, isF := an.FieldOf(x.Call.Args[0]); !isF || fk != c07f("entries") {
			return nil, false
		}
		if b.Name() == "delete" && len(x.Call.Args) == 2 {
			return x.Call.Args[1], true
		}
		return nil, true
	case *ssa.MapUpdate:
		if !c07entries(x.Map) {
			return nil, false
		}
		if _, _, grow := c07growAppend(x, c07entries); grow {
			return nil, false
		}
		return x.Key, true
	}
	return nil, false
}

// c07frame is a function entered through a static call; parameters stand for the arguments of that call.
type c07frame struct {
	fn   *ssa.Function
	call ssa.CallInstruction // the call in up.fn that entered fn (nil for the outermost frame)
	up   *c07frame
}

// root follows parameters to the arguments of the entering calls.
func (fr *c07frame) root(v ssa.Value) (ssa.Value, *c07frame) {
	for i := 0; i < 16; i++ {
		v = an.Resolve(v)
		p, ok := v.(*ssa.Parameter)
		if !ok || fr.up == nil || p.Parent() != fr.fn {
			return v, fr
		}
		a := an.H07ArgFor(fr.call, an.H07ParamIndex(p))
		if a == nil {
			return v, fr
		}
		v, fr = a, fr.up
	}
	return v, fr
}

func (fr *c07frame) depth() int {
	n := 0
	for f := fr; f.up != nil; f = f.up {
		n++
	}
	return n
}

// c07capRemoval is a removal from entries reached from the cap test of the exempt tracking.
type c07capRemoval struct {
	in  ssa.Instruction
	key ssa.Value // nil: clear
	fr  *c07frame
}

// removalsFrom lists the removals from entries performed by instruction in of frame fr (directly or in
// the in-package callees it enters).
func (k *c07k) removalsFrom(in ssa.Instruction, fr *c07frame) []c07capRemoval {
	if key, ok := c07removal(in); ok {
		return []c07capRemoval{{in, key, fr}}
	}
	call, ok := in.(*ssa.Call)
	if !ok || fr.depth() > 3 {
		return nil
	}
	g := k.ix.Callee(&call.Call)
	if g == nil {
		return nil
	}
	var out []c07capRemoval
	sub := &c07frame{fn: g, call: call, up: fr}
	for _, x := range an.Instrs(g, false) {
		out = append(out, k.removalsFrom(x, sub)...)
	}
	return out
}

// mustRemove: every path through the call (of an in-package function) passes a removal from entries, given
// lower bounds on the length of lists known at the call site.
func (k *c07k) mustRemove(call *ssa.Call, env an.H07Env, depth int) bool {
	g := k.ix.Callee(&call.Call)
	if g == nil || depth > 3 {
		return false
	}
	sub := an.H07Env{LenMin: func(x ssa.Value) (int64, bool) {
		if p, ok := an.Resolve(x).(*ssa.Parameter); ok && p.Parent() == g && env.LenMin != nil {
			if a := an.H07ArgFor(call, an.H07ParamIndex(p)); a != nil {
				return env.LenMin(a)
			}
		}
		return 0, false
	}}
	eff := func(in ssa.Instruction) bool {
		if _, ok := c07removal(in); ok {
			return true
		}
		c2, ok := in.(*ssa.Call)
		return ok && k.mustRemove(c2, sub, depth+1)
	}
	_, esc := an.H07Path(g, nil, nil, eff, sub.Prune(), nil)
	return !esc
}

// fromExempt: list value v (seen in frame fr) is the tracked list exemptEntries[ek], possibly with new keys
// appended.
func (k *c07k) fromExempt(v ssa.Value, fr *c07frame, depth int) bool {
	if depth > 6 {
		return false
	}
	v, fr = fr.root(v)
	if ap, ok := c07isBuiltin(v, "append"); ok && len(ap.Call.Args) > 0 {
		return k.fromExempt(ap.Call.Args[0], fr, depth+1)
	}
	if lk := c07lookupOf(v); lk != nil {
		return c07exempt(lk.X)
	}
	if phi, ok := v.(*ssa.Phi); ok {
		for _, e := range phi.Edges {
			if k.fromExempt(e, fr, depth+1) {
				return true
			}
		}
	}
	return false
}

// ---------------------------------------------------------------------------------------------
// P8: from the growing append to the evaluation against the threshold, continuing in the callers

type c07known struct {
	isNil bool
	val   constant.Value
}

// knownOf: what is known about result value v of a return reached over path (constants, flag variables
// assigned a constant on the path or decided by a branch that dominates the start of the path).
func c07knownOf(v ssa.Value, known map[ssa.Value]c07known, seeds map[*ssa.Phi]constant.Value, path []*ssa.BasicBlock) (c07known, bool) {
	v = an.Resolve(v)
	if kn, ok := known[v]; ok {
		return kn, true
	}
	if an.IsNilConst(v) {
		return c07known{isNil: true}, true
	}
	if c, ok := v.(*ssa.Const); ok && c.Value != nil {
		return c07known{val: c.Value}, true
	}
	phi, ok := v.(*ssa.Phi)
	if !ok {
		return c07known{}, false
	}
	vals := map[*ssa.Phi]constant.Value{}
	for p, c := range seeds {
		vals[p] = c
	}
	for i := 1; i < len(path); i++ {
		b, pred := path[i], path[i-1]
		for _, in := range b.Instrs {
			p, isPhi := in.(*ssa.Phi)
			if !isPhi {
				break
			}
			for j, q := range b.Preds {
				if q != pred || j >= len(p.Edges) {
					continue
				}
				switch e := p.Edges[j].(type) {
				case *ssa.Const:
					if e.Value != nil {
						vals[p] = e.Value
					} else {
						delete(vals, p)
					}
				case *ssa.Phi:
					if c, ok := vals[e]; ok {
						vals[p] = c
					} else {
						delete(vals, p)
					}
				default:
					delete(vals, p)
				}
				break
			}
		}
	}
	if c, ok := vals[phi]; ok {
		return c07known{val: c}, true
	}
	return c07known{}, false
}

// seedsAt: flag variables whose value is decided by a branch dominating block b (`if verdict == added { … b … }`).
func c07seedsAt(b *ssa.BasicBlock) map[*ssa.Phi]constant.Value {
	out := map[*ssa.Phi]constant.Value{}
	for _, d := range b.Parent().Blocks {
		if len(d.Instrs) == 0 || len(d.Succs) != 2 {
			continue
		}
		iff, ok := d.Instrs[len(d.Instrs)-1].(*ssa.If)
		if !ok {
			continue
		}
		p, want, eq, ok := an.H07FlagCond(iff.Cond)
		if !ok {
			continue
		}
		for succ := 0; succ < 2; succ++ {
			if !an.H07EdgeDominates(d, succ, b) {
				continue
			}
			condTrue := succ == 0
			switch {
			case condTrue == eq:
				out[p] = want // flag == want holds
			case want.Kind() == constant.Bool:
				out[p] = constant.MakeBool(!constant.BoolVal(want))
			}
		}
	}
	return out
}

// evalAfter decides whether every path from just after instruction from (an accepted insertion, or the
// call that performed it) passes the evaluation against the threshold (a call of the matcher) before the
// next iteration of the enclosing loop or the end of the operation. known: what the results of the call
// `from` are known to be for an accepted insertion.
func (k *c07k) evalAfter(fn *ssa.Function, from ssa.Instruction, known map[ssa.Value]c07known, gtm *ssa.Function, depth int) c07v {
	return k.evalAfterG(fn, from, known, gtm, nil, depth)
}

// c07goal replaces "a call of the matcher" as the effect every path has to pass (round 4: the write into the
// threshold-output map after a positive result of the matcher) and says how an escaping path is judged.
type c07goal struct {
	effect func(ssa.Instruction) bool
	judge  func(fn *ssa.Function, path []*ssa.BasicBlock, decided func(ssa.Value) (bool, bool)) c07v
}

func (k *c07k) evalAfterG(fn *ssa.Function, from ssa.Instruction, known map[ssa.Value]c07known, gtm *ssa.Function, g *c07goal, depth int) c07v {
	effect := k.callEffect(gtm)
	if g != nil {
		effect = g.effect
	}
	l := an.InnermostLoop(fn, from.Block())
	var stop func(b *ssa.BasicBlock) bool
	if l != nil {
		stop = func(b *ssa.BasicBlock) bool { return b == l.Header }
	}
	decide := func(cond ssa.Value) (bool, bool) {
		neg := false
		for i := 0; i < 6; i++ {
			cond = an.Resolve(cond)
			if kn, ok := known[cond]; ok && kn.val != nil && kn.val.Kind() == constant.Bool {
				return constant.BoolVal(kn.val) != neg, true
			}
			switch x := cond.(type) {
			case *ssa.UnOp:
				if x.Op == token.NOT {
					cond, neg = x.X, !neg
					continue
				}
			case *ssa.BinOp:
				if x.Op != token.EQL && x.Op != token.NEQ {
					return false, false
				}
				a, b := an.Resolve(x.X), an.Resolve(x.Y)
				kn, ok := known[a]
				if !ok {
					kn, ok = known[b]
					a, b = b, a
				}
				if !ok {
					return false, false
				}
				var eq bool
				switch {
				case an.IsNilConst(b):
					eq = kn.isNil
				case kn.isNil:
					return false, false
				default:
					c, isC := b.(*ssa.Const)
					if !isC || c.Value == nil || kn.val == nil || c.Value.Kind() != kn.val.Kind() {
						return false, false
					}
					eq = constant.Compare(kn.val, token.EQL, c.Value)
				}
				return (eq == (x.Op == token.EQL)) != neg, true
			}
			break
		}
		return false, false
	}
	prune := func(b *ssa.BasicBlock, succ int) bool {
		if len(b.Instrs) == 0 {
			return false
		}
		iff, ok := b.Instrs[len(b.Instrs)-1].(*ssa.If)
		if !ok {
			return false
		}
		if val, ok := decide(iff.Cond); ok {
			return (succ == 0) != val
		}
		// `len(list) < db.threshold` is a sound shortcut (the matcher starts with the same test)
		if bin, ok := an.Resolve(iff.Cond).(*ssa.BinOp); ok {
			lv, o, op := bin.X, bin.Y, bin.Op
			if an.H07IsLen(lv) == nil {
				lv, o = bin.Y, bin.X
				switch op {
				case token.LSS:
					op = token.GTR
				case token.GTR:
					op = token.LSS
				case token.LEQ:
					op = token.GEQ
				case token.GEQ:
					op = token.LEQ
				}
			}
			if x := an.H07IsLen(lv); x != nil && an.TypeName(x.Type()) == "[]core.ParSignedData" && isLoadOfValueField(an.Resolve(o), c07f("threshold")) {
				switch op {
				case token.LSS:
					return succ == 0
				case token.GEQ:
					return succ == 1
				}
			}
		}
		return false
	}
	bad := c07Ok()
	// decide per reachable return, so that what is known about the results can be handed to the callers
	var goals []ssa.Instruction
	for _, r := range an.Returns(fn) {
		goals = append(goals, r)
	}
	if l != nil {
		goals = append(goals, nil) // the next iteration
	}
	sites, closed := k.ix.Callers(fn)
	for _, goal := range goals {
		var path []*ssa.BasicBlock
		var esc bool
		if goal == nil {
			// only the loop header counts
			path, esc = an.H07Path(fn, from, &ssa.Jump{}, effect, prune, stop)
		} else {
			// without entering the next iteration (decided by the nil goal)
			noNext := prune
			if l != nil {
				noNext = func(b *ssa.BasicBlock, succ int) bool { return b.Succs[succ] == l.Header || prune(b, succ) }
			}
			path, esc = an.H07Path(fn, from, goal, effect, noNext, nil)
		}
		if !esc {
			continue
		}
		if g == nil && c07pathHasFlagBranch(path) && !c07flagsDecided(path) {
			bad = bad.and(c07Unsure("the evaluation is skipped on a branch over a flag variable that is not evaluated: " + an.PathString(k.c.P, path)))
			continue
		}
		r, isRet := goal.(*ssa.Return)
		if isRet && closed && len(sites) > 0 && depth < 4 {
			seeds := c07seedsAt(from.Block())
			rv := returnValues(r)
			for _, s := range sites {
				call, isCall := s.(*ssa.Call)
				if !isCall {
					bad = bad.and(c07Unsure(an.FuncName(fn) + " stores a partial signature and is started with go/defer"))
					continue
				}
				var hdr *ssa.BasicBlock
				if sl := an.InnermostLoop(s.Parent(), s.Block()); sl != nil {
					hdr = sl.Header
				}
				kn := map[ssa.Value]c07known{}
				for i, v := range rv {
					kv, ok := c07knownOf(v, known, seeds, path)
					if !ok {
						continue
					}
					var res ssa.Value
					if len(rv) == 1 {
						res = call
					} else if call.Referrers() != nil {
						for _, ref := range *call.Referrers() {
							if ex, ok := ref.(*ssa.Extract); ok && ex.Index == i {
								res = ex
							}
						}
					}
					if res == nil {
						continue
					}
					for _, a := range c07aliasesAfter(call, res, hdr) {
						kn[a] = kv
					}
				}
				bad = bad.and(k.evalAfterG(s.Parent(), call, kn, gtm, g, depth+1))
			}
			continue
		}
		if g != nil {
			bad = bad.and(g.judge(fn, path, decide))
			continue
		}
		bad = bad.and(c07Bad("an accepted partial signature is not evaluated against the threshold on path " + an.PathString(k.c.P, path) + ": a matching group can reach threshold unnoticed"))
	}
	return bad
}
