package rules

// Round 4 rules of C07.
//
// P11 (necessary for "exactly once"): the only group that can have REACHED the threshold by an insertion is the
// group of the partial just stored. So on every true-return of the matcher the returned group is the grouping
// map looked up at the message root of the newly inserted element (the last element of the snapshot store
// returns, or the inserted value / its root handed in explicitly) - never a group picked by ranging over all
// groups with only a size test: a group of exactly `threshold` members stays at that size while partials with
// other roots keep arriving and would be reported again (defect fixed by /repo 2869181).
//
// P12 (necessary for "triggered as soon as threshold matching partials have been accepted"): a positive
// result of the matcher for storage key k reaches the write into the threshold-output map; a branch that can
// skip the write and is decided by state of MemDB must read that state under the FULL storage key (every
// component of the key type of `entries`), otherwise the match of one key suppresses the match of another.
//
// P13: a per-key list kept parallel to entries[k] (a map field of MemDB with the key type of entries and a
// slice value that grows at the site where entries[k] grows) is updated at EVERY site that changes entries[k].

import (
	"go/constant"
	"go/token"
	"go/types"
	"sort"
	"strings"

	"golang.org/x/tools/go/ssa"

	"charonverif/internal/an"
	"charonverif/internal/rt"
)

func init() {
	Extend("C07", "(P11) the group returned with ok=true is the message-root group of the partial just stored (last element of the snapshot), never one picked by ranging over all groups; "+
		"(P12) a positive matcher result reaches the threshold-output map, and state that can suppress it is keyed by the full storage key; "+
		"(P13) lists kept parallel to entries[k] are updated wherever entries[k] changes; "+
		"(P14) for a stored entry of the same share, differing content is answered with an error and identical content with nil (duplicate ignored).",
		c07round4,
		// re-introduces the defect fixed by 2869181
		Mutant{ID: "C07-P11-any-group-of-threshold-size", File: "core/parsigdb/memory.go", Expect: "P11",
			Old: "\tif set := sigsByMsgRoot[lastRoot]; len(set) == threshold {\n\t\treturn set, true, nil\n\t}\n",
			New: "\t_ = lastRoot\n\n\tfor _, set := range sigsByMsgRoot {\n\t\tif len(set) == threshold {\n\t\t\treturn set, true, nil\n\t\t}\n\t}\n"},
		Mutant{ID: "C07-P11-root-of-first-element", File: "core/parsigdb/memory.go", Expect: "P11",
			Old: "\tlastRoot, err := sigs[len(sigs)-1].MessageRoot()", New: "\tlastRoot, err := sigs[0].MessageRoot()"},
		Mutant{ID: "C07-P11-keyed-range-size-only", File: "core/parsigdb/memory.go", Expect: "P11",
			Old: "\tif set := sigsByMsgRoot[lastRoot]; len(set) == threshold {\n\t\treturn set, true, nil\n\t}\n",
			New: "\tfor root, set := range sigsByMsgRoot {\n\t\tif len(set) == threshold {\n\t\t\t_, _ = root, lastRoot\n\n\t\t\treturn set, true, nil\n\t\t}\n\t}\n"},
		Mutant{ID: "C07-P12-once-per-validator", File: "core/parsigdb/memory.go", Expect: "P12",
			Old:  "\t\toutput[pubkey] = psigs\n",
			New:  "\t\tdb.mu.Lock()\n\t\tif db.fired == nil {\n\t\t\tdb.fired = make(map[core.PubKey]bool)\n\t\t}\n\t\tseen := db.fired[pubkey]\n\t\tdb.fired[pubkey] = true\n\t\tdb.mu.Unlock()\n\n\t\tif seen {\n\t\t\tcontinue\n\t\t}\n\n\t\toutput[pubkey] = psigs\n",
			More: [][2]string{{"\tthreshold     int\n\tdeadliner     core.Deadliner\n", "\tthreshold     int\n\tdeadliner     core.Deadliner\n\tfired         map[core.PubKey]bool\n"}}},
		Mutant{ID: "C07-P12-once-per-duty-validator-struct-key", File: "core/parsigdb/memory.go", Expect: "P12",
			Old: "\t\t} else if !ok {\n\t\t\tcontinue\n\t\t}\n\n\t\toutput[pubkey] = psigs\n",
			New: "\t\t} else if !ok || db.alreadyDone(duty, pubkey) {\n\t\t\tcontinue\n\t\t}\n\n\t\toutput[pubkey] = psigs\n",
			More: [][2]string{
				{"\tthreshold     int\n\tdeadliner     core.Deadliner\n", "\tthreshold     int\n\tdeadliner     core.Deadliner\n\tdone          map[doneKey]struct{}\n"},
				{"// clone returns a deep copy of the provided map.\n", "type doneKey struct {\n\tduty core.Duty\n\tpk   core.PubKey\n}\n\nfunc (db *MemDB) alreadyDone(duty core.Duty, pk core.PubKey) bool {\n\tdb.mu.Lock()\n\tdefer db.mu.Unlock()\n\n\tif db.done == nil {\n\t\tdb.done = make(map[doneKey]struct{})\n\t}\n\n\t_, ok := db.done[doneKey{duty, pk}]\n\tdb.done[doneKey{duty, pk}] = struct{}{}\n\n\treturn ok\n}\n\n// clone returns a deep copy of the provided map.\n"}}},
		Mutant{ID: "C07-P14-equal-inverted", File: "core/parsigdb/memory.go", Expect: "P14",
			Old: "\t\t\t} else if !equal {\n", New: "\t\t\t} else if equal {\n"},
		Mutant{ID: "C07-P14-mismatch-ignored", File: "core/parsigdb/memory.go", Expect: "P14",
			Old: "\t\t\t\treturn nil, false, errors.New(\"mismatching partial signed data\",\n\t\t\t\t\tz.Any(\"pubkey\", k.PubKey), z.Int(\"share_idx\", s.ShareIdx))\n",
			New: "\t\t\t\tlog.Debug(ctx, \"mismatching partial signed data\", z.Any(\"pubkey\", k.PubKey), z.Int(\"share_idx\", s.ShareIdx))\n\n\t\t\t\treturn nil, false, nil\n"},
		// a list kept parallel to entries[k] that one of the sites changing entries[k] forgets
		Mutant{ID: "C07-P13-arrivals-not-filtered-on-eviction", File: "core/parsigdb/memory.go", Expect: "P13",
			Old: "\tdb.entries[k] = append(db.entries[k], clone)\n",
			New: "\tdb.entries[k] = append(db.entries[k], clone)\n\tdb.arrivals[k] = append(db.arrivals[k], now)\n",
			More: [][2]string{
				{"\tentries    map[key][]core.ParSignedData\n", "\tentries    map[key][]core.ParSignedData\n\tarrivals   map[key][]int64\n"},
				{"\t\tentries:       make(map[key][]core.ParSignedData),\n", "\t\tentries:       make(map[key][]core.ParSignedData),\n\t\tarrivals:      make(map[key][]int64),\n"},
				{"\t\t\t\tdelete(db.entries, key)\n", "\t\t\t\tdelete(db.entries, key)\n\t\t\t\tdelete(db.arrivals, key)\n"}}},
		Mutant{ID: "C07-P13-share-index-list-not-trimmed", File: "core/parsigdb/memory.go", Expect: "P13",
			Old: "\tdb.entries[k] = append(db.entries[k], clone)\n",
			New: "\tdb.entries[k] = append(db.entries[k], clone)\n\tdb.shareIdxs[k] = append(db.shareIdxs[k], value.ShareIdx)\n",
			More: [][2]string{
				{"\tentries    map[key][]core.ParSignedData\n", "\tentries    map[key][]core.ParSignedData\n\tshareIdxs  map[key][]int\n"},
				{"\t\tentries:       make(map[key][]core.ParSignedData),\n", "\t\tentries:       make(map[key][]core.ParSignedData),\n\t\tshareIdxs:     make(map[key][]int),\n"},
				{"\tif len(remaining) == 0 {\n\t\tdelete(db.entries, k)\n\t} else {\n\t\tdb.entries[k] = remaining\n\t}\n",
					"\tvar keptIdxs []int\n\n\tfor _, idx := range db.shareIdxs[k] {\n\t\tif idx != shareIdx {\n\t\t\tkeptIdxs = append(keptIdxs, idx)\n\t\t}\n\t}\n\n\tif len(remaining) == 0 {\n\t\tdelete(db.entries, k)\n\t\tdelete(db.shareIdxs, k)\n\t} else {\n\t\tdb.entries[k] = remaining\n\t\tdb.shareIdxs[k] = keptIdxs\n\t}\n"}}},
	)
}

func c07round4(c *rt.Ctx) {
	k := newC07k(c)
	const nGTM = "core/parsigdb.getThresholdMatching"

	c.Rule("P11", 1, func() {
		fn := k.matcherFn(nGTM)
		var typP, sigsP, thrP *ssa.Parameter
		for _, p := range fn.Params {
			switch {
			case an.TypeName(p.Type()) == "core.DutyType" && typP == nil:
				typP = p
			case an.TypeName(p.Type()) == "[]core.ParSignedData" && sigsP == nil:
				sigsP = p
			case an.TypeName(p.Type()) == "int" && thrP == nil:
				thrP = p
			}
		}
		if sigsP == nil || thrP == nil {
			c.Bail("getThresholdMatching: unexpected signature")
		}
		m := &c07matcher{k: k, typP: typP, sigsP: sigsP, thr: thrP, dutySig: constOf(c, "core", "DutySignature"), sel: true}
		m.run(&c07frame{fn: fn}, 0, 1)
		if m.nSel == 0 {
			c.Bail("getThresholdMatching never returns a message-root group with ok=true")
		}
	})

	c.Rule("P12", 1, func() {
		gtm := k.matcherFn(nGTM)
		calls := k.callsOf(gtm)
		if len(calls) == 0 {
			c.Bail("no static call of getThresholdMatching in the package")
		}
		keyT := k.entriesKeyType()
		if keyT == nil {
			c.Bail("key type of entries not found")
		}
		bi, ei := -1, c07errResult(gtm.Signature)
		if bs := c07boolResults(gtm.Signature); len(bs) == 1 {
			bi = bs[0]
		}
		if bi < 0 {
			c.Bail("getThresholdMatching: no single boolean result")
		}
		goal := &c07goal{
			effect: k.publishEffect,
			judge: func(fn *ssa.Function, path []*ssa.BasicBlock, decide func(ssa.Value) (bool, bool)) c07v {
				return k.judgeSuppression(fn, path, decide, keyT)
			},
		}
		for _, s := range calls {
			call, ok := s.(*ssa.Call)
			if !ok {
				c.Unsure("matcher ok→threshold-output map", s.Pos(), "the matcher is started with go/defer")
				continue
			}
			var hdr *ssa.BasicBlock
			if l := an.InnermostLoop(call.Parent(), call.Block()); l != nil {
				hdr = l.Header
			}
			known := map[ssa.Value]c07known{}
			if call.Referrers() != nil {
				for _, ref := range *call.Referrers() {
					ex, ok := ref.(*ssa.Extract)
					if !ok {
						continue
					}
					var kv c07known
					switch ex.Index {
					case bi:
						kv = c07known{val: constantTrue}
					case ei:
						kv = c07known{isNil: true}
					default:
						continue
					}
					for _, a := range c07aliasesAfter(call, ex, hdr) {
						known[a] = kv
					}
				}
			}
			where := an.FuncName(call.Parent())
			where = where[strings.LastIndex(where, ".")+1:]
			k.report(where+" matcher ok→threshold-output map", call.Pos(), k.evalAfterG(call.Parent(), call, known, gtm, goal, 0))
		}
	})

	c.Rule("P13", 0, func() {
		k.parallelLists()
	})

	c.Rule("P14", 1, func() {
		if k.sameShareVerdicts() == 0 {
			c.Bail("no same-share scan over entries[k] with a content comparison found")
		}
	})
}

// ---------------------------------------------------------------------------------------------
// P11

// selection decides which group a true-return hands out: sv (in frame sfr) is the returned group.
func (m *c07matcher) selection(fr, sfr *c07frame, sv ssa.Value, loc c07loc) c07v {
	const again = ": a group that reached threshold earlier keeps exactly that size while partials with other roots arrive and is reported again (aggregation triggered twice)"
	if lk := c07lookupOf(sv); lk != nil {
		if !an.IsMapType(lk.X.Type()) {
			return c07Unsure("how the returned group is selected is not recognised")
		}
		return m.newRoot(sfr, lk.Index, 0)
	}
	switch x := sv.(type) {
	case *ssa.Extract:
		nx, ok := x.Tuple.(*ssa.Next)
		if !ok || x.Index != 2 {
			break
		}
		var keyv ssa.Value
		if nx.Referrers() != nil {
			for _, ref := range *nx.Referrers() {
				if ex, ok := ref.(*ssa.Extract); ok && ex.Index == 1 {
					keyv = ex
				}
			}
		}
		otherCond := false
		// only size tests decide inside the loop? (a test of something else - e.g. "the group contains the share just
		// stored" - may select the right group in a way that is not followed)
		if l := an.InnermostLoop(fr.fn, nx.Block()); l != nil && sfr == fr {
			for b := range l.Body {
				if b == l.Header || len(b.Instrs) == 0 || len(b.Succs) != 2 {
					continue
				}
				iff, ok := b.Instrs[len(b.Instrs)-1].(*ssa.If)
				if !ok || !(an.H07EdgeDominates(b, 0, loc.blk) || an.H07EdgeDominates(b, 1, loc.blk) || b == loc.blk) {
					continue
				}
				bin, isBin := an.Resolve(iff.Cond).(*ssa.BinOp)
				if !isBin || (an.H07IsLen(an.Resolve(bin.X)) == nil && an.H07IsLen(an.Resolve(bin.Y)) == nil) {
					otherCond = true
				}
			}
		}
		if keyv == nil || keyv.Referrers() == nil || len(*keyv.Referrers()) == 0 {
			if otherCond {
				return c07Unsure("the returned group is picked by a loop over the groups under a condition that is not recognised")
			}
			return c07Bad("the group returned with ok=true is picked by ranging over all message-root groups without looking at the root" + again)
		}
		if sfr != fr {
			return c07Unsure("the returned group is picked by a loop over the groups in another function than the return")
		}
		tested := false
		for _, cd := range an.CondsOn(fr.fn, keyv) {
			if cd.Other == nil {
				continue
			}
			tested = true
			if (cd.Op == token.EQL && loc.edgeHolds(cd, true)) || (cd.Op == token.NEQ && loc.edgeHolds(cd, false)) {
				return m.newRoot(fr, cd.Other, 0)
			}
		}
		if !tested {
			onlyDead := true
			for _, ref := range *keyv.Referrers() {
				if _, isDbg := ref.(*ssa.DebugRef); !isDbg {
					onlyDead = false
				}
			}
			if onlyDead {
				if otherCond {
					return c07Unsure("the returned group is picked by a loop over the groups under a condition that is not recognised")
				}
				return c07Bad("the group returned with ok=true is picked by ranging over all message-root groups without looking at the root" + again)
			}
		}
		return c07Unsure("the returned group is picked by a loop over the groups; no test of the root against the root of the partial just stored is recognised")
	}
	return c07Unsure("how the returned group is selected is not recognised")
}

// newRoot: v (in frame fr) is the message root of the partial just stored.
func (m *c07matcher) newRoot(fr *c07frame, v ssa.Value, depth int) c07v {
	v, fr = fr.root(v)
	if recv, ok := c07messageRootOf(v); ok {
		return m.newPartial(fr, recv, depth)
	}
	if p, ok := v.(*ssa.Parameter); ok && fr.up == nil && depth < 2 {
		// handed in by the callers: the root of the value they store
		sites, closed := m.k.ix.Callers(fr.fn)
		if !closed || len(sites) == 0 {
			return c07Unsure("the root the group is looked up at is a parameter of a function that is not only called statically")
		}
		out := c07Ok()
		for _, s := range sites {
			a := an.H07ArgFor(s, an.H07ParamIndex(p))
			if a == nil {
				out = out.and(c07Unsure("cannot map the root parameter to an argument"))
				continue
			}
			recv, ok := c07messageRootOf(an.Resolve(a))
			if !ok {
				out = out.and(c07Unsure("the root handed to the matcher is not recognisably a MessageRoot()"))
				continue
			}
			out = out.and(m.storedValueAt(s, recv))
		}
		return out
	}
	if phi, isPhi := v.(*ssa.Phi); isPhi && depth < 3 {
		// `var lastRoot [32]byte; if err == nil { lastRoot, err = … }`: the zero value is the variable before its assignment
		out, n := c07Ok(), 0
		for i, e := range phi.Edges {
			if _, isConst := an.Resolve(e).(*ssa.Const); isConst {
				continue
			}
			if an.Resolve(e) == ssa.Value(phi) {
				continue
			}
			n++
			if i < len(phi.Block().Preds) {
				if lv := m.lastOfLoop(fr, phi, i, e); lv.st == c07ok {
					continue
				}
			}
			out = out.and(m.newRoot(fr, e, depth+1))
		}
		if n > 0 {
			return out
		}
		return c07Bad("the group returned with ok=true is looked up at a constant root, not at the root of the partial just stored")
	}
	if _, isConst := v.(*ssa.Const); isConst {
		return c07Bad("the group returned with ok=true is looked up at a constant root, not at the root of the partial just stored")
	}
	return c07Unsure("the root the returned group is looked up at is not recognisably the MessageRoot() of the partial just stored")
}

// newPartial: recv (the receiver of MessageRoot(), in frame fr) is the partial just stored: the LAST element of
// the list parameter (store appends and snapshots in one critical section), or a value handed in by the
// callers that is the one they store.
func (m *c07matcher) newPartial(fr *c07frame, recv ssa.Value, depth int) c07v {
	if coll, idx, ok := an.H07ElemRef(recv); ok {
		if !m.isRoot(fr, coll, m.sigsP) {
			return c07Unsure("the root is taken from an element of a list that is not recognisably the stored list")
		}
		idx = an.Resolve(idx)
		if bin, isBin := idx.(*ssa.BinOp); isBin && bin.Op == token.SUB {
			if one, isC := an.ConstInt(bin.Y); isC && one == 1 {
				if x := an.H07IsLen(an.Resolve(bin.X)); x != nil && m.isRoot(fr, x, m.sigsP) {
					return c07Ok()
				}
			}
		}
		if n, isC := an.ConstInt(idx); isC {
			_ = n
			return c07Bad("the group returned with ok=true is the group of the element at a constant index of the stored list, not of the partial just stored (the last element): the trigger is lost or repeated depending on the arrival order")
		}
		return c07Unsure("the index of the element whose root selects the group is not recognisably len(list)-1")
	}
	base := an.H07Root(recv)
	p, ok := base.(*ssa.Parameter)
	if !ok {
		return c07Unsure("the value whose root selects the group is not recognised")
	}
	if fr.up != nil && p.Parent() == fr.fn {
		a := an.H07ArgFor(fr.call, an.H07ParamIndex(p))
		if a == nil || depth > 3 {
			return c07Unsure("cannot map the parameter whose root selects the group to an argument")
		}
		return m.newPartial(fr.up, a, depth+1)
	}
	sites, closed := m.k.ix.Callers(fr.fn)
	if !closed || len(sites) == 0 || p.Parent() != fr.fn {
		return c07Unsure("the value whose root selects the group is a parameter of a function that is not only called statically")
	}
	out := c07Ok()
	for _, s := range sites {
		a := an.H07ArgFor(s, an.H07ParamIndex(p))
		if a == nil {
			out = out.and(c07Unsure("cannot map the parameter whose root selects the group to an argument"))
			continue
		}
		out = out.and(m.storedValueAt(s, a))
	}
	return out
}

// storedValueAt: value v at call site s is (a part of) the value that the same function hands to the function
// that inserts into entries.
func (m *c07matcher) storedValueAt(s ssa.CallInstruction, v ssa.Value) c07v {
	for _, in := range an.Instrs(s.Parent(), false) {
		ci, ok := in.(ssa.CallInstruction)
		if !ok || ci == s {
			continue
		}
		g := m.k.ix.Callee(ci.Common())
		if g == nil || !m.k.growsEntries(g) {
			continue
		}
		for _, a := range ci.Common().Args {
			if an.TypeName(a.Type()) != "core.ParSignedData" {
				continue
			}
			if c07sameSigElem(a, v) || an.H07SameElem(a, v) {
				return c07Ok()
			}
		}
	}
	return c07Unsure("the value whose root selects the group is not recognisably the one handed to the storing function")
}

// ---------------------------------------------------------------------------------------------
// P12

var constantTrue = constant.MakeBool(true)

// entriesKeyType: the key type of the entries map.
func (k *c07k) entriesKeyType() types.Type {
	obj := k.c.Pkg("core/parsigdb").Types.Scope().Lookup("MemDB")
	if obj == nil {
		return nil
	}
	st, ok := obj.Type().Underlying().(*types.Struct)
	if !ok {
		return nil
	}
	var keyT types.Type
	for i := 0; i < st.NumFields(); i++ {
		if m, ok := st.Field(i).Type().Underlying().(*types.Map); ok && an.TypeName(m.Elem()) == "[]core.ParSignedData" {
			if keyT != nil {
				return nil
			}
			keyT = m.Key()
		}
	}
	return keyT
}

// c07leaves flattens a type into its non-struct components (type string → a field path for messages).
func c07leaves(t types.Type, path string, out map[string]string, d int) {
	if st, ok := t.Underlying().(*types.Struct); ok && d < 4 && st.NumFields() > 0 {
		for i := 0; i < st.NumFields(); i++ {
			p := st.Field(i).Name()
			if path != "" {
				p = path + "." + p
			}
			c07leaves(st.Field(i).Type(), p, out, d+1)
		}
		return
	}
	s := an.Short(types.TypeString(t, nil))
	if _, dup := out[s]; !dup {
		out[s] = path
	}
}

type c07stateRead struct {
	field string
	idx   []types.Type
}

// stateReads: the reads of map-typed state of MemDB that value v is computed from (through in-package callees).
func (k *c07k) stateReads(v ssa.Value) []c07stateRead {
	var out []c07stateRead
	seen := map[ssa.Value]bool{}
	lookup := func(lk *ssa.Lookup) {
		var idx []types.Type
		var base ssa.Value = lk
		for i := 0; i < 6; i++ {
			l2, ok := an.Resolve(base).(*ssa.Lookup)
			if !ok {
				if ex, isEx := an.Resolve(base).(*ssa.Extract); isEx {
					if l3, ok3 := ex.Tuple.(*ssa.Lookup); ok3 {
						l2, ok = l3, true
					}
				}
			}
			if !ok {
				break
			}
			if !an.IsMapType(l2.X.Type()) {
				return
			}
			idx = append(idx, l2.Index.Type())
			base = l2.X
		}
		if key, _, ok := an.FieldOf(base); ok && strings.HasPrefix(key, memdb+".") {
			out = append(out, c07stateRead{field: key, idx: idx})
		}
	}
	scanFn := func(g *ssa.Function) {
		k.ix.MayReach(g, func(in ssa.Instruction) bool {
			if lk, ok := in.(*ssa.Lookup); ok {
				lookup(lk)
			}
			return false
		})
	}
	var walk func(v ssa.Value, d int)
	walk = func(v ssa.Value, d int) {
		if v == nil || d > 10 {
			return
		}
		v = an.Resolve(v)
		if seen[v] {
			return
		}
		seen[v] = true
		switch x := v.(type) {
		case *ssa.BinOp:
			walk(x.X, d+1)
			walk(x.Y, d+1)
		case *ssa.UnOp:
			walk(x.X, d+1)
		case *ssa.Phi:
			for _, e := range x.Edges {
				walk(e, d+1)
			}
		case *ssa.Extract:
			walk(x.Tuple, d+1)
		case *ssa.Lookup:
			lookup(x)
		case *ssa.Call:
			if g := k.ix.Callee(&x.Call); g != nil {
				scanFn(g)
			}
			for _, a := range x.Call.Args {
				walk(a, d+1)
			}
		}
	}
	walk(v, 0)
	return out
}

// judgeSuppression judges a path on which a positive result of the matcher does not reach the output map.
func (k *c07k) judgeSuppression(fn *ssa.Function, path []*ssa.BasicBlock, decide func(ssa.Value) (bool, bool), keyT types.Type) c07v {
	need := map[string]string{}
	c07leaves(keyT, "", need, 0)
	byField := map[string]map[string]bool{}
	opaque := map[string]bool{}
	other := 0
	for i := 0; i+1 < len(path); i++ {
		b := path[i]
		if len(b.Instrs) == 0 || len(b.Succs) != 2 {
			continue
		}
		iff, ok := b.Instrs[len(b.Instrs)-1].(*ssa.If)
		if !ok {
			continue
		}
		if _, ok := decide(iff.Cond); ok {
			continue
		}
		reads := k.stateReads(iff.Cond)
		n := 0
		for _, r := range reads {
			if r.field == c07f("entries") {
				continue
			}
			n++
			if byField[r.field] == nil {
				byField[r.field] = map[string]bool{}
			}
			for _, t := range r.idx {
				if types.Identical(t, keyT) {
					for l := range need {
						byField[r.field][l] = true
					}
					continue
				}
				got := map[string]string{}
				c07leaves(t, "", got, 0)
				for l := range got {
					byField[r.field][l] = true
					if _, isPart := need[l]; !isPart {
						opaque[r.field] = true // a derived key (string, hash): what it encodes is not followed
					}
				}
			}
		}
		if n == 0 {
			other++
		}
	}
	var fields []string
	for f := range byField {
		fields = append(fields, f)
	}
	sort.Strings(fields)
	for _, f := range fields {
		var missing []string
		for l, name := range need {
			if !byField[f][l] {
				missing = append(missing, name)
			}
		}
		sort.Strings(missing)
		if len(missing) > 0 && opaque[f] {
			return c07Unsure("a threshold match can be suppressed by state " + f + " that is read under a derived key (not built from the components of the storage key of entries); whether it distinguishes every storage key is not decided")
		}
		if len(missing) > 0 {
			return c07Bad("a threshold match is suppressed by state " + f + " that is read under less than the storage key of entries (missing " + strings.Join(missing, ", ") +
				"): the match of one key (e.g. one sync subcommittee of a validator) drops the match of another although threshold matching partials were accepted, on path " + an.PathString(k.c.P, path))
		}
	}
	if other == 0 && len(fields) > 0 {
		return c07Ok() // once-only state keyed by the full storage key
	}
	return c07Unsure("a positive result of the matcher may not reach the threshold-output map on path " + an.PathString(k.c.P, path) + " (the branch that skips the write is not recognised)")
}

// ---------------------------------------------------------------------------------------------
// P13

// parallelLists: every map field of MemDB with the key type of entries and a slice value, other than entries,
// that is grown in a function that grows entries under the same key is a list kept parallel to entries[k]:
// every instruction that changes entries[k] (append, overwrite, delete) must be accompanied, in the same
// function, by the same kind of change of the parallel list under the same key.
func (k *c07k) parallelLists() {
	keyT := k.entriesKeyType()
	if keyT == nil {
		return
	}
	obj := k.c.Pkg("core/parsigdb").Types.Scope().Lookup("MemDB")
	st := obj.Type().Underlying().(*types.Struct)
	for i := 0; i < st.NumFields(); i++ {
		f := st.Field(i)
		mt, ok := f.Type().Underlying().(*types.Map)
		if !ok || !types.Identical(mt.Key(), keyT) {
			continue
		}
		if _, isSlice := mt.Elem().Underlying().(*types.Slice); !isSlice {
			continue
		}
		field := memdb + "." + f.Name()
		if field == c07f("entries") {
			continue
		}
		isPar := isFieldMap(field)
		// parallel: grown where entries grows, same key
		parallel := false
		for _, fn := range k.ix.Funcs {
			for _, up := range mapUpdates(fn, isPar) {
				if up.Parent() != fn {
					continue
				}
				if _, _, grow := c07growAppend(up, isPar); !grow {
					continue
				}
				for _, eu := range mapUpdates(fn, c07entries) {
					if _, _, g2 := c07growAppend(eu, c07entries); g2 && eu.Parent() == fn && (eu.Key == up.Key || an.Equiv(eu.Key, up.Key)) {
						parallel = true
					}
				}
			}
		}
		if !parallel {
			continue
		}
		// every change of entries has its counterpart
		for _, fn := range k.ix.Funcs {
			for _, in := range an.Instrs(fn, false) {
				var key ssa.Value
				kind := ""
				switch x := in.(type) {
				case *ssa.MapUpdate:
					if !c07entries(x.Map) {
						continue
					}
					key, kind = x.Key, "overwrite"
					if _, _, grow := c07growAppend(x, c07entries); grow {
						kind = "append"
					}
				case *ssa.Call:
					b, ok := x.Call.Value.(*ssa.Builtin)
					if !ok || b.Name() != "delete" || !c07entries(x.Call.Args[0]) {
						continue
					}
					key, kind = x.Call.Args[1], "delete"
				default:
					continue
				}
				found := false
				for _, in2 := range an.Instrs(fn, false) {
					switch y := in2.(type) {
					case *ssa.MapUpdate:
						if !isPar(y.Map) || !(y.Key == key || an.Equiv(y.Key, key)) {
							continue
						}
						_, _, grow := c07growAppend(y, isPar)
						if (kind == "append") == grow {
							found = true
						}
					case *ssa.Call:
						b, ok := y.Call.Value.(*ssa.Builtin)
						if ok && b.Name() == "delete" && isPar(y.Call.Args[0]) && (y.Call.Args[1] == key || an.Equiv(y.Call.Args[1], key)) && kind == "delete" {
							found = true
						}
					}
				}
				// the counterpart may sit in a helper called from here (any key), or in the callers of this helper
				changes := func(in2 ssa.Instruction) bool {
					switch y := in2.(type) {
					case *ssa.MapUpdate:
						if isPar(y.Map) {
							_, _, grow := c07growAppend(y, isPar)
							return (kind == "append") == grow
						}
					case *ssa.Call:
						b, ok := y.Call.Value.(*ssa.Builtin)
						return ok && b.Name() == "delete" && isPar(y.Call.Args[0]) && kind == "delete"
					}
					return false
				}
				inCallers := false
				if !found {
					found = k.ix.MayReach(fn, func(in2 ssa.Instruction) bool { return in2.Parent() != fn && changes(in2) })
				}
				if !found {
					if sites, _ := k.ix.Callers(fn); len(sites) > 0 {
						for _, s := range sites {
							if k.ix.MayReach(s.Parent(), changes) {
								inCallers = true
							}
						}
					}
				}
				name := an.FuncName(fn)
				name = name[strings.LastIndex(name, ".")+1:]
				construct := name + " " + kind + " of entries[k] mirrored in " + f.Name() + "[k]"
				switch {
				case found:
					k.c.Good(construct, posOf(in), "")
				case inCallers:
					k.c.Unsure(construct, posOf(in), "entries[k] is changed ("+kind+") in a helper; the parallel list "+f.Name()+"[k] is changed by its callers, which is not followed")
				case kind == "append":
					k.c.Unsure(construct, posOf(in), "entries[k] grows here but the parallel list "+f.Name()+"[k] is not grown in the same function")
				default:
					k.c.Bad(construct, posOf(in), "entries[k] is changed ("+kind+") but the list "+f.Name()+"[k] that is kept parallel to it (same key, grown together, indexed together by the matcher) is not: after this the two lists disagree and partials are grouped under the root of a neighbour (missing trigger, or a group with mixed roots handed to aggregation)")
				}
			}
		}
	}
}

// publishEffect: the instruction writes into a threshold-output map, or calls an in-package function (helper,
// closure) that does so on every path to its return.
func (k *c07k) publishEffect(in ssa.Instruction) bool {
	if up, ok := in.(*ssa.MapUpdate); ok {
		return k.isOut(up.Map)
	}
	ci, ok := in.(*ssa.Call)
	if !ok {
		return false
	}
	g := k.ix.Callee(&ci.Call)
	if g == nil {
		return false
	}
	key := an.FuncName(g) + "|publish"
	switch k.mustCall[key] {
	case 1:
		return true
	case 2:
		return false
	}
	if _, running := k.mustCall[key]; running {
		return false
	}
	k.mustCall[key] = 0
	_, esc := an.H07Path(g, nil, nil, k.publishEffect, nil, nil)
	if esc {
		k.mustCall[key] = 2
	} else {
		k.mustCall[key] = 1
	}
	return !esc
}

// lastOfLoop: edge i of phi carries the MessageRoot() of the element of a loop over the whole stored list that is
// the last one: either the variable is overwritten in every iteration (after the loop it holds the root of the
// last element), or it is assigned under `index == len(list)-1`.
func (m *c07matcher) lastOfLoop(fr *c07frame, phi *ssa.Phi, i int, e ssa.Value) c07v {
	no := c07Unsure("")
	ev := an.Resolve(e)
	if inner, ok := ev.(*ssa.Phi); ok && inner != phi {
		// the variable as it leaves an iteration: decide the edges of the inner phi that assign it
		out, n := c07Ok(), 0
		for j, e2 := range inner.Edges {
			r2 := an.Resolve(e2)
			if r2 == ssa.Value(phi) || r2 == ssa.Value(inner) {
				continue
			}
			if _, isConst := r2.(*ssa.Const); isConst {
				continue
			}
			n++
			out = out.and(m.lastOfLoop(fr, inner, j, e2))
		}
		if n == 0 {
			return no
		}
		return out
	}
	recv, ok := c07messageRootOf(ev)
	if !ok {
		return no
	}
	def, ok := ev.(ssa.Instruction)
	if !ok {
		if ex, isEx := ev.(*ssa.Extract); isEx {
			def = ex
		}
	}
	if def == nil {
		return no
	}
	l := an.InnermostLoop(fr.fn, def.Block())
	if l == nil {
		return no
	}
	coll := an.H07LoopColl(l)
	if coll == nil || !m.isRoot(fr, coll, m.sigsP) || !(an.H07ElemOf(l, recv) || l.ElemOf(recv) || c07elemFieldOf(l, recv)) {
		return no
	}
	pred := phi.Block().Preds[i]
	// (a) overwritten in every iteration: the assignment reaches the header phi from every latch
	if phi.Block() == l.Header {
		all := true
		for _, la := range l.Latches {
			if !def.Block().Dominates(la) {
				all = false
			}
		}
		// an early exit of the loop other than through the header would leave an earlier element's root
		if all && c07onlyErrorExits(l) {
			return c07Ok()
		}
	}
	// (b) assigned under index == len(list)-1
	if _, idx, ok := an.H07ElemRef(recv); ok {
		loc := c07loc{blk: pred, phiBlk: phi.Block()}
		for _, cd := range an.CondsOn(fr.fn, an.Resolve(idx)) {
			if cd.Other == nil {
				continue
			}
			bin, isBin := an.Resolve(cd.Other).(*ssa.BinOp)
			if !isBin || bin.Op != token.SUB {
				continue
			}
			one, isC := an.ConstInt(bin.Y)
			x := an.H07IsLen(an.Resolve(bin.X))
			if !isC || one != 1 || x == nil || !m.isRoot(fr, x, m.sigsP) {
				continue
			}
			if (cd.Op == token.EQL && (loc.edgeHolds(cd, true) || an.H07CondEdgeDominates(cd, true, def.Block()))) ||
				(cd.Op == token.NEQ && (loc.edgeHolds(cd, false) || an.H07CondEdgeDominates(cd, false, def.Block()))) {
				return c07Ok()
			}
		}
	}
	return no
}

// c07elemFieldOf: recv is (a field of) the element of loop l.
func c07elemFieldOf(l *an.Loop, recv ssa.Value) bool {
	for i := 0; i < 6; i++ {
		recv = an.Resolve(recv)
		if an.H07ElemOf(l, recv) || l.ElemOf(recv) {
			return true
		}
		switch x := recv.(type) {
		case *ssa.Field:
			recv = x.X
		case *ssa.FieldAddr:
			recv = x.X
		case *ssa.UnOp:
			if x.Op != token.MUL {
				return false
			}
			recv = x.X
		default:
			return false
		}
	}
	return false
}

// c07onlyErrorExits: every exit of loop l other than at its header leads to a return (the error exits of the
// grouping loop), so that behind the loop every element has been visited.
func c07onlyErrorExits(l *an.Loop) bool {
	for b := range l.Body {
		if b == l.Header {
			continue
		}
		for _, s := range b.Succs {
			if l.Body[s] {
				continue
			}
			if len(s.Instrs) == 0 {
				return false
			}
			if _, isRet := s.Instrs[len(s.Instrs)-1].(*ssa.Return); !isRet {
				return false
			}
		}
	}
	return true
}

// ---------------------------------------------------------------------------------------------
// P14: "duplicates are ignored, a share that signs different data for the same duty is rejected". In the function
// that scans entries[k] for the share of the value being stored, every path from the "same share" edge to a
// return that has passed the content comparison (an in-package function of two partial signatures reporting a
// bool) returns a non-nil error when the comparison said "different" and a nil error when it said "equal".
// Decided per path with the branch conditions as facts; paths on which the outcome of the comparison or the
// error is not determined are left alone.
func (k *c07k) sameShareVerdicts() int {
	// anchored on the content comparison itself (wherever a refactoring has put it: in the scan loop, behind a
	// `find` helper in the caller, in a verdict helper): the function that compares and reports an error
	n := 0
	for _, fn := range k.ix.Funcs {
		v, found := k.compareVerdictOf(fn)
		if !found {
			continue
		}
		n++
		name := an.FuncName(fn)
		name = name[strings.LastIndex(name, ".")+1:]
		pos := token.NoPos
		for _, in := range an.Instrs(fn, false) {
			if call, ok := in.(*ssa.Call); ok && k.isContentCompare(call) {
				pos = call.Pos()
				break
			}
		}
		k.report(name+" same share: differing content rejected, duplicate ignored", pos, v)
	}
	return n
}

// isContentCompare: a call of an in-package function of (at least) two partial signatures whose first result is a bool.
func (k *c07k) isContentCompare(call *ssa.Call) bool {
	g := k.ix.Callee(&call.Call)
	if g == nil {
		return false
	}
	np := 0
	for _, p := range g.Params {
		if an.TypeName(p.Type()) == "core.ParSignedData" {
			np++
		}
	}
	res := g.Signature.Results()
	if np < 2 || res.Len() == 0 {
		return false
	}
	b, ok := res.At(0).Type().Underlying().(*types.Basic)
	return ok && b.Kind() == types.Bool
}

// c07errOfCompare: the error result that belongs to the bool result eq of a content comparison (nil if none).
func c07errOfCompare(eq ssa.Value) ssa.Value {
	ex, ok := eq.(*ssa.Extract)
	if !ok {
		return nil
	}
	call, ok := ex.Tuple.(*ssa.Call)
	if !ok || call.Referrers() == nil {
		return nil
	}
	for _, ref := range *call.Referrers() {
		if e2, ok := ref.(*ssa.Extract); ok && e2.Index != 0 && an.IsErrorType(e2.Type()) {
			return e2
		}
	}
	return nil
}

// compareVerdictOf decides P14 for a helper h that holds the content comparison and returns the error: every
// path from the comparison to a return answers "different" with a non-nil error and "equal" with nil.
func (k *c07k) compareVerdictOf(h *ssa.Function) (c07v, bool) {
	ei := c07errResult(h.Signature)
	if ei < 0 {
		return c07v{}, false
	}
	out, found := c07Ok(), false
	for _, in := range an.Instrs(h, false) {
		call, ok := in.(*ssa.Call)
		if !ok || !k.isContentCompare(call) {
			continue
		}
		var eq ssa.Value = call
		if call.Call.Signature().Results().Len() > 1 {
			eq = nil
			if call.Referrers() != nil {
				for _, ref := range *call.Referrers() {
					if ex, ok := ref.(*ssa.Extract); ok && ex.Index == 0 {
						eq = ex
					}
				}
			}
		}
		if eq == nil {
			continue
		}
		found = true
		cb := call.Block()
		for _, r := range an.Returns(h) {
			rv := returnValues(r)
			if ei >= len(rv) {
				continue
			}
			for si := range cb.Succs {
				c07pathsFromEdge(cb, si, r.Block(), func(f *c07pf, path []*ssa.BasicBlock) {
					same, known := f.evalBool(eq, 0)
					isNil, nk := f.evalNil(rv[ei], 0)
					if !known || !nk {
						return
					}
					if cerr := c07errOfCompare(eq); cerr != nil {
						if n2, k2 := f.evalNil(cerr, 0); !k2 || !n2 {
							return
						}
					}
					switch {
					case !same && isNil:
						out = out.and(c07Bad("a stored entry of the same share with DIFFERENT content is answered without an error by " + an.FuncName(h) + " (path " + an.PathString(k.c.P, path) + "): an equivocating share is taken for a duplicate instead of being rejected"))
					case same && !isNil:
						out = out.and(c07Bad("a stored entry of the same share with IDENTICAL content is answered with an error by " + an.FuncName(h) + " (path " + an.PathString(k.c.P, path) + "): a duplicate is rejected instead of ignored"))
					}
				})
			}
		}
	}
	return out, found
}
