package rules

import (
	"fmt"
	"go/token"
	"go/types"
	"os"
	"strconv"
	"strings"

	"golang.org/x/tools/go/ssa"

	"charonverif/internal/an"
	"charonverif/internal/rt"
)

// K4, decided on the explored paths of the two FROST receive callbacks (helpers, closures and deferred calls are
// stepped into): on every path that forwards a message M to the protocol,
//   - the loop over the elements of M ran to its end (the bound test `n < len(elements)` failed for n = number of
//     iterations made) and for every element visited: its key's source id was found equal to peers[sender].ShareIdx,
//     its target id equal to 0 (broadcast) / peers[self].ShareIdx (p2p), its validator index below the validator count;
//   - the per-peer dedup set was consulted for the sender with the answer "not seen" and the sender is marked in the
//     same set on that path.
// The rule reads events, not code shape: if-chains, switches, named booleans, hoisted getters, index or range loops,
// helper functions and per-round closures give the same events.

const (
	c11PeerID  = "github.com/libp2p/go-libp2p/core/peer.ID"
	c11NodeIdx = "cluster.NodeIdx"
	c11PBKey   = "dkg/dkgpb/v1.FrostMsgKey"
)

var c11Debug = os.Getenv("C11_DEBUG") != ""

// c11ReturnedCallback resolves the code a constructor returns as a function value: a function literal declared in
// it, or a method bound to a value built in it (`return h.handle`).
func c11ReturnedCallback(fn *ssa.Function) *ssa.Function {
	var out *ssa.Function
	for _, r := range an.Returns(fn) {
		vals := returnValues(r)
		if len(vals) == 0 {
			return nil
		}
		mc, ok := an.Resolve(vals[0]).(*ssa.MakeClosure)
		if !ok {
			return nil
		}
		f, _ := mc.Fn.(*ssa.Function)
		if f == nil {
			return nil
		}
		if f.Parent() != fn {
			// bound method wrapper: a synthetic function whose body is one call of the method
			if f.Synthetic == "" || len(f.Blocks) != 1 {
				return nil
			}
			var m *ssa.Function
			for _, in := range f.Blocks[0].Instrs {
				if ci, isCall := in.(ssa.CallInstruction); isCall {
					if m != nil {
						return nil
					}
					m = ci.Common().StaticCallee()
				}
			}
			if m == nil || len(m.Blocks) == 0 || an.Orig(m).Pkg != fn.Pkg {
				return nil
			}
			f = m
		}
		if out != nil && out != f {
			return nil
		}
		out = f
	}
	return out
}

// c11ProtoGet matches the read of protobuf field `field` of a message of type typ (getter call or direct field
// read) and returns the message term.
func c11ProtoGet(x *c11X, typ, field string) *c11X {
	if x == nil {
		return nil
	}
	switch x.Op {
	case "call":
		if x.Name == typ+".Get"+field && len(x.Args) == 1 {
			return x.Args[0]
		}
	case "field":
		if x.Name == typ+"."+field && len(x.Args) == 1 {
			return x.Args[0]
		}
	}
	return nil
}

// c11ProtoGetAny matches the read of any field of a protobuf message in dkg/dkgpb: returns message and field.
func c11ProtoGetAny(x *c11X) (msg *c11X, field string) {
	if x == nil || len(x.Args) != 1 || !strings.HasPrefix(x.Name, "dkg/dkgpb/v1.") {
		return nil, ""
	}
	i := strings.LastIndex(x.Name, ".")
	switch x.Op {
	case "call":
		if f := x.Name[i+1:]; strings.HasPrefix(f, "Get") {
			return x.Args[0], strings.TrimPrefix(f, "Get")
		}
	case "field":
		return x.Args[0], x.Name[i+1:]
	}
	return nil, ""
}

// c11KeyField matches <element>.Key.<field> (getters or fields) and returns the element term.
func c11KeyField(x *c11X, field string) *c11X {
	k := c11ProtoGet(x, c11PBKey, field)
	if k == nil {
		return nil
	}
	if e, f := c11ProtoGetAny(k); e != nil && f == "Key" {
		return e
	}
	return nil
}

type c11Send struct {
	at    int
	in    ssa.Instruction
	ch, x *an.Sym
	typ   types.Type
}

func c11Sends(p *an.Path) []c11Send {
	var out []c11Send
	for i, e := range p.Evs {
		switch e.Kind {
		case "send":
			var t types.Type
			if sn, ok := e.In.(*ssa.Send); ok {
				t = sn.X.Type()
			}
			out = append(out, c11Send{i, e.In, e.Args[0], e.Args[1], t})
		case "select":
			if e.Chosen >= 0 && e.Chosen < len(e.States) && e.States[e.Chosen].Dir == types.SendOnly {
				var t types.Type
				if sel, ok := e.In.(*ssa.Select); ok && e.Chosen < len(sel.States) && sel.States[e.Chosen].Send != nil {
					t = sel.States[e.Chosen].Send.Type()
				}
				out = append(out, c11Send{i, e.In, e.States[e.Chosen].Chan, e.States[e.Chosen].Send, t})
			}
		}
	}
	return out
}

func c11IsParamOfType(x *c11X, typ string) bool {
	return x != nil && x.Op == "param" && x.V != nil && an.TypeName(x.V.Type()) == typ
}

// c11IsPeersMap: the term is a value of type map[peer.ID]cluster.NodeIdx that is state of the callback (a parameter
// of the constructor, a captured variable, a field of the handler value), i.e. not made on the path.
func c11IsPeersMap(x *c11X) bool {
	if x == nil {
		return false
	}
	t := x.T
	if t == nil && x.V != nil {
		t = x.V.Type()
	}
	if t == nil {
		return false
	}
	m, ok := t.Underlying().(*types.Map)
	if !ok || an.TypeName(m.Elem()) != c11NodeIdx || an.TypeName(m.Key()) != c11PeerID {
		return false
	}
	switch x.Op {
	case "param", "field", "var":
		return true
	}
	return false
}

// c11ShareIdxOfPeer matches peers[k].ShareIdx and returns k.
func c11ShareIdxOfPeer(x *c11X) *c11X {
	n := c11FieldOf(x, c11NodeIdx+".ShareIdx")
	if n != nil && n.Op == "lookup" && len(n.Args) == 2 && c11IsPeersMap(n.Args[0]) {
		return n.Args[1]
	}
	return nil
}

// c11Cmp views a fact as a comparison (op; a, b) with its truth; ok=false for other terms.
func c11Cmp(f c11Fact) (op string, a, b *c11X, truth, ok bool) {
	if f.x.Op != "binop" || len(f.x.Args) != 2 {
		return "", nil, nil, false, false
	}
	return f.x.Name, f.x.Args[0], f.x.Args[1], f.truth, true
}

// c11EqFact: some fact before `before` decides a == b (either operand order) for operands accepted by pa, pb.
func (q *c11Path) eqFact(before int, pa, pb func(x *c11X) bool) (truth, known bool) {
	for _, f := range q.facts {
		if f.at >= before {
			break
		}
		op, a, b, t, ok := c11Cmp(f)
		if !ok || op != "==" {
			continue
		}
		if (pa(a) && pb(b)) || (pa(b) && pb(a)) {
			truth, known = t, true
		}
	}
	if !known {
		// neither a < b nor b < a
		lt1, k1 := q.ltFact(before, pa, pb)
		lt2, k2 := q.ltFact(before, pb, pa)
		if k1 && k2 && !lt1 && !lt2 {
			return true, true
		}
	}
	return
}

// vagueCompare: some comparison before `before` has an operand accepted by pa and another operand that is an
// expression the rule does not interpret (arithmetic, a length, an unresolved value): the check may be spelled in a
// way the rule does not recognise.
func (q *c11Path) vagueCompare(before int, pa func(x *c11X) bool, msg *c11X) bool {
	var vague func(x *c11X) bool
	vague = func(x *c11X) bool {
		switch x.Op {
		case "binop", "unop", "len", "opaque", "var", "deref", "pure", "none":
			return true
		case "call":
			if x.Name == "" {
				return true
			}
		}
		for _, a := range x.Args {
			if vague(a) {
				return true
			}
		}
		return false
	}
	for _, f := range q.facts {
		if f.at >= before {
			break
		}
		_, a, b, _, ok := c11Cmp(f)
		if !ok {
			continue
		}
		// an operand computed from the message itself is not node state, however it is spelled
		if (pa(a) && vague(b) && !c11Contains(b, msg)) || (pa(b) && vague(a) && !c11Contains(a, msg)) {
			return true
		}
	}
	return false
}

// ltFact: some fact before `before` decides a < b for operands accepted by pa, pb; also reads the
// mirrored fact b < a... is NOT equivalent, so only (a < b) facts are used; `a >= b` is stored by the walker as
// !(a < b).
func (q *c11Path) ltFact(before int, pa, pb func(x *c11X) bool) (truth, known bool) {
	for _, f := range q.facts {
		if f.at >= before {
			break
		}
		op, a, b, t, ok := c11Cmp(f)
		if !ok || op != "<" {
			continue
		}
		if pa(a) && pb(b) {
			truth, known = t, true
		}
	}
	return
}

func c11ConstInt(x *c11X) (int64, bool) {
	if x == nil || x.Op != "const" {
		return 0, false
	}
	n, err := strconv.ParseInt(x.Name, 10, 64)
	return n, err == nil
}

type c11K4Spec struct {
	ctor      string
	ownTarget bool
}

func c11K4(c *rt.Ctx) {
	agg := newAgg(c)
	type valParam struct {
		ctor *ssa.Function
		idx  int
	}
	var valParams []valParam
	var thrTerms []*c11X
	nSends, nCommitSends := 0, 0
	for _, sp := range []c11K4Spec{{"dkg.newBcastCallback", false}, {"dkg.newP2PCallback", true}} {
		ctor := c.Fn(sp.ctor)
		short := strings.TrimPrefix(sp.ctor, "dkg.")
		root := c11ReturnedCallback(ctor)
		if root == nil {
			c.Unsure(short+": callback", ctor.Pos(), "the constructor does not return a single function literal or bound method; cannot enumerate the paths of the callback")
			continue
		}
		var pidV ssa.Value
		for _, p := range root.Params {
			if an.TypeName(p.Type()) == c11PeerID {
				if pidV != nil {
					c.Bail("%s: callback has two peer.ID parameters", sp.ctor)
				}
				pidV = p
			}
		}
		if pidV == nil {
			c.Bail("%s: callback has no peer.ID parameter", sp.ctor)
		}
		tr := &an.H11Tracer{Root: root, MaxVisits: 4}
		paths, res := c11Trace(tr)
		if res.Truncated || len(paths) == 0 {
			c.Unsure(short+": callback paths", root.Pos(), "path enumeration of the callback failed or was truncated")
			continue
		}
		isPid := func(x *c11X) bool { return x != nil && x.Op == "param" && x.V == pidV }
		for _, q := range paths {
			for _, sd := range c11Sends(q.p) {
				tn := ""
				if sd.typ != nil {
					tn = an.TypeName(sd.typ)
				}
				if !strings.HasPrefix(tn, "dkg/dkgpb/v1.") {
					continue
				}
				nSends++
				cons := short + " send " + tn[strings.LastIndex(tn, ".")+1:]
				pos := posOf(sd.in)
				M := q.tm(sd.x)
				if c11Debug {
					fmt.Printf("C11K4 %s path send at %d M=%s\n", cons, sd.at, M)
					for _, f := range q.facts {
						if f.at < sd.at {
							fmt.Printf("    fact %v %s\n", f.truth, f.x)
						}
					}
				}
				// --- the elements of M and the end of the loop over them
				var coll *c11X
				ambiguous := false
				n := int64(-1)
				for _, f := range q.facts {
					if f.at >= sd.at {
						break
					}
					op, a, b, t, ok := c11Cmp(f)
					if !ok {
						continue
					}
					if op == "==" && a.Op == "len" {
						a, b = b, a // the walker orders the operands of == arbitrarily
					}
					if (op != "<" && op != "==") || b.Op != "len" || len(b.Args) != 1 {
						continue
					}
					m, _ := c11ProtoGetAny(b.Args[0])
					if m == nil || !c11Same(m, M) {
						continue
					}
					if coll != nil && !c11Same(coll, b.Args[0]) {
						ambiguous = true
					}
					coll = b.Args[0]
					// the bound test fails for k: `k < len` false, or `k == len` true (loops written with !=)
					if k, isC := c11ConstInt(a); isC && k >= 0 && ((op == "<" && !t) || (op == "==" && t)) {
						n = k
					}
				}
				// the message (or a part of it) handed to code the walker cannot follow: the checks may happen there
				unknownCall := unresolvedLocalCall(q.p.Evs[:sd.at], 0) ||
					q.passedToUnknown(-1, sd.at, func(x *c11X) bool { return c11Same(x, M) }, func(e an.Ev) bool {
						return strings.HasPrefix(e.Name, "dkg/dkgpb/v1.") || strings.HasPrefix(e.Name, "app/log.") || strings.HasPrefix(e.Name, "app/z.")
					})
				elemChecks := []string{cons + ": source id = sender's share index", cons + ": target id", cons + ": validator index < numVals"}
				// elements that carry Feldman commitments (the dealer's polynomial): their number fixes the degree
				hasCommit := c11ElemHasField(sd.typ, "Commitments")
				if hasCommit {
					nCommitSends++
					elemChecks = append(elemChecks, cons+": commitment count = threshold")
				}
				switch {
				case ambiguous:
					for _, k := range elemChecks {
						agg.unsure(k, pos, "more than one repeated field of the forwarded message is iterated before the send")
					}
				case coll == nil || n < 0:
					// a loop over a proper part of the elements is a definite gap; another loop shape that does read
					// element keys is something the rule does not understand
					partial, readsKeys := false, false
					for _, f := range q.facts {
						if f.at >= sd.at {
							break
						}
						if _, a, b, _, ok := c11Cmp(f); ok {
							for _, side := range []*c11X{a, b} {
								if side.Op == "len" && len(side.Args) == 1 && side.Args[0].Op == "subslice" && len(side.Args[0].Args) == 3 {
									if m, _ := c11ProtoGetAny(side.Args[0].Args[0]); m != nil && c11Same(m, M) {
										lo, hi := side.Args[0].Args[1], side.Args[0].Args[2]
										if k, isC := c11ConstInt(lo); hi.Op != "none" || (lo.Op != "none" && !(isC && k == 0)) {
											partial = true
										}
									}
								}
								for _, fld := range []string{"SourceId", "TargetId", "ValIdx"} {
									if e := c11KeyField(side, fld); e != nil && c11Contains(e, M) {
										readsKeys = true
									}
								}
							}
						}
					}
					for _, k := range elemChecks {
						if coll == nil && !partial && readsKeys && !unknownCall {
							agg.unsure(k, pos, "the keys of the message's elements are read before the send, but not in a loop over the elements that the rule understands")
							continue
						}
						if unknownCall {
							agg.unsure(k, pos, "the message is handed to a function the walker cannot follow before the send; the element checks may happen there")
						} else if coll == nil {
							agg.bad(k, pos, "message is forwarded on a path that never iterates over its elements: the keys of the casts/shares are not validated")
						} else {
							agg.bad(k, pos, "message is forwarded on a path that leaves the loop over its elements before the last element (the bound test did not fail)")
						}
					}
				default:
					isElem := func(j int64) func(x *c11X) bool {
						return func(x *c11X) bool {
							if x == nil || x.Op != "elem" || len(x.Args) != 2 || !c11Same(x.Args[0], coll) {
								return false
							}
							k, isC := c11ConstInt(x.Args[1])
							return isC && k == j
						}
					}
					srcOK, tgtOK, valOK, comOK := true, true, true, true
					var srcWhy, tgtWhy, valWhy, comWhy string
					var vagueSeen [4]bool
					for j := int64(0); j < n; j++ {
						el := isElem(j)
						// source id == peers[sender].ShareIdx
						t, known := q.eqFact(sd.at,
							func(x *c11X) bool { return el(c11KeyField(x, "SourceId")) },
							func(x *c11X) bool { k := c11ShareIdxOfPeer(x); return k != nil && isPid(k) })
						if !known || !t {
							srcOK, srcWhy = false, fmt.Sprintf("element %d of the forwarded message: source id not found equal to peers[sender].ShareIdx on this path", j)
							if q.vagueCompare(sd.at, func(x *c11X) bool { return el(c11KeyField(x, "SourceId")) }, M) {
								vagueSeen[0] = true
							}
						}
						// target id
						if sp.ownTarget {
							t, known = q.eqFact(sd.at,
								func(x *c11X) bool { return el(c11KeyField(x, "TargetId")) },
								func(x *c11X) bool {
									k := c11ShareIdxOfPeer(x)
									if k == nil || k.Op != "call" || !strings.HasPrefix(k.Name, "iface:") || !strings.HasSuffix(k.Name, "host.Host.ID") || len(k.Args) != 1 {
										return false
									}
									switch k.Args[0].Op { // this node's host: constructor parameter, captured variable or handler field
									case "param", "field", "var":
										return !c11Contains(k.Args[0], M)
									}
									return false
								})
						} else {
							t, known = q.eqFact(sd.at,
								func(x *c11X) bool { return el(c11KeyField(x, "TargetId")) },
								func(x *c11X) bool { k, isC := c11ConstInt(x); return isC && k == 0 })
						}
						if !known || !t {
							want := "0 (broadcast)"
							if sp.ownTarget {
								want = "this node's share index"
							}
							tgtOK, tgtWhy = false, fmt.Sprintf("element %d of the forwarded message: target id not found equal to %s on this path", j, want)
							if q.vagueCompare(sd.at, func(x *c11X) bool { return el(c11KeyField(x, "TargetId")) }, M) {
								vagueSeen[1] = true
							}
						}
						// validator index < validator count (an int parameter of the constructor)
						var bound *c11X
						t, known = q.ltFact(sd.at,
							func(x *c11X) bool { return el(c11KeyField(x, "ValIdx")) },
							func(x *c11X) bool {
								// the validator count: integer state of the callback (constructor parameter, captured
								// variable, handler field), nothing computed from the message
								t := x.T
								if t == nil && x.V != nil {
									t = x.V.Type()
								}
								if t == nil || !types.Identical(t.Underlying(), types.Typ[types.Int]) || c11Contains(x, M) {
									return false
								}
								switch x.Op {
								case "param":
									if p, isP := x.V.(*ssa.Parameter); isP && p.Parent() == root {
										return false // an argument of the callback itself is sender-controlled
									}
									bound = x
									return true
								case "field", "var":
									bound = x
									return true
								}
								return false
							})
						if !known || !t {
							valOK, valWhy = false, fmt.Sprintf("element %d of the forwarded message: validator index not found below the validator count on this path", j)
							if q.vagueCompare(sd.at, func(x *c11X) bool { return el(c11KeyField(x, "ValIdx")) }, M) {
								vagueSeen[2] = true
							}
						} else if bound != nil {
							for pi, p := range ctor.Params {
								if ssa.Value(p) == bound.V {
									dup := false
									for _, vp := range valParams {
										if vp.ctor == ctor && vp.idx == pi {
											dup = true
										}
									}
									if !dup {
										valParams = append(valParams, valParam{ctor, pi})
									}
								}
							}
						}
						// number of commitments == threshold (integer state of the callback, nothing computed from the message)
						if hasCommit {
							isCommitLen := func(x *c11X) bool {
								if x == nil || x.Op != "len" || len(x.Args) != 1 {
									return false
								}
								e, f := c11ProtoGetAny(x.Args[0])
								return f == "Commitments" && el(e)
							}
							var thr *c11X
							t, known = q.eqFact(sd.at, isCommitLen, func(x *c11X) bool {
								if !c11IsIntState(x, M, root) {
									return false
								}
								thr = x
								return true
							})
							if !known || !t {
								comOK, comWhy = false, fmt.Sprintf("element %d of the forwarded message: the number of its commitments was not found equal to the threshold on this path (a dealer may use a polynomial of another degree)", j)
								if q.vagueCompare(sd.at, isCommitLen, M) {
									vagueSeen[3] = true
								}
							} else if thr != nil {
								dup := false
								for _, o := range thrTerms {
									if c11Same(o, thr) {
										dup = true
									}
								}
								if !dup {
									thrTerms = append(thrTerms, thr)
								}
							}
						}
					}
					results := []struct {
						ok  bool
						why string
					}{{srcOK, srcWhy}, {tgtOK, tgtWhy}, {valOK, valWhy}}
					if hasCommit {
						results = append(results, struct {
							ok  bool
							why string
						}{comOK, comWhy})
					}
					for i, r := range results {
						if !r.ok && unknownCall {
							agg.unsure(elemChecks[i], pos, r.why+" (the message is handed to a function the walker cannot follow before the send)")
						} else if !r.ok && vagueSeen[i] {
							agg.unsure(elemChecks[i], pos, r.why+" (the field is compared with an expression the rule does not interpret)")
						} else {
							agg.check(elemChecks[i], pos, r.ok, "message is forwarded although "+r.why)
						}
					}
				}
				// --- per-peer dedup
				dk := cons + ": per-peer dedup"
				good, why := false, "no per-peer dedup set is consulted for the sender before the send"
				compositeSet := false
				for li, e := range q.p.Evs[:sd.at] {
					if e.Kind != "lookup" {
						continue
					}
					lk, _ := e.In.(*ssa.Lookup)
					if lk == nil {
						continue
					}
					mt, isMap := lk.X.Type().Underlying().(*types.Map)
					if !isMap {
						continue
					}
					// the set is keyed by the sender, or by a record that holds the sender (e.g. {message id, peer})
					keyTerm := q.tm(e.Args[1])
					composite := false
					if an.TypeName(mt.Key()) != c11PeerID {
						kst, isSt := mt.Key().Underlying().(*types.Struct)
						if !isSt {
							continue
						}
						for fi := 0; fi < kst.NumFields(); fi++ {
							if an.TypeName(kst.Field(fi).Type()) == c11PeerID {
								composite = true
							}
						}
						if !composite {
							continue
						}
						if !c11TermHas(keyTerm, isPid) {
							compositeSet = true
							continue
						}
					} else if !isPid(keyTerm) {
						continue
					}
					if st, isStruct := mt.Elem().Underlying().(*types.Struct); !(isStruct && st.NumFields() == 0) && !types.Identical(mt.Elem().Underlying(), types.Typ[types.Bool]) {
						continue // a set is a map to bool or to the empty struct
					}
					set := q.tm(e.Args[0])
					// answer "not seen": the value (or the ok flag) of this very lookup was found false
					seen, known := false, false
					onValue := false
					for _, f := range q.facts {
						if f.at <= li || f.at >= sd.at {
							continue
						}
						b := f.base
						switch {
						case b.Kind == an.KOpaque && b.ID == e.Res.ID && !lk.CommaOk:
							seen, known, onValue = f.truth, true, true
						case b.Kind == an.KExtract && b.Args[0].Kind == an.KOpaque && b.Args[0].ID == e.Res.ID:
							seen, known, onValue = f.truth, true, b.Index == 0
						}
					}
					if !known {
						why = "the answer of the dedup lookup is not branched on before the send"
						continue
					}
					if seen {
						why = "the message is forwarded on a path on which the sender was found in the dedup set"
						continue
					}
					marked := false
					for ui, u := range q.p.Evs {
						if u.Kind != "mapupdate" || ui < li {
							continue
						}
						if !c11Same(q.tm(u.Args[0]), set) {
							continue
						}
						if uk := q.tm(u.Args[1]); !isPid(uk) && !(composite && (c11Same(uk, keyTerm) || c11TermHas(uk, isPid))) {
							continue
						}
						if onValue {
							if v, isB := u.Args[2].IsConstBool(); !isB || !v {
								continue
							}
						}
						marked = true
					}
					if !marked {
						why = "the sender is not marked as seen in the consulted dedup set on the path that forwards its message"
						continue
					}
					good = true
					break
				}
				if !good && unresolvedLocalCall(q.p.Evs, 0) {
					agg.unsure(dk, pos, why+" (a call through an unresolved function value is on the path)")
				} else if !good && compositeSet {
					agg.unsure(dk, pos, why+" (a set keyed by a record with a peer.ID field is consulted; the rule cannot tell whether the record holds the sender)")
				} else {
					agg.check(dk, pos, good, why)
				}
			}
		}
	}
	agg.flush()
	if nSends == 0 {
		c.Bail("no path of the FROST callbacks forwards a message")
	}
	// the value the commitment counts are compared with is the configured threshold by provenance
	c11K4ThresholdProv(c, thrTerms, nCommitSends)
	// the validator-count parameter of both constructors receives the same value at their call sites
	c11K4SameBound(c, func() (out [][2]any) {
		for _, vp := range valParams {
			out = append(out, [2]any{vp.ctor, vp.idx})
		}
		return
	}())
}

// c11K4SameBound: the parameters the validator indexes are bounded by (one per constructor) are fed from one value:
// every in-package call site of the constructors passes the same variable for them.
func c11K4SameBound(c *rt.Ctx, params [][2]any) {
	const cons = "FROST callbacks: validator-index bound is the same value in all callbacks"
	if len(params) == 0 {
		// the bounds are not constructor parameters (handler fields, captured locals): nothing to compare here
		c.Good(cons, token.NoPos, "validator-index bounds are not constructor parameters; no call-site comparison applies")
		return
	}
	perCtor := map[*ssa.Function]int{}
	for _, p := range params {
		fn, idx := p[0].(*ssa.Function), p[1].(int)
		if old, dup := perCtor[fn]; dup && old != idx {
			c.Bad(cons, fn.Pos(), "validator indexes are bounded by different parameters of "+an.FuncName(fn)+" in different rounds")
			return
		}
		perCtor[fn] = idx
	}
	var ref, refLocal ssa.Value
	var refOff, refLocalOff int64
	var refFn *ssa.Function
	var refPos token.Pos
	for _, g := range an.PkgFuncs(c.SSAPkg("dkg")) {
		for _, in := range an.Instrs(g, false) {
			ci, ok := in.(ssa.CallInstruction)
			if !ok {
				continue
			}
			callee := ci.Common().StaticCallee()
			idx, tracked := perCtor[callee]
			if callee == nil || !tracked || idx >= len(ci.Common().Args) {
				continue
			}
			lv, loff := c11AffineLocal(ci.Common().Args[idx])
			v, off := c11Affine(ci.Common().Args[idx])
			if ref == nil {
				ref, refOff, refLocal, refLocalOff, refFn, refPos = v, off, lv, loff, g, ci.Pos()
				continue
			}
			if refFn == g && refLocal == lv && refLocalOff == loff {
				continue // the same variable of one caller
			}
			if ref == v && off == refOff {
				continue // the same value once the callers' arguments are followed
			}
			decided := false
			if refFn == g {
				_, p1 := refLocal.(*ssa.Parameter)
				_, p2 := lv.(*ssa.Parameter)
				_, c1 := an.ConstInt(refLocal)
				_, c2 := an.ConstInt(lv)
				decided = ((p1 || c1) && (p2 || c2)) || refLocal == lv
			}
			if decided {
				c.Bad(cons, ci.Pos(), "the callbacks bound the validator index by different values (compare the call at "+c.P.Pos(refPos)+")")
			} else {
				c.Unsure(cons, ci.Pos(), "cannot tell whether the callbacks bound the validator index by the same value (compare the call at "+c.P.Pos(refPos)+")")
			}
			return
		}
	}
	if ref == nil {
		c.Unsure(cons, token.NoPos, "no in-package call site of the callback constructors found")
		return
	}
	c.Good(cons, refPos, "")
}

// c11ElemHasField: t is (a pointer to) a message struct with a repeated field whose element message has a field
// named field.
func c11ElemHasField(t types.Type, field string) bool {
	if t == nil {
		return false
	}
	if p, ok := t.Underlying().(*types.Pointer); ok {
		t = p.Elem()
	}
	st, ok := t.Underlying().(*types.Struct)
	if !ok {
		return false
	}
	for i := 0; i < st.NumFields(); i++ {
		sl, ok := st.Field(i).Type().Underlying().(*types.Slice)
		if !ok || !st.Field(i).Exported() {
			continue
		}
		et := sl.Elem()
		if p, ok := et.Underlying().(*types.Pointer); ok {
			et = p.Elem()
		}
		est, ok := et.Underlying().(*types.Struct)
		if !ok {
			continue
		}
		for k := 0; k < est.NumFields(); k++ {
			if est.Field(k).Name() == field {
				return true
			}
		}
	}
	return false
}

// c11IsIntState: x is integer state of the callback (constructor parameter, captured variable, handler field), nothing
// computed from the message M and not an argument of the callback root itself.
func c11IsIntState(x, M *c11X, root *ssa.Function) bool {
	if x == nil {
		return false
	}
	t := x.T
	if t == nil && x.V != nil {
		t = x.V.Type()
	}
	if t == nil || !types.Identical(t.Underlying(), types.Typ[types.Int]) || c11Contains(x, M) {
		return false
	}
	switch x.Op {
	case "param":
		if p, isP := x.V.(*ssa.Parameter); isP && p.Parent() == root {
			return false
		}
		return true
	case "field", "var":
		return true
	}
	return false
}

// c11K4ThresholdProv: every value a commitment count was compared with is, by provenance, the configured threshold
// (the one the FROST participants are created with; decided by the TP walker).
func c11K4ThresholdProv(c *rt.Ctx, terms []*c11X, nCommitSends int) {
	const cons = "FROST callbacks: commitment-count bound is the configured threshold"
	if nCommitSends == 0 {
		c.Unsure(cons, token.NoPos, "no path of the callbacks forwards a message with Feldman commitments (round-1 casts): the handler is not reached by the path walker, e.g. it is dispatched through a table of function values")
		return
	}
	if len(terms) == 0 {
		return // the missing comparison is reported per send
	}
	for _, x := range terms {
		w := &tpWalker{c: c, seen: map[ssa.Value]bool{}}
		vd, why := tpUnsure, "the bound is not a value the rule can follow"
		pos := token.NoPos
		switch x.Op {
		case "param":
			if p, ok := x.V.(*ssa.Parameter); ok {
				vd, why = w.param(p, 0)
				pos = p.Pos()
			}
		case "field":
			name := x.Name
			if i := strings.LastIndex(name, "."); i >= 0 {
				name = name[i+1:]
			}
			vd, why = w.field(x.Name, name, 0)
		case "var":
			if al, ok := x.V.(*ssa.Alloc); ok {
				vd, why = w.alloc(al, 0)
				pos = al.Pos()
			}
		}
		switch vd {
		case tpOK:
			c.Good(cons, pos, "")
		case tpBad:
			c.Bad(cons, pos, "round-1 casts are accepted when their commitment count equals a value that is not the configured threshold: "+why)
		default:
			c.Unsure(cons, pos, "cannot follow the provenance of the value the commitment count is compared with: "+why)
		}
	}
}

// c11TermHas: some sub-term of x satisfies pred.
func c11TermHas(x *c11X, pred func(*c11X) bool) bool {
	if x == nil {
		return false
	}
	if pred(x) {
		return true
	}
	for _, a := range x.Args {
		if c11TermHas(a, pred) {
			return true
		}
	}
	return false
}
