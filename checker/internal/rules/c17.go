package rules

import (
	"go/token"
	"go/types"
	"sort"

	"golang.org/x/tools/go/ssa"

	"charonverif/internal/an"
	"charonverif/internal/rt"
)

func init() {
	Register(&Prop{
		ID: "C17",
		Decides: "aggsigdb, decided on explored paths (helpers, closures, deferred calls followed): (W1) MemDB state is confined to the Run actor; on every path of one actor iteration a write of the data map is followed by a " +
			"re-evaluation of the blocked queries (unless none is blocked), every query execQuery did not serve is in blockedQueries when the iteration ends, an iteration that does not re-evaluate only appends to the list, " +
			"the re-evaluation loop visits every pending query and skips only cancelled ones, and execQuery reports success only after sending the value stored under the query's own key; " +
			"(W2) signalling between Store and the blocking readers of either implementation is a broadcast (close), never a point-to-point send; on every path of V2 Store that wrote the data map the channel the readers " +
			"observed is closed and the field is left with a fresh open channel, in the critical section of the write; (W3) on every path a write data[k] follows a lookup of k decided absent, present-key paths never write, " +
			"and conflicting data is compared and refused; (W4) V2 data/keysByDuty/notify only under the embedded RWMutex.",
		NotDecided: "latency ('as soon as'), fairness of the Go scheduler, equality of values (JSON comparison is trusted).",
		Run:        c17,
		Mutants: []Mutant{
			{ID: "C17-W1-no-reprocess", File: "core/aggsigdb/memory.go", Expect: "W1",
				Old: "\t\t\tdb.execCommand(command)\n\t\t\tdb.processBlockedQueries()\n",
				New: "\t\t\tdb.execCommand(command)\n\t\t\tif len(db.blockedQueries) > 8 {\n\t\t\t\tdb.processBlockedQueries()\n\t\t\t}\n"},
			{ID: "C17-W1-drop-unserved", File: "core/aggsigdb/memory.go", Expect: "W1",
				Old: "\t\tif !db.execQuery(query) {\n\t\t\tdb.blockedQueries = append(db.blockedQueries, query)\n\t\t}\n\t}\n}",
				New: "\t\t_ = db.execQuery(query)\n\t}\n}"},
			{ID: "C17-W1-outside-actor", File: "core/aggsigdb/memory.go", Expect: "W1",
				Old: "\tcancel := make(chan struct{})\n\tdefer close(cancel)\n\n\tresponse := make(chan core.SignedData, 1)\n",
				New: "\tcancel := make(chan struct{})\n\tdefer close(cancel)\n\n\tif v, ok := db.data[memDBKey{duty: duty, pubKey: pubKey, subcommIdx: subcommIdx}]; ok {\n\t\treturn v.Clone()\n\t}\n\n\tresponse := make(chan core.SignedData, 1)\n"},
			{ID: "C17-W1-forget-blocked", File: "core/aggsigdb/memory.go", Expect: "W1",
				Old: "\t\t\tif !db.execQuery(query) {\n\t\t\t\tdb.blockedQueries = append(db.blockedQueries, query)\n",
				New: "\t\t\tif !db.execQuery(query) && len(db.blockedQueries) < 1024 {\n\t\t\t\tdb.blockedQueries = append(db.blockedQueries, query)\n"},
			{ID: "C17-W2-single-slot-send", File: "core/aggsigdb/memory_v2.go", Expect: "W2",
				Old: "\tclose(m.notify)\n\tm.notify = make(chan struct{})\n",
				New: "\tselect {\n\tcase m.notify <- struct{}{}:\n\tdefault:\n\t}\n"},
			{ID: "C17-W2-early-return", File: "core/aggsigdb/memory_v2.go", Expect: "W2",
				Old: "data); err != nil {\n\t\t\tstoreErr = err\n\t\t\tbreak\n\t\t}",
				New: "data); err != nil {\n\t\t\treturn err\n\t\t}"},
			{ID: "C17-W2-no-replace", File: "core/aggsigdb/memory_v2.go", Expect: "W2",
				Old: "\tclose(m.notify)\n\tm.notify = make(chan struct{})\n",
				New: "\tif storeErr == nil {\n\t\tclose(m.notify)\n\t\tm.notify = make(chan struct{})\n\t}\n"},
			{ID: "C17-W3-overwrite-v1", File: "core/aggsigdb/memory.go", Expect: "W3",
				Old: "\t\t} else if !equal {\n\t\t\tcommand.response <- errors.New(\"mismatching data\")\n\t\t}",
				New: "\t\t} else if !equal {\n\t\t\tcommand.response <- errors.New(\"mismatching data\")\n\t\t\tdb.data[key] = command.data\n\t\t}"},
			{ID: "C17-W3-overwrite-v2", File: "core/aggsigdb/memory_v2.go", Expect: "W3",
				Old: "\t} else {\n\t\tm.data[key] = data\n",
				New: "\t}\n\t{\n\t\tm.data[key] = data\n"},
			{ID: "C17-W4-unlocked-read", File: "core/aggsigdb/memory_v2.go", Expect: "W4",
				Old: "\t\tcase <-notify:",
				New: "\t\tcase <-m.notify:", More: [][2]string{{"data, notify, err := query()", "data, _, err := query()"}}},
			{ID: "C17-W4-lookup-before-lock", File: "core/aggsigdb/memory_v2.go", Expect: "W4",
				Old: "\t\tm.RLock()\n\t\tdefer m.RUnlock()\n\n\t\tselect {",
				New: "\t\tif _, ok := m.data[memDBKey{duty: duty, pubKey: pubKey, subcommIdx: subcommIdx}]; !ok {\n\t\t\treturn nil, m.notify, errMustLoop\n\t\t}\n\n\t\tm.RLock()\n\t\tdefer m.RUnlock()\n\n\t\tselect {"},
			// added with the path-based reformulation (h1617)
			{ID: "C17-W1-overwrite-blocked", File: "core/aggsigdb/memory.go", Expect: "W1|keeps the pending",
				Old: "\t\t\t\tdb.blockedQueries = append(db.blockedQueries, query)\n\t\t\t\tdb.callbackBlockedQueriesForT()",
				New: "\t\t\t\tdb.blockedQueries = append([]readQuery{}, query)\n\t\t\t\tdb.callbackBlockedQueriesForT()"},
			{ID: "C17-W1-reprocess-before-write", File: "core/aggsigdb/memory.go", Expect: "W1|execCommand→processBlockedQueries",
				Old: "\t\t\tdb.execCommand(command)\n\t\t\tdb.processBlockedQueries()\n",
				New: "\t\t\tdb.processBlockedQueries()\n\t\t\tdb.execCommand(command)\n"},
			{ID: "C17-W1-drops-uncancelled", File: "core/aggsigdb/memory.go", Expect: "W1",
				Old: "\t\tif cancelled(query.cancel) {\n\t\t\tcontinue\n\t\t}",
				New: "\t\tif !cancelled(query.cancel) {\n\t\t\tcontinue\n\t\t}"},
			{ID: "C17-W1-answer-other-key", File: "core/aggsigdb/memory.go", Expect: "W1|answers with",
				Old: "\tquery.response <- data\n",
				New: "\tfor _, other := range db.data {\n\t\tdata = other\n\t}\n\n\tquery.response <- data\n"},
			{ID: "C17-W2-close-the-fresh-channel", File: "core/aggsigdb/memory_v2.go", Expect: "W2",
				Old: "\tclose(m.notify)\n\tm.notify = make(chan struct{})\n",
				New: "\tm.notify = make(chan struct{})\n\tclose(m.notify)\n"},
			{ID: "C17-W2-wake-only-on-success", File: "core/aggsigdb/memory_v2.go", Expect: "W2",
				Old: "\tclose(m.notify)\n\tm.notify = make(chan struct{})\n\n\treturn storeErr",
				New: "\tif storeErr != nil {\n\t\treturn storeErr\n\t}\n\n\tclose(m.notify)\n\tm.notify = make(chan struct{})\n\n\treturn nil"},
			{ID: "C17-W5-unlock-between-lookup-and-notify", File: "core/aggsigdb/memory_v2.go", Expect: "W5",
				Old: "\t\t\tif !ok {\n\t\t\t\treturn nil, m.notify, errMustLoop\n\t\t\t}",
				New: "\t\t\tif !ok {\n\t\t\t\tm.RUnlock()\n\t\t\t\tm.RLock()\n\n\t\t\t\treturn nil, m.notify, errMustLoop\n\t\t\t}"},
			{ID: "C17-W3-accept-mismatch", File: "core/aggsigdb/memory_v2.go", Expect: "W3|rejects mismatches",
				Old: "\t\t} else if !equal {\n\t\t\treturn errors.New(\"mismatching data\")\n\t\t}",
				New: "\t\t} else if !equal {\n\t\t\treturn nil\n\t\t}"},
			// round 3: the re-evaluation goes through a helper that does not always reach execQuery
			{ID: "C17-W1-helper-skips-uncancelled", File: "core/aggsigdb/memory.go", Expect: "W1|re-evaluates every uncancelled",
				Old:  "\t\tif cancelled(query.cancel) {\n\t\t\tcontinue\n\t\t}\n\n\t\tif !db.execQuery(query) {\n\t\t\tdb.blockedQueries = append(db.blockedQueries, query)\n\t\t}\n\t}\n}",
				New:  "\t\tdb.retry(query)\n\t}\n}",
				More: [][2]string{{"func dataEqual(x core.SignedData", "func (db *MemDB) retry(query readQuery) {\n\tif cancelled(query.cancel) || len(db.blockedQueries) > 64 {\n\t\treturn\n\t}\n\n\tif !db.execQuery(query) {\n\t\tdb.blockedQueries = append(db.blockedQueries, query)\n\t}\n}\n\nfunc dataEqual(x core.SignedData"}}},
			{ID: "C17-W3-helper-overwrites", File: "core/aggsigdb/memory.go", Expect: "W3",
				Old:  "\t\t} else if !equal {\n\t\t\tcommand.response <- errors.New(\"mismatching data\")\n\t\t}",
				New:  "\t\t} else if !equal {\n\t\t\tcommand.response <- errors.New(\"mismatching data\")\n\t\t\tdb.put(key, command.data)\n\t\t}",
				More: [][2]string{{"func dataEqual(x core.SignedData", "func (db *MemDB) put(key memDBKey, data core.SignedData) {\n\tdb.data[key] = data\n}\n\nfunc dataEqual(x core.SignedData"}}},
		},
	})
}

const (
	aggV1 = "core/aggsigdb.MemDB"
	aggV2 = "core/aggsigdb.MemDBV2"
)

// c17Reach returns the in-package functions reachable from fn through static calls and closures.
func c17Reach(fn *ssa.Function) map[*ssa.Function]bool {
	seen := map[*ssa.Function]bool{}
	var walk func(f *ssa.Function)
	walk = func(f *ssa.Function) {
		if f == nil || seen[f] || f.Pkg != fn.Pkg && f.Parent() == nil {
			return
		}
		seen[f] = true
		for _, in := range an.Instrs(f, false) {
			switch x := in.(type) {
			case ssa.CallInstruction:
				walk(an.Orig(x.Common().StaticCallee()))
				if mc, ok := x.Common().Value.(*ssa.MakeClosure); ok {
					walk(mc.Fn.(*ssa.Function))
				}
			case *ssa.MakeClosure:
				walk(x.Fn.(*ssa.Function))
			}
		}
	}
	walk(fn)
	return seen
}

// c17ChanFields resolves a channel value to the struct fields it may have been read from, following locals,
// spilled locals, phis, results of in-package callees and closures, parameters (all in-package call sites) and
// captured variables. Other origins (fresh channels, library calls such as ctx.Done()) are ignored.
func c17ChanFields(v ssa.Value, funcs []*ssa.Function) map[string]bool {
	out := map[string]bool{}
	seen := map[ssa.Value]bool{}
	var walk func(v ssa.Value, d int)
	walk = func(v ssa.Value, d int) {
		if v == nil || d > 12 {
			return
		}
		v = an.Unwrap(v)
		if seen[v] {
			return
		}
		seen[v] = true
		switch x := v.(type) {
		case *ssa.Phi:
			for _, e := range x.Edges {
				walk(e, d+1)
			}
		case *ssa.Field:
			out[an.FieldKey(x.X.Type(), x.Field)] = true
		case *ssa.UnOp:
			if x.Op != token.MUL {
				return
			}
			switch a := x.X.(type) {
			case *ssa.FieldAddr:
				out[an.FieldKey(a.X.Type(), a.Field)] = true
			case *ssa.Alloc:
				for _, st := range an.AllStores(a) {
					walk(st.Val, d+1)
				}
			case *ssa.FreeVar:
				fn := a.Parent()
				for i, fv := range fn.FreeVars {
					if fv != a || fn.Parent() == nil {
						continue
					}
					for _, in := range an.Instrs(fn.Parent(), false) {
						if mc, ok := in.(*ssa.MakeClosure); ok && mc.Fn == ssa.Value(fn) && i < len(mc.Bindings) {
							if al, ok := mc.Bindings[i].(*ssa.Alloc); ok {
								for _, st := range an.AllStores(al) {
									walk(st.Val, d+1)
								}
							}
						}
					}
				}
			}
		case *ssa.Extract:
			if call, ok := x.Tuple.(*ssa.Call); ok {
				if f := call.Call.StaticCallee(); f != nil && len(f.Blocks) > 0 {
					for _, r := range an.Returns(f) {
						if rv := returnValues(r); x.Index < len(rv) {
							walk(rv[x.Index], d+1)
						}
					}
				}
			}
		case *ssa.Call:
			if f := x.Call.StaticCallee(); f != nil && len(f.Blocks) > 0 {
				for _, r := range an.Returns(f) {
					if rv := returnValues(r); len(rv) == 1 {
						walk(rv[0], d+1)
					}
				}
			}
		case *ssa.Parameter:
			fn := x.Parent()
			idx := -1
			for i, p := range fn.Params {
				if p == x {
					idx = i
				}
			}
			for _, g := range funcs {
				for _, in := range an.Instrs(g, false) {
					if ci, ok := in.(ssa.CallInstruction); ok && !ci.Common().IsInvoke() && ci.Common().StaticCallee() != nil && an.Orig(ci.Common().StaticCallee()) == an.Orig(fn) && idx >= 0 && idx < len(ci.Common().Args) {
						walk(ci.Common().Args[idx], d+1)
					}
				}
			}
		}
	}
	walk(v, 0)
	return out
}

// isFieldSym: the symbol is the content of (or the address of) the named struct field.
func isFieldSym(s *an.Sym, field string) bool { return s != nil && s.FieldName() == field }

func c17(c *rt.Ctx) {
	pkg := c.SSAPkg("core/aggsigdb")
	funcs := an.PkgFuncs(pkg)

	c.Rule("W1", 10, func() {
		run := c.Fn("core/aggsigdb.MemDB.Run")
		state := map[string]bool{aggV1 + ".data": true, aggV1 + ".keysByDuty": true, aggV1 + ".blockedQueries": true}
		// functions touching actor state (constructor-local objects exempt)
		touch := map[*ssa.Function]token.Pos{}
		for _, fn := range funcs {
			for _, in := range an.Instrs(fn, false) {
				fa, ok := in.(*ssa.FieldAddr)
				if !ok || !state[an.FieldKey(fa.X.Type(), fa.Field)] {
					continue
				}
				if _, isAlloc := an.Unwrap(fa.X).(*ssa.Alloc); isAlloc {
					continue
				}
				if _, ok := touch[fn]; !ok {
					touch[fn] = fa.Pos()
				}
			}
		}
		// confined = Run, its local closures, or unexported function whose every use is a static call from a confined function
		confined := an.ConfinedTo(run, funcs)
		var tf []*ssa.Function
		for fn := range touch {
			tf = append(tf, fn)
		}
		sort.Slice(tf, func(i, j int) bool { return an.FuncName(tf[i]) < an.FuncName(tf[j]) })
		for _, fn := range tf {
			c.Check(an.FuncName(fn)+" touches actor state", touch[fn], confined[fn],
				"MemDB.data/keysByDuty/blockedQueries are accessed outside the Run goroutine (no lock protects them)")
		}
		for _, fn := range funcs {
			if !confined[fn] {
				continue
			}
			for _, in := range an.Instrs(fn, false) {
				if g, ok := in.(*ssa.Go); ok {
					c.Bad(an.FuncName(fn)+" starts goroutine", g.Pos(), "the Run actor shares its state with another goroutine")
				}
			}
		}
		// anchors by name, with a semantic fallback should they be renamed: execQuery is the actor function with a
		// readQuery parameter that looks the data map up; processBlockedQueries the one looping over blockedQueries
		execQ := c.FnOpt("core/aggsigdb.MemDB.execQuery")
		if execQ == nil {
			for _, fn := range funcs {
				if !confined[fn] || fn.Parent() != nil || len(fn.Params) != 2 || an.TypeName(fn.Params[1].Type()) != "core/aggsigdb.readQuery" ||
					fn.Signature.Results().Len() != 1 {
					continue
				}
				for _, in := range an.Instrs(fn, false) {
					if lk, ok := in.(*ssa.Lookup); ok && lk.CommaOk && isFieldMap(aggV1+".data")(lk.X) {
						execQ = fn
					}
				}
			}
		}
		if execQ == nil {
			c.Bail("function core/aggsigdb.MemDB.execQuery not found (and no actor function with a readQuery parameter looks up MemDB.data)")
		}
		// the re-evaluation loops: loops of the actor over the pending list (MemDB.blockedQueries) that hand the
		// element to execQuery, directly or through a helper that always does. Found by what they do, wherever they
		// live (processBlockedQueries, a renamed helper, Run itself).
		bqField := aggV1 + ".blockedQueries"
		// cancelPrune: the edge taken when the query at hand is cancelled is not an obligation: a boolean helper
		// applied to the query's cancel channel (`cancelled`), or the receive state of a select on that channel
		cancelPrune := func(proc *ssa.Function, isCancel func(ssa.Value) bool) func(b *ssa.BasicBlock, succ int) bool {
			return func(b *ssa.BasicBlock, succ int) bool {
				iff, ok := b.Instrs[len(b.Instrs)-1].(*ssa.If)
				if !ok {
					return false
				}
				for _, in := range an.Instrs(proc, false) {
					switch x := in.(type) {
					case *ssa.Call:
						if x.Call.StaticCallee() == nil || len(x.Call.Args) != 1 || !isCancel(x.Call.Args[0]) {
							continue
						}
						if bt, isB := x.Type().Underlying().(*types.Basic); !isB || bt.Kind() != types.Bool {
							continue
						}
						for _, cd := range an.CondsOn(proc, x) {
							if cd.If == iff && cd.Other == nil {
								return b.Succs[succ] == cd.Succ(true)
							}
						}
					case *ssa.Select:
						for j, st := range x.States {
							if st.Dir != types.RecvOnly || !isCancel(st.Chan) {
								continue
							}
							// if extract(select, 0) == j
							bin, isBin := iff.Cond.(*ssa.BinOp)
							if !isBin || bin.Op != token.EQL {
								continue
							}
							ex, isEx := bin.X.(*ssa.Extract)
							n, isC := an.ConstInt(bin.Y)
							if isEx && isC && ex.Tuple == ssa.Value(x) && ex.Index == 0 && n == int64(j) {
								return succ == 0
							}
						}
					}
				}
				return false
			}
		}
		var isExecCall func(in ssa.Instruction, isElem func(ssa.Value) bool, d int) bool
		passesToExec := func(f *ssa.Function, idx, d int) bool {
			if idx >= len(f.Params) || len(f.Blocks) == 0 || len(f.Blocks[0].Instrs) == 0 {
				return false
			}
			par := f.Params[idx]
			isP := func(v ssa.Value) bool { return an.Resolve(v) == ssa.Value(par) }
			eff := func(in ssa.Instruction) bool { return isExecCall(in, isP, d) }
			first := f.Blocks[0].Instrs[0]
			if eff(first) {
				return true
			}
			// returning early for a cancelled query is what the loop itself may do
			isCancel := func(v ssa.Value) bool {
				k, base, isF := an.FieldOf(an.Resolve(v))
				if !isF || k != "core/aggsigdb.readQuery.cancel" || base == nil {
					return false
				}
				if al, isAl := base.(*ssa.Alloc); isAl { // the parameter spilled to a local
					return an.UniqueStore(al) == ssa.Value(par)
				}
				return isP(base)
			}
			_, esc := an.EscapePath(first, eff, an.PassOpt{Prune: cancelPrune(f, isCancel)})
			return !esc
		}
		isExecCall = func(in ssa.Instruction, isElem func(ssa.Value) bool, d int) bool {
			call, ok := in.(*ssa.Call)
			if !ok {
				return false
			}
			f := call.Call.StaticCallee()
			if f == nil {
				return false
			}
			args := call.Call.Args
			if f == execQ {
				return len(args) >= 2 && isElem(args[1])
			}
			if d >= 3 || f.Pkg != pkg {
				return false
			}
			for j, a := range args {
				if isElem(a) && passesToExec(f, j, d+1) {
					return true
				}
			}
			return false
		}
		// mayExecCall: the call can hand the value to execQuery (on some path, possibly through helpers): used to
		// recognise the re-evaluation loop; the obligation below then demands it on every uncancelled path
		var mayExecCall func(in ssa.Instruction, isElem func(ssa.Value) bool, d int) bool
		mayExecCall = func(in ssa.Instruction, isElem func(ssa.Value) bool, d int) bool {
			call, ok := in.(*ssa.Call)
			if !ok {
				return false
			}
			f := call.Call.StaticCallee()
			if f == nil {
				return false
			}
			args := call.Call.Args
			if f == execQ {
				return len(args) >= 2 && isElem(args[1])
			}
			if d >= 3 || f.Pkg != pkg {
				return false
			}
			for j, a := range args {
				if !isElem(a) || j >= len(f.Params) {
					continue
				}
				par := f.Params[j]
				isP := func(v ssa.Value) bool { return an.Resolve(v) == ssa.Value(par) }
				for _, in2 := range an.Instrs(f, false) {
					if mayExecCall(in2, isP, d+1) {
						return true
					}
				}
			}
			return false
		}
		type reLoop struct {
			fn   *ssa.Function
			l    *an.Loop
			coll ssa.Value
		}
		var reLoops []reLoop
		nListLoops := 0
		for _, fn := range funcs {
			if !confined[fn] {
				continue
			}
			for _, l := range an.Loops(fn) {
				cl := an.LoopColl(l)
				if cl == nil {
					continue
				}
				if k, _, ok := an.FieldOf(an.Resolve(cl)); !ok || k != bqField {
					continue
				}
				nListLoops++
				l, cl := l, cl
				isElem := func(v ssa.Value) bool { return an.ElemOfColl(l, cl, v) }
				for _, in := range an.Instrs(fn, false) {
					if l.Body[in.Block()] && mayExecCall(in, isElem, 0) {
						reLoops = append(reLoops, reLoop{fn, l, cl})
						break
					}
				}
			}
		}
		if len(reLoops) == 0 {
			c.Bail("no loop of the Run actor over MemDB.blockedQueries hands its element to execQuery (%d loops over the list found)", nListLoops)
		}
		inReLoop := func(e an.Ev, headerOnly bool) bool {
			if e.In == nil || e.In.Block() == nil {
				return false
			}
			for _, rl := range reLoops {
				if e.In.Parent() != rl.fn {
					continue
				}
				if (headerOnly && e.In.Block() == rl.l.Header) || (!headerOnly && rl.l.Body[e.In.Block()]) {
					return true
				}
			}
			return false
		}

		// one iteration of the actor loop, explored path by path
		var evSel *ssa.Select
		nSel := 0
		for _, fn := range funcs {
			if !confined[fn] {
				continue
			}
			for _, in := range an.Instrs(fn, false) {
				if sel, ok := in.(*ssa.Select); ok {
					for _, st := range sel.States {
						if k, _, ok := an.FieldOf(an.Resolve(st.Chan)); ok && k == aggV1+".commands" && st.Dir == types.RecvOnly {
							evSel = sel
							nSel++
						}
					}
				}
			}
		}
		if nSel != 1 {
			c.Bail("Run: expected exactly one event select receiving from MemDB.commands in the actor, found %d", nSel)
		}
		root := evSel.Parent()
		start := evSel.Block()
		if l := an.InnermostLoop(root, start); l != nil {
			start = l.Header
		} else if root == run {
			c.Bail("Run: no event loop around the select on MemDB.commands")
		}
		tr := &an.Tracer{Root: root, Start: start, Stop: start}
		res := tr.Run()
		h1617Dump("C17 MemDB.Run loop", res)
		if res.Truncated || len(res.Paths) == 0 {
			c.Bail("Run: path enumeration of the actor loop failed")
		}
		agg := newAgg(c)
		const (
			reproc = "Run execCommand→processBlockedQueries"
			keep   = "Run keeps the pending queries"
		)
		// static coverage: writes of the data map and calls of execQuery inside the actor are on explored paths
		nWrites, nExec := 0, 0
		for _, fn := range funcs {
			for _, in := range an.Instrs(fn, false) {
				switch x := in.(type) {
				case *ssa.MapUpdate:
					// the map may be handed to a helper as an argument: follow the value to the field
					if isFieldMap(aggV1+".data")(x.Map) || c17ChanFields(x.Map, funcs)[aggV1+".data"] {
						nWrites++
						if !res.Visited[in] {
							agg.unsure(reproc, posOf(in), "a write of MemDB.data in "+an.FuncName(fn)+" is not reached by the path enumeration of the actor loop")
						}
					}
				case *ssa.Call:
					if x.Call.StaticCallee() == execQ && confined[fn] {
						nExec++
						if !res.Visited[in] {
							agg.unsure(an.FuncName(fn)+" unserved query is queued", posOf(in), "this call of execQuery is not reached by the path enumeration of the actor loop")
						}
					}
				}
			}
		}
		if nWrites == 0 {
			c.Bail("no write of MemDB.data found in the Run actor")
		}
		if nExec == 0 {
			c.Bail("no call of execQuery found in the Run actor")
		}
		bq := aggV1 + ".blockedQueries"
		for _, p := range res.Paths {
			evs := p.Evs
			lastWrite, lastProc := -1, -1
			var final *an.Sym
			stored := false
			for i, e := range evs {
				// the path evaluates the head of a re-evaluation loop (or, should the head leave no event, runs in it)
				if inReLoop(e, true) {
					lastProc = i
				} else if inReLoop(e, false) && (lastProc < 0 || !inReLoop(evs[lastProc], true)) {
					lastProc = i
				}
				switch e.Kind {
				case "mapupdate":
					if isFieldSym(e.Args[0], aggV1+".data") || isFieldMap(aggV1+".data")(e.In.(*ssa.MapUpdate).Map) {
						lastWrite = i
					}
				case "store":
					if isFieldSym(e.Args[0], bq) {
						final, stored = e.Args[1], true
					}
				}
			}
			if lastWrite >= 0 && p.End != "panic" {
				// skipping the re-evaluation is sound when the path established that no query is blocked
				empty := false
				for i := lastWrite + 1; i < len(evs); i++ {
					if e := evs[i]; e.Kind == "branch" && c17LenIsZero(e.Args[0], e.Taken, bq) {
						empty = true
					}
				}
				if !(lastProc > lastWrite || empty) && unresolvedLocalCall(evs, lastWrite) {
					agg.unsure(reproc, posOf(evs[lastWrite].In), "a call through an unresolved function value follows the write")
					continue
				}
				agg.check(reproc, posOf(evs[lastWrite].In), lastProc > lastWrite || empty,
					"after a write of the data map the blocked queries are not re-evaluated before the next event (a reader whose key was just stored stays blocked)")
			}
			// the list of pending queries at the end of the iteration
			var base *an.Sym
			var elems []*an.Sym
			spread := false
			if stored {
				base, elems, spread = an.AppendElems(final)
			}
			// a path that established that the list was empty loses nothing by replacing it (the zero-iteration path
			// around a rotated re-evaluation loop leaves no event inside the loop)
			wasEmpty := false
			for _, e := range evs {
				if e.Kind == "branch" && c17LenIsZero(e.Args[0], e.Taken, bq) {
					wasEmpty = true
				}
			}
			if stored && lastProc < 0 && !wasEmpty {
				agg.check(keep, posOf(evSel), isFieldSym(base, bq) && base.Kind == an.KInit,
					"an iteration that does not re-evaluate the blocked queries replaces the list instead of appending to it: pending queries are forgotten")
			} else {
				agg.ok(keep, posOf(evSel))
			}
			// every execQuery call that did not serve its query leaves the query in the pending list
			type open struct {
				pos int
				q   *an.Sym
			}
			var stack []open
			for i, e := range evs {
				if e.Callee != execQ {
					continue
				}
				switch e.Kind {
				case "enter":
					if len(e.Args) >= 2 {
						stack = append(stack, open{i, e.Args[1]})
					}
				case "exit":
					if len(stack) == 0 {
						continue
					}
					o := stack[len(stack)-1]
					stack = stack[:len(stack)-1]
					call := evs[o.pos]
					construct := an.FuncName(call.Fn) + " unserved query is queued"
					served, known := false, false
					if e.Res != nil {
						served, known = boolFact(p, e.Res, len(evs))
					}
					switch {
					case !known:
						agg.unsure(construct, posOf(call.In), "cannot decide on a path whether execQuery served the query")
					case served || p.End == "panic":
						agg.ok(construct, posOf(call.In))
					default:
						queued := false
						for _, el := range elems {
							if an.SymEq(el, o.q) {
								queued = true
							}
						}
						if !queued && spread {
							agg.unsure(construct, posOf(call.In), "the pending list is built with a spread append; cannot enumerate its elements")
						} else {
							agg.check(construct, posOf(call.In), queued, "a query that could not be served is not in blockedQueries when the iteration ends: its reader is never woken")
						}
					}
				}
			}
		}
		agg.flush()

		// the re-evaluation loop: every pending query is either cancelled or passed to execQuery, and the loop is not
		// left early
		for _, rl := range reLoops {
			proc, l, coll := rl.fn, rl.l, rl.coll
			var entry *ssa.BasicBlock
			for _, s := range l.Header.Succs {
				if l.Body[s] && s != l.Header {
					entry = s
				}
			}
			isCancelOfElem := func(v ssa.Value) bool {
				if !an.ElemOfColl(l, coll, v) {
					return false
				}
				k, _, isF := an.FieldOf(an.Resolve(v))
				return isF && k == "core/aggsigdb.readQuery.cancel"
			}
			prune := cancelPrune(proc, isCancelOfElem)
			isElem := func(v ssa.Value) bool { return an.ElemOfColl(l, coll, v) }
			isExec := func(in ssa.Instruction) bool { return isExecCall(in, isElem, 0) }
			esc := true
			var path []*ssa.BasicBlock
			if entry != nil && len(entry.Instrs) > 0 {
				if isExec(entry.Instrs[0]) {
					esc = false
				} else {
					path, esc = an.EscapePath(entry.Instrs[0], isExec, an.PassOpt{Prune: prune, StopAt: func(b *ssa.BasicBlock) bool { return b == l.Header }})
				}
			}
			c.Check("processBlockedQueries re-evaluates every uncancelled query", proc.Pos(), !esc, "an uncancelled pending query is skipped on path "+an.PathString(c.P, path))
			early := an.LoopEarlyExitColl(l, coll)
			epos := proc.Pos()
			if early != nil {
				epos = posOf(early.Instrs[0])
			}
			c.Check("processBlockedQueries visits every pending query", epos, early == nil,
				"the loop over the pending queries can be left early (break/return): the remaining queries are not re-evaluated after the write and stay blocked although their key may be stored")
		}

		// execQuery: success is reported only after sending the value stored under the query's own key
		{
			tq := &an.Tracer{Root: execQ}
			rq := tq.Run()
			h1617Dump("C17 execQuery", rq)
			if rq.Truncated || len(rq.Paths) == 0 {
				c.Bail("execQuery: path enumeration failed")
			}
			const construct = "execQuery answers with data[query.key]"
			agg := newAgg(c)
			n := 0
			for _, p := range rq.Paths {
				if p.End != "return" || len(p.Results) != 1 {
					continue
				}
				n++
				served, known := boolFact(p, p.Results[0], len(p.Evs))
				if known && !served {
					continue
				}
				var qsym *an.Sym
				if len(execQ.Params) >= 2 {
					qsym = &an.Sym{Kind: an.KParam, V: execQ.Params[1]}
				}
				good := false
				var lookups []an.Ev
				for _, e := range p.Evs {
					switch e.Kind {
					case "lookup":
						if (isFieldSym(e.Args[0], aggV1+".data") || isFieldMap(aggV1+".data")(e.In.(*ssa.Lookup).X)) && e.Args[1].RootedAt(qsym) {
							lookups = append(lookups, e)
						}
					case "send":
						if !e.Args[0].RootedAt(qsym) {
							continue
						}
						for _, lk := range lookups {
							v := e.Args[1]
							if (v.Kind == an.KExtract && v.Index == 0 && an.SymEq(v.Args[0], lk.Res)) || an.SymEq(v, lk.Res) {
								good = true
							}
						}
					}
				}
				pos := execQ.Pos()
				if !known {
					if good {
						agg.ok(construct, pos)
					} else {
						agg.unsure(construct, pos, "cannot decide on a path whether execQuery reports success")
					}
					continue
				}
				agg.check(construct, pos, good, "execQuery reports success without sending the value stored under the query's key")
			}
			if n == 0 {
				c.Bail("execQuery: no returning path")
			}
			agg.flush()
		}
	})

	c.Rule("W2", 5, func() {
		// point-to-point signalling between Store and blocked readers
		for _, tname := range []string{"MemDB", "MemDBV2"} {
			full := "core/aggsigdb." + tname
			await := c.Fn(full + ".Await")
			rd := c17Reach(await)
			recvFields := map[string]token.Pos{}
			var rfns []*ssa.Function
			for fn := range rd {
				rfns = append(rfns, fn)
			}
			sort.Slice(rfns, func(i, j int) bool { return an.FuncName(rfns[i]) < an.FuncName(rfns[j]) })
			for _, fn := range rfns {
				for _, ch := range c17Recvs(fn) {
					for k := range c17ChanFields(ch.v, funcs) {
						if len(k) > len(full) && k[:len(full)+1] == full+"." {
							if _, seen := recvFields[k]; !seen {
								recvFields[k] = ch.pos
							}
						}
					}
				}
			}
			var ks []string
			for k := range recvFields {
				ks = append(ks, k)
			}
			sort.Strings(ks)
			for _, k := range ks {
				var sendPos token.Pos
				sent, closed := false, false
				isK := func(v ssa.Value) bool { return c17ChanFields(v, funcs)[k] }
				for _, fn := range funcs {
					for _, in := range an.Instrs(fn, false) {
						switch x := in.(type) {
						case *ssa.Send:
							if isK(x.Chan) {
								sent, sendPos = true, x.Pos()
							}
						case *ssa.Select:
							for _, st := range x.States {
								if st.Dir == types.SendOnly && isK(st.Chan) {
									sent, sendPos = true, st.Pos
								}
							}
						case *ssa.Call:
							if b, ok := x.Call.Value.(*ssa.Builtin); ok && b.Name() == "close" && isK(x.Call.Args[0]) {
								closed = true
							}
						case *ssa.Defer:
							if b, ok := x.Call.Value.(*ssa.Builtin); ok && b.Name() == "close" && isK(x.Call.Args[0]) {
								closed = true
							}
						}
					}
				}
				pos := recvFields[k]
				if sent {
					pos = sendPos
				}
				c.Check("blocked readers of "+k+" are woken by close (broadcast)", pos, !sent && closed,
					"a blocking reader waits on a channel that is signalled by a send: one send wakes one reader, other pending readers (possibly the one whose key was stored) stay blocked")
			}
		}
		// V2 Store: on every path that wrote the data map, the channel the readers may be waiting on is closed and the
		// field is left holding a fresh, open channel, all before the write lock is released
		st := c.Fn(aggV2 + ".Store")
		tr := &an.Tracer{Root: st}
		res := tr.Run()
		h1617Dump("C17 MemDBV2.Store", res)
		if res.Truncated || len(res.Paths) == 0 {
			c.Bail("MemDBV2.Store: path enumeration failed")
		}
		agg := newAgg(c)
		const (
			notifyC = "MemDBV2.Store store→notify"
			fresh   = aggV2 + ".Store close(notify) is followed by a fresh channel"
		)
		nf := aggV2 + ".notify"
		nWrites := 0
		storeTree := c17Reach(st)
		for _, fn := range funcs {
			for _, in := range an.Instrs(fn, false) {
				if mu, ok := in.(*ssa.MapUpdate); ok && (isFieldMap(aggV2+".data")(mu.Map) || c17ChanFields(mu.Map, funcs)[aggV2+".data"]) {
					nWrites++
					if !res.Visited[in] {
						agg.unsure(notifyC, posOf(in), "a write of MemDBV2.data in "+an.FuncName(fn)+" is not reached by the path enumeration of Store")
					}
				}
				if call, ok := in.(*ssa.Call); ok {
					if b, ok := call.Call.Value.(*ssa.Builtin); ok && b.Name() == "close" && c17ChanFields(call.Call.Args[0], funcs)[nf] && !storeTree[fn] {
						agg.unsure(fresh, posOf(in), "the notification channel is closed outside Store")
					}
				}
			}
		}
		if nWrites == 0 {
			c.Bail("no write of MemDBV2.data found")
		}
		sawWrite := false
		for _, p := range res.Paths {
			if p.End != "return" {
				continue
			}
			evs := p.Evs
			var writes, unlocks []int
			closeInit, lastStore := -1, -1
			var closed []*an.Sym
			for i, e := range evs {
				switch e.Kind {
				case "mapupdate":
					if isFieldSym(e.Args[0], aggV2+".data") || isFieldMap(aggV2+".data")(e.In.(*ssa.MapUpdate).Map) {
						writes = append(writes, i)
					}
				case "call":
					if e.Name == "sync.RWMutex.Unlock" || e.Name == "sync.Mutex.Unlock" {
						unlocks = append(unlocks, i)
					}
				case "builtin":
					if e.Name == "close" && len(e.Args) == 1 {
						closed = append(closed, e.Args[0])
						if isFieldSym(e.Args[0], nf) && e.Args[0].Kind == an.KInit {
							closeInit = i
						}
					}
				case "store":
					if isFieldSym(e.Args[0], nf) {
						lastStore = i
					}
				}
			}
			if len(writes) == 0 {
				continue
			}
			sawWrite = true
			sameSection := func(a, b int) bool {
				if a > b {
					a, b = b, a
				}
				for _, u := range unlocks {
					if u > a && u < b {
						return false
					}
				}
				return true
			}
			w := writes[len(writes)-1]
			wpos := posOf(evs[w].In)
			switch {
			case closeInit < 0:
				agg.bad(notifyC, wpos, "an exit of Store after a write of the data map does not wake the waiting readers (the channel they observed is not closed)")
			case !sameSection(w, closeInit):
				agg.bad(notifyC, wpos, "the readers' channel is closed in another critical section than the write of the data map")
			default:
				agg.ok(notifyC, wpos)
			}
			if closeInit >= 0 {
				cpos := posOf(evs[closeInit].In)
				good := false
				why := "the notification channel is closed but not replaced: a second Store would panic or later readers spin"
				if lastStore >= 0 {
					v := evs[lastStore].Args[1]
					_, isMake := v.V.(*ssa.MakeChan)
					good = v.Kind == an.KFresh && isMake && sameSection(closeInit, lastStore)
					for _, cl := range closed {
						if an.SymEq(cl, v) {
							good = false
							why = "the channel left in the notify field is already closed"
						}
					}
				}
				agg.check(fresh, cpos, good, why)
			}
		}
		if !sawWrite {
			c.Bail("MemDBV2.Store: no explored path writes the data map")
		}
		agg.flush()
	})

	c.Rule("W3", 6, func() {
		c17W3(c, funcs, aggV1+".data")
		c17W3(c, funcs, aggV2+".data")
	})

	c.Rule("W4", 8, func() {
		lockRule(c, []string{"core/aggsigdb"}, an.LockTable{
			aggV2 + ".data":       "RWMutex", // read under RLock in Await, written under Lock in Store/Run
			aggV2 + ".keysByDuty": "RWMutex",
			aggV2 + ".notify":     "RWMutex", // replaced under Lock by Store; must be observed in the lookup's critical section
		})
	})
}

// c17W3 finds the code that writes the data map `field` by what it does (a map update whose map is the field,
// directly or received as an argument) and decides insert-if-absent on its paths. The paths are rooted at the
// function containing the write; when a write on some path is not preceded by any comma-ok lookup of the map the
// root moves up to the in-package callers (the lookup may sit in the caller of a small `put` helper).
func c17W3(c *rt.Ctx, funcs []*ssa.Function, field string) {
	isMap := func(v ssa.Value) bool { return isFieldMap(field)(v) || c17ChanFields(v, funcs)[field] }
	top := func(fn *ssa.Function) *ssa.Function {
		for fn.Parent() != nil {
			fn = fn.Parent()
		}
		return fn
	}
	var roots []*ssa.Function
	depth := map[*ssa.Function]int{}
	add := func(fn *ssa.Function, d int) {
		fn = top(fn)
		if _, seen := depth[fn]; !seen {
			depth[fn] = d
			roots = append(roots, fn)
		}
	}
	for _, fn := range funcs {
		for _, in := range an.Instrs(fn, false) {
			if mu, ok := in.(*ssa.MapUpdate); ok && isMap(mu.Map) {
				add(fn, 0)
			}
		}
	}
	if len(roots) == 0 {
		c.Unsure("insert "+field, token.NoPos, "no write of "+field+" found in the package")
		return
	}
	callers := func(fn *ssa.Function) []*ssa.Function {
		var out []*ssa.Function
		for _, g := range funcs {
			if top(g) == fn {
				continue
			}
			for _, in := range an.Instrs(g, false) {
				if ci, ok := in.(ssa.CallInstruction); ok && an.Orig(ci.Common().StaticCallee()) == fn {
					out = append(out, g)
					break
				}
			}
		}
		return out
	}
	evaluated := 0
	for i := 0; i < len(roots); i++ {
		fn := roots[i]
		tr := &an.Tracer{Root: fn, Inline: func(f *ssa.Function) bool {
			return (f.Pkg == fn.Pkg || f.Parent() != nil) && f.Name() != "dataEqual"
		}}
		res := tr.Run()
		h1617Dump("C17 W3 "+an.FuncName(fn), res)
		// does some path write the map without having looked it up at all?
		blind := false
		for _, p := range res.Paths {
			looked := false
			for _, e := range p.Evs {
				switch e.Kind {
				case "lookup":
					if x := e.In.(*ssa.Lookup); x.CommaOk && (isFieldSym(e.Args[0], field) || isMap(x.X)) {
						looked = true
					}
				case "mapupdate":
					if x := e.In.(*ssa.MapUpdate); !looked && (isFieldSym(e.Args[0], field) || isMap(x.Map)) {
						blind = true
					}
				}
			}
		}
		if cs := callers(fn); blind && depth[fn] < 3 && len(cs) > 0 && !res.Truncated {
			for _, g := range cs {
				add(g, depth[fn]+1)
			}
			continue
		}
		evaluated++
		c17InsertIfAbsent(c, fn, field, res, isMap)
	}
	if evaluated == 0 {
		c.Unsure("insert "+field, token.NoPos, "no function to decide insert-if-absent on")
	}
}

// c17NilOnPath decides whether the path assumed s == nil (or its negation): +1 nil, -1 non-nil, 0 unknown.
func c17NilOnPath(p *an.Path, s *an.Sym) int {
	if s == nil {
		return 0
	}
	if s.IsNil() {
		return 1
	}
	nilS := &an.Sym{Kind: an.KConst}
	a, b := s, nilS
	if a.Key() > b.Key() {
		a, b = b, a
	}
	eq := &an.Sym{Kind: an.KBin, Op: token.EQL, Args: []*an.Sym{a, b}}
	if v, ok := p.Assume[eq.Key()]; ok {
		if v {
			return 1
		}
		return -1
	}
	return 0
}

// c17InsertIfAbsent is the path-based form of common.go's checkInsertIfAbsent (helpers and closures of fn are
// followed): on every path through fn, a write data[k] is preceded by a comma-ok lookup data[k] of the same key
// that was decided absent; a path on which a lookup was decided present never writes the data map; and among the
// present-key paths one rejects (sends or returns a non-nil error) after a test of the existing value while another
// accepts: conflicting data is compared and refused.
func c17InsertIfAbsent(c *rt.Ctx, fn *ssa.Function, field string, res *an.TraceResult, isMap func(ssa.Value) bool) {
	name := an.FuncName(fn)
	if res.Truncated || len(res.Paths) == 0 {
		c.Unsure(name+" "+field, fn.Pos(), "path enumeration failed")
		return
	}
	isData := func(s *an.Sym, v ssa.Value) bool { return isFieldSym(s, field) || isMap(v) }
	insertC, neverC, rejectC := name+" insert "+field, name+" existing-key branch of "+field+" never writes", name+" existing-key branch of "+field+" rejects mismatches"
	agg := newAgg(c)
	nWrites, nLookups := 0, 0
	var firstLookup token.Pos
	presentReject, presentAccept := false, false
	for _, p := range res.Paths {
		if p.End == "panic" {
			continue
		}
		type lk struct {
			pos int
			key *an.Sym
			res *an.Sym
			in  ssa.Instruction
		}
		var lookups []lk
		var writes []int
		for i, e := range p.Evs {
			switch e.Kind {
			case "lookup":
				if x := e.In.(*ssa.Lookup); x.CommaOk && isData(e.Args[0], x.X) {
					lookups = append(lookups, lk{i, e.Args[1], e.Res, e.In})
					nLookups++
					if !firstLookup.IsValid() {
						firstLookup = posOf(e.In)
					}
				}
			case "mapupdate":
				if x := e.In.(*ssa.MapUpdate); isData(e.Args[0], x.Map) {
					writes = append(writes, i)
					nWrites++
				}
			}
		}
		for _, w := range writes {
			e := p.Evs[w]
			good := false
			for _, l := range lookups {
				okSym := &an.Sym{Kind: an.KExtract, Args: []*an.Sym{l.res}, Index: 1}
				if t, known := boolFact(p, okSym, w); l.pos < w && an.SymEq(l.key, e.Args[1]) && known && !t {
					good = true
				}
			}
			agg.check(insertC, posOf(e.In), good, "write to the data map is not confined to the absent edge of a comma-ok lookup of the same key: an existing value can be replaced")
		}
		for _, l := range lookups {
			okSym := &an.Sym{Kind: an.KExtract, Args: []*an.Sym{l.res}, Index: 1}
			t, known := boolFact(p, okSym, len(p.Evs))
			if !known || !t {
				continue
			}
			wrote := false
			for _, w := range writes {
				if w > l.pos {
					wrote = true
				}
			}
			agg.check(neverC, posOf(l.in), !wrote, "the branch taken when the key already exists assigns the data map: stored data can be replaced")
			// does the path test the existing value, and how does it end?
			existing := &an.Sym{Kind: an.KExtract, Args: []*an.Sym{l.res}, Index: 0}
			tested := branchDependsOn(p, existing, l.pos, len(p.Evs))
			rejects, accepts := false, true
			// an error value leaving the path: positively an error (assumed non-nil, or made by a call such as
			// errors.New), possibly one (nothing assumed), or nil
			classify := func(r *an.Sym) {
				switch n := c17NilOnPath(p, r); {
				case n < 0, n == 0 && (r.Kind == an.KOpaque || r.Kind == an.KFresh):
					rejects, accepts = true, false
				case n == 0:
					rejects = true
				}
			}
			for _, e := range p.Evs[l.pos:] {
				if snd, ok := e.In.(*ssa.Send); ok && e.Kind == "send" && an.IsErrorType(snd.X.Type()) && e.Args[1] != nil {
					classify(e.Args[1])
				}
			}
			for i, r := range p.Results {
				if sig := fn.Signature.Results(); i < sig.Len() && an.IsErrorType(sig.At(i).Type()) && r != nil {
					classify(r)
				}
			}
			if tested && rejects {
				presentReject = true
			}
			if accepts {
				presentAccept = true
			}
		}
	}
	if nWrites == 0 || nLookups == 0 {
		c.Unsure(name+" "+field, fn.Pos(), "expected a comma-ok lookup and an insertion into "+field+" on the paths of "+name)
		return
	}
	agg.check(rejectC, firstLookup, presentReject && presentAccept, "no content comparison with a rejecting edge in the existing-key branch: conflicting data is silently accepted (or every re-store is refused)")
	agg.flush()
}

// c17LenIsZero: the decided comparison (base has the given truth) implies len(<content of field>) == 0.
// Bases are in the tracer's canonical form: `a == b` with sorted operands, or `a < b`.
func c17LenIsZero(base *an.Sym, truth bool, field string) bool {
	if base == nil || base.Kind != an.KBin || len(base.Args) != 2 {
		return false
	}
	isLen := func(s *an.Sym) bool {
		return s != nil && s.Kind == an.KOpaque && s.Name == "len" && len(s.Args) == 1 && s.Args[0] != nil &&
			s.Args[0].Kind == an.KInit && s.Args[0].FieldName() == field
	}
	a, b := base.Args[0], base.Args[1]
	switch base.Op {
	case token.EQL: // len == 0
		if n, ok := a.IsConstInt(); ok && n == 0 && isLen(b) {
			return truth
		}
		if n, ok := b.IsConstInt(); ok && n == 0 && isLen(a) {
			return truth
		}
	case token.LSS:
		if n, ok := a.IsConstInt(); ok && n == 0 && isLen(b) { // 0 < len is false
			return !truth
		}
		if n, ok := b.IsConstInt(); ok && n == 1 && isLen(a) { // len < 1 is true
			return truth
		}
	}
	return false
}

type c17Recv struct {
	v   ssa.Value
	pos token.Pos
}

// c17Recvs lists the channels fn receives from (unary <- and select receive states).
func c17Recvs(fn *ssa.Function) []c17Recv {
	var out []c17Recv
	for _, in := range an.Instrs(fn, false) {
		switch x := in.(type) {
		case *ssa.UnOp:
			if x.Op == token.ARROW {
				out = append(out, c17Recv{x.X, x.Pos()})
			}
		case *ssa.Select:
			for _, st := range x.States {
				if st.Dir == types.RecvOnly {
					out = append(out, c17Recv{st.Chan, st.Pos})
				}
			}
		}
	}
	return out
}
