package rules

import (
	"go/constant"
	"go/token"
	"go/types"
	"sort"

	"golang.org/x/tools/go/ssa"

	"charonverif/internal/an"
	"charonverif/internal/rt"
)

func init() {
	Register(&Prop{
		ID: "C17",
		Decides: "aggsigdb: (W1) MemDB state is confined to the Run actor, every write command is followed by a re-evaluation of all blocked queries, which re-queues every unserved uncancelled query, " +
			"and a query is answered only with the value stored under its own key; (W2) signalling between Store and the blocking readers of either implementation is a broadcast (close), never a " +
			"point-to-point send, the V2 notification channel is read in the same critical section as the failed lookup and every exit of V2 Store after a store call notifies; " +
			"(W3) the existing-key branch of both stores compares and never writes; (W4) V2 data/keysByDuty/notify only under the embedded RWMutex.",
		NotDecided: "latency ('as soon as'), fairness of the Go scheduler, equality of values (JSON comparison is trusted).",
		Run:        c17,
		Mutants: []Mutant{
			{ID: "C17-W1-no-reprocess", File: "core/aggsigdb/memory.go", Expect: "W1",
				Old: "\t\t\tdb.execCommand(command)\n\t\t\tdb.processBlockedQueries()\n",
				New: "\t\t\tdb.execCommand(command)\n\t\t\tif len(db.blockedQueries) > 8 {\n\t\t\t\tdb.processBlockedQueries()\n\t\t\t}\n"},
			{ID: "C17-W1-drop-unserved", File: "core/aggsigdb/memory.go", Expect: "W1",
				Old: "\t\tif !db.execQuery(query) {\n\t\t\tdb.blockedQueries = append(db.blockedQueries, query)\n\t\t}\n\t}\n}",
				New: "\t\t_ = db.execQuery(query)\n\t}\n}"},
			{ID: "C17-W1-outside-actor", File: "core/aggsigdb/memory.go", Expect: "W1",
				Old: "\tcancel := make(chan struct{})\n\tdefer close(cancel)\n\n\tresponse := make(chan core.SignedData, 1)\n",
				New: "\tcancel := make(chan struct{})\n\tdefer close(cancel)\n\n\tif v, ok := db.data[memDBKey{duty: duty, pubKey: pubKey, subcommIdx: subcommIdx}]; ok {\n\t\treturn v.Clone()\n\t}\n\n\tresponse := make(chan core.SignedData, 1)\n"},
			{ID: "C17-W1-forget-blocked", File: "core/aggsigdb/memory.go", Expect: "W1",
				Old: "\t\t\tif !db.execQuery(query) {\n\t\t\t\tdb.blockedQueries = append(db.blockedQueries, query)\n",
				New: "\t\t\tif !db.execQuery(query) && len(db.blockedQueries) < 1024 {\n\t\t\t\tdb.blockedQueries = append(db.blockedQueries, query)\n"},
			{ID: "C17-W2-single-slot-send", File: "core/aggsigdb/memory_v2.go", Expect: "W2",
				Old: "\tclose(m.notify)\n\tm.notify = make(chan struct{})\n",
				New: "\tselect {\n\tcase m.notify <- struct{}{}:\n\tdefault:\n\t}\n"},
			{ID: "C17-W2-early-return", File: "core/aggsigdb/memory_v2.go", Expect: "W2",
				Old: "data); err != nil {\n\t\t\tstoreErr = err\n\t\t\tbreak\n\t\t}",
				New: "data); err != nil {\n\t\t\treturn err\n\t\t}"},
			{ID: "C17-W2-no-replace", File: "core/aggsigdb/memory_v2.go", Expect: "W2",
				Old: "\tclose(m.notify)\n\tm.notify = make(chan struct{})\n",
				New: "\tif storeErr == nil {\n\t\tclose(m.notify)\n\t\tm.notify = make(chan struct{})\n\t}\n"},
			{ID: "C17-W3-overwrite-v1", File: "core/aggsigdb/memory.go", Expect: "W3",
				Old: "\t\t} else if !equal {\n\t\t\tcommand.response <- errors.New(\"mismatching data\")\n\t\t}",
				New: "\t\t} else if !equal {\n\t\t\tcommand.response <- errors.New(\"mismatching data\")\n\t\t\tdb.data[key] = command.data\n\t\t}"},
			{ID: "C17-W3-overwrite-v2", File: "core/aggsigdb/memory_v2.go", Expect: "W3",
				Old: "\t} else {\n\t\tm.data[key] = data\n",
				New: "\t}\n\t{\n\t\tm.data[key] = data\n"},
			{ID: "C17-W4-unlocked-read", File: "core/aggsigdb/memory_v2.go", Expect: "W4",
				Old: "\t\tcase <-notify:",
				New: "\t\tcase <-m.notify:", More: [][2]string{{"data, notify, err := query()", "data, _, err := query()"}}},
			{ID: "C17-W4-lookup-before-lock", File: "core/aggsigdb/memory_v2.go", Expect: "W4",
				Old: "\t\tm.RLock()\n\t\tdefer m.RUnlock()\n\n\t\tselect {",
				New: "\t\tif _, ok := m.data[memDBKey{duty: duty, pubKey: pubKey, subcommIdx: subcommIdx}]; !ok {\n\t\t\treturn nil, m.notify, errMustLoop\n\t\t}\n\n\t\tm.RLock()\n\t\tdefer m.RUnlock()\n\n\t\tselect {"},
		},
	})
}

const (
	aggV1 = "core/aggsigdb.MemDB"
	aggV2 = "core/aggsigdb.MemDBV2"
)

// c17Reach returns the in-package functions reachable from fn through static calls and closures.
func c17Reach(fn *ssa.Function) map[*ssa.Function]bool {
	seen := map[*ssa.Function]bool{}
	var walk func(f *ssa.Function)
	walk = func(f *ssa.Function) {
		if f == nil || seen[f] || f.Pkg != fn.Pkg && f.Parent() == nil {
			return
		}
		seen[f] = true
		for _, in := range an.Instrs(f, false) {
			switch x := in.(type) {
			case ssa.CallInstruction:
				walk(an.Orig(x.Common().StaticCallee()))
				if mc, ok := x.Common().Value.(*ssa.MakeClosure); ok {
					walk(mc.Fn.(*ssa.Function))
				}
			case *ssa.MakeClosure:
				walk(x.Fn.(*ssa.Function))
			}
		}
	}
	walk(fn)
	return seen
}

func c17(c *rt.Ctx) {
	pkg := c.SSAPkg("core/aggsigdb")
	funcs := an.PkgFuncs(pkg)

	c.Rule("W1", 8, func() {
		run := c.Fn("core/aggsigdb.MemDB.Run")
		state := map[string]bool{aggV1 + ".data": true, aggV1 + ".keysByDuty": true, aggV1 + ".blockedQueries": true}
		// functions touching actor state (constructor-local objects exempt)
		touch := map[*ssa.Function]token.Pos{}
		for _, fn := range funcs {
			for _, in := range an.Instrs(fn, false) {
				var fa *ssa.FieldAddr
				switch x := in.(type) {
				case *ssa.FieldAddr:
					fa = x
				default:
					continue
				}
				if !state[an.FieldKey(fa.X.Type(), fa.Field)] {
					continue
				}
				if _, isAlloc := an.Unwrap(fa.X).(*ssa.Alloc); isAlloc {
					continue
				}
				if _, ok := touch[fn]; !ok {
					touch[fn] = fa.Pos()
				}
			}
		}
		// confined = Run, or unexported function whose every use is a static call from a confined function
		confined := map[*ssa.Function]bool{run: true}
		for changed := true; changed; {
			changed = false
			for _, fn := range funcs {
				if confined[fn] || fn.Parent() != nil {
					continue
				}
				if fn.Object() != nil && fn.Object().Exported() {
					continue
				}
				ok, used := true, false
				for _, g := range funcs {
					for _, in := range an.Instrs(g, false) {
						for _, op := range an.Operands(in) {
							if op != ssa.Value(fn) {
								continue
							}
							used = true
							ci, isCall := in.(*ssa.Call)
							if !isCall || ci.Call.Value != op || !confined[g] {
								ok = false
							}
						}
					}
				}
				if ok && used {
					confined[fn] = true
					changed = true
				}
			}
		}
		var tf []*ssa.Function
		for fn := range touch {
			tf = append(tf, fn)
		}
		sort.Slice(tf, func(i, j int) bool { return an.FuncName(tf[i]) < an.FuncName(tf[j]) })
		for _, fn := range tf {
			c.Check(an.FuncName(fn)+" touches actor state", touch[fn], confined[fn],
				"MemDB.data/keysByDuty/blockedQueries are accessed outside the Run goroutine (no lock protects them)")
		}
		// Run: execCommand is followed by processBlockedQueries before the next event
		exec := c.OneCall(run, an.Static("core/aggsigdb.MemDB.execCommand"), "execCommand", false)
		proc := c.Fn("core/aggsigdb.MemDB.processBlockedQueries")
		loop := an.InnermostLoop(run, exec.Block())
		if loop == nil {
			c.Bail("Run: no event loop around execCommand")
		}
		path, esc := an.EscapePath(exec, func(in ssa.Instruction) bool {
			ci, ok := in.(ssa.CallInstruction)
			return ok && ci.Common().StaticCallee() == proc
		}, an.PassOpt{StopAt: func(b *ssa.BasicBlock) bool { return b == loop.Header }})
		c.Check("Run execCommand→processBlockedQueries", exec.Pos(), !esc, "after a write the blocked queries are not re-evaluated on path "+an.PathString(c.P, path))
		// Run: an unserved query is queued
		execQ := c.Fn("core/aggsigdb.MemDB.execQuery")
		for _, fn := range []*ssa.Function{run, proc} {
			for _, call := range an.Calls(fn, func(cc *ssa.CallCommon) bool { return cc.StaticCallee() == execQ }, false) {
				var l *an.Loop
				if fn == run {
					l = loop
				} else {
					l = an.InnermostLoop(fn, call.Block())
				}
				if l == nil {
					c.Unsure(an.FuncName(fn)+" execQuery", call.Pos(), "execQuery call outside a loop")
					continue
				}
				query := call.Common().Args[1]
				prune := func(b *ssa.BasicBlock, succ int) bool {
					iff, ok := b.Instrs[len(b.Instrs)-1].(*ssa.If)
					if !ok {
						return false
					}
					for _, cd := range an.CondsOn(fn, call.Value()) {
						if cd.If == iff && cd.Other == nil {
							return b.Succs[succ] == cd.Succ(true) // served: nothing to queue
						}
					}
					return false
				}
				path, esc := an.EscapePath(call, func(in ssa.Instruction) bool {
					st, ok := in.(*ssa.Store)
					if !ok {
						return false
					}
					fa, ok := st.Addr.(*ssa.FieldAddr)
					if !ok || an.FieldKey(fa.X.Type(), fa.Field) != aggV1+".blockedQueries" {
						return false
					}
					els := appendedElems(st.Val)
					return len(els) == 1 && an.Equiv(els[0], query)
				}, an.PassOpt{Prune: prune, StopAt: func(b *ssa.BasicBlock) bool { return b == l.Header }})
				c.Check(an.FuncName(fn)+" unserved query is queued", call.Pos(), !esc,
					"a query that could not be served is not appended to blockedQueries on path "+an.PathString(c.P, path))
			}
		}
		// processBlockedQueries: every pending query is either cancelled or passed to execQuery
		{
			var l *an.Loop
			for _, x := range an.Loops(proc) {
				if k, _, ok := an.FieldOf(x.RangeColl()); ok && k == aggV1+".blockedQueries" {
					l = x
				}
			}
			if l == nil {
				c.Bail("processBlockedQueries does not range over the previous blockedQueries")
			}
			var entry *ssa.BasicBlock
			for _, s := range l.Header.Succs {
				if l.Body[s] && s != l.Header {
					entry = s
				}
			}
			prune := func(b *ssa.BasicBlock, succ int) bool {
				iff, ok := b.Instrs[len(b.Instrs)-1].(*ssa.If)
				if !ok {
					return false
				}
				call, ok := iff.Cond.(*ssa.Call)
				return ok && call.Call.StaticCallee() != nil && call.Call.StaticCallee().Name() == "cancelled" && succ == 0 && l.ElemOf(call.Call.Args[0])
			}
			isExec := func(in ssa.Instruction) bool {
				ci, ok := in.(ssa.CallInstruction)
				return ok && ci.Common().StaticCallee() == execQ && l.ElemOf(ci.Common().Args[1])
			}
			esc := true
			var path []*ssa.BasicBlock
			if entry != nil && len(entry.Instrs) > 0 {
				if isExec(entry.Instrs[0]) {
					esc = false
				} else {
					path, esc = an.EscapePath(entry.Instrs[0], isExec, an.PassOpt{Prune: prune, StopAt: func(b *ssa.BasicBlock) bool { return b == l.Header }})
				}
			}
			c.Check("processBlockedQueries re-evaluates every uncancelled query", proc.Pos(), !esc, "an uncancelled pending query is skipped on path "+an.PathString(c.P, path))
			early := an.LoopEarlyExit(l)
			epos := proc.Pos()
			if early != nil {
				epos = posOf(early.Instrs[0])
			}
			c.Check("processBlockedQueries visits every pending query", epos, early == nil,
				"the loop over the pending queries can be left early (break/return): the remaining queries are not re-evaluated after the write and stay blocked although their key may be stored")
		}
		// execQuery: true is returned only after sending the value stored under the query's own key
		for _, r := range an.Returns(execQ) {
			k, isC := r.Results[0].(*ssa.Const)
			if isC && !constant.BoolVal(k.Value) {
				continue
			}
			good := false
			for _, in := range an.Instrs(execQ, false) {
				snd, ok := in.(*ssa.Send)
				if !ok || !an.Dominates(snd, r) || !rootedAt(snd.Chan, execQ.Params[1]) {
					continue
				}
				if ex, ok := an.Unwrap(snd.X).(*ssa.Extract); ok && ex.Index == 0 {
					if lk, ok := ex.Tuple.(*ssa.Lookup); ok {
						if fk, _, ok := an.FieldOf(lk.X); ok && fk == aggV1+".data" && rootedAt(lk.Index, execQ.Params[1]) {
							good = true
						}
					}
				}
			}
			c.Check("execQuery answers with data[query.key]", posOf(r), good, "execQuery reports success without sending the value stored under the query's key")
		}
	})

	c.Rule("W2", 4, func() {
		// point-to-point signalling between Store and blocked readers
		for _, tname := range []string{"MemDB", "MemDBV2"} {
			full := "core/aggsigdb." + tname
			await := c.Fn(full + ".Await")
			rd := c17Reach(await)
			recvFields := map[string]token.Pos{}
			for fn := range rd {
				for _, ch := range c17Recvs(fn) {
					if k, _, ok := an.FieldOf(ch.v); ok && len(k) > len(full) && k[:len(full)+1] == full+"." {
						if _, seen := recvFields[k]; !seen {
							recvFields[k] = ch.pos
						}
					}
				}
			}
			var ks []string
			for k := range recvFields {
				ks = append(ks, k)
			}
			sort.Strings(ks)
			for _, k := range ks {
				var sendPos token.Pos
				sent, closed := false, false
				for _, fn := range funcs {
					for _, in := range an.Instrs(fn, false) {
						switch x := in.(type) {
						case *ssa.Send:
							if fk, _, ok := an.FieldOf(x.Chan); ok && fk == k {
								sent, sendPos = true, x.Pos()
							}
						case *ssa.Select:
							for _, st := range x.States {
								if st.Dir == types.SendOnly {
									if fk, _, ok := an.FieldOf(st.Chan); ok && fk == k {
										sent, sendPos = true, st.Pos
									}
								}
							}
						case *ssa.Call:
							if b, ok := x.Call.Value.(*ssa.Builtin); ok && b.Name() == "close" {
								if fk, _, ok := an.FieldOf(x.Call.Args[0]); ok && fk == k {
									closed = true
								}
							}
						case *ssa.Defer:
							if b, ok := x.Call.Value.(*ssa.Builtin); ok && b.Name() == "close" {
								if fk, _, ok := an.FieldOf(x.Call.Args[0]); ok && fk == k {
									closed = true
								}
							}
						}
					}
				}
				pos := recvFields[k]
				if sent {
					pos = sendPos
				}
				c.Check("blocked readers of "+k+" are woken by close (broadcast)", pos, !sent && closed,
					"a blocking reader waits on a channel that is signalled by a send: one send wakes one reader, other pending readers (possibly the one whose key was stored) stay blocked")
			}
		}
		// V2 Store: every exit after a store call closes and replaces the notification channel
		st := c.Fn(aggV2 + ".Store")
		inner := c.Fn(aggV2 + ".store")
		isClose := func(in ssa.Instruction) bool {
			call, ok := in.(*ssa.Call)
			if !ok {
				return false
			}
			b, ok := call.Call.Value.(*ssa.Builtin)
			if !ok || b.Name() != "close" {
				return false
			}
			k, _, ok := an.FieldOf(call.Call.Args[0])
			return ok && k == aggV2+".notify"
		}
		for _, call := range c.SomeCalls(st, func(cc *ssa.CallCommon) bool { return cc.StaticCallee() == inner }, "MemDBV2.store", false) {
			path, esc := an.EscapePath(call, isClose, an.PassOpt{})
			c.Check("MemDBV2.Store store→notify", call.Pos(), !esc, "an exit of Store after a store call does not wake the waiting readers: "+an.PathString(c.P, path))
		}
		nClose := 0
		for _, fn := range funcs {
			for _, in := range an.Instrs(fn, false) {
				if !isClose(in) {
					continue
				}
				nClose++
				// replaced in the same block, after the close
				good := false
				for _, nx := range in.Block().Instrs {
					if s, ok := nx.(*ssa.Store); ok && an.Dominates(in, s) {
						if fa, ok := s.Addr.(*ssa.FieldAddr); ok && an.FieldKey(fa.X.Type(), fa.Field) == aggV2+".notify" {
							if _, ok := s.Val.(*ssa.MakeChan); ok {
								good = true
							}
						}
					}
				}
				c.Check(an.FuncName(fn)+" close(notify) is followed by a fresh channel", in.Pos(), good, "the notification channel is closed but not replaced: a second Store would panic or later readers spin")
			}
		}
		if nClose == 0 {
			c.Unsure("MemDBV2.notify", token.NoPos, "no close of the notification channel found")
		}
	})

	c.Rule("W3", 6, func() {
		checkInsertIfAbsent(c, c.Fn(aggV1+".execCommand"), aggV1+".data")
		checkInsertIfAbsent(c, c.Fn(aggV2+".store"), aggV2+".data")
	})

	c.Rule("W4", 8, func() {
		lockRule(c, []string{"core/aggsigdb"}, an.LockTable{
			aggV2 + ".data":       "RWMutex", // read under RLock in Await, written under Lock in Store/Run
			aggV2 + ".keysByDuty": "RWMutex",
			aggV2 + ".notify":     "RWMutex", // replaced under Lock by Store; must be observed in the lookup's critical section
		})
	})
}

type c17Recv struct {
	v   ssa.Value
	pos token.Pos
}

// c17Recvs lists the channels fn receives from (unary <- and select receive states).
func c17Recvs(fn *ssa.Function) []c17Recv {
	var out []c17Recv
	for _, in := range an.Instrs(fn, false) {
		switch x := in.(type) {
		case *ssa.UnOp:
			if x.Op == token.ARROW {
				out = append(out, c17Recv{x.X, x.Pos()})
			}
		case *ssa.Select:
			for _, st := range x.States {
				if st.Dir == types.RecvOnly {
					out = append(out, c17Recv{st.Chan, st.Pos})
				}
			}
		}
	}
	return out
}
