package rules

import (
	"go/token"
	"go/types"

	"golang.org/x/tools/go/ssa"

	"charonverif/internal/an"
	"charonverif/internal/rt"
)

// c17W5: the channel a V2 reader blocks on is the value of MemDBV2.notify observed in the SAME critical section
// as the lookup of the data map that preceded the wait. The rule is decided on the explored paths of Await
// (helpers, closures and deferred unlocks followed), not on the shape of the code: a critical section is the
// stretch between an acquisition of the RWMutex and its release; every read of the notify field and every
// lookup of the data map is stamped with the section it happened in.
func c17W5(c *rt.Ctx) {
	c.Rule("W5", 1, func() {
		await := c.Fn(aggV2 + ".Await")
		funcs := an.PkgFuncs(c.SSAPkg("core/aggsigdb"))
		tr := &an.Tracer{Root: await}
		res := tr.Run()
		h1617Dump("C17 MemDBV2.Await", res)
		if res.Truncated || len(res.Paths) == 0 {
			c.Bail("MemDBV2.Await: path enumeration failed")
		}
		nf, df := aggV2+".notify", aggV2+".data"
		agg := newAgg(c)
		construct := func(in ssa.Instruction) string {
			return an.FuncName(in.Parent()) + " reads notify in the lookup's critical section"
		}
		const detail = "the notification channel is read outside the critical section of the lookup that missed: a Store in between replaces it and the reader sleeps on the new channel although its value is stored"
		waits := 0
		for _, p := range res.Paths {
			section, next := 0, 0
			loadSection := map[*an.Sym]int{}
			loadPos := map[*an.Sym]int{}
			lastLookup, lookupPos := -1, -1 // section / position of the latest lookup of the data map (section 0: outside any)
			for i, e := range p.Evs {
				switch e.Kind {
				case "call":
					switch e.Name {
					case "sync.RWMutex.RLock", "sync.RWMutex.Lock":
						next++
						section = next
					case "sync.RWMutex.RUnlock", "sync.RWMutex.Unlock":
						section = 0
					}
				case "lookup":
					if isFieldSym(e.Args[0], df) || isFieldMap(df)(e.In.(*ssa.Lookup).X) {
						lastLookup, lookupPos = section, i
					}
				case "load":
					if e.Res != nil && e.Res.Kind == an.KInit && isFieldSym(e.Res, nf) && e.Args[0].Kind == an.KAddr && isFieldSym(e.Args[0], nf) {
						loadSection[e.Res] = section
						loadPos[e.Res] = i
					}
				case "select", "recv":
					var chans []*an.Sym
					if e.Kind == "recv" {
						chans = append(chans, e.Args[0])
					} else if e.Blocking {
						for _, st := range e.States {
							if st.Dir == types.RecvOnly {
								chans = append(chans, st.Chan)
							}
						}
					}
					for _, ch := range chans {
						if ch == nil || ch.Kind != an.KInit || !isFieldSym(ch, nf) {
							continue
						}
						waits++
						ld, _ := ch.V.(ssa.Instruction)
						if ld == nil {
							ld = e.In
						}
						s, seen := loadSection[ch]
						// safe: observed in the critical section of the latest lookup, or observed before that lookup
						// (a Store after the observation closes the observed channel, the wait returns at once)
						good := seen && ((s != 0 && s == lastLookup) || (lookupPos >= 0 && loadPos[ch] < lookupPos))
						agg.check(construct(ld), posOf(ld), good, detail)
					}
				}
			}
		}
		// every other reader of the field must have been seen on a path of Await (Store and the constructor excepted)
		storeTree := c17Reach(c.Fn(aggV2 + ".Store"))
		for _, fn := range funcs {
			if storeTree[fn] {
				continue
			}
			for _, in := range an.Instrs(fn, false) {
				if isLoadOfField(in, nf) && !res.Visited[in] {
					agg.unsure(construct(in), posOf(in), "a read of the notification channel that is not on any explored path of Await")
				}
			}
		}
		agg.flush()
		if waits == 0 {
			c.Unsure("MemDBV2.notify", token.NoPos, "no reader blocking on the notification channel found on the paths of Await")
		}
	})
}
