package rules

import (
	"go/token"

	"golang.org/x/tools/go/ssa"

	"charonverif/internal/an"
	"charonverif/internal/rt"
)

func c17W5(c *rt.Ctx) {
	c.Rule("W5", 1, func() {
		n := 0
		for _, fn := range an.PkgFuncs(c.SSAPkg("core/aggsigdb")) {
			for _, in := range an.Instrs(fn, false) {
				if !isLoadOfField(in, aggV2+".notify") {
					continue
				}
				// Store closes and replaces it under the write lock (W2/W4)
				if an.FuncName(fn) == aggV2+".Store" {
					continue
				}
				n++
				good := false
				for _, in2 := range an.Instrs(fn, false) {
					lk, ok := in2.(*ssa.Lookup)
					if !ok || !lk.CommaOk || !isFieldMap(aggV2+".data")(lk.X) || !an.Dominates(lk, in) {
						continue
					}
					// no explicit unlock between the lookup and the load
					u := an.PathThrough(lk, in, func(x ssa.Instruction) bool {
						call, ok := x.(*ssa.Call)
						return ok && an.Static("sync.RWMutex.RUnlock", "sync.RWMutex.Unlock")(&call.Call)
					})
					if u == nil {
						good = true
					}
				}
				c.Check(an.FuncName(fn)+" reads notify in the lookup's critical section", in.Pos(), good,
					"the notification channel is read outside the critical section of the lookup that missed: a Store in between replaces it and the reader sleeps on the new channel although its value is stored")
			}
		}
		if n == 0 {
			c.Unsure("MemDBV2.notify", token.NoPos, "no reader of the notification channel found")
		}
	})
}
