package rules

import (
	"go/token"
	"go/types"

	"golang.org/x/tools/go/ssa"

	"charonverif/internal/an"
)

// Function-value resolution for the C06 rules (context-insensitive): which package functions may a dynamic callee
// value denote? A parameter is resolved through every static call site of its function, a captured variable through
// its bindings and stores, a struct field through every store into that field anywhere in the package (tables of
// funcs: `ops.store`, `variant.clash`), a call result through the returns of the callee. ok=false when any source
// cannot be followed (the function escapes as a value, the struct type is visible outside the package, ...).

type c06FnSet struct {
	fns   []*ssa.Function
	exact bool // a single source chain without merging over call sites / table entries
}

func (m *c06Model) resolveFn(v ssa.Value) (c06FnSet, bool) {
	if m.fnMemo == nil {
		m.fnMemo = map[ssa.Value]c06FnMemo{}
	}
	if r, ok := m.fnMemo[v]; ok {
		return r.set, r.ok
	}
	set, ok := m.resolveFn1(v)
	m.fnMemo[v] = c06FnMemo{set, ok}
	return set, ok
}

func (m *c06Model) resolveFn1(v ssa.Value) (c06FnSet, bool) {
	out := c06FnSet{exact: true}
	seen := map[ssa.Value]bool{}
	add := func(f *ssa.Function) {
		for _, g := range out.fns {
			if g == f {
				return
			}
		}
		out.fns = append(out.fns, f)
	}
	var walk func(v ssa.Value, d int) bool
	// storesInto: every value stored through an address equal to / derived like addr
	fieldStores := func(st types.Type, idx int, d int) bool {
		s, ok := st.Underlying().(*types.Struct)
		if !ok {
			return false
		}
		if n, isNamed := types.Unalias(st).(*types.Named); isNamed && n.Obj().Exported() && s.Field(idx).Exported() {
			return false // may be assigned outside the package
		}
		out.exact = false
		n := 0
		fns := append([]*ssa.Function{}, m.all...)
		if init := m.pkg.Func("init"); init != nil {
			fns = append(fns, init)
		}
		for _, f := range fns {
			for _, in := range an.Instrs(f, false) {
				str, ok := in.(*ssa.Store)
				if !ok {
					continue
				}
				fa, ok := str.Addr.(*ssa.FieldAddr)
				if !ok || fa.Field != idx {
					continue
				}
				pt, ok := fa.X.Type().Underlying().(*types.Pointer)
				if !ok || !types.Identical(pt.Elem(), st) {
					continue
				}
				n++
				if c, isConst := str.Val.(*ssa.Const); isConst && c.Value == nil {
					continue // nil entry: calling it panics, nothing runs
				}
				if !walk(str.Val, d+1) {
					return false
				}
			}
		}
		return n > 0
	}
	walk = func(v ssa.Value, d int) bool {
		if d > 10 {
			return false
		}
		if seen[v] {
			return true
		}
		seen[v] = true
		if f := m.funcOf(v); f != nil {
			if !m.inPkg(f) || f.Blocks == nil {
				return false
			}
			add(f)
			return true
		}
		v = an.Unwrap(v)
		switch x := v.(type) {
		case *ssa.Parameter:
			fn := x.Parent()
			idx := -1
			for i, p := range fn.Params {
				if p == x {
					idx = i
				}
			}
			if idx < 0 || len(m.refs[fn]) == 0 {
				return false
			}
			if len(m.refs[fn]) > 1 {
				out.exact = false
			}
			for _, ref := range m.refs[fn] {
				ci, ok := ref.(ssa.CallInstruction)
				if !ok {
					// creation of the literal: its calls are found through the uses of the closure value
					mc, isMC := ref.(*ssa.MakeClosure)
					if !isMC {
						return false
					}
					calls, ok := c06ClosureCalls(mc)
					if !ok {
						return false
					}
					if len(calls) > 1 {
						out.exact = false
					}
					shift := 0
					if c06IsBound(mc) {
						shift = 1 // the receiver is bound, not passed
					}
					for _, cc := range calls {
						if idx-shift < 0 || idx-shift >= len(cc.Args) || !walk(cc.Args[idx-shift], d+1) {
							return false
						}
					}
					continue
				}
				cc := ci.Common()
				if cc.IsInvoke() || m.funcOf(cc.Value) != fn || idx >= len(cc.Args) {
					return false
				}
				if _, bound := an.Resolve(cc.Value).(*ssa.MakeClosure); bound && fn.Signature.Recv() != nil {
					return false // call through a bound method value: the receiver is not among the arguments
				}
				if !walk(cc.Args[idx], d+1) {
					return false
				}
			}
			return true
		case *ssa.FreeVar:
			fn := x.Parent()
			idx := -1
			for i, p := range fn.FreeVars {
				if p == x {
					idx = i
				}
			}
			if idx < 0 || fn.Parent() == nil {
				return false
			}
			n := 0
			for _, in := range an.Instrs(fn.Parent(), false) {
				if mc, ok := in.(*ssa.MakeClosure); ok && mc.Fn == ssa.Value(fn) && idx < len(mc.Bindings) {
					n++
					if !walk(mc.Bindings[idx], d+1) {
						return false
					}
				}
			}
			return n > 0
		case *ssa.Alloc:
			n := 0
			for _, ref := range *x.Referrers() {
				switch r := ref.(type) {
				case *ssa.Store:
					if r.Addr != ssa.Value(x) {
						return false
					}
					n++
					if !walk(r.Val, d+1) {
						return false
					}
				case *ssa.UnOp, *ssa.DebugRef:
				case *ssa.MakeClosure:
					// captured: the literal must not assign it
					lit, _ := r.Fn.(*ssa.Function)
					for i, b := range r.Bindings {
						if b != ssa.Value(x) || lit == nil || i >= len(lit.FreeVars) {
							continue
						}
						for _, fr := range *lit.FreeVars[i].Referrers() {
							switch fr.(type) {
							case *ssa.UnOp, *ssa.DebugRef:
							default:
								return false
							}
						}
					}
				default:
					return false
				}
			}
			if n > 1 {
				out.exact = false
			}
			return n > 0
		case *ssa.UnOp:
			if x.Op != token.MUL {
				return false
			}
			return walk(x.X, d+1)
		case *ssa.FieldAddr:
			pt, ok := x.X.Type().Underlying().(*types.Pointer)
			if !ok {
				return false
			}
			return fieldStores(pt.Elem(), x.Field, d)
		case *ssa.Field:
			return fieldStores(x.X.Type(), x.Field, d)
		case *ssa.Phi:
			out.exact = false
			for _, e := range x.Edges {
				if c, isConst := e.(*ssa.Const); isConst && c.Value == nil {
					continue
				}
				if !walk(e, d+1) {
					return false
				}
			}
			return true
		case *ssa.Call:
			return m.resolveResult(x, 0, d, walk)
		case *ssa.Extract:
			if call, ok := x.Tuple.(*ssa.Call); ok {
				return m.resolveResult(call, x.Index, d, walk)
			}
		}
		return false
	}
	if !walk(v, 0) || len(out.fns) == 0 {
		return c06FnSet{}, false
	}
	if len(out.fns) > 1 {
		out.exact = false
	}
	return out, true
}

func (m *c06Model) resolveResult(call *ssa.Call, idx int, d int, walk func(ssa.Value, int) bool) bool {
	g := call.Call.StaticCallee()
	if g == nil || !m.inPkg(g) || g.Blocks == nil {
		return false
	}
	rets := an.Returns(g)
	if len(rets) == 0 {
		return false
	}
	for _, r := range rets {
		vals := returnValues(r)
		if idx >= len(vals) || !walk(vals[idx], d+1) {
			return false
		}
	}
	return true
}

// c06ClosureCalls: the calls of the closure value mc (directly, or through the single-assignment local holding it);
// ok=false when the value is used in any other way.
func c06ClosureCalls(mc *ssa.MakeClosure) ([]*ssa.CallCommon, bool) {
	var out []*ssa.CallCommon
	var uses func(v ssa.Value) bool
	uses = func(v ssa.Value) bool {
		for _, ref := range *v.Referrers() {
			switch r := ref.(type) {
			case *ssa.DebugRef:
			case *ssa.Go:
				return false
			case ssa.CallInstruction:
				if r.Common().Value != v {
					return false // passed on as an argument
				}
				out = append(out, r.Common())
			case *ssa.Store:
				al, ok := r.Addr.(*ssa.Alloc)
				if !ok || r.Val != v || an.UniqueStore(al) == nil {
					return false
				}
				for _, ar := range *al.Referrers() {
					switch a := ar.(type) {
					case *ssa.Store, *ssa.DebugRef:
					case *ssa.UnOp:
						if !uses(a) {
							return false
						}
					case *ssa.MakeClosure:
						// captured by an inner literal: its loads there
						lit, _ := a.Fn.(*ssa.Function)
						for i, b := range a.Bindings {
							if b != ssa.Value(al) || lit == nil || i >= len(lit.FreeVars) {
								continue
							}
							for _, fr := range *lit.FreeVars[i].Referrers() {
								ld, ok := fr.(*ssa.UnOp)
								if !ok || !uses(ld) {
									return false
								}
							}
						}
					default:
						return false
					}
				}
			default:
				return false
			}
		}
		return true
	}
	if !uses(mc) {
		return nil, false
	}
	return out, true
}

// dynamic: the functions a call through a non-static callee value may run (one of them runs); ok=false when the
// callee is static, not a function value of this package, or cannot be resolved.
func (m *c06Model) dynamic(in ssa.Instruction) (c06FnSet, bool) {
	ci, ok := in.(ssa.CallInstruction)
	if !ok {
		return c06FnSet{}, false
	}
	cc := ci.Common()
	if cc.IsInvoke() {
		return c06FnSet{}, false
	}
	if _, isBuiltin := cc.Value.(*ssa.Builtin); isBuiltin {
		return c06FnSet{}, false
	}
	if m.funcOf(cc.Value) != nil {
		return c06FnSet{}, false
	}
	return m.resolveFn(cc.Value)
}

// isDynamicCall: a call through a function value that is not a static function / literal / method value.
func (m *c06Model) isDynamicCall(in ssa.Instruction) bool {
	ci, ok := in.(ssa.CallInstruction)
	if !ok {
		return false
	}
	cc := ci.Common()
	if cc.IsInvoke() {
		return false
	}
	if _, isBuiltin := cc.Value.(*ssa.Builtin); isBuiltin {
		return false
	}
	return cc.StaticCallee() == nil && m.funcOf(cc.Value) == nil
}

// argFn: the single package function a function-typed value certainly denotes (static, or resolved exactly).
func (m *c06Model) argFn(a ssa.Value) *ssa.Function {
	if f := m.funcOf(a); f != nil {
		return f
	}
	if _, isSig := a.Type().Underlying().(*types.Signature); !isSig {
		return nil
	}
	if set, ok := m.resolveFn(a); ok && set.exact && len(set.fns) == 1 {
		return set.fns[0]
	}
	return nil
}

// mayDuring: during(in) plus the functions that may (but need not) run: the candidates of a call through a function
// value and of function-typed arguments that only resolve to a set. For may-summaries (may insert / may delete /
// may leave queries unresolved), never for "certainly runs".
func (m *c06Model) mayDuring(in ssa.Instruction) []*ssa.Function {
	out := m.during(in)
	ci, ok := in.(ssa.CallInstruction)
	if !ok {
		return out
	}
	if _, isGo := in.(*ssa.Go); isGo {
		return out
	}
	add := func(f *ssa.Function) {
		for _, g := range out {
			if g == f {
				return
			}
		}
		out = append(out, f)
	}
	if set, ok := m.dynamic(in); ok {
		for _, f := range set.fns {
			add(f)
		}
	}
	for _, a := range ci.Common().Args {
		if _, isSig := a.Type().Underlying().(*types.Signature); !isSig || m.funcOf(a) != nil {
			continue
		}
		if set, ok := m.resolveFn(a); ok {
			for _, f := range set.fns {
				add(f)
			}
		}
	}
	return out
}

// carried: a is the result of a call `h(f, ...)` of a package function that returns a function literal (an adapter:
// `ignoreKey(db.storeX)`): the function-typed arguments of that call are captured by the returned literal and run
// when it runs.
func (m *c06Model) carried(a ssa.Value) []*ssa.Function {
	call, ok := an.Resolve(a).(*ssa.Call)
	if !ok {
		return nil
	}
	h := call.Call.StaticCallee()
	if h == nil || !m.inPkg(h) || h.Blocks == nil {
		return nil
	}
	if _, isSig := call.Type().Underlying().(*types.Signature); !isSig {
		return nil
	}
	var out []*ssa.Function
	for _, x := range call.Call.Args {
		if _, isSig := x.Type().Underlying().(*types.Signature); !isSig {
			continue
		}
		if f := m.argFn(x); f != nil && m.inPkg(f) && f.Blocks != nil {
			out = append(out, f)
		}
	}
	return out
}
