package rules

import (
	"go/token"
	"go/types"
	"sort"

	"golang.org/x/tools/go/ssa"

	"charonverif/internal/an"
)

// c02PkgFuncs is an.PkgFuncs plus the methods declared on generic types of the package (which the method-set walk
// of an.PkgFuncs cannot see: ssa.Program.MethodValue answers nil for methods of generic types), with their literals.
var c02PkgFuncsMemo = map[*ssa.Package][]*ssa.Function{}

func c02PkgFuncs(pkg *ssa.Package) []*ssa.Function {
	if pkg == nil {
		return nil
	}
	if v, ok := c02PkgFuncsMemo[pkg]; ok {
		return v
	}
	out := an.PkgFuncs(pkg)
	seen := map[*ssa.Function]bool{}
	for _, f := range out {
		seen[f] = true
	}
	var names []string
	for n := range pkg.Members {
		names = append(names, n)
	}
	sort.Strings(names)
	for _, n := range names {
		t, ok := pkg.Members[n].(*ssa.Type)
		if !ok {
			continue
		}
		named, ok := t.Type().(*types.Named)
		if !ok {
			continue
		}
		for i := 0; i < named.NumMethods(); i++ {
			f := pkg.Prog.FuncValue(named.Method(i))
			if f == nil || f.Blocks == nil || f.Synthetic != "" {
				continue
			}
			for _, g := range an.Closure(f) {
				if !seen[g] {
					seen[g] = true
					out = append(out, g)
				}
			}
		}
	}
	c02PkgFuncsMemo[pkg] = out
	return out
}

// ---------------------------------------------------------------------------------------------
// Loops over a slice, whatever their spelling: `for _, e := range xs`, `for i := 0; i < len(xs); i++`,
// `for i := 0; ok && i < n; i++` (n := len(xs)), `for i := range xs` ... The handle is the index-bound test: a branch
// inside the loop on `idx < len(xs)` (any operand order / polarity) whose out-of-range edge leaves the loop, idx being an
// induction variable of the loop header.

type c02Bound struct {
	iff     *ssa.If
	cmp     *ssa.BinOp
	inRange int      // successor of iff taken while elements remain
	phi     *ssa.Phi // induction variable
	start   int64    // 0: idx is the phi (three-clause form); -1: idx is phi+1 (go/ssa range form)
	coll    ssa.Value
}

var c02BoundMemo = map[*ssa.BasicBlock]*c02Bound{}
var c02BoundDone = map[*ssa.BasicBlock]bool{}

func c02LoopBound(l *an.Loop) *c02Bound {
	if c02BoundDone[l.Header] {
		return c02BoundMemo[l.Header]
	}
	c02BoundDone[l.Header] = true
	lenArg := func(v ssa.Value) ssa.Value {
		call, ok := v.(*ssa.Call)
		if !ok {
			return nil
		}
		if b, ok := call.Call.Value.(*ssa.Builtin); ok && b.Name() == "len" && len(call.Call.Args) == 1 {
			if _, isMap := call.Call.Args[0].Type().Underlying().(*types.Map); !isMap {
				return call.Call.Args[0]
			}
		}
		return nil
	}
	induction := func(v ssa.Value) (*ssa.Phi, int64, bool) {
		switch y := v.(type) {
		case *ssa.Phi:
			if y.Block() == l.Header {
				return y, 0, true
			}
		case *ssa.BinOp:
			if p, ok := y.X.(*ssa.Phi); ok && y.Op == token.ADD && p.Block() == l.Header && l.Body[y.Block()] {
				if k, ok := an.ConstInt(y.Y); ok && k == 1 {
					return p, -1, true
				}
			}
		}
		return nil, 0, false
	}
	var best *c02Bound
	for _, b := range l.Header.Parent().Blocks {
		if !l.Body[b] || len(b.Instrs) == 0 {
			continue
		}
		iff, ok := b.Instrs[len(b.Instrs)-1].(*ssa.If)
		if !ok {
			continue
		}
		cond := iff.Cond
		neg := false
		for {
			u, ok := cond.(*ssa.UnOp)
			if !ok || u.Op != token.NOT {
				break
			}
			cond, neg = u.X, !neg
		}
		bin, ok := cond.(*ssa.BinOp)
		if !ok {
			continue
		}
		x, y, op := bin.X, bin.Y, bin.Op
		coll := lenArg(y)
		if coll == nil {
			coll = lenArg(x)
			x, y, op = y, x, c02Flip(op)
		}
		if coll == nil {
			continue
		}
		phi, start, ok := induction(x)
		if !ok {
			continue
		}
		var inRange int
		switch op {
		case token.LSS, token.NEQ:
			inRange = 0
		case token.GEQ, token.EQL:
			inRange = 1
		default:
			continue
		}
		if neg {
			inRange = 1 - inRange
		}
		if l.Body[b.Succs[1-inRange]] || !l.Body[b.Succs[inRange]] {
			continue // not the loop's bound: the out-of-range edge must leave the loop
		}
		cand := &c02Bound{iff: iff, cmp: bin, inRange: inRange, phi: phi, start: start, coll: coll}
		if best == nil || b == l.Header {
			best = cand
		}
	}
	c02BoundMemo[l.Header] = best
	return best
}

// c02RangeColl: the collection the loop runs over (slice loops by their bound test, map/channel ranges by the
// Range operand).
func c02RangeColl(l *an.Loop) ssa.Value {
	for _, in := range l.Header.Instrs {
		if x, ok := in.(*ssa.Next); ok {
			if r, ok := x.Iter.(*ssa.Range); ok {
				return r.X
			}
		}
	}
	if b := c02LoopBound(l); b != nil {
		return b.coll
	}
	return nil
}

func c02IsIndexVar(l *an.Loop, v ssa.Value) bool {
	v = an.Unwrap(v)
	if p, ok := v.(*ssa.Phi); ok {
		return p.Block() == l.Header
	}
	if b, ok := v.(*ssa.BinOp); ok && b.Op == token.ADD && l.Body[b.Block()] {
		if p, ok := b.X.(*ssa.Phi); ok && p.Block() == l.Header {
			if k, ok := an.ConstInt(b.Y); ok && k == 1 {
				return true
			}
		}
	}
	return false
}

// c02ElemOf: v is (derived by load / field selection / extraction from) the element the loop is currently visiting.
func c02ElemOf(l *an.Loop, v ssa.Value) bool {
	coll := c02RangeColl(l)
	if coll == nil {
		return false
	}
	for i := 0; i < 24; i++ {
		v = an.Unwrap(v)
		switch x := v.(type) {
		case *ssa.UnOp:
			if x.Op != token.MUL {
				return false
			}
			v = x.X
		case *ssa.FieldAddr:
			v = x.X
		case *ssa.Field:
			v = x.X
		case *ssa.IndexAddr:
			return l.Body[x.Block()] && an.Equiv(x.X, coll) && c02IsIndexVar(l, x.Index)
		case *ssa.Index:
			return l.Body[x.Block()] && an.Equiv(x.X, coll) && c02IsIndexVar(l, x.Index)
		case *ssa.Extract:
			if n, ok := x.Tuple.(*ssa.Next); ok {
				if r, ok := n.Iter.(*ssa.Range); ok {
					return l.Body[n.Block()] && an.Equiv(r.X, coll)
				}
				return false
			}
			v = x.Tuple
		case *ssa.Alloc:
			src := an.UniqueStore(x)
			if src == nil {
				return false
			}
			v = src
		default:
			return false
		}
	}
	return false
}
