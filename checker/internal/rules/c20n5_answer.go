package rules

import (
	"fmt"
	"go/token"
	"go/types"
	"strings"

	"golang.org/x/tools/go/ssa"

	"charonverif/internal/an"
	"charonverif/internal/rt"
)

// C20-Z7: what the three cache entry points hand back.
//
//   (a) a failed beacon request is reported: on the edge on which the request for the indices that are not cached
//       returned an error, no return with a nil error is reachable (before another request is made). A partial hit
//       that degrades to "the cached part, nil" is not what the beacon node answers for the request, and the caller
//       (scheduler) never retries.
//   (b) every duty in a successful answer is either part of the response of this call's own beacon request or a
//       cached duty whose append to the answer is confined, per element, to "its validator index is a member of the
//       set of indices this caller asked for". Cached lists (what fetch*/storeOrAmend* return, the state maps) hold
//       the duties of every index any caller ever asked for in the epoch; handing such a list on unfiltered answers
//       a request for {x} with the duties of x, y, z.
//
// Both are decided on values and on reachability under valuations (path walker), following in-package helpers.

// c20ErrOf returns the error result of a call (the value itself, or the extract of the last tuple member).
func c20ErrOf(call ssa.CallInstruction) ssa.Value {
	v := call.Value()
	if v == nil {
		return nil
	}
	isErr := func(t types.Type) bool { return types.Identical(t, types.Universe.Lookup("error").Type()) }
	if tup, ok := v.Type().(*types.Tuple); ok {
		n := tup.Len()
		if n == 0 || !isErr(tup.At(n-1).Type()) {
			return nil
		}
		for _, ref := range *v.Referrers() {
			if ex, ok := ref.(*ssa.Extract); ok && ex.Index == n-1 {
				return ex
			}
		}
		return nil
	}
	if isErr(v.Type()) {
		return v
	}
	return nil
}

// c20FailureOutcomes walks fn from behind call under "the error result of call is not nil" and reports the kinds of
// returns that can be reached: "success" (the error result handed back is the nil constant), "error", "again"
// (another fallible request is made first), "?..." (not followed).
func c20FailureOutcomes(fn *ssa.Function, call ssa.CallInstruction, errv ssa.Value) (map[string]bool, token.Pos) {
	var at token.Pos
	w := &c19Walker{val: []bool{true}}
	w.atom = func(w *c19Walker, v ssa.Value) (int, bool, bool) {
		x, neg, ok := c19NilCmp(v)
		if !ok {
			return 0, false, false
		}
		if an.Unwrap(x) == errv || c19Only(x, errv) || w.res(x) == errv {
			// atom 0 is "err != nil"
			return 0, !neg, true
		}
		return 0, false, false
	}
	w.stop = func(b *ssa.BasicBlock, _ *c19Walker) (string, bool) {
		for _, in := range b.Instrs {
			ci, ok := in.(ssa.CallInstruction)
			if !ok || ci == call || !ci.Common().IsInvoke() {
				continue
			}
			if _, isCall := in.(*ssa.Call); isCall && c20ErrOf(ci) != nil {
				return "again", true
			}
		}
		return "", false
	}
	w.ret = func(r *ssa.Return, w *c19Walker) string {
		vals := c20RetVals(r)
		if len(vals) == 0 {
			return "?return without results"
		}
		ev := vals[len(vals)-1]
		if !types.Identical(ev.Type(), types.Universe.Lookup("error").Type()) {
			return "?return without an error result"
		}
		rv := w.res(ev)
		if rv == nil {
			rv = ev
		}
		if an.IsNilConst(rv) {
			at = posOf(r)
			return "success"
		}
		return "error"
	}
	w.run(call.Block(), nil)
	return w.out, at
}

// c20BeaconSite resolves the beacon request of the entry point: the call inside fn behind which failure is decided
// (the request itself, or the call of the in-package helper that makes it), plus the helpers in between.
type c20BeaconSite struct {
	fn   *ssa.Function
	call ssa.CallInstruction
}

func c20BeaconChain(fn *ssa.Function, role c20Role) ([]c20BeaconSite, string) {
	m := an.Invoke(c20Pkg + ".Client." + role.beacon)
	var chain []c20BeaconSite
	cur := fn
	for depth := 0; depth < 3; depth++ {
		if cs := an.Calls(cur, m, false); len(cs) == 1 {
			return append(chain, c20BeaconSite{cur, cs[0]}), ""
		} else if len(cs) > 1 {
			return nil, fmt.Sprintf("%d requests for %s in %s", len(cs), role.beacon, an.FuncName(cur))
		}
		// exactly one in-package callee that (transitively) makes the request
		var next []ssa.CallInstruction
		for _, ci := range an.Calls(cur, func(cc *ssa.CallCommon) bool { return !cc.IsInvoke() && cc.StaticCallee() != nil }, false) {
			h := an.Orig(ci.Common().StaticCallee())
			if h == nil || h.Pkg != fn.Pkg || len(h.Blocks) == 0 {
				continue
			}
			for _, g := range c20Reachable([]*ssa.Function{h}) {
				if len(an.Calls(g, m, false)) > 0 {
					next = append(next, ci)
					break
				}
			}
		}
		if len(next) != 1 {
			return nil, fmt.Sprintf("the request for %s is not made in %s nor in exactly one function it calls directly", role.beacon, an.FuncName(cur))
		}
		chain = append(chain, c20BeaconSite{cur, next[0]})
		cur = an.Orig(next[0].Common().StaticCallee())
	}
	return nil, "the request for " + role.beacon + " is more than two calls away from the entry point"
}

func c20FailedFetch(c *rt.Ctx, role c20Role) {
	fn := c20Fn(c, role.entry)
	cons := role.entry + " failed beacon request is reported"
	chain, why := c20BeaconChain(fn, role)
	if chain == nil {
		c.Unsure(cons, fn.Pos(), why)
		return
	}
	for _, s := range chain {
		errv := c20ErrOf(s.call)
		if errv == nil {
			if _, isCall := s.call.(*ssa.Call); !isCall {
				c.Unsure(cons, s.call.Pos(), "the request is started with go/defer")
			} else if s.call.Common().IsInvoke() {
				c.Bad(cons, s.call.Pos(), "the error of the beacon request is discarded")
			} else {
				c.Unsure(cons, s.call.Pos(), an.FuncName(s.fn)+": the helper that asks the beacon node has no error result that is followed")
			}
			return
		}
		out, at := c20FailureOutcomes(s.fn, s.call, errv)
		if out["success"] {
			c.Bad(cons, at, an.FuncName(s.fn)+": a return with a nil error is reachable although the beacon request for the indices that are not cached failed: "+
				"the caller receives (at most) the cached part as if it were the beacon node's answer and does not retry")
			return
		}
		if u := c20Budget(out); u != "" {
			c.Unsure(cons, s.call.Pos(), u)
			return
		}
	}
	c.Good(cons, chain[0].call.Pos(), "")
}

// ---------------------------------------------------------------------------------------------
// (b) provenance of the elements of the answer

type c20AnsFrame struct {
	fn     *ssa.Function
	parent *c20AnsFrame
	params map[*ssa.Parameter]ssa.Value // parameter -> argument in the parent frame
}

type c20Answer struct {
	c       *rt.Ctx
	role    c20Role
	entry   *ssa.Function
	beacon  *ssa.Function // the function holding the request (entry or helper)
	seen    map[string]bool
	bads    []string
	badPos  token.Pos
	unsures []string
	sites   int // element-wise appends of cached duties that are confined to the requested indices
	fetched int // contributions of the beacon response
	viT     types.Type
}

func (a *c20Answer) bad(pos token.Pos, s string) {
	if len(a.bads) == 0 {
		a.badPos = pos
	}
	a.bads = append(a.bads, s)
}
func (a *c20Answer) unsure(s string) { a.unsures = append(a.unsures, s) }

type c20Src int

const (
	c20SrcUnknown c20Src = iota
	c20SrcFetched        // the response of the beacon request
	c20SrcCached         // cache storage / what the cache helpers return
	c20SrcCaller         // arguments of the caller (index lists)
	c20SrcFresh          // made here, empty
)

// stateOrBeacon: does h (with what it reaches inside the package) read the duties kept by the cache / ask the
// beacon node?
func (a *c20Answer) stateOrBeacon(h *ssa.Function) (state, beacon bool) {
	for _, g := range c20Reachable([]*ssa.Function{h}) {
		for _, in := range an.Instrs(g, false) {
			switch x := in.(type) {
			case *ssa.FieldAddr:
				if a.isStateField(x.X.Type(), x.Field) {
					state = true
				}
			case *ssa.Field:
				if a.isStateField(x.X.Type(), x.Field) {
					state = true
				}
			case ssa.CallInstruction:
				if x.Common().IsInvoke() && strings.HasSuffix(an.CalleeName(x.Common()), "."+a.role.beacon) {
					beacon = true
				}
			}
		}
	}
	return
}

// isStateField: field i of t is the duties map of one of the per-role stores.
func (a *c20Answer) isStateField(t types.Type, i int) bool {
	k := an.FieldKey(t, i)
	return strings.HasPrefix(k, c20Pkg+".") && (strings.HasSuffix(k, "Duties.duties") || strings.HasSuffix(k, "Duties.requestedIdxs"))
}

// isActiveField: field i of t is the list of all active validator indices (the request set of a caller that names none).
func (a *c20Answer) isActiveField(t types.Type, i int) bool {
	return an.FieldKey(t, i) == c20Pkg+".ValIdxs.valIdxs"
}

// classify decides where list v (a value of frame fr) comes from.
func (a *c20Answer) classify(v ssa.Value, fr *c20AnsFrame, d int) (c20Src, string) {
	if d > 24 || v == nil {
		return c20SrcUnknown, "too deep"
	}
	v = an.Unwrap(v)
	switch x := v.(type) {
	case *ssa.Const:
		return c20SrcFresh, ""
	case *ssa.MakeSlice:
		return c20SrcFresh, ""
	case *ssa.Field:
		if a.isStateField(x.X.Type(), x.Field) {
			return c20SrcCached, ""
		}
		if a.isActiveField(x.X.Type(), x.Field) {
			return c20SrcCaller, ""
		}
		return a.classify(x.X, fr, d+1)
	case *ssa.FieldAddr:
		if a.isStateField(x.X.Type(), x.Field) {
			return c20SrcCached, ""
		}
		if a.isActiveField(x.X.Type(), x.Field) {
			return c20SrcCaller, ""
		}
		return a.classify(x.X, fr, d+1)
	case *ssa.IndexAddr:
		return a.classify(x.X, fr, d+1)
	case *ssa.Index:
		return a.classify(x.X, fr, d+1)
	case *ssa.Lookup:
		return a.classify(x.X, fr, d+1)
	case *ssa.Slice:
		return a.classify(x.X, fr, d+1)
	case *ssa.Phi:
		res := c20SrcFresh
		for _, e := range x.Edges {
			k, why := a.classify(e, fr, d+1)
			switch {
			case k == c20SrcFresh:
			case res == c20SrcFresh:
				res = k
			case res != k:
				return c20SrcUnknown, "list with several origins"
			}
			if k == c20SrcUnknown {
				return k, why
			}
		}
		return res, ""
	case *ssa.UnOp:
		if x.Op != token.MUL {
			return c20SrcUnknown, "operator"
		}
		if al, ok := c19Cell(x.X).(*ssa.Alloc); ok {
			st := c19StoresTo(al, 0)
			if len(st) == 0 {
				// a struct kept in a local: field stores are looked at through FieldAddr above
				return c20SrcUnknown, "local without a followed assignment"
			}
			res := c20SrcFresh
			for _, sv := range st {
				k, why := a.classify(sv, fr, d+1)
				switch {
				case k == c20SrcUnknown:
					return k, why
				case k == c20SrcFresh:
				case res == c20SrcFresh:
					res = k
				case res != k:
					return c20SrcUnknown, "local with several origins"
				}
			}
			return res, ""
		}
		if fa, ok := x.X.(*ssa.FieldAddr); ok {
			if a.isStateField(fa.X.Type(), fa.Field) {
				return c20SrcCached, ""
			}
			if a.isActiveField(fa.X.Type(), fa.Field) {
				return c20SrcCaller, ""
			}
			// field of a struct kept in a local: the value the local was assigned
			if al, ok := fa.X.(*ssa.Alloc); ok {
				if src := an.UniqueStore(al); src != nil {
					return a.classify(src, fr, d+1)
				}
				if fv := c20FieldStore(al, c20FieldName(fa.X.Type(), fa.Field)); fv != nil {
					return a.classify(fv, fr, d+1)
				}
				return c20SrcUnknown, "struct local with several assignments"
			}
			return a.classify(fa.X, fr, d+1)
		}
		return a.classify(x.X, fr, d+1)
	case *ssa.Alloc:
		if src := an.UniqueStore(x); src != nil {
			return a.classify(src, fr, d+1)
		}
		return c20SrcUnknown, "local with several assignments"
	case *ssa.Extract:
		if call, ok := x.Tuple.(*ssa.Call); ok {
			return a.classifyCall(call, x.Index, fr, d)
		}
		if lk, ok := x.Tuple.(*ssa.Lookup); ok {
			return a.classify(lk.X, fr, d+1)
		}
		if nx, ok := x.Tuple.(*ssa.Next); ok {
			if r, ok := nx.Iter.(*ssa.Range); ok {
				return a.classify(r.X, fr, d+1)
			}
		}
		return c20SrcUnknown, "tuple"
	case *ssa.Call:
		if sc := x.Call.StaticCallee(); sc != nil && (an.FuncName(sc) == "slices.Clone" || an.FuncName(sc) == "slices.Clip") && len(x.Call.Args) == 1 {
			return a.classify(x.Call.Args[0], fr, d+1)
		}
		return a.classifyCall(x, 0, fr, d)
	case *ssa.Parameter:
		if fr != nil && fr.parent != nil {
			if arg, ok := fr.params[x]; ok {
				return a.classify(arg, fr.parent, d+1)
			}
			return c20SrcUnknown, "parameter of a helper that is not bound"
		}
		if len(a.entry.Params) > 0 && x == a.entry.Params[0] {
			return c20SrcUnknown, "the cache itself"
		}
		return c20SrcCaller, ""
	case *ssa.FreeVar:
		if b := c19Binding(x); b != nil {
			return a.classify(b, fr, d+1)
		}
		return c20SrcUnknown, "captured variable"
	}
	return c20SrcUnknown, fmt.Sprintf("%T", v)
}

func (a *c20Answer) classifyCall(call *ssa.Call, idx int, fr *c20AnsFrame, d int) (c20Src, string) {
	if call.Call.IsInvoke() {
		if strings.HasSuffix(an.CalleeName(&call.Call), "."+a.role.beacon) {
			return c20SrcFetched, ""
		}
		return c20SrcUnknown, "result of " + an.CalleeName(&call.Call)
	}
	h := an.Orig(call.Call.StaticCallee())
	if h == nil || h.Pkg != a.entry.Pkg || len(h.Blocks) == 0 {
		return c20SrcUnknown, "result of " + an.CalleeName(&call.Call)
	}
	st, bc := a.stateOrBeacon(h)
	switch {
	case st && !bc:
		return c20SrcCached, ""
	case bc && !st:
		return c20SrcFetched, ""
	case !bc && !st && len(h.Params) == len(call.Call.Args) && d < 16:
		// a helper that touches neither: what it returns is decided from its body
		nf := &c20AnsFrame{fn: h, parent: fr, params: map[*ssa.Parameter]ssa.Value{}}
		for i, p := range h.Params {
			nf.params[p] = call.Call.Args[i]
		}
		res := c20SrcFresh
		for _, r := range an.Returns(h) {
			vals := c20RetVals(r)
			if idx >= len(vals) {
				continue
			}
			k, why := a.classify(vals[idx], nf, d+4)
			switch {
			case k == c20SrcUnknown:
				return k, why
			case k == c20SrcFresh:
			case res == c20SrcFresh:
				res = k
			case res != k:
				return c20SrcUnknown, "result of " + an.FuncName(h) + " has several origins"
			}
		}
		return res, ""
	}
	return c20SrcUnknown, "result of " + an.FuncName(h) + ", which is not attributed to the cache or to the beacon node"
}

// setSrc decides where the keys of set v (a map used for membership tests) come from.
func (a *c20Answer) setSrc(v ssa.Value, fr *c20AnsFrame, d int) (c20Src, string) {
	if d > 12 || v == nil {
		return c20SrcUnknown, "set not followed"
	}
	merge := func(res *c20Src, k c20Src) bool {
		switch {
		case k == c20SrcFresh:
		case *res == c20SrcFresh:
			*res = k
		case *res != k:
			return false
		}
		return true
	}
	v = an.Unwrap(v)
	switch x := v.(type) {
	case *ssa.MakeMap:
		uses, uwhy := c20MapUses(x)
		if uwhy != "" {
			return c20SrcUnknown, strings.TrimPrefix(uwhy, "?")
		}
		res := c20SrcFresh
		n := 0
		for _, u := range uses {
			up, ok := u.(*ssa.MapUpdate)
			if !ok {
				continue
			}
			n++
			var k c20Src
			var why string
			var l *an.Loop
			for _, cand := range an.Loops(up.Parent()) {
				if cand.RangeColl() != nil && cand.Body[up.Block()] && c19LoopElem(cand, up.Key) && (l == nil || len(cand.Body) < len(l.Body)) {
					l = cand
				}
			}
			if l != nil {
				k, why = a.classify(l.RangeColl(), fr, 0)
			} else {
				k, why = a.classify(up.Key, fr, 0)
			}
			if k == c20SrcUnknown {
				return k, why
			}
			if !merge(&res, k) {
				return c20SrcUnknown, "set filled from lists of different origin"
			}
		}
		if n == 0 {
			return c20SrcUnknown, "set that is never filled"
		}
		return res, ""
	case *ssa.Phi:
		res := c20SrcFresh
		for _, e := range x.Edges {
			k, why := a.setSrc(e, fr, d+1)
			if k == c20SrcUnknown {
				return k, why
			}
			if !merge(&res, k) {
				return c20SrcUnknown, "set with several origins"
			}
		}
		return res, ""
	case *ssa.Const:
		return c20SrcFresh, ""
	case *ssa.UnOp:
		if x.Op == token.MUL {
			if al, ok := c19Cell(x.X).(*ssa.Alloc); ok {
				res := c20SrcFresh
				st := c19StoresTo(al, 0)
				for _, sv := range st {
					k, why := a.setSrc(sv, fr, d+1)
					if k == c20SrcUnknown {
						return k, why
					}
					if !merge(&res, k) {
						return c20SrcUnknown, "set with several origins"
					}
				}
				if len(st) > 0 {
					return res, ""
				}
			}
		}
	case *ssa.FreeVar:
		if b := c19Binding(x); b != nil {
			return a.setSrc(b, fr, d+1)
		}
	case *ssa.Alloc:
		res := c20SrcFresh
		st := c19StoresTo(x, 0)
		for _, sv := range st {
			k, why := a.setSrc(sv, fr, d+1)
			if k == c20SrcUnknown {
				return k, why
			}
			if !merge(&res, k) {
				return c20SrcUnknown, "set with several origins"
			}
		}
		if len(st) > 0 {
			return res, ""
		}
	case *ssa.Parameter:
		if fr != nil && fr.parent != nil {
			if arg, ok := fr.params[x]; ok {
				return a.setSrc(arg, fr.parent, d+1)
			}
		}
	case *ssa.Extract:
		if call, ok := x.Tuple.(*ssa.Call); ok {
			return a.setFromCall(call, x.Index, fr, d)
		}
	case *ssa.Call:
		if sc := x.Call.StaticCallee(); sc != nil && an.FuncName(sc) == "maps.Clone" && len(x.Call.Args) == 1 {
			return a.setSrc(x.Call.Args[0], fr, d+1)
		}
		return a.setFromCall(x, 0, fr, d)
	}
	return c20SrcUnknown, fmt.Sprintf("set of a form that is not followed (%T)", v)
}

func (a *c20Answer) setFromCall(call *ssa.Call, idx int, fr *c20AnsFrame, d int) (c20Src, string) {
	h := an.Orig(call.Call.StaticCallee())
	if call.Call.IsInvoke() || h == nil || h.Pkg != a.entry.Pkg || len(h.Blocks) == 0 || len(h.Params) != len(call.Call.Args) {
		return c20SrcUnknown, "set produced by " + an.CalleeName(&call.Call) + ", which is not followed"
	}
	nf := &c20AnsFrame{fn: h, parent: fr, params: map[*ssa.Parameter]ssa.Value{}}
	for i, p := range h.Params {
		nf.params[p] = call.Call.Args[i]
	}
	res := c20SrcFresh
	for _, r := range an.Returns(h) {
		vals := c20RetVals(r)
		if idx >= len(vals) {
			continue
		}
		k, why := a.setSrc(vals[idx], nf, d+2)
		switch {
		case k == c20SrcUnknown:
			return k, why
		case k == c20SrcFresh:
		case res == c20SrcFresh:
			res = k
		case res != k:
			return c20SrcUnknown, "set with several origins"
		}
	}
	return res, ""
}

// list follows a list of result elements ([]*Duty) backwards to the sites that put elements into it.
func (a *c20Answer) list(v ssa.Value, fr *c20AnsFrame, depth int) {
	if v == nil {
		return
	}
	v = an.Unwrap(v)
	key := fmt.Sprintf("%p|%p", v, fr)
	if a.seen[key] {
		return
	}
	a.seen[key] = true
	switch x := v.(type) {
	case *ssa.Const, *ssa.MakeSlice:
		return
	case *ssa.Phi:
		for _, e := range x.Edges {
			a.list(e, fr, depth)
		}
	case *ssa.Slice:
		a.list(x.X, fr, depth)
	case *ssa.UnOp:
		if x.Op == token.MUL {
			if al, ok := c19Cell(x.X).(*ssa.Alloc); ok {
				if st := c19StoresTo(al, 0); len(st) > 0 {
					for _, sv := range st {
						a.list(sv, fr, depth)
					}
					return
				}
			}
		}
		a.whole(v, fr, x.Pos())
	case *ssa.Parameter:
		if fr.parent != nil {
			if arg, ok := fr.params[x]; ok {
				a.list(arg, fr.parent, depth)
				return
			}
		}
		a.whole(v, fr, x.Pos())
	case *ssa.Extract:
		call, ok := x.Tuple.(*ssa.Call)
		if !ok {
			a.whole(v, fr, x.Pos())
			return
		}
		a.intoCall(call, x.Index, v, fr, depth)
	case *ssa.Call:
		if bi, ok := x.Call.Value.(*ssa.Builtin); ok {
			if bi.Name() != "append" || len(x.Call.Args) == 0 {
				a.unsure("the answer is built by " + bi.Name())
				return
			}
			a.list(x.Call.Args[0], fr, depth)
			if len(x.Call.Args) < 2 {
				return
			}
			if elems := appendedElems(x); elems != nil {
				for _, e := range elems {
					a.elem(x, e, fr)
				}
				return
			}
			a.list(x.Call.Args[1], fr, depth)
			return
		}
		if sc := x.Call.StaticCallee(); sc != nil && (an.FuncName(sc) == "slices.Clone" || an.FuncName(sc) == "slices.Clip") && len(x.Call.Args) == 1 {
			a.list(x.Call.Args[0], fr, depth)
			return
		}
		a.intoCall(x, 0, v, fr, depth)
	default:
		a.whole(v, fr, v.Pos())
	}
}

// intoCall: the list is result idx of call; an in-package helper is followed, anything else is a list taken whole.
func (a *c20Answer) intoCall(call *ssa.Call, idx int, v ssa.Value, fr *c20AnsFrame, depth int) {
	h := an.Orig(call.Call.StaticCallee())
	if call.Call.IsInvoke() || h == nil || h.Pkg != a.entry.Pkg || len(h.Blocks) == 0 || depth >= 3 || len(h.Params) != len(call.Call.Args) {
		a.whole(v, fr, call.Pos())
		return
	}
	nf := &c20AnsFrame{fn: h, parent: fr, params: map[*ssa.Parameter]ssa.Value{}}
	for i, p := range h.Params {
		nf.params[p] = call.Call.Args[i]
	}
	for _, r := range an.Returns(h) {
		if vals := c20RetVals(r); idx < len(vals) {
			a.list(vals[idx], nf, depth+1)
		}
	}
}

// whole: a list that becomes (part of) the answer as it is.
func (a *c20Answer) whole(v ssa.Value, fr *c20AnsFrame, pos token.Pos) {
	k, why := a.classify(v, fr, 0)
	switch k {
	case c20SrcFetched:
		a.fetched++
	case c20SrcFresh:
	case c20SrcCached:
		a.bad(pos, "a list of cached duties is handed back as a whole: it holds the duties of every validator index ever requested for the epoch, not those of the indices this caller asked for")
	default:
		a.unsure("part of the answer comes from a list that is not followed (" + why + ")")
	}
}

// elem: element e is appended to the answer at ap.
func (a *c20Answer) elem(ap *ssa.Call, e ssa.Value, fr *c20AnsFrame) {
	f := ap.Parent()
	// the loop whose current element e denotes (a pointer to a per-iteration copy, or into the scanned list)
	var l *an.Loop
	for _, cand := range an.Loops(f) {
		if cand.RangeColl() == nil || !cand.Body[ap.Block()] {
			continue
		}
		if a.holdsLoopElem(cand, e) && (l == nil || len(cand.Body) < len(l.Body)) {
			l = cand
		}
	}
	if l == nil {
		// a single duty: where is it from?
		k, why := a.classify(e, fr, 0)
		switch k {
		case c20SrcFetched:
			a.fetched++
		case c20SrcCached:
			a.bad(ap.Pos(), "a cached duty is added to the answer without a test of its validator index against the requested indices")
		default:
			a.unsure("a duty is added to the answer whose origin is not followed (" + why + ")")
		}
		return
	}
	k, why := a.classify(l.RangeColl(), fr, 0)
	switch k {
	case c20SrcFetched:
		a.fetched++
		return
	case c20SrcCached:
	default:
		a.unsure("duties are added to the answer from a scanned list that is not followed (" + why + ")")
		return
	}
	// cached duties, one by one: the append must be confined to members of the requested set
	isVI := func(v ssa.Value) bool {
		if v == nil {
			return false
		}
		v = an.Unwrap(v)
		return types.Identical(v.Type(), a.viT) && c19LoopElem(l, v)
	}
	var reps []ssa.Value
	for _, in := range an.Instrs(f, false) {
		if !l.Body[in.Block()] {
			continue
		}
		if v, ok := in.(ssa.Value); ok && isVI(v) {
			reps = append(reps, v)
		}
	}
	var ms []c20Membership
	seenCond := map[ssa.Value]bool{}
	for _, rep := range reps {
		for _, mb := range c20Memberships(f, l, rep) {
			if !seenCond[mb.cond] {
				seenCond[mb.cond] = true
				ms = append(ms, mb)
			}
		}
	}
	// an element handed to a call that is not followed: no evidence
	opaque := ""
	for _, in := range an.Instrs(f, false) {
		call, isCall := in.(*ssa.Call)
		if !isCall || !l.Body[in.Block()] || seenCond[call] {
			continue
		}
		if _, isB := call.Call.Value.(*ssa.Builtin); isB {
			continue
		}
		if sc := call.Call.StaticCallee(); sc != nil && (an.FuncName(sc) == "slices.Clone" || an.FuncName(sc) == "slices.Contains" || an.FuncName(sc) == "slices.Index") {
			continue
		}
		for _, arg := range call.Call.Args {
			if isVI(arg) || (c19LoopElem(l, arg) && !types.Identical(arg.Type(), a.viT)) || a.holdsLoopElem(l, arg) {
				if !types.Identical(call.Type().Underlying(), types.Typ[types.Bool]) {
					continue // not a test
				}
				opaque = "the cached duty is handed to " + an.CalleeName(&call.Call) + ", which is not followed as a membership test"
			}
		}
	}
	good := false
	var note string
	for _, mb := range ms {
		at := func(present bool) func(ssa.Value) (bool, bool) {
			return func(v ssa.Value) (bool, bool) {
				if v == mb.cond {
					return present == mb.present, true
				}
				return false, false
			}
		}
		whenIn, u1 := c20IterReach(l, ap.Block(), at(true))
		whenOut, u2 := c20IterReach(l, ap.Block(), at(false))
		switch {
		case u1 || u2:
			note = "?the membership test of the duty's validator index is merged with other conditions in a form that is not evaluated"
			continue
		case whenOut:
			continue // does not keep the append from running
		case !whenIn:
			note = "?the append is not reached in an iteration although the validator index is a member"
			continue
		}
		var sk c20Src
		var swhy string
		if lk := c20LookupOf(mb.cond); lk != nil {
			sk, swhy = a.setSrc(lk.X, fr, 0)
		} else if mb.why != "" {
			note = mb.why
			continue
		} else {
			sk, swhy = a.classify(mb.source, fr, 0)
		}
		// the set may be built inside the helper from a parameter: c20FilledFrom reports it in the frame of f
		switch sk {
		case c20SrcCaller:
			good = true
		case c20SrcCached:
			note = "cached duties are filtered by the indices recorded for the epoch (requested by any caller), not by the indices this caller asked for"
		default:
			note = "?the set the duty's validator index is looked up in is not followed to the requested indices (" + swhy + ")"
		}
	}
	switch {
	case good:
		a.sites++
	case strings.HasPrefix(note, "?"):
		a.unsure(note[1:])
	case note != "":
		a.bad(ap.Pos(), note)
	case opaque != "":
		a.unsure(opaque)
	default:
		a.bad(ap.Pos(), "cached duties are added to the answer without a test of their validator index against the indices this caller asked for: "+
			"the cached list holds the duties of every index ever requested for the epoch")
	}
}

// c20LookupOf: cond is the ok of a comma-ok map lookup.
func c20LookupOf(cond ssa.Value) *ssa.Lookup {
	if ex, ok := cond.(*ssa.Extract); ok && ex.Index == 1 {
		if lk, ok := ex.Tuple.(*ssa.Lookup); ok {
			return lk
		}
	}
	return nil
}

// holdsLoopElem: e is the current element of l, a pointer to it, or a pointer to a local that holds (a copy of) it.
func (a *c20Answer) holdsLoopElem(l *an.Loop, e ssa.Value) bool {
	e = an.Unwrap(e)
	if c19LoopElem(l, e) {
		return true
	}
	switch x := e.(type) {
	case *ssa.Alloc:
		st := c19StoresTo(x, 0)
		if len(st) == 0 {
			return false
		}
		for _, sv := range st {
			if !l.Body[x.Block()] && !c19LoopElem(l, sv) {
				return false
			}
			if !c19LoopElem(l, sv) && !a.copyOfLoopElem(l, sv, 0) {
				return false
			}
		}
		return true
	case *ssa.IndexAddr:
		return l.ElemOf(x)
	case *ssa.Phi:
		for _, ed := range x.Edges {
			if !a.holdsLoopElem(l, ed) {
				return false
			}
		}
		return len(x.Edges) > 0
	}
	return false
}

// copyOfLoopElem: v is computed from the current element only (a copy made by a call, a struct rebuilt from it).
func (a *c20Answer) copyOfLoopElem(l *an.Loop, v ssa.Value, d int) bool {
	if d > 4 {
		return false
	}
	v = an.Unwrap(v)
	if c19LoopElem(l, v) {
		return true
	}
	switch x := v.(type) {
	case *ssa.Call:
		if x.Call.IsInvoke() || len(x.Call.Args) == 0 {
			return false
		}
		any := false
		for _, arg := range x.Call.Args {
			if c19LoopElem(l, arg) || a.holdsLoopElem(l, arg) {
				any = true
			}
		}
		return any
	case *ssa.UnOp:
		if x.Op == token.MUL {
			if al, ok := x.X.(*ssa.Alloc); ok {
				return a.holdsLoopElem(l, al)
			}
		}
	}
	return false
}

func c20AnswerElems(c *rt.Ctx, role c20Role) {
	fn := c20Fn(c, role.entry)
	cons := role.entry + " answer holds only duties of the requested indices"
	a := &c20Answer{c: c, role: role, entry: fn, seen: map[string]bool{}}
	// the validator index type: element type of the index list parameter
	for _, p := range fn.Params {
		if sl, ok := p.Type().Underlying().(*types.Slice); ok {
			a.viT = sl.Elem()
		}
	}
	if a.viT == nil {
		c.Unsure(cons, fn.Pos(), "the entry point has no index list parameter")
		return
	}
	top := &c20AnsFrame{fn: fn}
	n := 0
	for _, r := range an.Returns(fn) {
		vals := c20RetVals(r)
		if len(vals) != 2 || !an.IsNilConst(vals[1]) {
			// a return handing on an error variable: it may be nil, the answer counts if it is not the zero value
			if len(vals) != 2 {
				continue
			}
			if k, isC := vals[1].(*ssa.Const); isC && k.Value != nil {
				continue
			}
			if call, isCall := vals[1].(*ssa.Call); isCall && (c19ErrFn(call, "New") || an.Static("fmt.Errorf")(&call.Call)) {
				continue
			}
		}
		if k, isC := vals[0].(*ssa.Const); isC && k.Value == nil {
			continue
		}
		dv := a.dutiesOf(vals[0], 0)
		if dv == nil {
			continue
		}
		for _, v := range dv {
			n++
			a.list(v, top, 0)
		}
	}
	switch {
	case len(a.bads) > 0:
		c.Bad(cons, a.badPos, a.bads[0])
	case len(a.unsures) > 0:
		c.Unsure(cons, fn.Pos(), a.unsures[0])
	case n == 0:
		c.Unsure(cons, fn.Pos(), "no return whose Duties are followed")
	case a.sites == 0 && a.fetched == 0:
		c.Unsure(cons, fn.Pos(), "no element of the answer is followed to the cache or to the beacon response")
	default:
		c.Good(cons, fn.Pos(), "")
	}
}

// dutiesOf returns the values stored into the Duties field of the answer struct v (nil: zero value / none).
func (a *c20Answer) dutiesOf(v ssa.Value, d int) []ssa.Value {
	if d > 4 {
		return nil
	}
	if fv := c20FieldStore(v, "Duties"); fv != nil {
		return []ssa.Value{fv}
	}
	switch x := an.Unwrap(v).(type) {
	case *ssa.Phi:
		var out []ssa.Value
		for _, e := range x.Edges {
			out = append(out, a.dutiesOf(e, d+1)...)
		}
		return out
	case *ssa.UnOp:
		if x.Op == token.MUL {
			if al, ok := c19Cell(x.X).(*ssa.Alloc); ok {
				var out []ssa.Value
				for _, ref := range *al.Referrers() {
					fa, ok := ref.(*ssa.FieldAddr)
					if !ok || c20FieldName(fa.X.Type(), fa.Field) != "Duties" {
						continue
					}
					for _, r2 := range *fa.Referrers() {
						if st, ok := r2.(*ssa.Store); ok && st.Addr == ssa.Value(fa) {
							out = append(out, st.Val)
						}
					}
				}
				if len(out) > 0 {
					return out
				}
				for _, sv := range c19StoresTo(al, 0) {
					out = append(out, a.dutiesOf(sv, d+1)...)
				}
				return out
			}
		}
	case *ssa.Call:
		// the answer struct is built by an in-package helper: its Duties argument is what counts when the helper
		// stores a parameter into the field
		h := an.Orig(x.Call.StaticCallee())
		if x.Call.IsInvoke() || h == nil || h.Pkg != a.entry.Pkg || len(h.Blocks) == 0 || len(h.Params) != len(x.Call.Args) {
			return nil
		}
		var out []ssa.Value
		for _, r := range an.Returns(h) {
			vals := c20RetVals(r)
			if len(vals) == 0 {
				continue
			}
			for _, fv := range a.dutiesOf(vals[0], d+1) {
				if p, ok := an.Unwrap(fv).(*ssa.Parameter); ok {
					for i, hp := range h.Params {
						if hp == p {
							out = append(out, x.Call.Args[i])
						}
					}
				}
			}
		}
		return out
	}
	return nil
}

func c20Z7(c *rt.Ctx) {
	for _, role := range c20Roles {
		c20FailedFetch(c, role)
		c20AnswerElems(c, role)
	}
}

// c20N5Mutants: one-edit mutants of what the entry points hand back; edits made to all three siblings alike are
// invisible to Z1.
func c20N5Mutants() []Mutant {
	const f = "app/eth2wrap/cache.go"
	type role struct{ name, duty, meta, store, forEpoch string }
	roles := []role{
		{"proposer", "ProposerDuty", "ProposerDutyWithMeta", "storeOrAmendProposerDuties", "ProposerDutiesForEpoch"},
		{"attester", "AttesterDuty", "AttesterDutyWithMeta", "storeOrAmendAttesterDuties", "AttesterDutiesForEpoch"},
		{"sync", "SyncCommitteeDuty", "SyncDutyWithMeta", "storeOrAmendSyncDuties", "SyncDutiesForEpoch"},
	}
	all := func(id, expect string, edit func(r role) [2]string) Mutant {
		m := Mutant{ID: id, File: f, Expect: expect}
		for i, r := range roles {
			e := edit(r)
			if i == 0 {
				m.Old, m.New = e[0], e[1]
			} else {
				m.More = append(m.More, e)
			}
		}
		return m
	}
	storeStmt := func(r role) string {
		return "\t_, ok = c." + r.store + "(epoch, " + r.forEpoch + "{duties: dutiesDeref, metadata: maps.Clone(eth2Resp.Metadata), requestedIdxs: requestVidxs})\n"
	}
	errRet := func(r role) string { return "\tif err != nil {\n\t\treturn " + r.meta + "{}, err\n\t}\n\n\tdutiesDeref := " }
	return []Mutant{
		// (a)
		all("C20-Z7-partial-hit-degrades-to-cached-part", "Z7|failed beacon request is reported", func(r role) [2]string {
			return [2]string{errRet(r), "\tif err != nil {\n\t\tif len(dutiesResult) > 0 {\n\t\t\treturn " + r.meta + "{Duties: dutiesResult, Metadata: maps.Clone(dutiesForEpoch.metadata)}, nil\n\t\t}\n\n\t\treturn " + r.meta + "{}, err\n\t}\n\n\tdutiesDeref := "}
		}),
		all("C20-Z7-fetch-error-only-without-cached-part", "Z7|failed beacon request is reported", func(r role) [2]string {
			return [2]string{errRet(r), "\tif err != nil && !cacheUsed {\n\t\treturn " + r.meta + "{}, err\n\t} else if err != nil {\n\t\treturn " + r.meta + "{Duties: dutiesResult}, nil\n\t}\n\n\tdutiesDeref := "}
		}),
		{ID: "C20-Z7-attester-fetch-error-swallowed", File: f, Expect: "Z7|AttesterDutiesCache failed beacon request is reported",
			Old: "\tif err != nil {\n\t\treturn AttesterDutyWithMeta{}, err\n\t}\n\n\tdutiesDeref := ",
			New: "\tif err != nil {\n\t\treturn AttesterDutyWithMeta{Duties: dutiesResult}, nil\n\t}\n\n\tdutiesDeref := "},
		// (b)
		all("C20-Z7-lost-race-serves-saved-epoch", "Z7|answer holds only duties of the requested indices", func(r role) [2]string {
			return [2]string{storeStmt(r), strings.Replace(storeStmt(r), "\t_, ok = c.", "\tsaved, ok := c.", 1) +
				"\tif !ok {\n\t\tdutiesResult = dutiesResult[:0]\n\t\tfor i := range saved {\n\t\t\tdutiesResult = append(dutiesResult, &saved[i])\n\t\t}\n\n\t\treturn " + r.meta + "{Duties: dutiesResult, Metadata: eth2Resp.Metadata}, nil\n\t}\n"}
		}),
		{ID: "C20-Z7-proposer-lost-race-adds-saved", File: f, Expect: "Z7|ProposerDutiesCache answer holds only duties of the requested indices",
			Old: storeStmt(roles[0]), New: strings.Replace(storeStmt(roles[0]), "\t_, ok = c.", "\tsaved, ok := c.", 1) +
				"\tif !ok {\n\t\tfor _, d := range saved {\n\t\t\tdutiesResult = append(dutiesResult, &d)\n\t\t}\n\t}\n"},
		c20SegMutant("C20-Z7-attester-hit-filter-by-recorded-indices", "Z7|AttesterDutiesCache answer holds only duties of the requested indices", "AttesterDuty",
			"if _, hit := requestedSet[d.ValidatorIndex]; hit {", "if _, hit := previouslyRequested[d.ValidatorIndex]; hit {"),
		c20SegMutant("C20-Z7-proposer-hit-unfiltered", "Z7|ProposerDutiesCache answer holds only duties of the requested indices", "ProposerDuty",
			"\t\t\tif _, hit := requestedSet[d.ValidatorIndex]; hit {\n\t\t\t\tdutiesResult = append(dutiesResult, &d)\n\t\t\t}\n", "\t\t\tdutiesResult = append(dutiesResult, &d)\n"),
	}
}
