package rules

import (
	"fmt"
	"go/constant"
	"go/token"
	"go/types"
	"strings"

	"golang.org/x/tools/go/ssa"

	"charonverif/internal/an"
	"charonverif/internal/rt"
)

// ---------------------------------------------------------------------------------------------
// Y8: constant-vs-normalisation contradiction in the fallback classifiers.
//
// A string test (strings.Contains / HasPrefix / HasSuffix / Index / LastIndex / Count / Cut / CutPrefix /
// CutSuffix, their bytes.* twins, == / != / switch on a string) made in isTimeoutError / isSyncingError /
// isBadGateway (or in an in-package function / literal they call) whose SUBJECT can only hold values
// normalised by strings.ToLower (resp. ToUpper) -- followed through local variables, captured variables,
// phis, concatenation, slicing, case-preserving strings functions, in-package helpers and parameters of
// non-escaping helpers over all their call sites -- and whose NEEDLE can be a constant containing an ASCII
// upper-case (resp. lower-case) letter can never be true: the output of ToLower contains no byte 'A'..'Z'
// (no rune lowers to an ASCII capital), the output of ToUpper no byte 'a'..'z'. The error class spelled by
// that constant is dead: primaries failing with it are never classified as unavailable and the fallback
// nodes are not consulted. Positive evidence only: a subject whose normalisation is not certain on every
// path, or a needle that is not a resolvable constant, yields no verdict from this rule (the string tables
// themselves stay "not decided").

const (
	c19n5NoUpper = 1 // the value contains no byte 'A'..'Z'
	c19n5NoLower = 2 // the value contains no byte 'a'..'z'
)

func c19n5MaskOf(s string) int {
	m := c19n5NoUpper | c19n5NoLower
	for i := 0; i < len(s); i++ {
		switch b := s[i]; {
		case b >= 'A' && b <= 'Z':
			m &^= c19n5NoUpper
		case b >= 'a' && b <= 'z':
			m &^= c19n5NoLower
		}
	}
	return m
}

type c19n5An struct {
	pkg   *ssa.Package
	funcs []*ssa.Function // every source function of the package, the package initialiser included
	// bind: the call context under evaluation -- parameters of one helper bound to the arguments of one of its
	// call sites (one level of context sensitivity; the arguments themselves are evaluated over all contexts).
	bind  map[*ssa.Parameter]ssa.Value
	sites map[*ssa.Function]*c19n5Sites
}

type c19n5Sites struct {
	calls    []ssa.CallInstruction
	complete bool
}

// bound returns the argument p is bound to in the current call context.
func (a *c19n5An) bound(p *ssa.Parameter) (ssa.Value, bool) {
	v, ok := a.bind[p]
	return v, ok
}

// unbound evaluates f (the argument p is bound to) in the current call context less the bindings of p's own
// function: the argument is an expression of the caller.
func (a *c19n5An) unbound(p *ssa.Parameter, f func()) {
	saved := a.bind
	a.bind = map[*ssa.Parameter]ssa.Value{}
	for q, v := range saved {
		if q.Parent() != p.Parent() {
			a.bind[q] = v
		}
	}
	f()
	a.bind = saved
}

func c19n5New(pkg *ssa.Package) *c19n5An {
	a := &c19n5An{pkg: pkg, funcs: an.PkgFuncs(pkg)}
	if ini := pkg.Func("init"); ini != nil {
		a.funcs = append(a.funcs, an.Closure(ini)...)
	}
	return a
}

func c19n5StringConst(v ssa.Value) (string, bool) {
	k, ok := an.Unwrap(v).(*ssa.Const)
	if !ok || k.Value == nil || k.Value.Kind() != constant.String {
		return "", false
	}
	return constant.StringVal(k.Value), true
}

// callArgs lists, for parameter p of an in-package function or literal, the argument passed at every call
// site found. complete reports that the function value cannot be called from anywhere else (unexported,
// never used as a value other than as the callee of those calls).
func (a *c19n5An) callArgs(p *ssa.Parameter) (args []ssa.Value, complete bool) {
	fn := p.Parent()
	if fn == nil || fn.Pkg != a.pkg {
		return nil, false
	}
	idx := -1
	for i, q := range fn.Params {
		if q == p {
			idx = i
		}
	}
	if idx < 0 {
		return nil, false
	}
	st := a.callSites(fn)
	complete = st.complete
	for _, ci := range st.calls {
		if idx < len(ci.Common().Args) {
			args = append(args, ci.Common().Args[idx])
		} else {
			complete = false
		}
	}
	if len(args) == 0 {
		complete = false
	}
	return args, complete
}

// callSites lists the calls of the in-package function or literal fn.
func (a *c19n5An) callSites(fn *ssa.Function) *c19n5Sites {
	if st, ok := a.sites[fn]; ok {
		return st
	}
	st := &c19n5Sites{}
	if a.sites == nil {
		a.sites = map[*ssa.Function]*c19n5Sites{}
	}
	a.sites[fn] = st
	var calls []ssa.CallInstruction
	complete := true
	defer func() { st.calls, st.complete = calls, complete && len(calls) > 0 }()
	complete = true
	isFn := func(v ssa.Value) bool {
		switch x := v.(type) {
		case *ssa.Function:
			return x == fn
		case *ssa.MakeClosure:
			return x.Fn == ssa.Value(fn)
		}
		return false
	}
	if fn.Parent() == nil {
		if o, ok := fn.Object().(*types.Func); !ok || o == nil || o.Exported() || fn.TypeParams().Len() > 0 {
			complete = false
		}
	}
	scope := a.funcs
	if fn.Parent() != nil {
		root := fn
		for root.Parent() != nil {
			root = root.Parent()
		}
		scope = an.Closure(root)
	}
	for _, g := range scope {
		for _, b := range g.Blocks {
			for _, in := range b.Instrs {
				if _, dbg := in.(*ssa.DebugRef); dbg {
					continue
				}
				ci, isCall := in.(ssa.CallInstruction)
				callee := false
				if isCall && !ci.Common().IsInvoke() {
					for _, o := range c19Origins(ci.Common().Value) {
						if isFn(o) {
							callee = true
						}
					}
					if callee {
						calls = append(calls, ci)
					}
				}
				for _, op := range in.Operands(nil) {
					if op == nil || *op == nil || !isFn(*op) {
						continue
					}
					switch x := in.(type) {
					case ssa.CallInstruction:
						if *op == x.Common().Value {
							continue
						}
					case *ssa.Store:
						// stored into a local variable whose loads are resolved by c19Origins above: the
						// variable must be a plain local never handed on
						if al, ok := c19Cell(x.Addr).(*ssa.Alloc); ok && x.Val == *op && c19n5OnlyCalled(al) {
							continue
						}
					case *ssa.MakeClosure:
						if *op == x.Fn {
							continue
						}
					}
					complete = false
				}
				if mc, ok := in.(*ssa.MakeClosure); ok && isFn(mc) {
					for _, ref := range *mc.Referrers() {
						switch x := ref.(type) {
						case *ssa.DebugRef:
						case ssa.CallInstruction:
							if x.Common().Value != ssa.Value(mc) {
								complete = false
							}
							for _, arg := range x.Common().Args {
								if arg == ssa.Value(mc) {
									complete = false
								}
							}
						case *ssa.Store:
							if al, ok := c19Cell(x.Addr).(*ssa.Alloc); !ok || x.Val != ssa.Value(mc) || !c19n5OnlyCalled(al) {
								complete = false
							}
						default:
							complete = false
						}
					}
				}
			}
		}
	}
	return st
}

// c19n5OnlyCalled: the function-typed local variable is only assigned and called (possibly from literals
// capturing it), never passed on or returned.
func c19n5OnlyCalled(al *ssa.Alloc) bool {
	var cell func(c ssa.Value, d int) bool
	cell = func(c ssa.Value, d int) bool {
		if d > 4 || c.Referrers() == nil {
			return false
		}
		for _, ref := range *c.Referrers() {
			switch x := ref.(type) {
			case *ssa.DebugRef:
			case *ssa.Store:
				if x.Addr != c {
					return false
				}
			case *ssa.UnOp:
				if x.Op != token.MUL {
					return false
				}
				for _, r2 := range *x.Referrers() {
					if _, dbg := r2.(*ssa.DebugRef); dbg {
						continue
					}
					ci, ok := r2.(ssa.CallInstruction)
					if !ok || ci.Common().Value != ssa.Value(x) {
						return false
					}
					for _, arg := range ci.Common().Args {
						if arg == ssa.Value(x) {
							return false
						}
					}
				}
			case *ssa.MakeClosure:
				lit, ok := x.Fn.(*ssa.Function)
				if !ok {
					return false
				}
				for i, b := range x.Bindings {
					if b == c && (i >= len(lit.FreeVars) || !cell(lit.FreeVars[i], d+1)) {
						return false
					}
				}
			default:
				return false
			}
		}
		return true
	}
	return cell(al, 0)
}

// results lists the values an in-package function returns at result index idx (nil: unknown).
func (a *c19n5An) results(ci ssa.CallInstruction, idx int) []ssa.Value {
	cc := ci.Common()
	if cc.IsInvoke() {
		return nil
	}
	var fn *ssa.Function
	for _, o := range c19Origins(cc.Value) {
		var f *ssa.Function
		switch x := o.(type) {
		case *ssa.Function:
			f = x
		case *ssa.MakeClosure:
			f, _ = x.Fn.(*ssa.Function)
		}
		if f == nil || (fn != nil && fn != f) {
			return nil
		}
		fn = f
	}
	if fn == nil || fn.Pkg != a.pkg || len(fn.Blocks) == 0 || fn.TypeParams().Len() > 0 {
		return nil
	}
	var out []ssa.Value
	for _, r := range c19Returns(fn) {
		vals := c19RetVals(r)
		if idx >= len(vals) {
			return nil
		}
		out = append(out, vals[idx])
	}
	return out
}

var c19n5CasePreserving = map[string]bool{
	"TrimSpace": true, "Trim": true, "TrimLeft": true, "TrimRight": true, "TrimPrefix": true, "TrimSuffix": true,
	"TrimFunc": true, "TrimLeftFunc": true, "TrimRightFunc": true, "Clone": true,
}

func c19n5StrFn(ci ssa.CallInstruction) string {
	cc := ci.Common()
	if cc.IsInvoke() {
		return ""
	}
	f := cc.StaticCallee()
	if f == nil {
		return ""
	}
	n := an.FuncName(f)
	if rest, ok := strings.CutPrefix(n, "strings."); ok {
		return rest
	}
	if rest, ok := strings.CutPrefix(n, "bytes."); ok {
		return rest
	}
	return ""
}

// caseOf: which of {no ASCII capital, no ASCII small letter} certainly holds for every value v may hold.
func (a *c19n5An) caseOf(v ssa.Value, seen map[ssa.Value]bool, d int) int {
	if d > 12 || v == nil {
		return 0
	}
	mask := c19n5NoUpper | c19n5NoLower
	os := c19Origins(v)
	if len(os) == 0 {
		return 0
	}
	for _, o := range os {
		mask &= a.caseOne(an.Unwrap(o), seen, d)
		if mask == 0 {
			return 0
		}
	}
	return mask
}

func (a *c19n5An) caseAll(vs []ssa.Value, seen map[ssa.Value]bool, d int) int {
	if len(vs) == 0 {
		return 0
	}
	mask := c19n5NoUpper | c19n5NoLower
	for _, v := range vs {
		mask &= a.caseOf(v, seen, d)
		if mask == 0 {
			return 0
		}
	}
	return mask
}

func (a *c19n5An) caseOne(o ssa.Value, seen map[ssa.Value]bool, d int) int {
	if seen[o] {
		// already under evaluation / evaluated below the same conjunction: neutral element
		return c19n5NoUpper | c19n5NoLower
	}
	switch x := o.(type) {
	case *ssa.Const:
		if s, ok := c19n5StringConst(x); ok {
			return c19n5MaskOf(s)
		}
		return 0
	case *ssa.BinOp:
		if x.Op != token.ADD {
			return 0
		}
		seen[o] = true
		return a.caseOf(x.X, seen, d+1) & a.caseOf(x.Y, seen, d+1)
	case *ssa.Slice:
		seen[o] = true
		return a.caseOf(x.X, seen, d+1)
	case *ssa.Call:
		seen[o] = true
		args := x.Call.Args
		switch n := c19n5StrFn(x); {
		case n == "ToLower" && len(args) == 1:
			return c19n5NoUpper
		case n == "ToUpper" && len(args) == 1:
			return c19n5NoLower
		case c19n5CasePreserving[n] && len(args) >= 1:
			return a.caseOf(args[0], seen, d+1)
		case (n == "ReplaceAll" && len(args) == 3) || (n == "Replace" && len(args) == 4):
			return a.caseOf(args[0], seen, d+1) & a.caseOf(args[2], seen, d+1)
		case n != "":
			return 0
		}
		if x.Call.Signature().Results().Len() != 1 {
			return 0
		}
		return a.caseAll(a.results(x, 0), seen, d+1)
	case *ssa.Extract:
		ci, ok := x.Tuple.(*ssa.Call)
		if !ok {
			return 0
		}
		seen[o] = true
		return a.caseAll(a.results(ci, x.Index), seen, d+1)
	case *ssa.Parameter:
		seen[o] = true
		if v, ok := a.bound(x); ok {
			m := 0
			a.unbound(x, func() { m = a.caseOf(v, seen, d+1) })
			return m
		}
		args, complete := a.callArgs(x)
		if !complete {
			return 0
		}
		return a.caseAll(args, seen, d+1)
	}
	return 0
}

// globalInit returns the value the package initialiser stores into g when that is the only write and the
// variable's address is never handed on.
func (a *c19n5An) globalInit(g *ssa.Global) ssa.Value {
	var val ssa.Value
	for _, f := range a.funcs {
		for _, b := range f.Blocks {
			for _, in := range b.Instrs {
				for _, op := range in.Operands(nil) {
					if op == nil || *op != ssa.Value(g) {
						continue
					}
					switch x := in.(type) {
					case *ssa.UnOp:
						if x.Op == token.MUL {
							continue
						}
					case *ssa.Store:
						if x.Addr == ssa.Value(g) && val == nil && f.Synthetic != "" {
							val = x.Val
							continue
						}
					case *ssa.DebugRef:
						continue
					}
					return nil
				}
			}
		}
	}
	return val
}

// elems lists the resolvable elements of a slice / array value (composite literal, variadic argument list,
// package-level table, parameter of a helper).
func (a *c19n5An) elems(v ssa.Value, seen map[ssa.Value]bool, d int) []ssa.Value {
	if d > 8 {
		return nil
	}
	var out []ssa.Value
	for _, o := range c19Origins(v) {
		o = an.Unwrap(o)
		if seen[o] {
			continue
		}
		seen[o] = true
		switch x := o.(type) {
		case *ssa.Slice:
			if es, ok := c19SliceLit(x); ok {
				out = append(out, es...)
			}
		case *ssa.Alloc:
			pt, isPtr := x.Type().Underlying().(*types.Pointer)
			if !isPtr {
				continue
			}
			if _, isArr := pt.Elem().Underlying().(*types.Array); isArr {
				for _, ref := range *x.Referrers() {
					if ia, ok := ref.(*ssa.IndexAddr); ok {
						for _, r2 := range *ia.Referrers() {
							if st, ok := r2.(*ssa.Store); ok && st.Addr == ssa.Value(ia) {
								out = append(out, st.Val)
							}
						}
					}
				}
			}
		case *ssa.Parameter:
			if v, ok := a.bound(x); ok {
				a.unbound(x, func() { out = append(out, a.elems(v, seen, d+1)...) })
				continue
			}
			args, _ := a.callArgs(x)
			for _, arg := range args {
				out = append(out, a.elems(arg, seen, d+1)...)
			}
		case *ssa.UnOp:
			if g, ok := x.X.(*ssa.Global); ok && x.Op == token.MUL {
				if iv := a.globalInit(g); iv != nil {
					out = append(out, a.elems(iv, seen, d+1)...)
				}
			}
		}
	}
	return out
}

// needles lists the constant strings the needle operand may hold.
func (a *c19n5An) needles(v ssa.Value, seen map[ssa.Value]bool, d int) []string {
	if d > 8 || v == nil {
		return nil
	}
	var out []string
	for _, o := range c19Origins(v) {
		o = an.Unwrap(o)
		if seen[o] {
			continue
		}
		seen[o] = true
		switch x := o.(type) {
		case *ssa.Const:
			if s, ok := c19n5StringConst(x); ok {
				out = append(out, s)
			}
		case *ssa.Parameter:
			if v, ok := a.bound(x); ok {
				a.unbound(x, func() { out = append(out, a.needles(v, seen, d+1)...) })
				continue
			}
			args, _ := a.callArgs(x)
			for _, arg := range args {
				out = append(out, a.needles(arg, seen, d+1)...)
			}
		case *ssa.UnOp:
			if x.Op != token.MUL {
				continue
			}
			switch y := x.X.(type) {
			case *ssa.IndexAddr:
				for _, e := range a.elems(y.X, map[ssa.Value]bool{}, d+1) {
					out = append(out, a.needles(e, seen, d+1)...)
				}
			case *ssa.Global:
				if iv := a.globalInit(y); iv != nil {
					out = append(out, a.needles(iv, seen, d+1)...)
				}
			}
		}
	}
	return out
}

// c19n5Tests: the substring-style tests of strings / bytes (subject first, needle second).
var c19n5Tests = map[string]bool{
	"Contains": true, "HasPrefix": true, "HasSuffix": true, "Index": true, "LastIndex": true, "Count": true,
	"Cut": true, "CutPrefix": true, "CutSuffix": true,
}

type c19n5Finding struct {
	pos  token.Pos
	what string
}

// contexts lists the call contexts in which an instruction of g is evaluated: one per call site (inside the
// functions of reach) of g, combined with one per call site of each function enclosing g; a single nil context
// when there is none.
func (a *c19n5An) contexts(g *ssa.Function, reach map[*ssa.Function]bool) []map[*ssa.Parameter]ssa.Value {
	out := []map[*ssa.Parameter]ssa.Value{nil}
	for h := g; h != nil; h = h.Parent() {
		if len(h.Params) == 0 {
			continue
		}
		var next []map[*ssa.Parameter]ssa.Value
		for _, ci := range a.callSites(h).calls {
			root := ci.Parent()
			for root != nil && root.Parent() != nil {
				root = root.Parent()
			}
			if !reach[root] || len(ci.Common().Args) != len(h.Params) {
				continue
			}
			for _, base := range out {
				bind := map[*ssa.Parameter]ssa.Value{}
				for p, v := range base {
					bind[p] = v
				}
				for i, p := range h.Params {
					bind[p] = ci.Common().Args[i]
				}
				next = append(next, bind)
			}
		}
		if len(next) > 0 && len(next) <= 64 {
			out = next
		}
	}
	return out
}

// deadTests inspects every string test of fn (nested literals included), in every call context from reach.
func (a *c19n5An) deadTests(fn *ssa.Function, reach map[*ssa.Function]bool) (dead []c19n5Finding, tests, normalised int) {
	contradiction1 := func(subject, needle ssa.Value) (string, bool, bool) {
		mask := a.caseOf(subject, map[ssa.Value]bool{}, 0)
		if mask == 0 {
			return "", false, false
		}
		for _, s := range a.needles(needle, map[ssa.Value]bool{}, 0) {
			nm := c19n5MaskOf(s)
			switch {
			case mask&c19n5NoUpper != 0 && nm&c19n5NoUpper == 0:
				return fmt.Sprintf("the subject is lower-cased (strings.ToLower) on every path but is tested against the constant %q, which contains upper-case letters", s), true, true
			case mask&c19n5NoLower != 0 && nm&c19n5NoLower == 0:
				return fmt.Sprintf("the subject is upper-cased (strings.ToUpper) on every path but is tested against the constant %q, which contains lower-case letters", s), true, true
			}
		}
		return "", false, true
	}
	ctxs := map[*ssa.Function][]map[*ssa.Parameter]ssa.Value{}
	contradiction := func(g *ssa.Function, subject, needle ssa.Value) (why string, bad, norm bool) {
		cs, ok := ctxs[g]
		if !ok {
			cs = a.contexts(g, reach)
			ctxs[g] = cs
		}
		defer func() { a.bind = nil }()
		for _, bind := range cs {
			a.bind = bind
			w, b, n := contradiction1(subject, needle)
			norm = norm || n
			if b {
				return w, true, true
			}
		}
		return "", false, norm
	}
	isStr := func(t types.Type) bool {
		b, ok := t.Underlying().(*types.Basic)
		return ok && b.Info()&types.IsString != 0
	}
	for _, in := range an.Instrs(fn, true) {
		switch x := in.(type) {
		case ssa.CallInstruction:
			n := c19n5StrFn(x)
			if !c19n5Tests[n] || len(x.Common().Args) != 2 {
				continue
			}
			tests++
			why, bad, norm := contradiction(in.Parent(), x.Common().Args[0], x.Common().Args[1])
			if norm {
				normalised++
			}
			if bad {
				dead = append(dead, c19n5Finding{x.Pos(), n + ": " + why})
			}
		case *ssa.BinOp:
			if (x.Op != token.EQL && x.Op != token.NEQ) || !isStr(x.X.Type()) {
				continue
			}
			tests++
			counted := false
			for _, pr := range [][2]ssa.Value{{x.X, x.Y}, {x.Y, x.X}} {
				if _, isConst := c19n5StringConst(pr[0]); isConst {
					continue
				}
				why, bad, norm := contradiction(in.Parent(), pr[0], pr[1])
				if norm && !counted {
					normalised++
					counted = true
				}
				if bad {
					dead = append(dead, c19n5Finding{posOf(x), x.Op.String() + ": " + why})
					break
				}
			}
		}
	}
	return dead, tests, normalised
}

func c19Y8(c *rt.Ctx) {
	var a *c19n5An
	for _, name := range c19Classifiers {
		fn := c.Fn(name)
		short := name[strings.LastIndex(name, ".")+1:]
		if a == nil {
			if fn.Pkg == nil {
				c.Bail("%s has no package", short)
			}
			a = c19n5New(fn.Pkg)
		}
		// the classifier, and the in-package functions it reaches
		fns := []*ssa.Function{fn}
		seen := map[*ssa.Function]bool{fn: true}
		for i := 0; i < len(fns) && len(fns) < 40; i++ {
			for _, in := range an.Instrs(fns[i], true) {
				ci, ok := in.(ssa.CallInstruction)
				if !ok || ci.Common().IsInvoke() {
					continue
				}
				g := ci.Common().StaticCallee()
				if g == nil || g.Pkg != fn.Pkg || len(g.Blocks) == 0 || g.Parent() != nil || seen[g] {
					continue
				}
				seen[g] = true
				fns = append(fns, g)
			}
		}
		construct := short + " string tests agree with the normalisation of their subject"
		bad := false
		tests, normalised := 0, 0
		for _, f := range fns {
			dead, t, n := a.deadTests(f, seen)
			tests += t
			normalised += n
			for _, d := range dead {
				bad = true
				c.Bad(construct, d.pos, d.what+": the test can never be true, the error class it spells is dead -- primaries failing with it are not classified as unavailable and the fallback nodes are not consulted")
			}
		}
		if !bad {
			c.Good(construct, fn.Pos(), fmt.Sprintf("%d string tests, %d on a case-normalised subject", tests, normalised))
		}
	}
}
