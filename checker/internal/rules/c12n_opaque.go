package rules

// Dispatch the field-coverage rules (L1/L2) and the version-coverage rule cannot resolve. The closures are built by
// scanning the visited function bodies for references to functions, so function values kept in locals, parameters,
// variadic slices, struct fields and local tables are all found; the one place that scan does not see is a
// package-level variable holding function values (its initialiser lives in the package init function). When the
// inspected closure reads such a table, "field not hashed / version not covered" is not positive evidence (the hashing
// code may be behind the table): the finding is UNDECIDED instead of a VIOLATION. (L1 additionally marks a field value
// handed to a function value it cannot resolve, see c12Flow.lost.)

import (
	"go/types"

	"golang.org/x/tools/go/ssa"

	"charonverif/internal/an"
)

func c12nHoldsFunc(t types.Type, d int) bool {
	if d > 6 {
		return false
	}
	switch u := t.Underlying().(type) {
	case *types.Signature:
		return true
	case *types.Slice:
		return c12nHoldsFunc(u.Elem(), d+1)
	case *types.Array:
		return c12nHoldsFunc(u.Elem(), d+1)
	case *types.Pointer:
		return c12nHoldsFunc(u.Elem(), d+1)
	case *types.Map:
		return c12nHoldsFunc(u.Elem(), d+1)
	case *types.Struct:
		for i := 0; i < u.NumFields(); i++ {
			if c12nHoldsFunc(u.Field(i).Type(), d+1) {
				return true
			}
		}
	}
	return false
}

// c12nOpaqueDispatch returns an instruction of the closure (feasible blocks only) that dispatches through function
// values the rules cannot resolve, or nil.
func c12nOpaqueDispatch(cls ...*c12Clo) ssa.Instruction {
	for _, cl := range cls {
		if cl == nil {
			continue
		}
		for _, fn := range cl.fns {
			feas := cl.feasible(fn)
			for _, b := range fn.Blocks {
				if !feas[b] {
					continue
				}
				for _, in := range b.Instrs {
					for _, op := range an.Operands(in) {
						if g, ok := op.(*ssa.Global); ok && g.Pkg == fn.Pkg && c12nHoldsFunc(g.Type(), 0) {
							return in
						}
					}
				}
			}
		}
	}
	return nil
}
