package rules

// Version dispatch by data. The version-coverage rule decides "version v is handled" from control flow: with every
// isAnyVersion test evaluated for v the dispatcher references a function it does not reference for a version that
// matches no test. When the functions are instead placed into a table (a slice/array/struct/map element, or the
// argument of a lookup helper) on a path that is feasible for *every* version, the selection is made by data the
// valuation does not evaluate: "no version is gated" is then the absence of a handle, not positive evidence that the
// versions are unhandled — the verdict must be UNDECIDED.

import (
	"golang.org/x/tools/go/ssa"
)

// c12n4DataDispatch returns an instruction of the closure (feasible blocks only) that stores a function of package
// cluster into memory or hands it to a callee as an argument, or nil.
func c12n4DataDispatch(cl *c12Clo) ssa.Instruction {
	if cl == nil {
		return nil
	}
	isFn := func(v ssa.Value) bool {
		switch x := v.(type) {
		case *ssa.Function:
			return c12InCluster(x) || (x.Origin() != nil && c12InCluster(x.Origin()))
		case *ssa.MakeClosure:
			f, ok := x.Fn.(*ssa.Function)
			return ok && f != nil
		case *ssa.ChangeType:
			if f, ok := x.X.(*ssa.Function); ok {
				return c12InCluster(f)
			}
		}
		return false
	}
	for _, fn := range cl.fns {
		feas := cl.feasible(fn)
		for _, b := range fn.Blocks {
			if !feas[b] {
				continue
			}
			for _, in := range b.Instrs {
				switch x := in.(type) {
				case *ssa.Store:
					if isFn(x.Val) {
						return in
					}
				case *ssa.MapUpdate:
					if isFn(x.Value) {
						return in
					}
				case ssa.CallInstruction:
					for _, a := range x.Common().Args {
						if isFn(a) {
							return in
						}
					}
				}
			}
		}
	}
	return nil
}
