package rules

import (
	"go/token"
	"go/types"
	"strings"

	"golang.org/x/tools/go/ssa"

	"charonverif/internal/an"
	"charonverif/internal/rt"
)

// T13 — a message never carries caller-supplied messages as its justification.
//
// Mechanism. core/qbft hands Transport.Broadcast the buffered messages that justify a PRE-PREPARE / ROUND-CHANGE /
// DECIDED; the buffered ROUND-CHANGEs carry justifications of their own (their prepared certificate). On the wire
// justifications are flat (QBFTConsensusMsg.Justification is a list of bare QBFTMsg), and core/qbft relies on that:
// flatten() panics ("bug: nested justifications") when a buffered message's justification has a justification, and
// Run then ends with a sanity error. The sender delivers its own message to itself, so every Msg of
// core/consensus/qbft — also the loop-back copy — must be built the way a received one is: its justification list
// holds messages made in the package from the bare protos. A Msg whose justification is (or contains) the very
// qbft.Msg values the caller supplied keeps their nested justifications and stops the sender's own instance.
//
// Rule. For every store into the field Msg.justification in core/consensus/qbft the stored list is followed back
// (phis, appends, slicing, single-store locals, parameters through the in-package call sites, results of in-package
// helpers). Every element must be the result of a call (a message constructed or stripped for the purpose);
// VIOLATION when the list or one of its elements is positively a value that entered the package through a
// parameter of a function without in-package static caller (the interface entry points: Transport.Broadcast);
// UNDECIDED when the provenance of the list cannot be followed.

const n5MsgJust = n4Pkg + ".Msg.justification"

func init() {
	Extend("C04", "(T13) every core/consensus/qbft.Msg — including the copy a member delivers to itself — carries as its justification only messages constructed in the package (flat, from the bare wire protos), never the caller-supplied qbft.Msg values, whose own justifications make core/qbft.flatten panic ('nested justifications') and end the sender's instance.",
		c04FlatJust,
		// the typed inputs are put back after the round trip
		Mutant{ID: "C04-T13-createmsg-restores-typed-justification", File: "core/consensus/qbft/transport.go", Expect: "T13",
			Old: "\treturn newMsg(pbMsg, justMsgs, values)\n}",
			New: "\tmsg, err := newMsg(pbMsg, justMsgs, values)\n\tif err != nil {\n\t\treturn Msg{}, err\n\t}\n\n\tmsg.justification = justification\n\n\treturn msg, nil\n}"},
		// element by element, after the type assertion
		Mutant{ID: "C04-T13-createmsg-keeps-asserted-elements", File: "core/consensus/qbft/transport.go", Expect: "T13",
			Old: "\tvar justMsgs []*pbv1.QBFTMsg\n\n\tfor _, j := range justification {\n\t\timpl, ok := j.(Msg)\n\t\tif !ok {\n\t\t\treturn Msg{}, errors.New(\"invalid justification\")\n\t\t}\n\n\t\tjustMsgs = append(justMsgs, impl.Msg()) // Note nested justifications are ignored.\n\t}\n\n\treturn newMsg(pbMsg, justMsgs, values)\n}",
			New: "\tvar (\n\t\tjustMsgs []*pbv1.QBFTMsg\n\t\tkept     []qbft.Msg[core.Duty, [32]byte, proto.Message]\n\t)\n\n\tfor _, j := range justification {\n\t\timpl, ok := j.(Msg)\n\t\tif !ok {\n\t\t\treturn Msg{}, errors.New(\"invalid justification\")\n\t\t}\n\n\t\tjustMsgs = append(justMsgs, impl.Msg()) // Note nested justifications are ignored.\n\t\tkept = append(kept, impl)\n\t}\n\n\tmsg, err := newMsg(pbMsg, justMsgs, values)\n\tmsg.justification = kept\n\n\treturn msg, err\n}"},
	)
}

type n5Prov struct {
	fns  []*ssa.Function
	inP  func(*ssa.Function) bool
	seen map[ssa.Value]bool
	why  string
	pos  token.Pos
}

func (p *n5Prov) ext(v ssa.Value, what string) int {
	if p.why == "" {
		p.why, p.pos = what, v.Pos()
	}
	return 2
}

func n5Max(a, b int) int {
	if a > b {
		return a
	}
	return b
}

func (p *n5Prov) sites(fn *ssa.Function) []ssa.CallInstruction {
	var out []ssa.CallInstruction
	for _, g := range p.fns {
		out = append(out, an.Calls(g, func(cc *ssa.CallCommon) bool {
			f := cc.StaticCallee()
			return f != nil && an.Orig(f) == an.Orig(fn)
		}, true)...)
	}
	return out
}

func (p *n5Prov) param(x *ssa.Parameter, d int, rec func(ssa.Value, int) int) int {
	fn := x.Parent()
	if fn.Parent() != nil {
		return 1 // a function literal's parameter
	}
	idx := an.ParamIndex(x)
	cs := p.sites(fn)
	if len(cs) == 0 {
		return p.ext(x, "parameter "+x.Name()+" of "+hxStrip(an.FuncName(fn))+", which has no static caller in the package (it is called by core/qbft with its buffered messages)")
	}
	r := 0
	for _, ci := range cs {
		if idx >= len(ci.Common().Args) {
			return 1
		}
		r = n5Max(r, rec(ci.Common().Args[idx], d+1))
	}
	return r
}

// list: 0 = every element is made by a call, 1 = unknown, 2 = caller-supplied
func (p *n5Prov) list(v ssa.Value, d int) int {
	if d > 16 {
		return 1
	}
	if p.seen[v] {
		return 0
	}
	p.seen[v] = true
	switch x := v.(type) {
	case *ssa.Const:
		if x.IsNil() {
			return 0
		}
	case *ssa.ChangeType:
		return p.list(x.X, d+1)
	case *ssa.Phi:
		r := 0
		for _, ed := range x.Edges {
			r = n5Max(r, p.list(ed, d+1))
		}
		return r
	case *ssa.Slice:
		if _, ok := x.X.Type().Underlying().(*types.Slice); ok {
			return p.list(x.X, d+1)
		}
		// a slice of a fresh array: the variadic pack of append
		if al, ok := x.X.(*ssa.Alloc); ok {
			return p.cells(al, d+1)
		}
	case *ssa.MakeSlice:
		if k, isC := an.ConstInt(x.Len); isC && k == 0 {
			return 0
		}
		return p.cellsOf(x, d+1)
	case *ssa.UnOp:
		if x.Op != token.MUL {
			return 1
		}
		// the justification of another Msg of the package (`m.justification = append(m.justification, impl)`): the field
		// is unexported, so what it holds was put there by one of the stores this rule judges (induction over the sites)
		if fa, ok := x.X.(*ssa.FieldAddr); ok && an.FieldKey(fa.X.Type(), fa.Field) == n5MsgJust {
			return 0
		}
		if al, ok := x.X.(*ssa.Alloc); ok {
			r, n := 0, 0
			for _, ref := range *al.Referrers() {
				if st, ok := ref.(*ssa.Store); ok && st.Addr == al {
					n++
					r = n5Max(r, p.list(st.Val, d+1))
				}
			}
			if n == 0 {
				return 1
			}
			return r
		}
	case *ssa.Field:
		if an.FieldKey(x.X.Type(), x.Field) == n5MsgJust {
			return 0
		}
	case *ssa.Parameter:
		return p.param(x, d, p.list)
	case *ssa.Extract:
		if call, ok := x.Tuple.(*ssa.Call); ok {
			return p.result(call, x.Index, d+1, p.list)
		}
	case *ssa.Call:
		if b, ok := x.Call.Value.(*ssa.Builtin); ok {
			if b.Name() == "append" && len(x.Call.Args) == 2 {
				return n5Max(p.list(x.Call.Args[0], d+1), p.list(x.Call.Args[1], d+1))
			}
			return 1
		}
		return p.result(x, 0, d+1, p.list)
	}
	return 1
}

// result: the idx-th result of an in-package call, through the callee's return statements
func (p *n5Prov) result(call *ssa.Call, idx int, d int, rec func(ssa.Value, int) int) int {
	f := call.Call.StaticCallee()
	if f == nil || !p.inP(an.Orig(f)) || len(an.Orig(f).Blocks) == 0 {
		return 1
	}
	r := 0
	cases := an.ReturnCases(an.Orig(f))
	for _, rc := range cases {
		if idx >= len(rc.Vals) {
			return 1
		}
		r = n5Max(r, rec(rc.Vals[idx], d+1))
	}
	if len(cases) == 0 {
		return 1
	}
	return r
}

// cells: the values stored into the cells of an array / made slice
func (p *n5Prov) cells(al *ssa.Alloc, d int) int { return p.cellsOf(al, d) }

func (p *n5Prov) cellsOf(base ssa.Value, d int) int {
	refs := base.Referrers()
	if refs == nil {
		return 1
	}
	r := 0
	for _, ref := range *refs {
		ia, ok := ref.(*ssa.IndexAddr)
		if !ok {
			continue
		}
		for _, r2 := range *ia.Referrers() {
			if st, ok := r2.(*ssa.Store); ok && st.Addr == ia {
				r = n5Max(r, p.elem(st.Val, d+1))
			}
		}
	}
	return r
}

// elem: 0 = made by a call, 1 = unknown, 2 = an element of a caller-supplied list
func (p *n5Prov) elem(v ssa.Value, d int) int {
	if d > 16 {
		return 1
	}
	switch x := v.(type) {
	case *ssa.MakeInterface:
		return p.elem(x.X, d+1)
	case *ssa.ChangeInterface:
		return p.elem(x.X, d+1)
	case *ssa.ChangeType:
		return p.elem(x.X, d+1)
	case *ssa.TypeAssert:
		return p.elem(x.X, d+1)
	case *ssa.Call:
		if _, isB := x.Call.Value.(*ssa.Builtin); !isB {
			return 0
		}
	case *ssa.Extract:
		switch t := x.Tuple.(type) {
		case *ssa.Call:
			return 0
		case *ssa.TypeAssert:
			return p.elem(t.X, d+1)
		}
	case *ssa.Phi:
		if p.seen[x] {
			return 0
		}
		p.seen[x] = true
		r := 0
		for _, ed := range x.Edges {
			r = n5Max(r, p.elem(ed, d+1))
		}
		return r
	case *ssa.Parameter:
		if _, isIface := x.Type().Underlying().(*types.Interface); !isIface && !strings.HasSuffix(an.TypeName(x.Type()), n4Pkg+".Msg") {
			return 1
		}
		return p.param(x, d, p.elem)
	case *ssa.UnOp:
		if x.Op != token.MUL {
			return 1
		}
		switch a := x.X.(type) {
		case *ssa.IndexAddr:
			// an element of a list: as good as the list
			if p.seen[a.X] {
				delete(p.seen, a.X)
			}
			return p.list(a.X, d+1)
		case *ssa.Alloc:
			r, n := 0, 0
			for _, ref := range *a.Referrers() {
				if st, ok := ref.(*ssa.Store); ok && st.Addr == a {
					n++
					r = n5Max(r, p.elem(st.Val, d+1))
				}
			}
			if n == 0 {
				return 1
			}
			return r
		}
	}
	return 1
}

func c04FlatJust(c *rt.Ctx) {
	c.Rule("T13", 1, func() {
		sp := c.SSAPkg(n4Pkg)
		fns := an.PkgFuncsAll(sp)
		inP := func(f *ssa.Function) bool { return f != nil && c04Outermost(f).Pkg == sp }
		n := 0
		for _, fn := range fns {
			for _, in := range an.Instrs(fn, false) {
				st, ok := in.(*ssa.Store)
				if !ok {
					continue
				}
				fa, ok := st.Addr.(*ssa.FieldAddr)
				if !ok || an.FieldKey(fa.X.Type(), fa.Field) != n5MsgJust {
					continue
				}
				n++
				p := &n5Prov{fns: fns, inP: inP, seen: map[ssa.Value]bool{}}
				key := hxStrip(an.FuncName(fn)) + " justification of the built Msg"
				switch p.list(st.Val, 0) {
				case 0:
					c.Good(key, posOf(st), "every element is constructed by a call")
				case 2:
					where := ""
					if p.pos.IsValid() {
						where = " (" + c.P.Fset.Position(p.pos).String() + ")"
					}
					c.Bad(key, posOf(st), "the message keeps caller-supplied messages as its justification: they come from "+p.why+where+" and carry justifications of their own (a buffered ROUND-CHANGE holds its prepared certificate); peers receive the flat wire form, but the copy the sender delivers to itself makes core/qbft.flatten panic with 'nested justifications' and the sender's instance ends — with f members crashed nobody decides")
				default:
					c.Unsure(key, posOf(st), "the provenance of the list stored as the message's justification could not be followed: whether it is flat is not decided")
				}
			}
		}
		if n == 0 {
			c.Bail("no store into %s found", n5MsgJust)
		}
	})
}
