package rules

import (
	"fmt"
	"go/token"
	"go/types"
	"sort"
	"strings"

	"golang.org/x/tools/go/ssa"

	"charonverif/internal/an"
	"charonverif/internal/rt"
)

// The signing domain of an eth2 object is (domain name, epoch). C09-G5 freezes the type→domain-name
// table; this rule freezes the type→epoch-source table: which datum of the object feeds the epoch that
// core.VerifyEth2SignedData hands to signing.Verify. A wrong-but-same-typed source (attestation *source*
// instead of *target* epoch) only shows at fork boundaries, where a partial signature made for the wrong
// fork is admitted and the right one rejected.

// epochSource maps implementor → provenance term of the epoch returned by its Epoch method.
var epochSource = map[string]string{
	"core.VersionedSignedProposal":              "eth2util.EpochFromSlot(recv.VersionedSignedProposal.Slot())",
	"core.VersionedAttestation":                 "recv.VersionedAttestation.Data().Target.Epoch",
	"core.SignedVoluntaryExit":                  "recv.SignedVoluntaryExit.Message.Epoch",
	"core.VersionedSignedValidatorRegistration": "0",
	"core.SignedRandao":                         "recv.SignedEpoch.Epoch",
	"core.BeaconCommitteeSelection":             "eth2util.EpochFromSlot(recv.BeaconCommitteeSelection.Slot)",
	"core.SignedAggregateAndProof":              "eth2util.EpochFromSlot(recv.SignedAggregateAndProof.Message.Aggregate.Data.Slot)",
	"core.VersionedSignedAggregateAndProof":     "eth2util.EpochFromSlot(recv.VersionedSignedAggregateAndProof.Slot())",
	"core.SignedSyncMessage":                    "eth2util.EpochFromSlot(recv.SyncCommitteeMessage.Slot)",
	"core.SignedSyncContributionAndProof":       "eth2util.EpochFromSlot(recv.SignedContributionAndProof.Message.Contribution.Slot)",
	"core.SyncCommitteeSelection":               "eth2util.EpochFromSlot(recv.SyncCommitteeSelection.Slot)",
	"core.SyncContributionAndProof":             "eth2util.EpochFromSlot(recv.ContributionAndProof.Contribution.Slot)",
}

// epochAtoms are the callees that the table treats as primitives; every other in-repo function met on the way
// (a wrapper such as `slotEpoch(ctx, cl, slot)`, a helper method of the implementor) is looked through: its
// parameters are replaced by the caller's arguments and the term continues in its successful return values.
var epochAtoms = map[string]bool{"eth2util.EpochFromSlot": true}

func init() {
	m := []Mutant{
		{ID: "EPOCH-attestation-source", File: "core/eth2signeddata.go", Expect: "EP",
			Old: "\treturn data.Target.Epoch, nil", New: "\treturn data.Source.Epoch, nil"},
		{ID: "EPOCH-randao-zero", File: "core/eth2signeddata.go", Expect: "EP",
			Old: "\treturn s.SignedEpoch.Epoch, nil", New: "\treturn s.SignedEpoch.Epoch - s.SignedEpoch.Epoch%2, nil"},
		// the wrong datum hidden behind an in-package wrapper (the rule follows the wrapper's parameter back to the argument)
		{ID: "EPOCH-helper-previous-slot", File: "core/eth2signeddata.go", Expect: "EP|core.BeaconCommitteeSelection",
			Old: "func (s BeaconCommitteeSelection) Epoch(ctx context.Context, eth2Cl eth2wrap.Client) (eth2p0.Epoch, error) {\n\treturn eth2util.EpochFromSlot(ctx, eth2Cl, s.Slot)\n}",
			New: "func (s BeaconCommitteeSelection) Epoch(ctx context.Context, eth2Cl eth2wrap.Client) (eth2p0.Epoch, error) {\n\treturn hxSlotEpoch(ctx, eth2Cl, s.Slot)\n}\n\nfunc hxSlotEpoch(ctx context.Context, eth2Cl eth2wrap.Client, slot eth2p0.Slot) (eth2p0.Epoch, error) {\n\treturn eth2util.EpochFromSlot(ctx, eth2Cl, slot-1)\n}"},
		// single-exit form whose merged value takes the wrong datum on the success edge
		{ID: "EPOCH-attestation-single-exit-source", File: "core/eth2signeddata.go", Expect: "EP|core.VersionedAttestation",
			Old: "\tdata, err := a.Data()\n\tif err != nil {\n\t\treturn 0, errors.Wrap(err, \"get attestation data\")\n\t}\n\n\treturn data.Target.Epoch, nil",
			New: "\tvar epoch eth2p0.Epoch\n\n\tdata, err := a.Data()\n\tif err != nil {\n\t\terr = errors.Wrap(err, \"get attestation data\")\n\t} else {\n\t\tepoch = data.Source.Epoch\n\t}\n\n\treturn epoch, err"},
		// a second successful return that yields a constant epoch
		{ID: "EPOCH-proposal-zero-on-branch", File: "core/eth2signeddata.go", Expect: "EP|core.VersionedSignedProposal",
			Old: "\tslot, err := p.Slot()\n\tif err != nil {\n\t\treturn 0, err\n\t}\n\n\treturn eth2util.EpochFromSlot(ctx, eth2Cl, slot)",
			New: "\tslot, err := p.Slot()\n\tif err != nil {\n\t\treturn 0, err\n\t}\n\n\tif p.Blinded {\n\t\treturn 0, nil\n\t}\n\n\treturn eth2util.EpochFromSlot(ctx, eth2Cl, slot)"},
		{ID: "EPOCH-exit-next-epoch", File: "core/eth2signeddata.go", Expect: "EP|core.SignedVoluntaryExit",
			Old: "\treturn e.Message.Epoch, nil", New: "\tnext := e.Message.Epoch + 1\n\n\treturn next, nil"},
	}
	Extend("C09", "(EP) every Eth2SignedData implementor derives the domain epoch from the frozen, type-specific datum (e.g. attestation target epoch).", epochRule, m...)
	Extend("C10", "(EP) every Eth2SignedData implementor derives the domain epoch from the frozen, type-specific datum (e.g. attestation target epoch).", epochRule)
}

func epochRule(c *rt.Ctx) {
	c.Rule("EP", 12, func() {
		iface := lookupIface(c, "core", "Eth2SignedData")
		var pkgs []string
		for _, p := range c.P.Pkgs {
			if strings.HasPrefix(p.PkgPath, "github.com/obolnetwork/charon") && !strings.Contains(p.PkgPath, "/testutil") {
				pkgs = append(pkgs, strings.TrimPrefix(strings.TrimPrefix(p.PkgPath, "github.com/obolnetwork/charon"), "/"))
			}
		}
		sort.Strings(pkgs)
		for _, nt := range implementors(c, iface, pkgs...) {
			name := an.TypeName(nt)
			fn := c.FnOpt(name + ".Epoch")
			if fn == nil {
				c.Unsure(name+".Epoch", token.NoPos, "cannot resolve the Epoch method")
				continue
			}
			want, ok := epochSource[name]
			if !ok {
				c.Unsure(name+".Epoch", fn.Pos(), "new Eth2SignedData implementor without an entry in the epoch-source table")
				continue
			}
			tm := &termer{atoms: epochAtoms}
			got := tm.resultTerms(fn, 0, nil, 0)
			unknown := ""
			for _, g := range got {
				if strings.Contains(g, "?") {
					unknown = g
				}
			}
			switch {
			case len(got) == 1 && got[0] == want:
				c.Good(name+".Epoch source", fn.Pos(), "domain epoch = "+want)
			case unknown != "" || len(got) == 0:
				c.Unsure(name+".Epoch source", fn.Pos(), fmt.Sprintf("the provenance of the returned epoch has a shape the rule does not follow (%v); confirmed source is %s", got, want))
			default:
				c.Bad(name+".Epoch source", fn.Pos(), fmt.Sprintf("domain epoch is derived from %v, the confirmed source is %s", got, want))
			}
		}
	})
}

// termer renders the provenance of a value as a set of alternative terms over the receiver ("recv"), field
// selections, method calls and static calls (context and client arguments elided). Locals, spill slots, conversions
// and in-repo wrapper functions are transparent; a phi contributes one alternative per edge.
type termer struct {
	atoms map[string]bool
	stack []*ssa.Function
	phis  map[*ssa.Phi]bool
	fns   []termFn
}

// termFn is a function value met on the way (a closure with the terms of what it captured, a bound method, a named
// function). It is rendered as an opaque token; a call through a value whose only alternative is such a token is
// looked through like a static call (`epochOfSlot(ctx, cl, p.Slot)`, `epochOfSlot(ctx, cl, fixedSlot(s.Slot))`).
type termFn struct {
	fn    *ssa.Function
	binds [][]string
}

const termFnTok = "?fn#"

func (t *termer) fnRef(fn *ssa.Function, binds [][]string) string {
	t.fns = append(t.fns, termFn{fn, binds})
	return fmt.Sprintf("%s%d", termFnTok, len(t.fns)-1)
}

func (t *termer) fnOf(ts []string) *termFn {
	if len(ts) != 1 || !strings.HasPrefix(ts[0], termFnTok) {
		return nil
	}
	var id int
	if _, err := fmt.Sscanf(ts[0][len(termFnTok):], "%d", &id); err != nil || id < 0 || id >= len(t.fns) {
		return nil
	}
	return &t.fns[id]
}

// termWrapper: compiler-made forwarding functions (promoted-method wrappers, bound-method closures, thunks) are
// always looked through, so that `p.Slot` passed as a value denotes the same term as the call `p.Slot()`.
func termWrapper(f *ssa.Function) bool {
	return f != nil && len(f.Blocks) > 0 && f.Synthetic != "" &&
		(strings.HasPrefix(f.Synthetic, "wrapper for") || strings.HasPrefix(f.Synthetic, "bound method wrapper for") || strings.HasPrefix(f.Synthetic, "thunk for"))
}

type termEnv map[ssa.Value][]string

const termCap = 24

// resultTerms returns the alternatives of result idx over the successful returns of fn.
func (t *termer) resultTerms(fn *ssa.Function, idx int, env termEnv, d int) []string {
	var out []string
	cases := an.SuccessCases(fn)
	for _, rc := range cases {
		if idx >= len(rc.Vals) {
			continue
		}
		out = append(out, t.terms(rc.Vals[idx], env, d+1)...)
	}
	if len(cases) == 0 {
		out = append(out, "?no-successful-return")
	}
	return termSet(out)
}

func termSet(in []string) []string {
	sort.Strings(in)
	out := in[:0]
	for i, s := range in {
		if i == 0 || s != in[i-1] {
			out = append(out, s)
		}
	}
	if len(out) > termCap {
		out = append(out[:termCap:termCap], "?too-many-alternatives")
	}
	return out
}

func termMap(a []string, f func(string) string) []string {
	out := make([]string, 0, len(a))
	for _, x := range a {
		out = append(out, f(x))
	}
	return termSet(out)
}

func termCross(a, b []string, f func(x, y string) string) []string {
	var out []string
	for _, x := range a {
		for _, y := range b {
			out = append(out, f(x, y))
		}
	}
	return termSet(out)
}

func (t *termer) terms(v ssa.Value, env termEnv, d int) []string {
	if d > 16 {
		return []string{"?deep"}
	}
	if ts, ok := env[v]; ok {
		return ts
	}
	v = an.Resolve(v)
	if ts, ok := env[v]; ok {
		return ts
	}
	switch x := v.(type) {
	case *ssa.Parameter:
		if an.IsReceiver(x) {
			return []string{"recv"}
		}
		return []string{fmt.Sprintf("arg%d", an.ParamIndex(x))}
	case *ssa.FreeVar:
		b := an.ClosureBinding(x)
		if b == nil {
			return []string{"?freevar"}
		}
		if al, ok := b.(*ssa.Alloc); ok {
			return t.allocTerms(al, env, d)
		}
		return t.terms(b, env, d+1)
	case *ssa.Const:
		if x.Value == nil {
			return []string{"nil"}
		}
		return []string{x.Value.ExactString()}
	case *ssa.Function:
		return []string{t.fnRef(x, nil)}
	case *ssa.MakeClosure:
		f, ok := x.Fn.(*ssa.Function)
		if !ok {
			return []string{"?closure"}
		}
		var binds [][]string
		for _, b := range x.Bindings {
			if al, ok := b.(*ssa.Alloc); ok {
				binds = append(binds, t.allocTerms(al, env, d+1))
			} else {
				binds = append(binds, t.terms(b, env, d+1))
			}
		}
		return []string{t.fnRef(f, binds)}
	case *ssa.Field:
		name := fieldNameOf(x.X.Type(), x.Field)
		return termMap(t.terms(x.X, env, d+1), func(s string) string { return s + "." + name })
	case *ssa.FieldAddr:
		name := fieldNameOf(x.X.Type(), x.Field)
		// a local struct built field by field: read back what was stored into this field
		if al, ok := an.Resolve(x.X).(*ssa.Alloc); ok && len(an.StoresTo(al)) == 0 {
			var vals []string
			for _, ref := range *al.Referrers() {
				fa, ok := ref.(*ssa.FieldAddr)
				if !ok || fa.Field != x.Field {
					continue
				}
				for _, r2 := range *fa.Referrers() {
					if st, ok := r2.(*ssa.Store); ok && st.Addr == ssa.Value(fa) {
						vals = append(vals, t.terms(st.Val, env, d+1)...)
					}
				}
			}
			if len(vals) > 0 {
				return termSet(vals)
			}
		}
		return termMap(t.terms(x.X, env, d+1), func(s string) string { return s + "." + name })
	case *ssa.UnOp:
		if x.Op == token.MUL {
			return t.terms(x.X, env, d+1)
		}
		return termMap(t.terms(x.X, env, d+1), func(s string) string { return x.Op.String() + s })
	case *ssa.Alloc:
		return t.allocTerms(x, env, d)
	case *ssa.Extract:
		if call, ok := x.Tuple.(*ssa.Call); ok {
			return t.callTerms(call, x.Index, env, d)
		}
		return termMap(t.terms(x.Tuple, env, d+1), func(s string) string { return fmt.Sprintf("%s#%d", s, x.Index) })
	case *ssa.BinOp:
		op := x.Op.String()
		comm := x.Op == token.ADD || x.Op == token.MUL || x.Op == token.AND || x.Op == token.OR || x.Op == token.XOR
		return termCross(t.terms(x.X, env, d+1), t.terms(x.Y, env, d+1), func(a, b string) string {
			if comm && b < a {
				a, b = b, a
			}
			return "(" + a + op + b + ")"
		})
	case *ssa.Call:
		return t.callTerms(x, 0, env, d)
	case *ssa.Phi:
		if t.phis == nil {
			t.phis = map[*ssa.Phi]bool{}
		}
		if t.phis[x] {
			return nil // loop-carried: the other edges describe the value
		}
		t.phis[x] = true
		defer delete(t.phis, x)
		var es []string
		for _, e := range x.Edges {
			es = append(es, t.terms(e, env, d+1)...)
		}
		if len(es) == 0 {
			return []string{"?phi"}
		}
		return termSet(es)
	case *ssa.Lookup:
		return termCross(t.terms(x.X, env, d+1), t.terms(x.Index, env, d+1), func(a, b string) string { return a + "[" + b + "]" })
	case *ssa.Index:
		return termCross(t.terms(x.X, env, d+1), t.terms(x.Index, env, d+1), func(a, b string) string { return a + "[" + b + "]" })
	case *ssa.IndexAddr:
		return termCross(t.terms(x.X, env, d+1), t.terms(x.Index, env, d+1), func(a, b string) string { return a + "[" + b + "]" })
	case *ssa.TypeAssert:
		return termMap(t.terms(x.X, env, d+1), func(s string) string { return s + ".(" + an.TypeName(x.AssertedType) + ")" })
	}
	return []string{fmt.Sprintf("?%T", v)}
}

func (t *termer) allocTerms(al *ssa.Alloc, env termEnv, d int) []string {
	sts := an.StoresTo(al)
	if len(sts) == 0 {
		return []string{"zero"}
	}
	var out []string
	for _, st := range sts {
		if st.Parent() != al.Parent() {
			out = append(out, "?captured-store")
			continue
		}
		out = append(out, t.terms(st.Val, env, d+1)...)
	}
	return termSet(out)
}

// callTerms renders result idx of a call: an in-repo callee with a body that is not one of the atoms is looked
// through (arguments substituted for parameters); everything else is an atom applied to its argument terms.
func (t *termer) callTerms(x *ssa.Call, idx int, env termEnv, d int) []string {
	suffix := func(s string) string {
		if idx == 0 {
			return s
		}
		return fmt.Sprintf("%s#%d", s, idx)
	}
	body := an.StaticBody(&x.Call)
	var viaValue *termFn
	if body == nil && !x.Call.IsInvoke() {
		if f := x.Call.StaticCallee(); termWrapper(f) {
			body = f
		} else if f == nil {
			if _, isBuiltin := x.Call.Value.(*ssa.Builtin); !isBuiltin {
				// a call through a function value: a parameter / local bound to a closure, bound method or function
				if tf := t.fnOf(t.terms(x.Call.Value, env, d+1)); tf != nil && (an.InRepo(tf.fn) || termWrapper(tf.fn)) && len(tf.binds) == len(tf.fn.FreeVars) {
					body, viaValue = tf.fn, tf
				}
			}
		}
	}
	if body != nil && len(body.Blocks) > 0 && !t.atoms[an.FuncName(body)] && len(t.stack) < 6 {
		rec := false
		for _, f := range t.stack {
			if f == body {
				rec = true
			}
		}
		if !rec {
			env2 := termEnv{}
			args := x.Call.Args
			for i, p := range body.Params {
				if i < len(args) {
					ts := t.terms(args[i], env, d+1)
					env2[p] = ts
				}
			}
			// free variables of a directly called closure keep the caller's environment
			for k, v := range env {
				if _, isFV := k.(*ssa.FreeVar); isFV {
					env2[k] = v
				}
			}
			if viaValue != nil {
				for i, fv := range body.FreeVars {
					env2[fv] = viaValue.binds[i]
				}
			} else if mc, ok := an.Resolve(x.Call.Value).(*ssa.MakeClosure); ok {
				for i, fv := range body.FreeVars {
					if i < len(mc.Bindings) {
						if al, ok := mc.Bindings[i].(*ssa.Alloc); ok {
							env2[fv] = t.allocTerms(al, env, d+1)
						} else {
							env2[fv] = t.terms(mc.Bindings[i], env, d+1)
						}
					}
				}
			}
			t.stack = append(t.stack, body)
			out := t.resultTerms(body, idx, env2, d+1)
			t.stack = t.stack[:len(t.stack)-1]
			return out
		}
	}
	argAlts := [][]string{}
	for i, a := range x.Call.Args {
		if isCtxOrClient(a.Type()) {
			continue
		}
		if i == 0 && x.Call.StaticCallee() != nil && x.Call.StaticCallee().Signature.Recv() != nil {
			continue
		}
		argAlts = append(argAlts, t.terms(a, env, d+1))
	}
	joined := []string{""}
	for i, alts := range argAlts {
		joined = termCross(joined, alts, func(a, b string) string {
			if i == 0 {
				return b
			}
			return a + "," + b
		})
	}
	if x.Call.IsInvoke() {
		return termCross(t.terms(x.Call.Value, env, d+1), joined, func(r, a string) string {
			return suffix(r + "." + x.Call.Method.Name() + "(" + a + ")")
		})
	}
	if f := x.Call.StaticCallee(); f != nil {
		if f.Signature.Recv() != nil && len(x.Call.Args) > 0 {
			return termCross(t.terms(x.Call.Args[0], env, d+1), joined, func(r, a string) string {
				return suffix(r + "." + f.Name() + "(" + a + ")")
			})
		}
		name := an.FuncName(f)
		return termMap(joined, func(a string) string { return suffix(name + "(" + a + ")") })
	}
	if b, ok := x.Call.Value.(*ssa.Builtin); ok {
		return termMap(joined, func(a string) string { return suffix(b.Name() + "(" + a + ")") })
	}
	return []string{"?dynamic-call"}
}

// provTerm renders the provenance of a value as one term (alternatives joined), kept for other rule files.
func provTerm(v ssa.Value, d int) string {
	tm := &termer{atoms: epochAtoms}
	ts := tm.terms(v, nil, d)
	if len(ts) == 1 {
		return ts[0]
	}
	return "phi[" + strings.Join(ts, "|") + "]"
}

func fieldNameOf(t types.Type, idx int) string {
	if p, ok := t.Underlying().(*types.Pointer); ok {
		t = p.Elem()
	}
	if st, ok := t.Underlying().(*types.Struct); ok && idx < st.NumFields() {
		return st.Field(idx).Name()
	}
	return "?"
}

func isCtxOrClient(t types.Type) bool {
	if _, ok := t.(*types.Named); !ok {
		return false
	}
	return types.IsInterface(t) // context.Context, eth2wrap.Client: plumbing, not data
}
