package rules

import (
	"fmt"
	"go/token"
	"go/types"
	"sort"
	"strings"

	"golang.org/x/tools/go/ssa"

	"charonverif/internal/an"
	"charonverif/internal/rt"
)

// The signing domain of an eth2 object is (domain name, epoch). C09-G5 freezes the type→domain-name
// table; this rule freezes the type→epoch-source table: which datum of the object feeds the epoch that
// core.VerifyEth2SignedData hands to signing.Verify. A wrong-but-same-typed source (attestation *source*
// instead of *target* epoch) only shows at fork boundaries, where a partial signature made for the wrong
// fork is admitted and the right one rejected.

// epochSource maps implementor → provenance term of the epoch returned by its Epoch method.
var epochSource = map[string]string{
	"core.VersionedSignedProposal":              "eth2util.EpochFromSlot(recv.VersionedSignedProposal.Slot())",
	"core.VersionedAttestation":                 "recv.VersionedAttestation.Data().Target.Epoch",
	"core.SignedVoluntaryExit":                  "recv.SignedVoluntaryExit.Message.Epoch",
	"core.VersionedSignedValidatorRegistration": "0",
	"core.SignedRandao":                         "recv.SignedEpoch.Epoch",
	"core.BeaconCommitteeSelection":             "eth2util.EpochFromSlot(recv.BeaconCommitteeSelection.Slot)",
	"core.SignedAggregateAndProof":              "eth2util.EpochFromSlot(recv.SignedAggregateAndProof.Message.Aggregate.Data.Slot)",
	"core.VersionedSignedAggregateAndProof":     "eth2util.EpochFromSlot(recv.VersionedSignedAggregateAndProof.Slot())",
	"core.SignedSyncMessage":                    "eth2util.EpochFromSlot(recv.SyncCommitteeMessage.Slot)",
	"core.SignedSyncContributionAndProof":       "eth2util.EpochFromSlot(recv.SignedContributionAndProof.Message.Contribution.Slot)",
	"core.SyncCommitteeSelection":               "eth2util.EpochFromSlot(recv.SyncCommitteeSelection.Slot)",
	"core.SyncContributionAndProof":             "eth2util.EpochFromSlot(recv.ContributionAndProof.Contribution.Slot)",
}

func init() {
	m := []Mutant{
		{ID: "EPOCH-attestation-source", File: "core/eth2signeddata.go", Expect: "EP",
			Old: "\treturn data.Target.Epoch, nil", New: "\treturn data.Source.Epoch, nil"},
		{ID: "EPOCH-randao-zero", File: "core/eth2signeddata.go", Expect: "EP",
			Old: "\treturn s.SignedEpoch.Epoch, nil", New: "\treturn s.SignedEpoch.Epoch - s.SignedEpoch.Epoch%2, nil"},
	}
	Extend("C09", "(EP) every Eth2SignedData implementor derives the domain epoch from the frozen, type-specific datum (e.g. attestation target epoch).", epochRule, m...)
	Extend("C10", "(EP) every Eth2SignedData implementor derives the domain epoch from the frozen, type-specific datum (e.g. attestation target epoch).", epochRule)
}

func epochRule(c *rt.Ctx) {
	c.Rule("EP", 12, func() {
		iface := lookupIface(c, "core", "Eth2SignedData")
		var pkgs []string
		for _, p := range c.P.Pkgs {
			if strings.HasPrefix(p.PkgPath, "github.com/obolnetwork/charon") && !strings.Contains(p.PkgPath, "/testutil") {
				pkgs = append(pkgs, strings.TrimPrefix(strings.TrimPrefix(p.PkgPath, "github.com/obolnetwork/charon"), "/"))
			}
		}
		sort.Strings(pkgs)
		for _, nt := range implementors(c, iface, pkgs...) {
			name := an.TypeName(nt)
			fn := c.FnOpt(name + ".Epoch")
			if fn == nil {
				c.Unsure(name+".Epoch", token.NoPos, "cannot resolve the Epoch method")
				continue
			}
			want, ok := epochSource[name]
			if !ok {
				c.Unsure(name+".Epoch", fn.Pos(), "new Eth2SignedData implementor without an entry in the epoch-source table")
				continue
			}
			var got []string
			for _, r := range an.Returns(fn) {
				if len(r.Results) != 2 {
					continue
				}
				// only returns that can succeed: error result is nil or a call's error
				if !an.IsNilConst(r.Results[1]) {
					// a tail call `return f(...)`: both results come from the same call
					e1, ok1 := r.Results[1].(*ssa.Extract)
					e0, ok0 := r.Results[0].(*ssa.Extract)
					if !ok0 || !ok1 || e0.Tuple != e1.Tuple {
						continue
					}
				}
				got = append(got, provTerm(r.Results[0], 0))
			}
			sort.Strings(got)
			uniq := got[:0]
			for i, g := range got {
				if i == 0 || g != got[i-1] {
					uniq = append(uniq, g)
				}
			}
			c.Check(name+".Epoch source", fn.Pos(), len(uniq) == 1 && uniq[0] == want,
				fmt.Sprintf("domain epoch is derived from %v, the confirmed source is %s", uniq, want))
		}
	})
}

// provTerm renders the provenance of a value as a term over the receiver ("recv"), parameters,
// field selections, method calls and static calls (context and client arguments elided).
func provTerm(v ssa.Value, d int) string {
	if d > 12 {
		return "…"
	}
	v = an.Resolve(v)
	switch x := v.(type) {
	case *ssa.Parameter:
		if x.Parent().Signature.Recv() != nil && len(x.Parent().Params) > 0 && x.Parent().Params[0] == x {
			return "recv"
		}
		return x.Name()
	case *ssa.Const:
		if x.Value == nil {
			return "nil"
		}
		return x.Value.ExactString()
	case *ssa.Field:
		return provTerm(x.X, d+1) + "." + fieldNameOf(x.X.Type(), x.Field)
	case *ssa.FieldAddr:
		return provTerm(x.X, d+1) + "." + fieldNameOf(x.X.Type(), x.Field)
	case *ssa.UnOp:
		if x.Op == token.MUL {
			return provTerm(x.X, d+1)
		}
		return x.Op.String() + provTerm(x.X, d+1)
	case *ssa.Alloc:
		// a spilled receiver/parameter copy
		if s := an.UniqueStore(x); s != nil {
			return provTerm(s, d+1)
		}
		return "local"
	case *ssa.Extract:
		t := provTerm(x.Tuple, d+1)
		if x.Index == 0 {
			return t
		}
		return fmt.Sprintf("%s#%d", t, x.Index)
	case *ssa.BinOp:
		return "(" + provTerm(x.X, d+1) + x.Op.String() + provTerm(x.Y, d+1) + ")"
	case *ssa.Call:
		var args []string
		for i, a := range x.Call.Args {
			if isCtxOrClient(a.Type()) {
				continue
			}
			if i == 0 && x.Call.StaticCallee() != nil && x.Call.StaticCallee().Signature.Recv() != nil {
				continue
			}
			args = append(args, provTerm(a, d+1))
		}
		if x.Call.IsInvoke() {
			return provTerm(x.Call.Value, d+1) + "." + x.Call.Method.Name() + "(" + strings.Join(args, ",") + ")"
		}
		if f := x.Call.StaticCallee(); f != nil {
			if f.Signature.Recv() != nil && len(x.Call.Args) > 0 {
				return provTerm(x.Call.Args[0], d+1) + "." + f.Name() + "(" + strings.Join(args, ",") + ")"
			}
			return an.FuncName(f) + "(" + strings.Join(args, ",") + ")"
		}
		return "call?"
	case *ssa.Phi:
		var es []string
		for _, e := range x.Edges {
			es = append(es, provTerm(e, d+1))
		}
		sort.Strings(es)
		return "phi[" + strings.Join(es, "|") + "]"
	}
	return fmt.Sprintf("%T", v)
}

func fieldNameOf(t types.Type, idx int) string {
	if p, ok := t.Underlying().(*types.Pointer); ok {
		t = p.Elem()
	}
	if st, ok := t.Underlying().(*types.Struct); ok && idx < st.NumFields() {
		return st.Field(idx).Name()
	}
	return "?"
}

func isCtxOrClient(t types.Type) bool {
	if _, ok := t.(*types.Named); !ok {
		return false
	}
	return types.IsInterface(t) // context.Context, eth2wrap.Client: plumbing, not data
}
