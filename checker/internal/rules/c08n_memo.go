package rules

import (
	"go/token"
	"go/types"

	"golang.org/x/tools/go/ssa"

	"charonverif/internal/an"
	"charonverif/internal/rt"
)

// C08 S2, memo tables. "The key verified is the key given": the herumi public key handed to VerifyByte /
// FastAggregateVerify is the deserialisation of the parameter. When a helper may serve that value from package
// state (a cache of decompressed keys) instead of deserialising it, the obligation moves to the table: the value
// served for key k must have been stored as Deserialize(k), for exactly k.
//
//   - direct table  M[k] -> value: the lookup key is the whole key (not a part of it), and every insertion stores
//     under k' the checked deserialisation of k';
//   - slot table  A[I[k]] -> value (an index map into a slot array that is reused): every write of a slot stores
//     the checked deserialisation of k', records I[k'] = that slot, and removes the index entry of the slot's
//     previous owner - the key read from the owner table R[slot] *before* R[slot] is overwritten - unless the hit
//     path validates R[slot] == k itself.
//
// Everything else about such a table is UNDECIDED.

// c08TableOf names the package state a table value lives in: a struct field or a package variable.
func c08TableOf(v ssa.Value) (string, bool) {
	for i := 0; i < 8; i++ {
		switch x := v.(type) {
		case *ssa.UnOp:
			if x.Op != token.MUL {
				return "", false
			}
			v = x.X
		case *ssa.ChangeType:
			v = x.X
		case *ssa.FieldAddr:
			// state only: the struct is reached through a pointer that is not a local under construction
			if _, local := x.X.(*ssa.Alloc); local {
				return "", false
			}
			return "field:" + an.FieldKey(x.X.Type(), x.Field), true
		case *ssa.Global:
			return "global:" + x.String(), true
		default:
			return "", false
		}
	}
	return "", false
}

// c08TableRead: v is read from a table of package state: M[k] or A[s]. Returns the table.
func c08TableRead(v ssa.Value) (string, bool) {
	switch x := v.(type) {
	case *ssa.UnOp:
		if ia, ok := x.X.(*ssa.IndexAddr); ok && x.Op == token.MUL {
			return c08TableOf(ia.X)
		}
	case *ssa.Lookup:
		return c08TableOf(x.X)
	case *ssa.Index:
		return c08TableOf(x.X)
	case *ssa.Extract:
		if lk, ok := x.Tuple.(*ssa.Lookup); ok && x.Index == 0 {
			return c08TableOf(lk.X)
		}
	}
	return "", false
}

// c08LookupOf: v is m[k] or the value half of `v, ok := m[k]`.
func c08LookupOf(v ssa.Value) *ssa.Lookup {
	switch x := v.(type) {
	case *ssa.Lookup:
		return x
	case *ssa.Extract:
		if lk, ok := x.Tuple.(*ssa.Lookup); ok && x.Index == 0 {
			return lk
		}
	}
	return nil
}

// c08OnFound: instruction at is only reached when the comma-ok lookup lk found its key.
func c08OnFound(lk *ssa.Lookup, at ssa.Instruction) bool {
	if !lk.CommaOk {
		return false
	}
	for _, ref := range *lk.Referrers() {
		ex, ok := ref.(*ssa.Extract)
		if !ok || ex.Index != 1 {
			continue
		}
		for _, cd := range an.CondsOn(lk.Parent(), ex) {
			if cd.Other != nil {
				continue
			}
			succ := cd.Succ(true)
			if len(succ.Preds) == 1 && (succ == at.Block() || succ.Dominates(at.Block())) {
				return true
			}
		}
	}
	return false
}

// c08PartOf: v is derived from parameter p by selecting a part of it (an element, a sub-slice, a prefix array).
func c08PartOf(v ssa.Value, p *ssa.Parameter) (reaches, lossy bool) {
	for i := 0; i < 16; i++ {
		v = an.Resolve(v)
		switch x := v.(type) {
		case *ssa.Parameter:
			return x == p, lossy
		case *ssa.UnOp:
			if x.Op != token.MUL {
				return false, lossy
			}
			v = x.X
		case *ssa.IndexAddr:
			lossy = true
			v = x.X
		case *ssa.Index:
			lossy = true
			v = x.X
		case *ssa.Slice:
			if x.Low != nil || x.High != nil {
				lossy = true
			}
			v = x.X
		case *ssa.SliceToArrayPointer:
			v = x.X
		case *ssa.Alloc:
			src := an.UniqueStore(x)
			if src == nil {
				return false, lossy
			}
			v = src
		default:
			return false, lossy
		}
	}
	return false, lossy
}

// c08SameSlot: index expressions a and b denote the same slot: the same value, or two reads of
// the same field of the same struct with no assignment to that field in between.
func c08SameSlot(a, b ssa.Value) bool {
	ra, rb := an.Resolve(a), an.Resolve(b)
	if ra == rb {
		return true
	}
	la, ok1 := ra.(*ssa.UnOp)
	lb, ok2 := rb.(*ssa.UnOp)
	if !ok1 || !ok2 || la.Op != token.MUL || lb.Op != token.MUL {
		return false
	}
	fa, ok1 := la.X.(*ssa.FieldAddr)
	fb, ok2 := lb.X.(*ssa.FieldAddr)
	if !ok1 || !ok2 || fa.Field != fb.Field || fa.X != fb.X || la.Parent() != lb.Parent() {
		return false
	}
	first, second := ssa.Instruction(la), ssa.Instruction(lb)
	if !an.Dominates(first, second) {
		first, second = second, first
		if !an.Dominates(first, second) {
			return false
		}
	}
	for _, in := range an.Instrs(la.Parent(), false) {
		st, ok := in.(*ssa.Store)
		if !ok {
			continue
		}
		if sf, ok := st.Addr.(*ssa.FieldAddr); ok && sf.Field == fa.Field && sf.X == fa.X {
			if an.InstrReaches(first, st) && an.InstrReaches(st, second) {
				return false
			}
		}
	}
	return true
}

type c08MemoVerdict struct {
	St  string // ok | bad | unsure
	Why string
	Pos token.Pos
	Key c08Val // the lookup key of the hit, lifted towards the anchor function
}

// c08MemoSound decides whether the value a helper serves from package state for a key is the deserialisation of
// that key.
func c08MemoSound(hit c08MemoHit) c08MemoVerdict {
	g := hit.G
	name := an.FuncName(g)
	out := func(st, why string, pos token.Pos) c08MemoVerdict {
		return c08MemoVerdict{St: st, Why: "key cache in " + name + ": " + why, Pos: pos}
	}
	pos := posOf(hit.Ret)
	var lk *ssa.Lookup
	var slotTab, ownerNeeded = "", false
	var hitSlot ssa.Value
	if l := c08LookupOf(hit.Val); l != nil {
		lk = l
	} else if ld, ok := hit.Val.(*ssa.UnOp); ok && ld.Op == token.MUL {
		ia, ok := ld.X.(*ssa.IndexAddr)
		if !ok {
			return out("unsure", "the cached value is read in a way this rule does not model", pos)
		}
		slotTab, _ = c08TableOf(ia.X)
		hitSlot = ia.Index
		lk = c08LookupOf(an.Resolve(ia.Index))
		if lk == nil {
			return out("unsure", "the slot of the cached value is not looked up in a map", pos)
		}
		ownerNeeded = true
	} else {
		return out("unsure", "the cached value is read in a way this rule does not model", pos)
	}
	idxTab, ok := c08TableOf(lk.X)
	if !ok {
		return out("unsure", "the map consulted is not package state", pos)
	}
	// the lookup key is the whole key parameter
	var keyP *ssa.Parameter
	if p, ok := an.Resolve(lk.Index).(*ssa.Parameter); ok && p.Parent() == g {
		keyP = p
	} else {
		for _, p := range g.Params {
			if reaches, lossy := c08PartOf(lk.Index, p); reaches && lossy {
				return out("bad", "the cache is keyed by a part of the key "+p.Name()+": two keys that share that part are served each other's decompressed key, so a signature is checked against another key than the one given", lk.Pos())
			}
		}
		return out("unsure", "cannot relate the cache key to a parameter", lk.Pos())
	}
	if !c08OnFound(lk, hit.Ret) {
		return out("unsure", "cannot tell that the cached value is only served when the key was found", pos)
	}
	// a hit path that compares the recorded owner of the slot with the key needs no eviction discipline
	validated := false
	if ownerNeeded {
		for _, in := range an.Instrs(g, false) {
			bin, ok := in.(*ssa.BinOp)
			if !ok || bin.Op != token.EQL {
				continue
			}
			for _, pr := range [][2]ssa.Value{{bin.X, bin.Y}, {bin.Y, bin.X}} {
				ld, ok := pr[0].(*ssa.UnOp)
				if !ok || ld.Op != token.MUL || an.Resolve(pr[1]) != ssa.Value(keyP) {
					continue
				}
				ia, ok := ld.X.(*ssa.IndexAddr)
				if !ok || !c08SameSlot(hitSlot, ia.Index) {
					continue
				}
				for _, cd := range an.CondsOn(g, bin) {
					if succ := cd.Succ(true); cd.Other == nil && len(succ.Preds) == 1 && (succ == hit.Ret.Block() || succ.Dominates(hit.Ret.Block())) {
						validated = true
					}
				}
			}
		}
	}

	// every write of the table
	deserOf := func(v ssa.Value, at ssa.Instruction) (src ssa.Value, st, why string) {
		res := c08Top(v, at, nil, "Deserialize")
		if res.St != "ok" {
			return nil, res.St, res.Why
		}
		s, full, ok := c08BytesSrc(res.P.W.Call.Args[1], res.P.F)
		if !ok || s.F != nil {
			return nil, "unsure", "cannot resolve the bytes a cached key is deserialised from"
		}
		if !full {
			return nil, "bad", "a cached key is deserialised from a part of the compressed key"
		}
		return s.V, "ok", ""
	}
	writes := 0
	for _, h := range an.PkgFuncs(g.Pkg) {
		for _, in := range an.Instrs(h, true) {
			switch x := in.(type) {
			case *ssa.MapUpdate:
				if t, ok := c08TableOf(x.Map); !ok || t != idxTab || ownerNeeded {
					continue
				}
				writes++
				src, st, why := deserOf(x.Value, x)
				if st != "ok" {
					return out(st, why, posOf(x))
				}
				if an.Resolve(x.Key) != src {
					if _, isP := an.Resolve(x.Key).(*ssa.Parameter); isP && c08IsParam(src) {
						return out("bad", "a decompressed key is stored under another key than the one it was deserialised from", posOf(x))
					}
					return out("unsure", "cannot relate the key of an insertion to the bytes the value is deserialised from", posOf(x))
				}
			case *ssa.Store:
				ia, ok := x.Addr.(*ssa.IndexAddr)
				if !ok || !ownerNeeded {
					continue
				}
				if t, ok := c08TableOf(ia.X); !ok || t != slotTab {
					continue
				}
				writes++
				src, st, why := deserOf(x.Val, x)
				if st != "ok" {
					return out(st, why, x.Pos())
				}
				if v := c08SlotWrite(h, x, ia, src, idxTab, validated); v.St != "ok" {
					return out(v.St, v.Why, v.Pos)
				}
			}
		}
	}
	if writes == 0 {
		return out("unsure", "no insertion into the table found", pos)
	}
	return c08MemoVerdict{St: "ok", Key: c08Lift(keyP, hit.F), Pos: pos}
}

// c08SlotWrite checks one write `A[slot] = Deserialize(key)` of a slot table in function h: the index map records
// key -> slot, and the index entry of the slot's previous owner is removed.
func c08SlotWrite(h *ssa.Function, st *ssa.Store, ia *ssa.IndexAddr, key ssa.Value, idxTab string, validated bool) c08MemoVerdict {
	bad := func(why string, pos token.Pos) c08MemoVerdict { return c08MemoVerdict{St: "bad", Why: why, Pos: pos} }
	unsure := func(why string, pos token.Pos) c08MemoVerdict {
		return c08MemoVerdict{St: "unsure", Why: why, Pos: pos}
	}
	isIdx := func(v ssa.Value) bool { t, ok := c08TableOf(v); return ok && t == idxTab }
	ordered := func(a, b ssa.Value, _, _ ssa.Instruction) bool { return c08SameSlot(a, b) }
	// (1) index[key] = slot
	recorded, otherSlot := false, token.NoPos
	for _, in := range an.Instrs(h, false) {
		up, ok := in.(*ssa.MapUpdate)
		if !ok || !isIdx(up.Map) || an.Resolve(up.Key) != key {
			continue
		}
		if ordered(ia.Index, up.Value, st, up) {
			recorded = true
		} else {
			otherSlot = posOf(up)
		}
	}
	if !recorded && otherSlot != token.NoPos {
		return unsure("cannot tell that the index entry of the new key names the slot that was written", otherSlot)
	}
	if !recorded {
		return bad("a slot is filled without the index recording which key it belongs to", st.Pos())
	}
	if validated {
		return c08MemoVerdict{St: "ok"}
	}
	// (2) the previous owner of the slot loses its index entry
	if _, fixed := ia.X.Type().Underlying().(*types.Pointer); !fixed {
		if _, isSlice := ia.X.Type().Underlying().(*types.Slice); !isSlice {
			return unsure("unknown kind of slot table", st.Pos())
		}
	}
	var dels []*ssa.Call
	for _, in := range an.Instrs(h, false) {
		call, ok := in.(*ssa.Call)
		if !ok {
			continue
		}
		if b, ok := call.Call.Value.(*ssa.Builtin); ok && b.Name() == "delete" && len(call.Call.Args) == 2 && isIdx(call.Call.Args[0]) {
			dels = append(dels, call)
		}
	}
	if len(dels) == 0 {
		// the index map replaced wholesale is another way to forget old owners
		for _, in := range an.Instrs(h, false) {
			if s2, ok := in.(*ssa.Store); ok && isIdx(s2.Addr) {
				return unsure("the index map is replaced instead of entries being deleted", s2.Pos())
			}
		}
		return bad("a slot is overwritten but the index entry of its previous owner is never removed: a later lookup of the evicted key is served the new occupant's decompressed key, so a signature is checked against another key than the one given", st.Pos())
	}
	for _, d := range dels {
		ld, ok := d.Call.Args[1].(*ssa.UnOp)
		if !ok || ld.Op != token.MUL {
			// a key kept in a local before the overwrite
			ld, ok = an.Resolve(d.Call.Args[1]).(*ssa.UnOp)
			if !ok || ld.Op != token.MUL {
				continue
			}
		}
		oa, ok := ld.X.(*ssa.IndexAddr)
		if !ok || !ordered(oa.Index, ia.Index, ld, st) {
			continue
		}
		ownerTab, ok := c08TableOf(oa.X)
		if !ok {
			continue
		}
		// the owner table must still hold the previous owner when it is read
		for _, in := range an.Instrs(h, false) {
			s2, ok := in.(*ssa.Store)
			if !ok {
				continue
			}
			a2, ok := s2.Addr.(*ssa.IndexAddr)
			if !ok {
				continue
			}
			if t, ok := c08TableOf(a2.X); !ok || t != ownerTab {
				continue
			}
			if ordered(a2.Index, oa.Index, s2, ld) && an.Dominates(s2, ld) {
				if an.Resolve(s2.Val) == key {
					return bad("the eviction reads the owner of the slot after the new key has been written there: it deletes the index entry of the new key (re-added right after) and leaves the evicted key's entry in place; "+
						"a later lookup of the evicted key is served the new occupant's decompressed key, so a signature is checked against another key than the one given", d.Pos())
				}
				return unsure("the owner of the slot is overwritten before the eviction reads it", d.Pos())
			}
		}
		if !(an.Dominates(d, st) || an.Dominates(st, d)) {
			return unsure("the eviction does not run on every path that overwrites the slot", d.Pos())
		}
		// the owner table is updated for the next eviction
		for _, in := range an.Instrs(h, false) {
			if s2, ok := in.(*ssa.Store); ok && an.Resolve(s2.Val) == key {
				if a2, ok := s2.Addr.(*ssa.IndexAddr); ok {
					if t, ok := c08TableOf(a2.X); ok && t == ownerTab && ordered(a2.Index, ia.Index, s2, st) {
						return c08MemoVerdict{St: "ok"}
					}
				}
			}
		}
		return bad("the owner of the overwritten slot is not recorded: the next eviction of the slot removes the wrong index entry", st.Pos())
	}
	return unsure("cannot relate the deleted index entry to the previous owner of the overwritten slot", dels[0].Pos())
}

// c08MemoReport discharges the memo hits of a public key operand whose produced value was traced to src.
func c08MemoReport(c *rt.Ctx, cons string, res c08Res, src c08Val) {
	seen := map[*ssa.Function]bool{}
	for _, hit := range res.Memo {
		if seen[hit.G] {
			continue
		}
		seen[hit.G] = true
		v := c08MemoSound(hit)
		switch {
		case v.St == "bad":
			c.Bad(cons, v.Pos, v.Why)
		case v.St == "unsure":
			c.Unsure(cons, v.Pos, v.Why)
		case !c08Same(v.Key, src):
			c.Unsure(cons, v.Pos, "key cache in "+an.FuncName(hit.G)+": cannot tell that the cache is consulted with the key that is verified against")
		default:
			c.Good(cons, v.Pos, "served from a key cache whose entries are the deserialisation of their own key")
		}
	}
}

// source fragments for the registered mutants of the memo rule (a correct slot cache, and the sites it replaces)
const (
	c08HerumiDecl   = "// Herumi is an Implementation with Herumi-specific inner logic.\ntype Herumi struct{}\n"
	c08VerifyDeser  = "\tvar pubKey bls.PublicKey\n\tif err := pubKey.Deserialize(compressedPublicKey[:]); err != nil {\n\t\treturn errors.Wrap(err, \"set compressed public key in Herumi format\")\n\t}\n"
	c08VerifyCached = "\tpubKey, err := pubkeys.get(compressedPublicKey)\n\tif err != nil {\n\t\treturn err\n\t}\n"
	c08AggDeser     = "\t\tvar pubKey bls.PublicKey\n\t\tif err := pubKey.Deserialize(share[:]); err != nil {\n\t\t\treturn errors.Wrap(err, \"set compressed public key in Herumi format\")\n\t\t}\n"
	c08CacheText    = `
const pubkeyCacheSize = 64

var pubkeys = pubkeyCache{index: make(map[PublicKey]int)}

type pubkeyCache struct {
	mu    sync.Mutex
	index map[PublicKey]int
	raws  [pubkeyCacheSize]PublicKey
	keys  [pubkeyCacheSize]bls.PublicKey
	next  int
}

func (c *pubkeyCache) get(compressed PublicKey) (bls.PublicKey, error) {
	c.mu.Lock()
	defer c.mu.Unlock()

	if slot, ok := c.index[compressed]; ok {
		return c.keys[slot], nil
	}

	var pubKey bls.PublicKey
	if err := pubKey.Deserialize(compressed[:]); err != nil {
		return bls.PublicKey{}, errors.Wrap(err, "set compressed public key in Herumi format")
	}

	delete(c.index, c.raws[c.next])
	c.raws[c.next] = compressed
	c.keys[c.next] = pubKey
	c.index[compressed] = c.next
	c.next = (c.next + 1) % pubkeyCacheSize

	return pubKey, nil
}
`
	c08PrefixMemoText = `
var (
	decompressedMu sync.Mutex
	decompressed   = make(map[[8]byte]bls.PublicKey)
)

func decompress(key PublicKey) (bls.PublicKey, error) {
	decompressedMu.Lock()
	defer decompressedMu.Unlock()

	if cached, found := decompressed[[8]byte(key[:8])]; found {
		return cached, nil
	}

	var fresh bls.PublicKey
	if err := fresh.Deserialize(key[:]); err != nil {
		return bls.PublicKey{}, errors.Wrap(err, "set compressed public key in Herumi format")
	}

	decompressed[[8]byte(key[:8])] = fresh

	return fresh, nil
}
`
)
