package rules

import (
	"go/token"
	"go/types"

	"golang.org/x/tools/go/ssa"

	"charonverif/internal/an"
	"charonverif/internal/rt"
)

// M7 — the consensus value hash is computed by the same deterministic hashProto on both sides.
// Receiver side: every insertion into a map[[32]byte]*anypb.Any of package core/consensus/qbft (found by type,
// not by function name) is keyed by hashProto(decoded), where decoded is the UnmarshalNew of the very element that
// is stored as the value. Proposer side: wherever an instance.ValueWithHash is built, its Hash is hashProto of the
// value stored in its Value field. Both provenances are followed through locals, spill slots and in-package
// wrappers (parameters replaced by the call's arguments), so `hashAny(v)` / `hashValue(value)` helpers are fine,
// while a wrapper that hashes something else (raw bytes) is reported.

func init() {
	Extend("C14", "", func(*rt.Ctx) {},
		// the raw-bytes hash hidden in an in-package helper
		Mutant{ID: "C14-M7-helper-hashes-raw-any", File: "core/consensus/qbft/qbft.go", Expect: "M7",
			Old: "\t\thash, err := hashProto(inner)\n\t\tif err != nil {\n\t\t\treturn nil, err\n\t\t}\n\n\t\tresp[hash] = v",
			New: "\t\thash, err := func(raw *anypb.Any, _ proto.Message) ([32]byte, error) { return hashProto(&pbv1.QBFTMsg{Signature: raw.GetValue()}) }(v, inner)\n\t\tif err != nil {\n\t\t\treturn nil, err\n\t\t}\n\n\t\tresp[hash] = v"},
		// proposer pairs the value with the hash of something else
		Mutant{ID: "C14-M7-proposer-hash-of-other", File: "core/consensus/qbft/qbft.go", Expect: "M7",
			Old: "\thash, err := hashProto(value)\n\tif err != nil {\n\t\treturn err\n\t}\n\n\tinst := c.getInstanceIO(duty)",
			New: "\thash, err := hashProto(core.DutyToProto(duty))\n\tif err != nil {\n\t\treturn err\n\t}\n\n\tinst := c.getInstanceIO(duty)"},
		// receiver keys the map by something that is not a hashProto result at all
		Mutant{ID: "C14-M7-receiver-raw-prefix", File: "core/consensus/qbft/qbft.go", Expect: "M7",
			Old: "\t\tresp[hash] = v\n", New: "\t\tresp[[32]byte(append(hash[:0:0], v.GetValue()...))] = v\n"})
}

type m7Bound struct {
	v   ssa.Value
	env m7Env
}
type m7Env map[*ssa.Parameter]m7Bound

// m7Subst resolves v through locals and through the parameters of inlined wrappers.
func m7Subst(v ssa.Value, env m7Env) (ssa.Value, m7Env) {
	for i := 0; i < 16; i++ {
		v = an.Resolve(v)
		p, ok := v.(*ssa.Parameter)
		if !ok {
			return v, env
		}
		b, ok := env[p]
		if !ok {
			return v, env
		}
		v, env = b.v, b.env
	}
	return v, env
}

// m7HashArg finds the hashProto call whose first result is v (through in-package wrappers) and returns its
// argument. status: 0 found, 1 unknown shape, 2 v is not a hashProto result.
func m7HashArg(hp *ssa.Function, fns []*ssa.Function, v ssa.Value, env m7Env, d int) (ssa.Value, m7Env, int) {
	if d > 5 {
		return nil, nil, 1
	}
	v, env = m7Subst(v, env)
	idx := 0
	var call *ssa.Call
	switch x := v.(type) {
	case *ssa.Extract:
		call, _ = x.Tuple.(*ssa.Call)
		idx = x.Index
	case *ssa.Call:
		call = x
	case *ssa.Phi, *ssa.Parameter:
		return nil, nil, 1
	case *ssa.UnOp:
		if _, isLocal := x.X.(*ssa.Alloc); isLocal {
			return nil, nil, 1 // a local assigned on several paths
		}
	}
	if call == nil || idx != 0 {
		return nil, nil, 2
	}
	if call.Call.StaticCallee() == hp {
		return call.Call.Args[0], env, 0
	}
	body := an.StaticBody(&call.Call)
	if body == nil && call.Call.StaticCallee() == nil {
		// a call through a function value: positively "not hashProto" only if the callee is known
		if call.Call.IsInvoke() {
			return nil, nil, 1
		}
		body = m7FuncParamBody(fns, call.Call.Value, env)
		if body == nil {
			return nil, nil, 1
		}
	}
	if body == nil {
		return nil, nil, 2
	}
	env2 := m7Env{}
	for i, p := range body.Params {
		if i < len(call.Call.Args) {
			env2[p] = m7Bound{call.Call.Args[i], env}
		}
	}
	var arg ssa.Value
	var argEnv m7Env
	cases := an.SuccessCases(body)
	if len(cases) == 0 {
		return nil, nil, 1
	}
	for i, rc := range cases {
		a, e, st := m7HashArg(hp, fns, rc.Vals[0], env2, d+1)
		if st != 0 {
			return nil, nil, st
		}
		if i > 0 {
			a0, _ := m7Subst(arg, argEnv)
			a1, _ := m7Subst(a, e)
			if !an.EquivX(a0, a1) {
				return nil, nil, 1
			}
		}
		arg, argEnv = a, e
	}
	return arg, argEnv, 0
}

// m7FuncParamBody: the function value is a func-typed parameter of its function; when every static call site of
// that function (in fns) passes the same function literal / function, that is the callee.
func m7FuncParamBody(fns []*ssa.Function, fv ssa.Value, env m7Env) *ssa.Function {
	v, _ := m7Subst(fv, env)
	p, ok := v.(*ssa.Parameter)
	if !ok {
		if fs := an.FuncValues(v); len(fs) == 1 && an.InRepo(fs[0]) {
			return fs[0]
		}
		return nil
	}
	idx := an.ParamIndex(p)
	var body *ssa.Function
	for _, g := range fns {
		for _, ci := range an.Calls(g, func(cc *ssa.CallCommon) bool { return !cc.IsInvoke() && cc.StaticCallee() == p.Parent() }, false) {
			if idx < 0 || idx >= len(ci.Common().Args) {
				return nil
			}
			fs := an.FuncValues(ci.Common().Args[idx])
			if len(fs) != 1 || !an.InRepo(fs[0]) || fs[0].Blocks == nil || (body != nil && body != fs[0]) {
				return nil
			}
			body = fs[0]
		}
	}
	return body
}

// m7Funcs: the source functions of the package plus the instances of its generic helpers that they call (the
// instance has the concrete map / element types the generic body lacks).
func m7Funcs(pkg *ssa.Package) []*ssa.Function {
	fns := an.PkgFuncs(pkg)
	seen := map[*ssa.Function]bool{}
	for _, f := range fns {
		seen[f] = true
	}
	for i := 0; i < len(fns); i++ {
		for _, in := range an.Instrs(fns[i], false) {
			ci, ok := in.(ssa.CallInstruction)
			if !ok {
				continue
			}
			g := ci.Common().StaticCallee()
			if g == nil || seen[g] || g.Blocks == nil || g.Origin() == nil || g.Origin() == g || g.Origin().Pkg != pkg {
				continue
			}
			for _, h := range an.Closure(g) {
				if !seen[h] {
					seen[h] = true
					fns = append(fns, h)
				}
			}
		}
	}
	return fns
}

func m7IsHashMap(t types.Type) bool {
	m, ok := t.Underlying().(*types.Map)
	if !ok {
		return false
	}
	arr, ok := m.Key().Underlying().(*types.Array)
	if !ok || arr.Len() != 32 {
		return false
	}
	return an.TypeName(m.Elem()) == "google.golang.org/protobuf/types/known/anypb.Any"
}

// m7ReceivedElem: v is an element of a []*anypb.Any (range element or indexed read), possibly handed to the
// inserting helper as an argument by an in-package caller.
func m7ReceivedElem(v ssa.Value, fns []*ssa.Function, d int) bool {
	v = an.Resolve(v)
	isAnySlice := func(t types.Type) bool {
		sl, ok := t.Underlying().(*types.Slice)
		return ok && an.TypeName(sl.Elem()) == "google.golang.org/protobuf/types/known/anypb.Any"
	}
	switch x := v.(type) {
	case *ssa.Extract:
		if nx, ok := x.Tuple.(*ssa.Next); ok {
			if rg, ok := nx.Iter.(*ssa.Range); ok {
				return isAnySlice(rg.X.Type())
			}
		}
	case *ssa.UnOp:
		if ia, ok := x.X.(*ssa.IndexAddr); ok && x.Op == token.MUL {
			t := ia.X.Type()
			if p, ok := t.Underlying().(*types.Pointer); ok {
				t = p.Elem()
			}
			return isAnySlice(t)
		}
	case *ssa.Index:
		return isAnySlice(x.X.Type())
	case *ssa.Parameter:
		if d > 2 {
			return false
		}
		idx := an.ParamIndex(x)
		for _, g := range fns {
			for _, ci := range an.Calls(g, func(cc *ssa.CallCommon) bool {
				f := an.StaticBody(cc)
				return f != nil && an.Orig(f) == an.Orig(x.Parent())
			}, false) {
				if idx < len(ci.Common().Args) && m7ReceivedElem(ci.Common().Args[idx], fns, d+1) {
					return true
				}
			}
		}
	}
	return false
}

// m7Pair decides "hash = hashProto(val)" for a (hash, value) pair; when the hash is a parameter of the building
// helper, the pair is decided at every in-package call site of the helper (arguments substituted for parameters).
// status: 0 holds, 1 undecided, 2 violated.
func m7Pair(hp *ssa.Function, fns []*ssa.Function, hash, val ssa.Value, env m7Env, d int) (int, string) {
	return m7PairAt(hp, fns, hash, env, val, env, d)
}

func m7PairAt(hp *ssa.Function, fns []*ssa.Function, hash ssa.Value, henv m7Env, val ssa.Value, venv m7Env, d int) (int, string) {
	if h, e := m7Subst(hash, henv); d < 3 {
		if _, ok := h.(*ssa.Parameter); ok {
			return m7PairParam(hp, fns, h, e, val, venv, d)
		}
	}
	arg, env, status := m7HashArg(hp, fns, hash, henv, 0)
	switch status {
	case 2:
		return 2, "the proposed hash is not hashProto of the proposed value"
	case 1:
		return 1, "cannot follow the provenance of the proposed hash to a hashProto call"
	}
	a, _ := m7Subst(arg, env)
	v, _ := m7Subst(val, venv)
	if an.EquivX(a, v) {
		return 0, ""
	}
	switch a.(type) {
	case *ssa.Parameter, *ssa.Call, *ssa.Extract, *ssa.Const, *ssa.MakeInterface, *ssa.Alloc:
		return 2, "the proposed hash is hashProto of another value than the one proposed"
	}
	return 1, "cannot show that the hashed message is the proposed value"
}

// m7PairParam: the hash is (still) a parameter after substitution: go to that function's call sites.
func m7PairParam(hp *ssa.Function, fns []*ssa.Function, h ssa.Value, henv m7Env, val ssa.Value, venv m7Env, d int) (int, string) {
	p := h.(*ssa.Parameter)
	fn := p.Parent()
	n, worst, why := 0, 0, ""
	for _, g := range fns {
		for _, ci := range an.Calls(g, func(cc *ssa.CallCommon) bool {
			f := an.StaticBody(cc)
			return f != nil && an.Orig(f) == an.Orig(fn)
		}, false) {
			n++
			env2 := m7Env{}
			for i, q := range fn.Params {
				if i < len(ci.Common().Args) {
					env2[q] = m7Bound{ci.Common().Args[i], nil}
				}
			}
			v2, ve := m7Subst(val, venv)
			if q, ok := v2.(*ssa.Parameter); ok && q.Parent() == fn {
				ve = env2
			}
			st, w := m7PairAt(hp, fns, p, env2, v2, ve, d+1)
			if st > worst {
				worst, why = st, w
			}
		}
	}
	if n == 0 {
		return 1, "the proposed hash is a parameter of a function without static in-package callers"
	}
	return worst, why
}

func c14M7(c *rt.Ctx) {
	c.Rule("M7", 2, func() {
		hp := c.Fn("core/consensus/qbft.hashProto")
		fns := m7Funcs(c.SSAPkg("core/consensus/qbft"))
		nRecv := 0
		for _, fn := range fns {
			for _, up := range mapUpdates(fn, func(m ssa.Value) bool { return m7IsHashMap(m.Type()) }) {
				if up.Parent() != fn || !m7ReceivedElem(up.Value, fns, 0) {
					continue // not a value taken from a received []*anypb.Any (own proposal, copy between hash maps)
				}
				nRecv++
				k := an.FuncName(fn) + " key = hashProto(decoded value)"
				arg, env, st := m7HashArg(hp, fns, up.Key, nil, 0)
				switch st {
				case 2:
					c.Bad(k, posOf(up), "the key of a received value is not the result of hashProto")
					continue
				case 1:
					c.Unsure(k, posOf(up), "cannot follow the provenance of the key of a received value to a hashProto call")
					continue
				}
				dec, denv := m7Subst(arg, env)
				var uc *ssa.Call
				switch x := dec.(type) {
				case *ssa.Extract:
					if x.Index == 0 {
						uc, _ = x.Tuple.(*ssa.Call)
					}
				case *ssa.Call:
					uc = x
				}
				if uc == nil || uc.Call.StaticCallee() == nil || uc.Call.StaticCallee().Name() != "UnmarshalNew" || len(uc.Call.Args) == 0 {
					if _, isPhi := dec.(*ssa.Phi); isPhi {
						c.Unsure(k, posOf(up), "the hashed message is a merge of several values")
						continue
					}
					c.Bad(k, posOf(up), "hashProto is applied to the wrapper/bytes as received, not to the decoded message (UnmarshalNew of the element)")
					continue
				}
				src, _ := m7Subst(uc.Call.Args[0], denv)
				val, _ := m7Subst(up.Value, nil)
				if !an.EquivX(src, val) {
					c.Unsure(k, posOf(up), "cannot show that the hashed message is the decoding of the element stored under the hash")
					continue
				}
				c.Good(k, posOf(up), "key = hashProto(UnmarshalNew(element)), value = element")
			}
		}
		if nRecv == 0 {
			c.Unsure("received values keyed by hash", token.NoPos, "no insertion into a map[[32]byte]*anypb.Any found in core/consensus/qbft")
		}
		// proposer side: Hash and Value of every instance.ValueWithHash built in the package
		nProp := 0
		for _, fn := range fns {
			for _, in := range an.Instrs(fn, false) {
				st, ok := in.(*ssa.Store)
				if !ok {
					continue
				}
				fa, ok := st.Addr.(*ssa.FieldAddr)
				if !ok || an.FieldKey(fa.X.Type(), fa.Field) != "core/consensus/instance.ValueWithHash.Hash" {
					continue
				}
				nProp++
				k := an.FuncName(fn) + " proposes hashProto(value)"
				var val ssa.Value
				for _, in2 := range an.Instrs(fn, false) {
					st2, ok := in2.(*ssa.Store)
					if !ok {
						continue
					}
					fa2, ok := st2.Addr.(*ssa.FieldAddr)
					if ok && fa2.X == fa.X && an.FieldKey(fa2.X.Type(), fa2.Field) == "core/consensus/instance.ValueWithHash.Value" {
						val = st2.Val
					}
				}
				if val == nil {
					c.Unsure(k, st.Pos(), "the Value stored next to the Hash was not found")
					continue
				}
				status, why := m7Pair(hp, fns, st.Val, val, nil, 0)
				switch status {
				case 0:
					c.Good(k, st.Pos(), "Hash = hashProto(Value)")
				case 1:
					c.Unsure(k, st.Pos(), why)
				default:
					c.Bad(k, st.Pos(), why)
				}
			}
		}
		if nProp == 0 {
			c.Unsure("propose hashProto", token.NoPos, "no instance.ValueWithHash is built in core/consensus/qbft")
		}
	})
}
