package rules

import (
	"go/token"

	"golang.org/x/tools/go/ssa"

	"charonverif/internal/an"
	"charonverif/internal/rt"
)

func c14M7(c *rt.Ctx) {
	c.Rule("M7", 2, func() {
		vbh := c.Fn("core/consensus/qbft.valuesByHash")
		hp := c.Fn("core/consensus/qbft.hashProto")
		ups := mapUpdates(vbh, func(m ssa.Value) bool { _, ok := m.(*ssa.MakeMap); return ok })
		if len(ups) == 0 {
			c.Bail("valuesByHash: no insertion into the result map")
		}
		for _, up := range ups {
			good, why := false, "the key of a received value is not the result of hashProto"
			if ex, ok := an.Unwrap(up.Key).(*ssa.Extract); ok && ex.Index == 0 {
				if hc, ok := ex.Tuple.(*ssa.Call); ok && hc.Call.StaticCallee() == hp {
					why = "hashProto is applied to the wrapper/bytes as received, not to the decoded message (UnmarshalNew of the element)"
					if ix, ok := an.Unwrap(hc.Call.Args[0]).(*ssa.Extract); ok && ix.Index == 0 {
						if uc, ok := ix.Tuple.(*ssa.Call); ok && uc.Call.StaticCallee() != nil && uc.Call.StaticCallee().Name() == "UnmarshalNew" {
							good = true
						}
					}
				}
			}
			c.Check("valuesByHash key = hashProto(decoded value)", posOf(up), good, why)
		}
		// proposer side: the hash proposed to QBFT is hashProto of the value
		found := false
		for _, fn := range an.PkgFuncs(c.SSAPkg("core/consensus/qbft")) {
			if fn.Name() != "propose" && fn.Name() != "Propose" {
				continue
			}
			for _, call := range an.Calls(fn, func(cc *ssa.CallCommon) bool { return cc.StaticCallee() == hp }, true) {
				found = true
				_, isParam := an.Resolve(call.Common().Args[0]).(*ssa.Parameter)
				c.Check(an.FuncName(fn)+" proposes hashProto(value)", call.Pos(), isParam, "the proposed hash is not hashProto of the proposed value")
			}
		}
		if !found {
			c.Unsure("propose hashProto", token.NoPos, "no hashProto call on the proposing side found")
		}
	})
}
