package rules

import (
	"fmt"
	"go/token"
	"os"
	"sort"
	"strconv"
	"strings"

	"golang.org/x/tools/go/ssa"

	"charonverif/internal/an"
)

// Path toolkit of the C13 rules. The rules are predicates over the ordered events of the paths that the
// symbolic walker (an.Tracer) enumerates through a root function, with in-package helpers, closures, bound
// methods and deferred calls stepped into. They therefore do not depend on how the code is cut into
// blocks, helpers, named booleans, switch/if chains or early returns.

// c13T is one traced root.
type c13T struct {
	root  *ssa.Function
	res   *an.TraceResult
	paths []*c13P // feasible, non-panicking paths
}

// c13P is one path with the indexes the predicates need.
type c13P struct {
	*an.Path
	def  map[string]int // key of a result symbol -> index of the call/builtin/lookup event that produced it
	memo map[*an.Sym]string
}

func c13PkgOf(f *ssa.Function) *ssa.Package {
	for g := f; g != nil; g = g.Parent() {
		if g.Pkg != nil {
			return g.Pkg
		}
	}
	if f != nil && f.Object() != nil && f.Object().Pkg() != nil {
		return f.Prog.Package(f.Object().Pkg())
	}
	return nil
}

// c13Trace enumerates the paths of root. In-package functions, literals and synthetic wrappers are stepped
// into, except the functions named in atomic (kept as single call events).
func c13Trace(root *ssa.Function, maxVisits int, atomic ...string) *c13T {
	pkg := c13PkgOf(root)
	isAtomic := map[string]bool{}
	for _, a := range atomic {
		isAtomic[a] = true
	}
	tr := &an.H13Tracer{Root: root, MaxVisits: maxVisits, MaxPaths: 60000, Inline: func(f *ssa.Function) bool {
		if isAtomic[an.FuncName(f)] && f.Synthetic == "" {
			return false
		}
		if f.Synthetic != "" && f.Parent() == nil {
			return f.Object() != nil && f.Object().Pkg() != nil && pkg != nil && f.Object().Pkg() == pkg.Pkg
		}
		return pkg != nil && c13PkgOf(f) == pkg
	}}
	t := &c13T{root: root, res: tr.Run()}
	for _, p := range t.res.Paths {
		if p.End == "panic" {
			continue
		}
		cp := &c13P{Path: p, def: map[string]int{}, memo: map[*an.Sym]string{}}
		for i, e := range p.Evs {
			if e.Res != nil && (e.Kind == "call" || e.Kind == "builtin" || e.Kind == "lookup") {
				cp.def[e.Res.Key()] = i
			}
		}
		if cp.infeasible() {
			continue
		}
		t.paths = append(t.paths, cp)
	}
	if os.Getenv("C13_TRACE") != "" {
		fmt.Printf("TRACE %s: %d paths (%d feasible) truncated=%v pruned=%d\n", an.FuncName(root), len(t.res.Paths), len(t.paths), t.res.Truncated, t.res.Pruned)
		for i, p := range t.paths {
			fmt.Printf(" path %d end=%s results=%v\n", i, p.End, c13SymKeys(p.Results))
			for j, e := range p.Evs {
				fmt.Printf("   %3d %s%s\n", j, strings.Repeat(" ", e.Depth), e.String())
			}
		}
	}
	return t
}

func c13SymKeys(ss []*an.Sym) []string {
	var out []string
	for _, s := range ss {
		out = append(out, s.Key())
	}
	return out
}

// usable: the enumeration is complete enough to base verdicts on.
func (t *c13T) usable() bool { return !t.res.Truncated && len(t.paths) > 0 }

// c13ErrCtor: constructors of app/errors that never return nil.
var c13ErrCtor = an.Static("app/errors.New", "app/errors.Wrap", "app/errors.NewSentinel", "app/errors.SkipWrap", "errors.New", "fmt.Errorf")

// nonNilErr: s is the result of an error constructor executed on the path.
func (p *c13P) nonNilErr(s *an.Sym) bool {
	if s == nil || s.Kind != an.KOpaque {
		return false
	}
	i, ok := p.def[s.Key()]
	if !ok {
		return false
	}
	ci, ok := p.Evs[i].In.(ssa.CallInstruction)
	return ok && p.Evs[i].Kind == "call" && c13ErrCtor(ci.Common())
}

// infeasible: the path assumes that an error constructor returned nil.
func (p *c13P) infeasible() bool {
	for _, e := range p.Evs {
		if e.Kind != "branch" || !e.Taken {
			continue
		}
		b := e.Args[0]
		if b.Kind != an.KBin || b.Op != token.EQL || len(b.Args) != 2 {
			continue
		}
		x, y := b.Args[0], b.Args[1]
		if (x.IsNil() && p.nonNilErr(y)) || (y.IsNil() && p.nonNilErr(x)) {
			return true
		}
	}
	return false
}

// ---------------------------------------------------------------------------------------------
// canonical keys: equality of values modulo repeated pure accessor calls and len()

func (p *c13P) ck(s *an.Sym) string {
	if s == nil {
		return "<nil>"
	}
	if k, ok := p.memo[s]; ok {
		return k
	}
	k := p.ck0(s)
	p.memo[s] = k
	return k
}

func (p *c13P) cks(ss []*an.Sym) string {
	var parts []string
	for _, a := range ss {
		parts = append(parts, p.ck(a))
	}
	return strings.Join(parts, ",")
}

func (p *c13P) ck0(s *an.Sym) string {
	switch s.Kind {
	case an.KOpaque:
		if i, ok := p.def[s.Key()]; ok && s.ID > 0 {
			e := p.Evs[i]
			switch {
			case e.Kind == "call" && e.Callee != nil && an.H13TrivPure(e.Callee):
				return "pure:" + e.Name + "(" + p.cks(e.Args) + ")"
			case e.Kind == "builtin" && (e.Name == "len" || e.Name == "cap"):
				return e.Name + "(" + p.cks(e.Args) + ")"
			}
		}
	case an.KExtract:
		return "ex(" + p.cks(s.Args) + "," + strconv.Itoa(s.Index) + ")"
	case an.KNot:
		return "!(" + p.cks(s.Args) + ")"
	case an.KBin:
		return "(" + p.ck(s.Args[0]) + " " + s.Op.String() + " " + p.ck(s.Args[1]) + ")"
	case an.KField:
		return "(" + p.cks(s.Args) + ").#" + strconv.Itoa(s.Index)
	case an.KPure:
		return s.Name + "(" + p.cks(s.Args) + ")"
	case an.KAppend:
		return "append(" + p.cks(s.Args) + ")"
	case an.KTuple:
		return "tuple(" + p.cks(s.Args) + ")"
	case an.KInit:
		if len(s.Args) == 1 {
			return "init:" + p.ck(s.Args[0])
		}
	case an.KAddr:
		switch len(s.Args) {
		case 1:
			if fa, ok := s.V.(*ssa.FieldAddr); ok {
				return "&(" + p.ck(s.Args[0]) + ").#" + strconv.Itoa(fa.Field)
			}
		case 2:
			return "&(" + p.ck(s.Args[0]) + ")[" + p.ck(s.Args[1]) + "]"
		}
	case an.KStruct:
		var idx []int
		for i := range s.Fields {
			idx = append(idx, i)
		}
		sort.Ints(idx)
		k := "struct{" + p.cks(s.Args)
		for _, i := range idx {
			k += ";" + strconv.Itoa(i) + "=" + p.ck(s.Fields[i])
		}
		return k + "}"
	}
	return s.Key()
}

func (p *c13P) same(a, b *an.Sym) bool { return a != nil && b != nil && p.ck(a) == p.ck(b) }

// mentions: the derivation of s involves a value equal to target (struct fields, operands, arguments of
// the lookups and pure calls that produced it).
func (p *c13P) mentions(s, target *an.Sym) bool {
	want := p.ck(target)
	seen := map[*an.Sym]bool{}
	var walk func(x *an.Sym, d int) bool
	walk = func(x *an.Sym, d int) bool {
		if x == nil || d > 12 || seen[x] {
			return false
		}
		seen[x] = true
		if p.ck(x) == want {
			return true
		}
		for _, a := range x.Args {
			if walk(a, d+1) {
				return true
			}
		}
		for _, f := range x.Fields {
			if walk(f, d+1) {
				return true
			}
		}
		if x.Kind == an.KOpaque {
			if i, ok := p.def[x.Key()]; ok {
				e := p.Evs[i]
				if e.Kind == "lookup" || (e.Kind == "call" && e.Callee != nil && an.H13TrivPure(e.Callee)) {
					for _, a := range e.Args {
						if walk(a, d+1) {
							return true
						}
					}
				}
			}
		}
		return false
	}
	return walk(s, 0)
}

// ---------------------------------------------------------------------------------------------
// facts decided by the branches of the path

// boolAt returns the truth of boolean symbol s as decided before event index `before`.
func (p *c13P) boolAt(s *an.Sym, before int) (truth, known bool) {
	if s == nil {
		return false, false
	}
	if v, ok := s.IsConstBool(); ok {
		return v, true
	}
	base, neg := an.H13Canon(s)
	if v, ok := base.IsConstBool(); ok {
		return v != neg, true
	}
	key := base.Key()
	for i, e := range p.Evs {
		if i >= before {
			break
		}
		if e.Kind == "branch" && e.Args[0].Key() == key {
			truth, known = e.Taken != neg, true
		}
	}
	return
}

// nilAt returns whether s is nil as decided before event index `before`.
func (p *c13P) nilAt(s *an.Sym, before int) (isNil, known bool) {
	if s == nil {
		return false, false
	}
	if s.IsNil() {
		return true, true
	}
	if p.nonNilErr(s) {
		return false, true
	}
	if c13ZeroInit(s) {
		return true, true
	}
	if s.Kind == an.KConst || s.Kind == an.KAddr || s.Kind == an.KFresh || s.Kind == an.KClosure || s.Kind == an.KFunc {
		return false, true
	}
	key := an.H13NilTest(s).Key()
	for i, e := range p.Evs {
		if i >= before {
			break
		}
		if e.Kind == "branch" && e.Args[0].Key() == key {
			isNil, known = e.Taken, true
		}
	}
	return
}

// c13ZeroInit: s is the never-written content of a variable allocated on the path (a named result, a `var x T`):
// its zero value. The walker names cells of executed allocations "alloc<n>".
func c13ZeroInit(s *an.Sym) bool {
	if s == nil || s.Kind != an.KInit || !strings.HasPrefix(s.Cell, "alloc") || len(s.Cell) < 6 {
		return false
	}
	return s.Cell[5] >= '0' && s.Cell[5] <= '9'
}

// okNil: s is known to be nil before `before`.
func (p *c13P) okNil(s *an.Sym, before int) bool {
	v, known := p.nilAt(s, before)
	return known && v
}

// ---------------------------------------------------------------------------------------------
// events

// c13Role classifies a dynamic call by the named function type of the value called ("dkg/bcast.verifyFunc",
// "dkg/bcast.Callback", ...); "" for static calls, interface calls and unnamed function types.
func c13Role(e an.Ev) string {
	if e.Kind != "call" && e.Kind != "enter" {
		return ""
	}
	ci, ok := e.In.(ssa.CallInstruction)
	if !ok {
		return ""
	}
	cc := ci.Common()
	if cc.IsInvoke() || cc.StaticCallee() != nil {
		return ""
	}
	if _, isB := cc.Value.(*ssa.Builtin); isB {
		return ""
	}
	return an.TypeName(cc.Value.Type())
}

// staticName: short name of the static callee of a call event ("" if none).
func c13StaticName(e an.Ev) string {
	if e.Kind != "call" && e.Kind != "enter" {
		return ""
	}
	ci, ok := e.In.(ssa.CallInstruction)
	if !ok {
		return ""
	}
	cc := ci.Common()
	if cc.IsInvoke() {
		return ""
	}
	if f := cc.StaticCallee(); f != nil {
		return an.FuncName(f)
	}
	return ""
}

// invokeName: method name of an interface call event ("" otherwise).
func c13InvokeName(e an.Ev) string {
	if e.Kind != "call" {
		return ""
	}
	ci, ok := e.In.(ssa.CallInstruction)
	if !ok || !ci.Common().IsInvoke() {
		return ""
	}
	return ci.Common().Method.Name()
}

// result returns result #idx of a (non-inlined) call event: the value itself for single results.
func c13Result(e an.Ev, idx int) *an.Sym {
	if e.Res == nil {
		return nil
	}
	ci, ok := e.In.(ssa.CallInstruction)
	if !ok {
		return nil
	}
	n := ci.Common().Signature().Results().Len()
	if n == 1 {
		if idx == 0 {
			return e.Res
		}
		return nil
	}
	if idx >= n {
		return nil
	}
	if e.Res.Kind == an.KTuple && idx < len(e.Res.Args) {
		return e.Res.Args[idx]
	}
	return &an.Sym{Kind: an.KExtract, Args: []*an.Sym{e.Res}, Index: idx}
}

// errResult returns the error-typed result of a call event (nil if it has none).
func c13ErrResult(e an.Ev) *an.Sym {
	ci, ok := e.In.(ssa.CallInstruction)
	if !ok {
		return nil
	}
	res := ci.Common().Signature().Results()
	for i := res.Len() - 1; i >= 0; i-- {
		if an.IsErrorType(res.At(i).Type()) {
			return c13Result(e, i)
		}
	}
	return nil
}

// passed: the error result of call event i is known nil before `before`.
func (p *c13P) passed(i, before int) bool {
	e := c13ErrResult(p.Evs[i])
	return e != nil && p.okNil(e, before)
}

// producer resolves value s to the call event that produced it and the result index (-1 if none).
func (p *c13P) producer(s *an.Sym) (ev, idx int) {
	if s == nil {
		return -1, 0
	}
	if s.Kind == an.KExtract && len(s.Args) == 1 {
		if i, ok := p.def[s.Args[0].Key()]; ok && p.Evs[i].Kind == "call" {
			return i, s.Index
		}
		return -1, 0
	}
	if i, ok := p.def[s.Key()]; ok && p.Evs[i].Kind == "call" {
		return i, 0
	}
	return -1, 0
}

// elem: s is a load of base[idx].
func c13Elem(s *an.Sym) (base, idx *an.Sym, ok bool) {
	if s == nil {
		return nil, nil, false
	}
	if s.Kind == an.KInit && len(s.Args) == 1 {
		if a := s.Args[0]; a.Kind == an.KAddr && len(a.Args) == 2 {
			return a.Args[0], a.Args[1], true
		}
	}
	if s.Kind == an.KPure && s.Name == "index" && len(s.Args) == 2 {
		return s.Args[0], s.Args[1], true
	}
	return nil, nil, false
}

// c13IsParam: s is the (unbound) parameter or free variable v of the traced root or of a lexical ancestor.
func c13IsParam(s *an.Sym, v ssa.Value) bool {
	return s != nil && s.Kind == an.KParam && s.V == v
}

// lenOf: s is len(x) evaluated on the path -> x.
func (p *c13P) lenOf(s *an.Sym) *an.Sym {
	if s == nil || s.Kind != an.KOpaque {
		return nil
	}
	i, ok := p.def[s.Key()]
	if !ok {
		return nil
	}
	if e := p.Evs[i]; e.Kind == "builtin" && e.Name == "len" && len(e.Args) == 1 {
		return e.Args[0]
	}
	return nil
}

// fieldStores returns field name -> value last stored, before event `before`, into the fields of the struct
// object that obj points to.
func (p *c13P) fieldStores(obj *an.Sym, before int) map[string]*an.Sym {
	out := map[string]*an.Sym{}
	for i, e := range p.Evs {
		if i >= before {
			break
		}
		if e.Kind != "store" || len(e.Args) != 2 {
			continue
		}
		a := e.Args[0]
		if a.Kind != an.KAddr || len(a.Args) != 1 || a.Field == "" || !an.SymEq(a.Args[0], obj) {
			continue
		}
		out[a.Field[strings.LastIndex(a.Field, ".")+1:]] = e.Args[1]
	}
	return out
}

// shortFn: last component of the name of the function containing the instruction's root.
func c13ShortName(fn *ssa.Function) string {
	name := an.FuncName(fn)
	return name[strings.LastIndex(name, ".")+1:]
}
