package rules

import (
	"go/token"
	"go/types"
	"strings"

	"golang.org/x/tools/go/ssa"

	"charonverif/internal/an"
	"charonverif/internal/rt"
)

// ---------------------------------------------------------------------------------------------
// Q4 — justification predicates are complete
//
// Every obligation is of the form "when this test fails, the predicate does not accept". It is decided by
// exploring the predicate (with its in-package helpers inlined) under the assumption that the test fails — the
// test being recognised by what it compares (resolved through locals, parameters of helpers and phis), in
// either operand order and polarity — and demanding that no return with a possibly-true verdict stays
// reachable. Early returns, `||` chains, named booleans, flag accumulation and single-exit styles all reduce
// to the same question.

func c02Q4Rule(c *rt.Ctx) {
	// (a) isJustifiedRoundChange: every accepted PREPARE was tested for type, round == pr, value == pv
	c02Q4RoundChange(c)
	// (b) isJustifiedDecided
	c02Q4Decided(c)
	// (c) isJustifiedPrePrepare
	c02Q4PrePrepare(c)
	// (d) containsJustifiedQrc
	c02Q4Qrc(c)
}

// c02BaseOpaque: leaf helpers whose calls are matched as atoms, never inlined.
func c02BaseOpaque(fn *ssa.Function) bool {
	if c02HelperKind(fn) != "" {
		return true
	}
	switch c02Strip(an.FuncName(fn)) {
	case c02P + ".uniqSource", c02P + ".flatten":
		return true
	}
	return false
}

// c02BoolResult returns the index of the (last) boolean result of fn, -1 if none.
func c02BoolResult(fn *ssa.Function) int {
	idx := -1
	res := fn.Signature.Results()
	for i := 0; i < res.Len(); i++ {
		if c02IsBool(res.At(i).Type()) {
			idx = i
		}
	}
	return idx
}

// c02Accepts runs `run` and reports the first root return whose verdict (result idx) is not definitely false.
func c02Accepts(s *c02Sim, idx int, run func()) (*ssa.Return, bool) {
	var hit *ssa.Return
	old := s.onRet
	s.onRet = func(r *ssa.Return, st *c02State) {
		if hit == nil && idx < len(r.Results) && s.verdict(r, idx, st) != c02False {
			hit = r
		}
	}
	run()
	s.onRet = old
	return hit, s.exhausted
}

// c02ZeroAtom: v says "x is the zero value" for an x satisfying isV; returns the truth of v when x IS zero.
func c02ZeroAtom(s *c02Sim, v ssa.Value, f *c02Frame, st *c02State, isV func(ssa.Value, *c02Frame, *c02State) bool) (bool, bool) {
	isZero := func(x ssa.Value) bool {
		r := s.rootOf(x, f, st)
		if c02CallOfKind(r.V, "zero") != nil {
			return true
		}
		if k, ok := r.V.(*ssa.Const); ok {
			return k.Value == nil || k.IsNil()
		}
		return false
	}
	switch x := v.(type) {
	case *ssa.Call:
		if c02CallOfKind(x, "iszero") != nil && len(x.Call.Args) == 1 && isV(x.Call.Args[0], f, st) {
			return true, true
		}
	case *ssa.BinOp:
		if x.Op != token.EQL && x.Op != token.NEQ {
			return false, false
		}
		if (isV(x.X, f, st) && isZero(x.Y)) || (isV(x.Y, f, st) && isZero(x.X)) {
			return x.Op == token.EQL, true
		}
	}
	return false, false
}

// c02ElemLoops returns the (frame, loop) pairs of the exploration whose collection satisfies isColl.
type c02FrameLoop struct {
	f *c02Frame
	l *an.Loop
}

func c02ElemLoops(s *c02Sim, isColl func(rc ssa.Value, f *c02Frame) bool) []c02FrameLoop {
	var out []c02FrameLoop
	for _, f := range s.allFrames() {
		for _, l := range an.Loops(f.fn) {
			if rc := c02RangeColl(l); rc != nil && isColl(rc, f) {
				out = append(out, c02FrameLoop{f, l})
			}
		}
	}
	return out
}

// c02ForallRejects decides "an element for which `bad` holds leads to rejection": starting at the beginning of an
// arbitrary iteration of loop fl with the atom active for that iteration only, no accepting return is reachable.
func c02ForallRejects(s *c02Sim, fl c02FrameLoop, resIdx int, atom func(v ssa.Value, f *c02Frame, st *c02State) (bool, bool)) (bool, string) {
	if ok, w := c02LoopFull(fl.l); !ok {
		return false, "?the loop form is not recognised as visiting every element: " + w
	}
	const later = 1
	s.atom = func(v ssa.Value, f *c02Frame, st *c02State) (bool, bool) {
		if st.flags&later != 0 {
			return false, false
		}
		return atom(v, f, st)
	}
	s.onInstr = nil
	s.onBlock = func(b *ssa.BasicBlock, f *c02Frame, st *c02State) c02Act {
		if b == fl.l.Header && f == fl.f {
			st.flags |= later
		}
		return c02Go
	}
	hit, exh := c02Accepts(s, resIdx, func() {
		for _, b := range c02LoopBodyEntries(fl.l) {
			s.startAt(fl.f, b, 0)
		}
	})
	s.atom, s.onBlock = nil, nil
	if exh {
		return false, c02Undecided
	}
	if hit != nil {
		return false, "an iteration that sees such an element can still end in an accepting return"
	}
	// ... and every element is looked at: while elements remain the loop is not left towards acceptance
	accepting := func(r *ssa.Return, st *c02State) bool {
		return resIdx < len(r.Results) && s.verdict(r, resIdx, st) != c02False
	}
	if ok, exh := c02ScanLeftOnlyToReject(s, fl.f, fl.l, accepting); exh {
		return false, c02Undecided
	} else if !ok {
		return false, "the loop can be left towards an accepting return before every element was looked at"
	}
	return true, ""
}

// c02ElemAccessorUses reports how the results of elem.<method>() on the elements of loop fl are used: calls is the
// number of such calls, other the number of uses that are not plain ==/!= comparisons (ordering, arithmetic,
// argument of a call, stored, merged in a phi): a test of the element the rules cannot read as a comparison.
func c02ElemAccessorUses(s *c02Sim, fl c02FrameLoop, method string) (calls, other int) {
	for _, g := range s.allFrames() {
		if !g.under(fl.f) {
			continue
		}
		for _, in := range an.Instrs(g.fn, false) {
			call, ok := in.(*ssa.Call)
			if !ok || !call.Call.IsInvoke() || call.Call.Method.Name() != method {
				continue
			}
			a := s.rootOf(call.Call.Value, g, nil)
			if a.F != fl.f || !c02ElemOf(fl.l, a.V) {
				continue
			}
			calls++
			if call.Referrers() == nil {
				continue
			}
			for _, ref := range *call.Referrers() {
				switch x := ref.(type) {
				case *ssa.DebugRef:
				case *ssa.BinOp:
					if !c02IsCmp(x.Op) {
						other++
						continue
					}
					// a direct comparison with something the rules can name (a constant, a parameter, a field of a
					// message, a result of a call) is a readable test — right or wrong; anything else is not
					y := x.Y
					if y == ssa.Value(call) {
						y = x.X
					}
					switch r := s.rootOf(y, g, nil).V.(type) {
					case *ssa.Const, *ssa.Parameter, *ssa.Extract:
					case *ssa.Call:
						if !r.Call.IsInvoke() && r.Call.StaticCallee() == nil {
							other++
						}
					default:
						other++
					}
				default:
					other++
				}
			}
		}
	}
	return
}

// c02MsgAccessorOther counts the uses of msg.<method>() (msg the given parameter of the root function) that are neither
// comparisons nor arguments of calls: arithmetic, conversions, phis — a test of the field the rules cannot read.
func c02MsgAccessorOther(s *c02Sim, method string, msg ssa.Value) int {
	other := 0
	for _, g := range s.allFrames() {
		for _, in := range an.Instrs(g.fn, false) {
			call, ok := in.(*ssa.Call)
			if !ok || !call.Call.IsInvoke() || call.Call.Method.Name() != method || call.Referrers() == nil {
				continue
			}
			if a := s.rootOf(call.Call.Value, g, nil); a.V != msg || a.F != s.root {
				continue
			}
			for _, ref := range *call.Referrers() {
				switch x := ref.(type) {
				case *ssa.DebugRef, *ssa.Store:
				case *ssa.BinOp:
					if !c02IsCmp(x.Op) {
						other++
					}
				case ssa.CallInstruction:
				default:
					other++
				}
			}
		}
	}
	return other
}

// c02GrowthGuardedBy: within one iteration of loop fl that starts with the atom's assumption, the growth instruction
// (append / increment) is not executed.
func c02GrowthGuardedBy(s *c02Sim, fl c02FrameLoop, growth ssa.Instruction, atom func(v ssa.Value, f *c02Frame, st *c02State) (bool, bool)) (bool, bool) {
	hit := false
	s.atom = atom
	s.onBlock = func(b *ssa.BasicBlock, f *c02Frame, st *c02State) c02Act {
		if b == fl.l.Header && f == fl.f {
			return c02Stop
		}
		return c02Go
	}
	s.onInstr = func(in ssa.Instruction, f *c02Frame, st *c02State) c02Act {
		if in == growth {
			hit = true
			return c02Stop
		}
		return c02Go
	}
	s.onRet = nil
	for _, b := range c02LoopBodyEntries(fl.l) {
		s.startAt(fl.f, b, 0)
	}
	s.atom, s.onBlock, s.onInstr = nil, nil, nil
	return !hit, s.exhausted
}

// c02Q4Predicate finds the predicate deciding the justification of messages of type typConst: the function of that
// name, or — when it was renamed or written inline in the dispatcher — isJustified itself explored under the standing
// assumption "msg.Type() == typConst" (the dispatch on the type is then followed into whatever it calls).
func c02Q4Predicate(c *rt.Ctx, name, typConst string) (*ssa.Function, *ssa.Parameter, func(s *c02Sim)) {
	if fn := c.FnOpt(c02P + "." + name); fn != nil {
		return fn, c02ParamOfType(c, fn, c02P+".Msg"), func(*c02Sim) {}
	}
	fn := c.Fn(c02P + ".isJustified")
	msg := c02ParamOfType(c, fn, c02P+".Msg")
	wantT := constOf(c, c02P, typConst)
	return fn, msg, func(s *c02Sim) {
		s.pre = func(v ssa.Value, f *c02Frame, st *c02State) (bool, bool) {
			bin, ok := v.(*ssa.BinOp)
			if !ok || (bin.Op != token.EQL && bin.Op != token.NEQ) {
				return false, false
			}
			x, y := bin.X, bin.Y
			if !s.msgCallOn(x, f, st, "Type", msg) {
				x, y = y, x
			}
			if !s.msgCallOn(x, f, st, "Type", msg) {
				return false, false
			}
			n, isC := an.ConstInt(s.rootOf(y, f, st).V)
			if !isC {
				return false, false
			}
			return (n == wantT) == (bin.Op == token.EQL), true
		}
	}
}

func c02Q4RoundChange(c *rt.Ctx) {
	fn, msg, assume := c02Q4Predicate(c, "isJustifiedRoundChange", "MsgRoundChange")
	prepareT := constOf(c, c02P, "MsgPrepare")
	resIdx := c02BoolResult(fn)
	if resIdx < 0 {
		c.Bail("isJustifiedRoundChange has no boolean verdict")
	}
	s := c02NewSim(fn)
	s.opaque = c02BaseOpaque
	assume(s)
	s.discover()
	if s.exhausted {
		c.Bail("isJustifiedRoundChange: " + c02Undecided)
	}
	loops := c02ElemLoops(s, func(rc ssa.Value, f *c02Frame) bool { return s.msgCallOn(rc, f, nil, "Justification", msg) })
	if len(loops) == 0 {
		c.Bail("isJustifiedRoundChange: no loop over msg.Justification() found (in the function or the helpers it calls)")
	}
	type test struct {
		name  string
		elemM string
		other func(v ssa.Value, f *c02Frame, st *c02State) bool
		what  string
	}
	tests := []test{
		{"type", "Type", func(v ssa.Value, f *c02Frame, st *c02State) bool {
			n, ok := an.ConstInt(s.rootOf(v, f, st).V)
			return ok && n == prepareT
		}, "a justification message that is not a PREPARE is accepted"},
		{"round", "Round", func(v ssa.Value, f *c02Frame, st *c02State) bool { return s.msgCallOn(v, f, st, "PreparedRound", msg) },
			"a PREPARE of a round other than the claimed prepared round is accepted"},
		{"value", "Value", func(v ssa.Value, f *c02Frame, st *c02State) bool { return s.msgCallOn(v, f, st, "PreparedValue", msg) },
			"a PREPARE for a value other than the claimed prepared value is accepted"},
	}
	for _, t := range tests {
		good, why := false, ""
		unsure := false
		for _, fl := range loops {
			matched := false
			atom := func(v ssa.Value, f *c02Frame, st *c02State) (bool, bool) {
				bin, ok := v.(*ssa.BinOp)
				if !ok || (bin.Op != token.EQL && bin.Op != token.NEQ) {
					return false, false
				}
				x, y := bin.X, bin.Y
				recv, ok := s.msgCall(x, f, st, t.elemM)
				if !ok || !t.other(y, f, st) {
					x, y = y, x
					recv, ok = s.msgCall(x, f, st, t.elemM)
					if !ok || !t.other(y, f, st) {
						return false, false
					}
				}
				if recv.F != fl.f || !c02ElemOf(fl.l, recv.V) {
					return false, false
				}
				matched = true
				return bin.Op == token.NEQ, true // the element does NOT match
			}
			ok, w := c02ForallRejects(s, fl, resIdx, atom)
			if ok {
				good = true
				break
			}
			if w == c02Undecided || strings.HasPrefix(w, "?") {
				unsure = true
				w = strings.TrimPrefix(w, "?")
			}
			if !matched {
				w = "no such test of the loop element"
			}
			why = w
		}
		key := "isJustifiedRoundChange every PREPARE tested for " + t.name
		if !good && why == "no such test of the loop element" {
			// nothing recognisable: is the element's property looked at in a way the rule cannot read?
			for _, fl := range loops {
				if _, other := c02ElemAccessorUses(s, fl, t.elemM); other > 0 {
					unsure = true
					why = "the loop uses elem." + t.elemM + "() in a way the rule does not recognise as a comparison with the claimed prepared " + t.name
				}
			}
		}
		if !good && unsure {
			c.Unsure(key, fn.Pos(), why)
			continue
		}
		c.Check(key, fn.Pos(), good, t.what+": "+why)
	}
}

// c02FilterSpecVF is a filterMsgs call with its criteria, each with the frame it is to be read in.
type c02FilterSpecVF struct {
	msgs, typ, round c02VF
	value, pr, pv    *c02VF // nil when the criterion is absent
}

// filterSpec resolves v to the filterMsgs criteria it was computed with, through wrappers.
func (s *c02Sim) filterSpec(v ssa.Value, f *c02Frame, depth int) (c02FilterSpecVF, bool) {
	var none c02FilterSpecVF
	if depth > 3 {
		return none, false
	}
	r := s.rootOf(v, f, nil)
	call, ok := r.V.(*ssa.Call)
	if !ok || call.Call.IsInvoke() || call.Call.StaticCallee() == nil {
		return none, false
	}
	g := an.Orig(call.Call.StaticCallee())
	ptr := func(p ssa.Value, fr *c02Frame) (*c02VF, bool) {
		q := s.rootOf(p, fr, nil)
		if an.IsNilConst(q.V) {
			return nil, true
		}
		if al, ok := q.V.(*ssa.Alloc); ok {
			if src := an.UniqueStore(al); src != nil {
				x := s.rootOf(src, q.F, nil)
				return &x, true
			}
			n := 0
			for _, ref := range *al.Referrers() {
				if _, ok := ref.(*ssa.Store); ok {
					n++
				}
			}
			if n == 0 {
				return &c02VF{ssa.NewConst(nil, al.Type().(*types.Pointer).Elem()), q.F}, true
			}
		}
		return nil, false
	}
	if c02HelperKind(g) == "filter" {
		a := call.Call.Args
		if len(a) != 6 {
			return none, false
		}
		sp := c02FilterSpecVF{msgs: s.rootOf(a[0], r.F, nil), typ: s.rootOf(a[1], r.F, nil), round: s.rootOf(a[2], r.F, nil)}
		var ok1, ok2, ok3 bool
		sp.value, ok1 = ptr(a[3], r.F)
		sp.pr, ok2 = ptr(a[4], r.F)
		sp.pv, ok3 = ptr(a[5], r.F)
		return sp, ok1 && ok2 && ok3
	}
	if g.Pkg != s.pkg || g.Blocks == nil {
		return none, false
	}
	rets := an.Returns(g)
	if len(rets) != 1 {
		return none, false
	}
	idx := 0
	if len(rets[0].Results) != 1 {
		return none, false
	}
	nf := s.frameFor(r.F, call, g, nil, nil)
	return s.filterSpec(rets[0].Results[idx], nf, depth+1)
}

func c02Q4Decided(c *rt.Ctx) {
	fn, msg, assume := c02Q4Predicate(c, "isJustifiedDecided", "MsgDecided")
	commitT := constOf(c, c02P, "MsgCommit")
	resIdx := c02BoolResult(fn)
	if resIdx < 0 {
		c.Bail("isJustifiedDecided has no boolean verdict")
	}
	s := c02NewSim(fn)
	s.opaque = c02BaseOpaque
	assume(s)
	s.discover()
	if s.exhausted {
		c.Bail("isJustifiedDecided: " + c02Undecided)
	}
	if hit, _ := c02Accepts(s, resIdx, s.start); hit == nil {
		c.Bail("isJustifiedDecided never accepts")
	}
	// quorum comparisons in the predicate and its helpers
	type qc struct {
		bin         *ssa.BinOp
		f           *c02Frame
		argF        *c02Frame // frame the counted operand lives in
		arg         ssa.Value // counted list (nil: a counter)
		count       ssa.Value
		trueReached bool
	}
	var cmps []qc
	for _, f := range s.allFrames() {
		for _, in := range an.Instrs(f.fn, false) {
			bin, ok := in.(*ssa.BinOp)
			if !ok || !c02IsCmp(bin.Op) {
				continue
			}
			count, k, op, isT := c02QuorumCmp(bin)
			if !isT {
				continue
			}
			if k != "quorum" || (op != token.GEQ && op != token.LSS) {
				continue
			}
			// the count may have been handed to a helper that only compares (`hasQuorum(d, len(commits))`)
			cr := s.rootOf(an.Resolve(count), f, nil)
			count = an.Resolve(cr.V)
			arg := c02LenArg(count)
			cmps = append(cmps, qc{bin, f, cr.F, arg, count, op == token.GEQ})
		}
	}
	var gate *qc
	for i := range cmps {
		q := cmps[i]
		s.atom = func(v ssa.Value, f *c02Frame, st *c02State) (bool, bool) {
			if v == ssa.Value(q.bin) && f == q.f {
				return !q.trueReached, true
			}
			return false, false
		}
		hit, exh := c02Accepts(s, resIdx, s.start)
		s.atom = nil
		if exh {
			c.Unsure("isJustifiedDecided verdict", fn.Pos(), c02Undecided)
			return
		}
		if hit == nil {
			gate = &cmps[i]
			break
		}
	}
	if gate == nil {
		c.Bad("isJustifiedDecided verdict", fn.Pos(), "an accepting return does not depend on len(filterMsgs(...)) >= Quorum()")
		return
	}
	pos := posOf(gate.bin)
	var spec c02FilterSpecVF
	ok := false
	if gate.arg != nil {
		spec, ok = s.filterSpec(gate.arg, gate.argF, 0)
	}
	if !ok {
		c02Q4DecidedManual(c, s, fn, msg, commitT, gate.argF, gate.arg, gate.count, pos)
		return
	}
	c.Good("isJustifiedDecided verdict", pos, "no accepting return when len(filterMsgs(...)) < Quorum()")
	c.Check("isJustifiedDecided counts the message's own justification", pos, s.msgCallOn(spec.msgs.V, spec.msgs.F, nil, "Justification", msg), "the counted list is not msg.Justification()")
	n, isC := an.ConstInt(spec.typ.V)
	c.Check("isJustifiedDecided counts COMMITs", pos, isC && n == commitT, "the counted messages are not filtered by type COMMIT")
	c.Check("isJustifiedDecided filters by the message's round", pos, s.msgCallOn(spec.round.V, spec.round.F, nil, "Round", msg), "COMMITs are not filtered by msg.Round()")
	c.Check("isJustifiedDecided filters by the message's value", pos, spec.value != nil && s.msgCallOn(spec.value.V, spec.value.F, nil, "Value", msg) && spec.pr == nil && spec.pv == nil,
		"COMMITs are not filtered by msg.Value(): commits for different values add up to a quorum")
}

// c02Q4DecidedManual handles a quorum counted by hand (a counter or a list grown in a loop over the justification):
// the growth must be unreachable in an iteration whose element is not a COMMIT / not of the message's round / not for
// the message's value.
func c02Q4DecidedManual(c *rt.Ctx, s *c02Sim, fn *ssa.Function, msg *ssa.Parameter, commitT int64, gf *c02Frame, arg, count ssa.Value, pos token.Pos) {
	unsure := func(why string) {
		c.Unsure("isJustifiedDecided verdict", pos, "the verdict depends on a quorum comparison whose counted collection is neither a recognisable filterMsgs call nor a hand-written filter the rule can read: "+why)
	}
	acc := count
	if arg != nil {
		acc = an.Resolve(arg)
	}
	phi, ok := acc.(*ssa.Phi)
	if !ok || gf != s.root {
		unsure("the count is not accumulated in the predicate itself")
		return
	}
	web, inputs := c02PhiWeb(phi)
	var growths []ssa.Instruction
	for _, in := range inputs {
		if an.IsNilConst(in) {
			continue
		}
		if n, isC := an.ConstInt(in); isC && n == 0 {
			continue
		}
		switch x := in.(type) {
		case *ssa.BinOp:
			b1, ok1 := x.X.(*ssa.Phi)
			b2, ok2 := x.Y.(*ssa.Phi)
			if x.Op == token.ADD && ((ok1 && web[b1]) || (ok2 && web[b2])) {
				growths = append(growths, x)
				continue
			}
		case *ssa.Call:
			if b, isB := x.Call.Value.(*ssa.Builtin); isB && b.Name() == "append" {
				if base, ok := x.Call.Args[0].(*ssa.Phi); ok && web[base] {
					growths = append(growths, x)
					continue
				}
			}
		}
		unsure("the count receives a value that is neither its start value nor a growth of itself")
		return
	}
	if len(growths) == 0 {
		unsure("no growth of the count found")
		return
	}
	type crit struct {
		key, method, bad string
		other            func(v ssa.Value, f *c02Frame, st *c02State) bool
	}
	crits := []crit{
		{"isJustifiedDecided counts COMMITs", "Type", "the counted messages are not filtered by type COMMIT", func(v ssa.Value, f *c02Frame, st *c02State) bool {
			n, ok := an.ConstInt(s.rootOf(v, f, st).V)
			return ok && n == commitT
		}},
		{"isJustifiedDecided filters by the message's round", "Round", "COMMITs are not filtered by msg.Round()", func(v ssa.Value, f *c02Frame, st *c02State) bool {
			return s.msgCallOn(v, f, st, "Round", msg)
		}},
		{"isJustifiedDecided filters by the message's value", "Value", "COMMITs are not filtered by msg.Value(): commits for different values add up to a quorum", func(v ssa.Value, f *c02Frame, st *c02State) bool {
			return s.msgCallOn(v, f, st, "Value", msg)
		}},
	}
	own := true
	res := make([]bool, len(crits))
	for i := range res {
		res[i] = true
	}
	for _, g := range growths {
		l := an.InnermostLoop(fn, g.Block())
		if l == nil {
			unsure("the count grows outside a loop")
			return
		}
		fl := c02FrameLoop{s.root, l}
		if rc := c02RangeColl(l); rc == nil || !s.msgCallOn(rc, s.root, nil, "Justification", msg) {
			own = false
		}
		if ok, _ := c02LoopFull(l); !ok {
			own = false
		}
		for i, cr := range crits {
			matched := false
			atom := func(v ssa.Value, f *c02Frame, st *c02State) (bool, bool) {
				bin, ok := v.(*ssa.BinOp)
				if !ok || (bin.Op != token.EQL && bin.Op != token.NEQ) {
					return false, false
				}
				x, y := bin.X, bin.Y
				recv, ok := s.msgCall(x, f, st, cr.method)
				if !ok || !cr.other(y, f, st) {
					x, y = y, x
					recv, ok = s.msgCall(x, f, st, cr.method)
					if !ok || !cr.other(y, f, st) {
						return false, false
					}
				}
				if recv.F != fl.f || !c02ElemOf(fl.l, recv.V) {
					return false, false
				}
				matched = true
				return bin.Op == token.NEQ, true
			}
			guarded, exh := c02GrowthGuardedBy(s, fl, g, atom)
			if exh {
				unsure(c02Undecided)
				return
			}
			if !guarded || !matched {
				res[i] = false
			}
		}
	}
	c.Good("isJustifiedDecided verdict", pos, "no accepting return when the hand-counted quorum is not reached")
	c.Check("isJustifiedDecided counts the message's own justification", pos, own, "the count does not grow in a complete loop over msg.Justification()")
	for i, cr := range crits {
		c.Check(cr.key, pos, res[i], cr.bad)
	}
}

func c02Q4PrePrepare(c *rt.Ctx) {
	fn := c.Fn(c02P + ".isJustifiedPrePrepare")
	msg := c02ParamOfType(c, fn, c02P+".Msg")
	resIdx := c02BoolResult(fn)
	if resIdx < 0 {
		c.Bail("isJustifiedPrePrepare has no boolean verdict")
	}
	if len(fn.Params) != 4 {
		c.Bail("isJustifiedPrePrepare: unexpected signature")
	}
	instP, cfrP := fn.Params[1], fn.Params[3]
	s := c02NewSim(fn)
	s.opaque = func(g *ssa.Function) bool {
		return c02BaseOpaque(g) || c02Strip(an.FuncName(g)) == c02P+".containsJustifiedQrc"
	}
	s.discover()
	if s.exhausted {
		c.Bail("isJustifiedPrePrepare: " + c02Undecided)
	}
	if hit, _ := c02Accepts(s, resIdx, s.start); hit == nil {
		c.Bail("isJustifiedPrePrepare never accepts")
	}
	pos := fn.Pos()
	verdict := func(key, bad string, atom func(v ssa.Value, f *c02Frame, st *c02State) (bool, bool), accessors ...string) {
		s.atom = atom
		hit, exh := c02Accepts(s, resIdx, s.start)
		s.atom = nil
		// a test the rule cannot read (the message's field is fed into arithmetic, a conversion, a phi ...) is not a missing test
		unread := ""
		for _, m := range accessors {
			if hit != nil && c02MsgAccessorOther(s, m, msg) > 0 {
				unread = "msg." + m + "() is used in a way the rule does not recognise as one of the expected comparisons"
			}
		}
		switch {
		case exh:
			c.Unsure(key, pos, c02Undecided)
		case hit != nil && unread != "":
			c.Unsure(key, posOf(hit), unread)
		case hit != nil:
			c.Bad(key, posOf(hit), bad)
		default:
			c.Good(key, pos, "no accepting return under the failing test")
		}
	}
	// leader
	nLeader := 0
	leader := func(v ssa.Value, f *c02Frame, st *c02State) (bool, bool) {
		call, ok := v.(*ssa.Call)
		if !ok || c02Callee(&call.Call) != "field:"+c02P+".Definition.IsLeader" {
			return false, false
		}
		a := call.Call.Args
		if len(a) == 3 && s.isRootValue(a[0], f, st, instP) && s.msgCallOn(a[1], f, st, "Round", msg) && s.msgCallOn(a[2], f, st, "Source", msg) {
			nLeader++
			return false, true
		}
		return false, false
	}
	verdict("isJustifiedPrePrepare leader test before accepting",
		"a pre-prepare from a process that is not the round's leader is accepted: no IsLeader(instance, msg.Round(), msg.Source()) result cuts every accepting return off", leader)
	// non-zero value
	isMsgValue := func(v ssa.Value, f *c02Frame, st *c02State) bool { return s.msgCallOn(v, f, st, "Value", msg) }
	verdict("isJustifiedPrePrepare non-zero value before accepting",
		"a pre-prepare with the zero value is accepted: the zero-value outcome can still reach an accepting return",
		func(v ssa.Value, f *c02Frame, st *c02State) (bool, bool) { return c02ZeroAtom(s, v, f, st, isMsgValue) }, "Value")
	// round justification
	roundNeq := func(v ssa.Value, f *c02Frame, st *c02State) (bool, bool) {
		bin, ok := v.(*ssa.BinOp)
		if !ok || (bin.Op != token.EQL && bin.Op != token.NEQ) {
			return false, false
		}
		x, y := bin.X, bin.Y
		// msg.Round()-1 == compareFailureRound is the same test as msg.Round() == compareFailureRound+1
		isRoundMinus1 := func(v ssa.Value) bool {
			r := s.rootOf(v, f, st)
			sub, ok := r.V.(*ssa.BinOp)
			if !ok || sub.Op != token.SUB {
				return false
			}
			n, isC := an.ConstInt(sub.Y)
			return isC && n == 1 && s.msgCallOn(sub.X, r.F, st, "Round", msg)
		}
		if (isRoundMinus1(x) && s.isRootValue(y, f, st, cfrP)) || (isRoundMinus1(y) && s.isRootValue(x, f, st, cfrP)) {
			return bin.Op == token.NEQ, true
		}
		if !s.msgCallOn(x, f, st, "Round", msg) {
			x, y = y, x
		}
		if !s.msgCallOn(x, f, st, "Round", msg) {
			return false, false
		}
		r := s.rootOf(y, f, st)
		okY := false
		if n, isC := an.ConstInt(r.V); isC && n == 1 {
			okY = true
		}
		if add, isB := r.V.(*ssa.BinOp); isB && add.Op == token.ADD {
			if n, isC := an.ConstInt(add.Y); isC && n == 1 && s.isRootValue(add.X, r.F, st, cfrP) {
				okY = true
			}
			if n, isC := an.ConstInt(add.X); isC && n == 1 && s.isRootValue(add.Y, r.F, st, cfrP) {
				okY = true
			}
		}
		if !okY {
			return false, false
		}
		return bin.Op == token.NEQ, true // the round is neither 1 nor compareFailureRound+1
	}
	isQrcCall := func(x ssa.Value, f *c02Frame, st *c02State) bool {
		call := c02Static(x, "containsJustifiedQrc")
		if call == nil {
			return false
		}
		a := call.Call.Args
		return len(a) == 3 && s.msgCallOn(a[1], f, st, "Justification", msg) && s.msgCallOn(a[2], f, st, "Round", msg)
	}
	qrcOK := func(v ssa.Value, f *c02Frame, st *c02State) (bool, bool) {
		ex, ok := v.(*ssa.Extract)
		if !ok || ex.Index != 1 || !isQrcCall(ex.Tuple, f, st) {
			return false, false
		}
		return false, true
	}
	// the ROUND-CHANGE quorum test may have been written inline in the predicate (no containsJustifiedQrc call, but a
	// comparison against Quorum() in the code explored): the rule cannot name its verdict, which is not a missing test
	{
		n, inline := 0, false
		for _, f := range s.allFrames() {
			for _, in := range an.Instrs(f.fn, false) {
				if call, ok := in.(*ssa.Call); ok && isQrcCall(call, f, nil) {
					n++
				}
				if bin, ok := in.(*ssa.BinOp); ok && c02IsCmp(bin.Op) {
					if _, k, _, isT := c02QuorumCmp(bin); isT && k == "quorum" {
						inline = true
					}
				}
			}
		}
		if n == 0 && inline {
			why := "no containsJustifiedQrc(d, msg.Justification(), msg.Round()) call found; a quorum comparison is made in the predicate itself (algorithm 4:1 written inline), whose outcome the rule cannot name"
			c.Unsure("isJustifiedPrePrepare round justification", pos, why)
			c.Unsure("isJustifiedPrePrepare proposes the justified prepared value", pos, why)
			return
		}
	}
	verdict("isJustifiedPrePrepare round justification",
		"an accepting return is reachable without round == 1, round == compareFailureRound+1 or a justified quorum of ROUND-CHANGEs",
		func(v ssa.Value, f *c02Frame, st *c02State) (bool, bool) {
			if t, ok := roundNeq(v, f, st); ok {
				return t, ok
			}
			return qrcOK(v, f, st)
		}, "Round")
	// accepted through the ROUND-CHANGE quorum: the value proposed is the justified prepared value (or that is null)
	nQrc := 0
	for _, f := range s.allFrames() {
		for _, in := range an.Instrs(f.fn, false) {
			if call, ok := in.(*ssa.Call); ok && isQrcCall(call, f, nil) {
				nQrc++
			}
		}
	}
	key := "isJustifiedPrePrepare proposes the justified prepared value"
	if nQrc == 0 {
		c.Unsure(key, pos, "no containsJustifiedQrc(d, msg.Justification(), msg.Round()) call found")
		return
	}
	isPv := func(v ssa.Value, f *c02Frame, st *c02State) bool {
		r := s.rootOf(v, f, st)
		ex, ok := r.V.(*ssa.Extract)
		return ok && ex.Index == 0 && isQrcCall(ex.Tuple, r.F, st)
	}
	verdict(key, "a pre-prepare justified by ROUND-CHANGEs is accepted although its value is not the prepared value of the justification (and that value is not null)",
		func(v ssa.Value, f *c02Frame, st *c02State) (bool, bool) {
			if t, ok := roundNeq(v, f, st); ok {
				return t, ok
			}
			if t, ok := c02ZeroAtom(s, v, f, st, isPv); ok {
				return !t, true // pv is not null
			}
			if bin, ok := v.(*ssa.BinOp); ok && (bin.Op == token.EQL || bin.Op == token.NEQ) {
				if (isMsgValue(bin.X, f, st) && isPv(bin.Y, f, st)) || (isMsgValue(bin.Y, f, st) && isPv(bin.X, f, st)) {
					return bin.Op == token.NEQ, true // the proposed value differs
				}
			}
			return false, false
		}, "Round", "Value")
	_ = nLeader
}

func c02Q4Qrc(c *rt.Ctx) {
	fn := c.Fn(c02P + ".containsJustifiedQrc")
	if len(fn.Params) != 3 {
		c.Bail("containsJustifiedQrc: unexpected signature")
	}
	resIdx := c02BoolResult(fn)
	if resIdx < 0 {
		c.Bail("containsJustifiedQrc has no boolean verdict")
	}
	rcT := constOf(c, c02P, "MsgRoundChange")
	s := c02NewSim(fn)
	s.opaque = func(g *ssa.Function) bool {
		return c02BaseOpaque(g) || c02Strip(an.FuncName(g)) == c02P+".getSingleJustifiedPrPv"
	}
	s.inlineAll = true // helpers that report through an enum or a value instead of a boolean are followed too
	s.discover()
	if s.exhausted {
		c.Bail("containsJustifiedQrc: " + c02Undecided)
	}
	var prCall *ssa.Call
	var prF *c02Frame
	for _, f := range s.allFrames() {
		for _, in := range an.Instrs(f.fn, false) {
			if call, ok := in.(*ssa.Call); ok && c02Static(call, "getSingleJustifiedPrPv") != nil {
				if prCall != nil {
					c.Bail("containsJustifiedQrc: several getSingleJustifiedPrPv calls")
				}
				prCall, prF = call, f
			}
		}
	}
	if prCall == nil {
		c.Bail("containsJustifiedQrc: getSingleJustifiedPrPv call not found")
	}
	isRes := func(v ssa.Value, f *c02Frame, st *c02State, idx int) bool {
		r := s.rootOf(v, f, st)
		ex, ok := r.V.(*ssa.Extract)
		return ok && ex.Tuple == ssa.Value(prCall) && ex.Index == idx && r.F == prF
	}
	// the prepares quorum is extracted from the same justification
	c.Check("containsJustifiedQrc prepared quorum from the same justification", prCall.Pos(),
		len(prCall.Call.Args) == 2 && s.isRootValue(prCall.Call.Args[1], prF, nil, fn.Params[1]),
		"the justified (pr,pv) is not computed from the justification being checked")
	// loops over the ROUND-CHANGE list of the justification
	loops := c02ElemLoops(s, func(rc ssa.Value, f *c02Frame) bool {
		sp, ok := s.filterSpec(rc, f, 0)
		if !ok {
			return false
		}
		n, isC := an.ConstInt(sp.typ.V)
		return isC && n == rcT && sp.msgs.V == ssa.Value(fn.Params[1]) && sp.msgs.F == s.root && sp.round.V == ssa.Value(fn.Params[2]) && sp.round.F == s.root &&
			sp.value == nil && sp.pr == nil && sp.pv == nil
	})
	key := "containsJustifiedQrc rejects higher prepared round"
	if len(loops) == 0 {
		c.Unsure(key, fn.Pos(), "no loop over filterRoundChange(justification, round) found")
	} else {
		good, why, unsure := false, "", false
		for _, fl := range loops {
			matched := false
			atom := func(v ssa.Value, f *c02Frame, st *c02State) (bool, bool) {
				bin, ok := v.(*ssa.BinOp)
				if !ok {
					return false, false
				}
				x, y, op := bin.X, bin.Y, bin.Op
				recv, ok := s.msgCall(x, f, st, "PreparedRound")
				if !ok || !isRes(y, f, st, 0) {
					x, y, op = y, x, c02Flip(op)
					recv, ok = s.msgCall(x, f, st, "PreparedRound")
					if !ok || !isRes(y, f, st, 0) {
						return false, false
					}
				}
				if recv.F != fl.f || !c02ElemOf(fl.l, recv.V) {
					return false, false
				}
				switch op {
				case token.GTR:
					matched = true
					return true, true
				case token.LEQ:
					matched = true
					return false, true
				}
				return false, false
			}
			ok, w := c02ForallRejects(s, fl, resIdx, atom)
			if ok {
				good = true
				break
			}
			if w == c02Undecided || strings.HasPrefix(w, "?") {
				unsure = true
				w = strings.TrimPrefix(w, "?")
			}
			if !matched {
				if why == "" {
					why = "no test `rc.PreparedRound() > pr` over the ROUND-CHANGE quorum"
				}
				continue
			}
			why = w
		}
		if !good && strings.HasPrefix(why, "no test") {
			for _, fl := range loops {
				if _, other := c02ElemAccessorUses(s, fl, "PreparedRound"); other > 0 {
					unsure = true
					why = "the loops over the ROUND-CHANGE quorum use rc.PreparedRound() in a way the rule does not recognise as `rc.PreparedRound() > pr`"
				}
			}
		}
		if !good && unsure {
			c.Unsure(key, fn.Pos(), why)
		} else {
			c.Check(key, fn.Pos(), good, "a ROUND-CHANGE quorum containing a higher prepared round than the justified one is accepted: "+why)
		}
	}
	// after the prepared quorum was computed: the value returned with ok is its pv, and its ok gates acceptance
	badVal := (*ssa.Return)(nil)
	nAcc := 0
	s.onRet = func(r *ssa.Return, st *c02State) {
		if resIdx >= len(r.Results) || s.verdict(r, resIdx, st) == c02False {
			return
		}
		nAcc++
		if !isRes(r.Results[0], s.root, st, 1) {
			badVal = r
		}
	}
	s.startAfter(prF, prCall, 0)
	s.onRet = nil
	if nAcc == 0 {
		c.Bail("containsJustifiedQrc: no accepting return after getSingleJustifiedPrPv")
	}
	if s.exhausted {
		c.Unsure("containsJustifiedQrc returns the justified value", prCall.Pos(), c02Undecided)
	} else if badVal != nil {
		c.Bad("containsJustifiedQrc returns the justified value", posOf(badVal), "the value returned with ok is not the pv of the prepared quorum")
	} else {
		c.Good("containsJustifiedQrc returns the justified value", prCall.Pos(), "")
	}
	s.atom = func(v ssa.Value, f *c02Frame, st *c02State) (bool, bool) {
		if ex, ok := v.(*ssa.Extract); ok && ex.Tuple == ssa.Value(prCall) && ex.Index == 2 && f == prF {
			return false, true
		}
		return false, false
	}
	hit, exh := c02Accepts(s, resIdx, func() { s.startAfter(prF, prCall, 0) })
	s.atom = nil
	if exh {
		c.Unsure("containsJustifiedQrc prepared quorum checked", prCall.Pos(), c02Undecided)
	} else if hit != nil {
		c.Bad("containsJustifiedQrc prepared quorum checked", posOf(hit), "the ok result of getSingleJustifiedPrPv does not gate acceptance")
	} else {
		c.Good("containsJustifiedQrc prepared quorum checked", prCall.Pos(), "")
	}
}
